import GateryModel.C05.ModelX
/-!
Driver for C05: reads the harness protocol on stdin. For every case it parses the program into the model's AST,
runs the frontend model (`build`) once, and for every input valuation the harness simulated computes
(a) `run` — the sequential interpreter (the specification) and (b) `outputs` = `evalNodes ∘ build` (the model of the code).
`PROPFAIL` = implementation ≠ `run` (the property fails on a concrete program + input),
`OBS`      = counted observation that is not a C05 verdict (design.postprocess() threw),
`DIFF`     = implementation ≠ model (correspondence broken).
-/
open Gatery.C05

structure Tok where
  t : Array String
  i : Nat := 0

def Tok.next (k : Tok) : String × Tok := (k.t.getD k.i "", { k with i := k.i + 1 })

def parseTy (s : String) : Ty := if s == "b" then .bit else .uint (s.drop 1).toString.toNat!

/-- bits are printed MSB first -/
def parseBits (s : String) : Option Val :=
  if s.toList.all (fun c => c == '0' || c == '1') then some (s.toList.reverse.map (· == '1')) else none

def showBits (v : Val) : String := if v.isEmpty then "-" else String.ofList (v.reverse.map fun b => if b then '1' else '0')

def parseInt (s : String) : Int := if s.startsWith "-" then -((s.drop 1).toString.toNat! : Int) else (s.toNat! : Int)

def parseSel (s : String) : Option Sel :=
  match s.splitOn ":" with
  | ["s", a, b] => some (.slice a.toNat! b.toNat!)
  | ["i", a] => some (.bit a.toNat!)
  | ["db", a] => some (.dynBit a.toNat!)
  | ["dp", a, b] => some (.dynPart a.toNat! b.toNat!)
  | ["ds", a, b] => some (.dynSlice a.toNat! b.toNat!)
  -- q:<form>:<a>:<b>   Selection::All() / From(a) / Range(a,b) / RangeIncl(a,b) / Slice(a,b) / Symbol(a, b_b)
  | ["q", "A", _, _] => some (.sel .all)
  | ["q", "F", a, _] => some (.sel (.from (parseInt a)))
  | ["q", "R", a, b] => some (.sel (.range (parseInt a) (parseInt b)))
  | ["q", "I", a, b] => some (.sel (.rangeIncl (parseInt a) (parseInt b)))
  | ["q", "L", a, b] => some (.sel (.slice a.toNat! b.toNat!))
  | ["q", "Y", a, b] => some (.sel (.symbol (parseInt a) b.toNat!))
  | _ => none

def parsePath (k : Tok) : Option (List Sel × Tok) := do
  let (n, k) := k.next
  let mut k := k
  let mut p : List Sel := []
  for _ in [0:n.toNat!] do
    let (s, k') := k.next
    k := k'
    p := p ++ [← parseSel s]
  some (p, k)

def parseOp (s : String) : Option Op2 :=
  match s with
  | "&" => some .and | "|" => some .or | "^" => some .xor | "+" => some .add | "-" => some .sub
  | "==" => some .eq | "!=" => some .ne | "<" => some .lt | _ => none

partial def parseExpr (k : Tok) : Option (Expr × Tok) := do
  let (h, k) := k.next
  match h with
  | "k" =>
    let (ty, k) := k.next
    let (b, k) := k.next
    some (.const (parseTy ty) (← parseBits b), k)
  | "r" =>
    let (x, k) := k.next
    let (p, k) ← parsePath k
    some (.read x.toNat! p, k)
  | "n" =>
    let (a, k) ← parseExpr k
    some (.op1 .not a, k)
  | "o" =>
    let (o, k) := k.next
    let (a, k) ← parseExpr k
    let (b, k) ← parseExpr k
    some (.op2 (← parseOp o) a b, k)
  | _ => none

inductive PStmt where
  | decl (ty : Ty) (e : Expr)
  | dflt (ty : Ty) (d : Val)
  | assign (x : Nat) (p : List Sel) (e : Expr)
  | ifS (c : Expr) (body : List PStmt)
  | elseS (body : List PStmt)
  | elseifS (c : Expr) (body : List PStmt)
  | elseIf2 (c : Expr) (body : List PStmt)
  | ist (s : IStmt)
  | enif (c : Expr) (body : List PStmt)
  deriving Inhabited

instance : Inhabited Prog := ⟨.done⟩

partial def toProg : List PStmt → Prog
  | [] => .done
  | .decl ty e :: r => .decl ty e (toProg r)
  | .dflt ty d :: r => .declDefault ty d (toProg r)
  | .assign x p e :: r => .assign x p e (toProg r)
  | .ifS c b :: r => .ifS c (toProg b) (toProg r)
  | .elseS b :: r => .elseS (toProg b) (toProg r)
  | .elseifS c b :: r => .elseifS c (toProg b) (toProg r)
  | .elseIf2 c b :: r => .elseIf2 c (toProg b) (toProg r)
  | .ist s :: r => .istmt s (toProg r)
  | .enif c b :: r => .enif c (toProg b) (toProg r)

partial def hasI : List PStmt → Bool
  | [] => false
  | .ist _ :: _ => true
  | .enif _ _ :: _ => true
  | .ifS _ b :: r | .elseS b :: r | .elseifS _ b :: r | .elseIf2 _ b :: r => hasI b || hasI r
  | _ :: r => hasI r

def selName : Sel → String
  | .slice .. => "w:slice" | .bit _ => "w:bit" | .dynBit _ => "w:dynBit" | .dynPart .. => "w:dynPart" | .dynSlice .. => "w:dynSlice"
  | .sel .all => "w:sel:All" | .sel (.from _) => "w:sel:From" | .sel (.range ..) => "w:sel:Range" | .sel (.rangeIncl ..) => "w:sel:RangeIncl"
  | .sel (.slice ..) => "w:sel:Slice" | .sel (.symbol ..) => "w:sel:Symbol"

def parseKind (s : String) : Option IKind :=
  match s with | "u" | "z" => some .u0 | "s" => some .s | "o" => some .u1 | _ => none


def toks (line : String) : Tok := { t := ((line.trimAscii.toString.splitOn " ").filter (· ≠ "")).toArray }

structure Hist where
  h : List (String × Nat) := []

def Hist.bump (h : Hist) (k : String) (n : Nat := 1) : Hist :=
  let rec go : List (String × Nat) → List (String × Nat)
    | [] => [(k, n)]
    | (a, m) :: t => if a == k then (a, m + n) :: t else (a, m) :: go t
  ⟨go h.h⟩

def Hist.json (h : Hist) : String := "{" ++ ",".intercalate (h.h.map fun (k, n) => s!"\"{k}\":{n}") ++ "}"

/-- read statements up to the closing `}` / `endprog`; returns the statements and the statement histogram -/
partial def parseStmts (h : IO.FS.Stream) (hist : Hist) (depth : Nat) : IO (Option (List PStmt) × Hist) := do
  let mut out : Array PStmt := #[]
  let mut hist := hist
  let mut ok := true
  let mut prevCond : Option Nat := none
  let mut arms : Option Nat := none     -- ELSEIF / ELSE IF arms of the chain that is open at this level
  repeat
    let line ← h.getLine
    if line.isEmpty then break
    let k := toks line
    let (hd, k) := k.next
    if hd == "}" || hd == "endprog" then
      if let some n := arms then hist := hist.bump s!"chain:{n}-arms"
      break
    -- else-chain shapes: number of ELSEIF / ELSE IF arms, with or without a final ELSE
    if hd == "EI" || hd == "E2" then arms := arms.map (· + 1)
    else if hd == "EL" then
      if let some n := arms then hist := hist.bump s!"chain:{n}-arms+else"
      arms := none
    else
      if let some n := arms then hist := hist.bump s!"chain:{n}-arms"
      arms := if hd == "IF" then some 0 else none
    hist := hist.bump hd |>.bump s!"depth{depth}"
    if hd != "IF" && hd != "EI" && hd != "E2" then prevCond := none
    if hd == "RG" || hd == "MW" then hist := hist.bump s!"clocked-at-depth{depth}"
    match hd with
    | "D" =>
      let (ty, k) := k.next
      match parseExpr k with
      | some (e, _) => out := out.push (.decl (parseTy ty) e)
      | none => ok := false
    | "IL" =>      -- IL <u|s> <int>        UInt x = lit / SInt x{lit}
      let (kd, k) := k.next
      let (v, _) := k.next
      match parseKind kd with
      | some kd => out := out.push (.ist (.declLit kd (parseInt v)))
      | none => ok := false
    | "IX" =>      -- IX <z|o> <expr>       UInt x = zext(e) / oext(e)
      let (kd, k) := k.next
      match parseKind kd, parseExpr k with
      | some kd, some (e, _) => out := out.push (.ist (.declExt kd e))
      | _, _ => ok := false
    | "IC" => let (y, _) := k.next; out := out.push (.ist (.declCopy y.toNat!))
    | "IA" => let (x, k) := k.next; let (v, _) := k.next; out := out.push (.ist (.assignLit x.toNat! (parseInt v)))
    | "IV" => let (x, k) := k.next; let (y, _) := k.next; out := out.push (.ist (.assignVar x.toNat! y.toNat!))
    | "CM" =>      -- CM <op> <x> <y>       Bit t = (x op y)
      let (o, k) := k.next
      let (x, k) := k.next
      let (y, _) := k.next
      match parseOp o with
      | some o => out := out.push (.ist (.declCmp o x.toNat! y.toNat!))
      | none => ok := false
    | "FA" =>      -- FA <x> <bit>          x = BitDefault(bit);   (x exists already)
      let (x, k) := k.next
      let (b, _) := k.next
      match parseBits b with
      | some v => out := out.push (.ist (.dfltAssign x.toNat! v))
      | none => ok := false
    | "RN" =>      -- RN <x> <expr>         x.resetNode(); x = e;
      let (x, k) := k.next
      match parseExpr k with
      | some (e, _) => out := out.push (.ist (.resetAssign x.toNat! e))
      | none => ok := false
    | "RG" =>      -- RG <expr>             auto t = reg(e);
      match parseExpr k with
      | some (e, _) => out := out.push (.ist (.reg e))
      | none => ok := false
    | "MW" =>      -- MW <addr expr> <data expr>     Memory<UInt> mem(2^aw, w_b); mem[addr] = d;
      match parseExpr k with
      | some (a, k) =>
        match parseExpr k with
        | some (dd, _) => out := out.push (.ist (.memW a dd))
        | none => ok := false
      | none => ok := false
    | "EN" =>      -- EN <expr> … }         ENIF (c) { … }
      match parseExpr k with
      | some (c, _) =>
        let (b, hist') ← parseStmts h hist (depth + 1)
        hist := hist'
        match b with
        | some b => out := out.push (.enif c b)
        | none => ok := false
      | none => ok := false
    | "F" =>
      let (ty, k) := k.next
      let (b, _) := k.next
      match parseBits b with
      | some v => out := out.push (.dflt (parseTy ty) v)
      | none => ok := false
    | "A" =>
      let (x, k) := k.next
      match parsePath k with
      | some (p, k) =>
        let (_, k) := k.next
        for s in p do
          hist := hist.bump (selName s)
        if p.isEmpty then hist := hist.bump "w:whole"
        if p.length ≥ 2 then hist := hist.bump "w:nested"
        match parseExpr k with
        | some (e, _) => out := out.push (.assign x.toNat! p e)
        | none => ok := false
      | none => ok := false
    | "IF" | "EI" | "E2" =>
      match parseExpr k with
      | some (c, _) =>
        -- conditions that are a plain signal, and chains that test the very same signal again (same node port)
        match c with
        | .read x [] =>
          hist := hist.bump "cond:signal"
          if hd != "IF" && prevCond == some x then hist := hist.bump s!"{hd}:same-signal-as-previous"
          prevCond := some x
        | _ => prevCond := none
        let (b, hist') ← parseStmts h hist (depth + 1)
        hist := hist'
        match b with
        | some b => out := out.push (if hd == "IF" then .ifS c b else if hd == "EI" then .elseifS c b else .elseIf2 c b)
        | none => ok := false
      | none => ok := false
    | "EL" =>
      let (b, hist') ← parseStmts h hist (depth + 1)
      hist := hist'
      match b with
      | some b => out := out.push (.elseS b)
      | none => ok := false
    | _ => ok := false
  return (if ok then some out.toList else none, hist)

/-- per node: is it a multiplexer whose selector is beyond its inputs under `ρ`? -/
def oorFlags (ρ : List Val) (ns : Nodes) : Array Bool :=
  let vs := evalNodes ρ ns
  ns.map fun n => match n with
    | .mux s ins => decide (natOfBits (vs.getD s []) ≥ ins.length)
    | _ => false

def locOf (msg : String) : String :=
  match msg.splitOn "Location: " with
  | [_, l] => ((l.splitOn "/").getLast?.getD l)
  | _ => "?"

/-- per node: does its model value depend on a multiplexer whose selector is beyond its inputs under `ρ`?
    (the simulator yields "undefined" there and propagates it with its own dominance rules; the two-valued model cannot follow) -/
def taint (ρ : List Val) (ns : Nodes) : Array Bool :=
  let vs := evalNodes ρ ns
  ns.foldl (fun (tv : Array Bool) n =>
    let g (i : Nat) : Bool := tv.getD i false
    tv.push (match n with
      | .input _ | .const _ => false
      | .sig a | .not a | .op1 _ a | .dflt a | .pad a _ _ => g a
      | .and a b | .or a b | .op2 _ a b => g a || g b
      | .rewire ins _ => ins.any g
      | .mux s ins =>
          g s || (match ins[natOfBits (vs.getD s [])]? with
                  | some j => g j
                  | none => true))) #[]

structure D where
  undefSkipped : Nat := 0  -- outputs not compared with the model: implementation undefined and the netlist has an out-of-range multiplexer
  cases : Nat := 0
  vals : Nat := 0          -- valuations compared
  diffs : Nat := 0
  propfails : Nat := 0
  oor : Nat := 0           -- valuations skipped: an executed dynamic index is out of range
  rejected : Nat := 0      -- programs both the frontend and the model reject
  obsPostThrew : Nat := 0         -- observations: design.postprocess() threw
  obsPostThrewInRange : Nat := 0  -- … although every dynamic selection was in range under every simulated valuation
  nodes : Nat := 0
  ops : Nat := 0           -- node evaluations + interpreter runs
  hist : Hist := {}

structure Case where
  id : String := ""
  ins : List Ty := []
  prog : Option Prog := none
  built : Option XState := none
  marked : Bool := false       -- case line carries `malformed`
  useX : Bool := false         -- the program has integer-literal statements: `runX` / `buildX`; otherwise the proven `run` / `build`
  text : Array String := #[]
  reported : Bool := false     -- at most one DIFF and one PROPFAIL line per case
  reportedP : Bool := false
  postcrash : Option String := none
  okVals : Nat := 0            -- valuations the interpreter accepts
  oorVals : Nat := 0           -- valuations with an executed out-of-range index
  anyOor : Bool := false       -- some multiplexer saw an out-of-range selector under some simulated valuation

def splitBar (ts : List String) : List (List String) :=
  ts.foldr (fun t acc => if t == "|" then [] :: acc else match acc with | a :: r => (t :: a) :: r | [] => [[t]]) [[]]

partial def loop (h : IO.FS.Stream) (d : D) (c : Case) : IO D := do
  let line ← h.getLine
  if line.isEmpty then return d
  let k := toks line
  let (hd, k1) := k.next
  match hd with
  | "case" =>
    let (id, k2) := k1.next
    -- `case <id> alias`: the program contains the generator's alias-cache pattern (dynamic selections sharing index / width / option count)
    let marks := k2.t.toList.drop k2.i
    let d := if marks.contains "alias" then { d with hist := d.hist.bump "pattern:alias-cache-key" } else d
    -- `intlit`: width-less variables (integer literals / zext / oext) with wider / narrower / equal re-assignments
    -- `macros`: the harness executed the program through the real IF / ELSE / ELSEIF macros; `chains`: else-chain pattern seed
    let d := if marks.contains "macros" then { d with hist := d.hist.bump "exec:real-macros" } else { d with hist := d.hist.bump "exec:hand-expanded-scopes" }
    let d := if marks.contains "chains" then { d with hist := d.hist.bump "pattern:else-chains" } else d
    let d := if marks.contains "enable" then { d with hist := d.hist.bump "pattern:enable-scopes" } else d
    let d := if marks.contains "intlit" then { d with hist := d.hist.bump "pattern:integer-literal-variables" } else d
    loop h { d with cases := d.cases + 1 } { id := id, marked := marks.contains "malformed" }
  | "ins" =>
    let ins := (k.t.toList.drop 1).map parseTy
    let (ss, hist) ← parseStmts h d.hist 0
    let prog := ss.map toProg
    let useX := (ss.map hasI).getD false
    -- programs of the core fragment go through the functions the theorems are about
    let built := prog.bind fun p => if useX then buildX p (initX ins) else (build p (initState ins)).map fun B => { core := B, ivars := [] }
    let mut d := { d with hist := hist }
    if let some X := built then
      d := { d with nodes := d.nodes + X.core.nodes.size }
      -- which expansion policies the padding nodes of width-less variables used (conditional width increment, narrower operands)
      for n in X.core.nodes do
        match n with
        | .pad _ _ .zero => d := { d with hist := d.hist.bump "pad:zero" }
        | .pad _ _ .one => d := { d with hist := d.hist.bump "pad:one" }
        | .pad _ _ .sign => d := { d with hist := d.hist.bump "pad:sign" }
        | _ => pure ()
    if prog.isNone then
      IO.println s!"DIFF case={c.id} what=unparsed-program"
      d := { d with diffs := d.diffs + 1 }
    loop h d { c with ins := ins, prog := prog, built := built, useX := useX }
  | "ex" =>
    -- the frontend threw: the model must reject the program, too
    let mut d := d
    if c.built.isSome then
      IO.println s!"DIFF case={c.id} what=frontend-threw-model-accepts msg={k1.t.getD 1 ""}"
      d := { d with diffs := d.diffs + 1 }
      -- if the sequential interpreter runs the program (all-zero inputs) it is a program of the class that cannot be built at all:
      -- a concrete failing input for the property, too
      let ρ0 := c.ins.map fun ty => List.replicate ty.width false
      let runs := match c.prog with
        | some p => if c.useX then (runX p ⟨ρ0, [], []⟩ true none).isSome else (run p ρ0 none).isSome
        | none => false
      if runs then
        IO.println s!"PROPFAIL case={c.id} sig=frontend-rejects-program-of-the-class stage=build inputs=[all zero] msg=[{k1.t.getD 1 ""}]"
        d := { d with propfails := d.propfails + 1 }
    else if c.marked then d := { d with rejected := d.rejected + 1 }
    else
      -- both sides reject a program the generator did not break on purpose: a generator slip (wrong variable index / type) would
      -- otherwise hide behind the malformed stream
      IO.println s!"DIFF case={c.id} what=frontend-and-model-reject-a-program-not-marked-malformed msg={k1.t.getD 1 ""}"
      d := { d with diffs := d.diffs + 1 }
    loop h d { c with reported := true }
  | "crash" =>
    IO.println s!"DIFF case={c.id} what=harness-crash msg={" ".intercalate (k.t.toList.drop 1)}"
    loop h { d with diffs := d.diffs + 1 } c
  | "postcrash" =>
    loop h d { c with postcrash := some (" ".intercalate (k.t.toList.drop 1)) }
  | "end" =>
    match c.postcrash with
    | some msg =>
      -- An exception thrown by design.postprocess() is not a C05 violation (C05 is about the frontend's sequential semantics;
      -- what post-processing preserves is C01's business and a throw is not a wrong value): counted observation.
      -- `inrange` = every dynamic selection of the design stayed in range under every simulated valuation (so the throw cannot be
      -- blamed on a constant out-of-range index, which makes the optimiser assert by design).
      let inrange := c.okVals > 0 && !c.anyOor
      IO.println s!"OBS case={c.id} what=postprocess-threw loc={locOf msg} all-selections-in-range={inrange} msg=[{msg}]"
      loop h { d with obsPostThrew := d.obsPostThrew + 1, obsPostThrewInRange := d.obsPostThrewInRange + (if inrange then 1 else 0) } {}
    | none => loop h d {}
  | "nout" =>
    let mut d := d
    if c.built.isNone && c.prog.isSome then
      IO.println s!"DIFF case={c.id} what=model-rejects-frontend-accepts"
      d := { d with diffs := d.diffs + 1 }
    loop h d c
  | "v" =>
    match c.prog, c.built with
    | some p, some X =>
      let B := X.core
      match splitBar (k.t.toList.drop 1) with
      | [ins, pre0, post0] =>
        -- `<core outputs> ; <integer variables>` (the second part only for programs with integer-literal variables)
        -- `<core outputs> ; <integer variables> ; <enable inputs of reg / memory write statements>` (2nd and 3rd part only for extended programs)
        let splitSemi (l : List String) : List String × List String × List String :=
          let (a, r) := l.span (· != ";")
          let (b, r2) := (r.drop 1).span (· != ";")
          (a, b, r2.drop 1)
        let (pre, preI, preO) := splitSemi pre0
        let (post, postI, postO) := splitSemi post0
        let ρ? := ins.mapM parseBits
        match ρ? with
        | none => loop h d c
        | some ρ =>
          let c := { c with anyOor := c.anyOor || (oorFlags ρ B.nodes).any id }
          let spec : Option RS := if c.useX then runX p ⟨ρ, [], []⟩ true none else (run p ρ none).map fun e => ⟨e, [], []⟩
          let nTop := if pre == ["-"] then post.length else pre.length
          match spec with
          | none => loop h { d with oor := d.oor + 1 } { c with oorVals := c.oorVals + 1 }
          | some rs =>
            let env := rs.env
            let ienv := rs.ienv
            let specO := rs.obs.map fun b => if b then "1" else "0"
            let modelO := (outputsObs ρ X).map fun b => if b then "1" else "0"
            let model := (outputs ρ B).map showBits
            let modelI := (outputsI ρ X).map fun kv => showBits kv.2
            let specS := env.map showBits
            let specI := ienv.map fun kv => toString (ival kv.1 kv.2)
            let nI := if pre == ["-"] then postI.length else preI.length
            -- an implementation value of an integer variable agrees with the interpreter if it stands for the same integer
            let intOk (impl : List String) : Bool :=
              impl.length == nI && ((impl.zip (ienv.take nI)).all fun (s, kv) =>
                match parseBits s with
                | some b => ival kv.1 b == ival kv.1 kv.2
                | none => false)
            let mut d := { d with vals := d.vals + 1, ops := d.ops + B.nodes.size + 1 }
            let mut c := { c with okVals := c.okVals + 1 }
            let inS := " ".intercalate ins
            for (tag, impl, implI, implO) in [("pre", pre, preI, preO), ("post", post, postI, postO)] do
              if impl == ["-"] then continue
              if (impl != specS.take nTop || !intOk implI || implO != specO) && !c.reportedP then
                -- classification for the replay file: postprocess() changed a value the un-postprocessed circuit had right
                -- / no pre-simulation available (Node_Default) while the model agrees with the interpreter / the frontend itself
                let preOk := pre != ["-"] && pre == specS.take nTop && intOk preI && preO == specO
                let sig := if tag == "post" && preOk then "postprocess-changed-value"
                           else if tag == "post" && pre == ["-"] && model.take nTop == specS.take nTop && intOk (modelI.take nI) && modelO == specO then "not-sequential-no-pre-simulation"  -- frontend or postprocess(): cannot be told apart without a pre-simulation
                           else "frontend-not-sequential"
                IO.println s!"PROPFAIL case={c.id} sig={sig} stage={tag} inputs=[{inS}] sequential=[{" ".intercalate specS} ; {" ".intercalate specI} ; {" ".intercalate specO}] impl=[{" ".intercalate impl} ; {" ".intercalate implI} ; {" ".intercalate implO}]"
                d := { d with propfails := d.propfails + 1 }
                c := { c with reportedP := true }
              -- outputs whose model value depends on an out-of-range multiplexer are not compared with the model
              let tv := taint ρ B.nodes
              let tainted := (B.sigs.take nTop).map fun s => tv.getD s.driver false
              let taintedI := (X.ivars.take nI).map fun s => tv.getD s.driver false
              let hit := tainted.any id || taintedI.any id
              let taintedO := X.obs.map fun p => tv.getD p false
              let same := impl.length == nTop && implI.length == nI && implO.length == modelO.length &&
                ((implO.zip modelO).zip taintedO).all (fun ((a, b), tnt) => tnt || a == b) &&
                ((impl.zip (model.take nTop)).zip tainted).all (fun ((a, b), tnt) => tnt || a == b) &&
                ((implI.zip (modelI.take nI)).zip taintedI).all (fun ((a, b), tnt) => tnt || a == b)
              if hit then d := { d with undefSkipped := d.undefSkipped + 1 }
              if !same && !c.reported then
                IO.println s!"DIFF case={c.id} stage={tag} inputs=[{inS}] model=[{" ".intercalate model} ; {" ".intercalate modelI} ; {" ".intercalate modelO}] impl=[{" ".intercalate impl} ; {" ".intercalate implI} ; {" ".intercalate implO}]"
                d := { d with diffs := d.diffs + 1 }
                c := { c with reported := true }
            loop h d c
      | _ => loop h d c
    | _, _ => loop h d c
  | _ => loop h d c

def main : IO Unit := do
  let d ← loop (← IO.getStdin) {} {}
  IO.println s!"SUMMARY \{\"cases\":{d.cases},\"valuations\":{d.vals},\"ops\":{d.ops},\"diffs\":{d.diffs},\"propfails\":{d.propfails},\"oor_skipped\":{d.oor},\"rejected\":{d.rejected},\"obs_postprocess_threw\":{d.obsPostThrew},\"obs_postprocess_threw_all_in_range\":{d.obsPostThrewInRange},\"undef_skipped\":{d.undefSkipped},\"nodes\":{d.nodes},\"hist\":{d.hist.json}}"
