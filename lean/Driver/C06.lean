import Std
import GateryModel.C06.Model
/-!
Driver for C06. Per case the harness prints the recipe, the stage count every balance group reports, a structural dump of the
post-processed register graph of the hinted design (`hn`) and of the reference twin (`tn`), the stimulus and the per-cycle
outputs of the hinted design (`h`), of the twin (`t`) and, for class `autonomous`, of the lag twin (`l`).

PROPFAIL = the hinted design differs from the reference twin in a cycle in which the property demands equality
           (every cycle; class `feedforward`: from the cycle the pipeline has filled).
           Nothing the implementation reports widens what is accepted: the lag twin (`l`) is built with the lag derived from the recipe
           (hints behind the combining step) and the measured register count is only compared with it; the reset-edge behaviour is accepted
           only in class `resetedge` and only if the hinted design equals, in every cycle, the prediction design (`p`) built from the recipe.
DIFF     = the model's `latency` (GateryModel/C06/Model.lean, applied to the unfolded dump) disagrees with the stage count the
           group reports / with the twin's latency, or the real code rejected a design of a shape it is documented to handle.
-/
open Gatery.C06

structure GNode where
  kind : String   -- pi / po / reg / op
  idx : Nat := 0
  ins : List Nat := []

structure OutInfo where
  step : Nat := 0
  dep : Nat := 0
  ffd : Nat := 0
  ureg : Nat := 0
  deriving Inhabited

structure Case where
  id : String := ""
  cls : String := ""
  reset : String := ""
  rmix : String := ""
  enPins : List Nat := []
  nIns : Nat := 0
  groups : Array (List Nat) := #[]     -- pins per group
  unreset : Bool := false
  hints : Nat := 0
  outs : Array OutInfo := #[]
  stages : Array Nat := #[]
  err : Option String := none
  latches : Nat := 0
  enRegs : List String := []    -- class enablelogic: anchored registers / write ports with grouped enable logic inside a retimed area
  memRegs : List String := []   -- memory class: (reset value, enable) combination of every backward-retimed register
  hn : Std.HashMap Nat GNode := {}
  tn : Std.HashMap Nat GNode := {}
  stim : Array (Array String) := #[]
  h : Array (Array String) := #[]
  t : Array (Array String) := #[]
  l : Array (Array String) := #[]
  p : Array (Array String) := #[]       -- class resetedge: explicit-register design predicted from the recipe and the twin's power-on value
  mayReject : Bool := false   -- memory class: registers behind a read port with nested / different enables: a refusal is "rejected, not judged"
  lagsMeasured : String := "-"
  lagsDerived : String := "-"

structure Stats where
  cases : Nat := 0
  ops : Nat := 0
  diffs : Nat := 0
  propfails : Nat := 0
  errors : Nat := 0
  latChecks : Nat := 0
  latSkipped : Nat := 0
  latAny : Nat := 0
  stallCycles : Nat := 0
  cycles : Nat := 0
  latchCases : Nat := 0
  lagChecked : Nat := 0
  lagVisible : Nat := 0      -- autonomous cases in which the official twin differs (finding)
  resetEdgeCases : Nat := 0  -- class resetedge: cases that differ from the twin exactly as the prediction design says (known finding)
  rejectedNotJudged : Nat := 0
  mixedEnableAccepted : Nat := 0
  predChecked : Nat := 0     -- class resetedge: designs compared cycle by cycle with the prediction design
  lagStructChecked : Nat := 0 -- counters whose measured register count was compared with the recipe-derived lag
  hints : Nat := 0
  undefRefined : Nat := 0
  cls : Std.HashMap String Nat := {}
  nHist : Std.HashMap String Nat := {}
  resetHist : Std.HashMap String Nat := {}
  memRegHist : Std.HashMap String Nat := {}
  enRegHist : Std.HashMap String Nat := {}
  enLowAfterReset : Nat := 0   -- cases in which an enable / stall input is low in the cycles directly after reset (cycles 0 and 1)

def kvOf (toks : List String) (key : String) : String :=
  match toks.find? (fun t => t.startsWith (key ++ "=")) with
  | some t => (t.drop (key.length + 1)).toString
  | none => ""

def bump (m : Std.HashMap String Nat) (k : String) (n : Nat := 1) : Std.HashMap String Nat := m.insert k (m.getD k 0 + n)

/-- unfold the dumped graph below node `id` into a register tree; pins of the group become `inp`, every other source
(other pins, constants, state loops) `const`; `budget` bounds the size of the unfolding -/
partial def unfold (g : Std.HashMap Nat GNode) (isGrp : Nat → Bool) (stack : List Nat) (id : Nat) : StateM Nat (Option (Ckt Nat Unit)) := do
  let b ← get
  if b == 0 then return none
  set (b - 1)
  if stack.contains id then return some (.const ())
  match g.get? id with
  | none => return some (.const ())
  | some n =>
    if n.kind == "pi" then return some (if isGrp n.idx then .inp n.idx else .const ())
    let mut kids : List (Ckt Nat Unit) := []
    for i in n.ins do
      match ← unfold g isGrp (id :: stack) i with
      | none => return none
      | some c => kids := kids ++ [c]
    let body : Ckt Nat Unit := match kids with
      | [] => .const ()
      | [a] => .op1 (fun _ => ()) a
      | a :: rest => rest.foldl (fun acc c => .op2 (fun _ _ => ()) acc c) a
    return some (if n.kind == "reg" then .reg () body else body)

def latencyOf (g : Std.HashMap Nat GNode) (isGrp : Nat → Bool) (outIdx : Nat) : Option Lat :=
  match g.toList.find? (fun (_, n) => n.kind == "po" && n.idx == outIdx) with
  | none => some .any
  | some (id, _) =>
    match (unfold g isGrp [] id).run 400000 with
    | (some c, _) => some c.latency
    | (none, _) => none

def parseGNode (toks : List String) : Option (Nat × GNode) :=
  match toks with
  | id :: "pi" :: k :: _ => some (id.toNat!, { kind := "pi", idx := k.toNat! })
  | id :: "po" :: k :: ins => some (id.toNat!, { kind := "po", idx := k.toNat!, ins := ins.map String.toNat! })
  | id :: "reg" :: ins => some (id.toNat!, { kind := "reg", ins := ins.map String.toNat! })
  | id :: "op" :: ins => some (id.toNat!, { kind := "op", ins := ins.map String.toNat! })
  | _ => none

def maxOver (l : List Nat) : Nat := l.foldl max 0

/-- four-state comparison: the hinted design must show every bit the twin defines (an undefined bit of the twin stands for
either value, e.g. after an undefined enable, where a register is more pessimistic than the multiplexer of a holding circuit) -/
def refines (hinted twin : String) : Bool :=
  hinted.length == twin.length && (hinted.toList.zip twin.toList).all fun (a, b) => b == 'x' || a == b

def finishCase (c : Case) (st0 : Stats) : IO Stats := do
  let rkey := c.reset ++ "/" ++ c.rmix
  let mut st := st0
  st := { st with cases := st.cases + 1 }
  st := { st with cls := (bump st.cls c.cls) }
  st := { st with resetHist := (bump st.resetHist rkey) }
  st := { st with hints := st.hints + c.hints }
  let fail (kind msg : String) : IO Unit := IO.println s!"{kind} case={c.id} cls={c.cls} {msg}"
  if c.mayReject && c.err.isNone then st := { st with mixedEnableAccepted := st.mixedEnableAccepted + 1 }
  if let some e := c.err then
    if c.mayReject && (e.splitOn "phase=hinted").length > 1 then
      -- the library refuses to retime registers with nested / different enables into one read port: nothing to compare
      return { st with rejectedNotJudged := st.rejectedNotJudged + 1 }
    fail "DIFF" s!"what=exception msg={e}"
    -- also a concrete failing input: the library rejects a design of a documented shape, so the hinted design has no behaviour to compare
    fail "PROPFAIL" s!"what=design-rejected msg={e}"
    return { st with diffs := st.diffs + 1, errors := st.errors + 1, propfails := st.propfails + 1 }
  for n in c.stages do st := { st with nHist := bump st.nHist s!"N{n}" }
  for k in c.memRegs do st := { st with memRegHist := bump st.memRegHist k }
  for k in c.enRegs do st := { st with enRegHist := bump st.enRegHist k }
  if c.stim.size >= 2 && c.enPins.any (fun p => (c.stim[0]!).getD p "1" == "0" && (c.stim[1]!).getD p "1" == "0") then
    st := { st with enLowAfterReset := st.enLowAfterReset + 1 }
  if c.latches > 0 then st := { st with latchCases := st.latchCases + 1 }
  -- groups an output depends on (bit mask); designs without a group use pseudo group 0 = all data pins
  let pinsOf (g : Nat) : List Nat :=
    if c.groups.size == 0 then (List.range c.nIns).filter (fun p => !c.enPins.contains p) else c.groups.getD g []
  let nOf (g : Nat) : Nat := c.stages.getD g 0
  let ngrp := if c.groups.size == 0 then 1 else c.groups.size
  -- ---- DIFF: latency of the dumped register graphs ------------------------------------------------------------------
  -- holding circuits (a register parallel to a combinational path, by construction) are outside the graph-level latency model;
  -- they are covered by the stream-level theorem `retime_forward_split`
  if c.latches > 0 then st := { st with latSkipped := st.latSkipped + 1 }
  if c.cls != "memory" && c.latches == 0 then
    for j in [0:c.outs.size] do
      let o := c.outs[j]!
      for g in [0:ngrp] do
        if (o.dep >>> g) % 2 == 1 then
          let isGrp := fun p => (pinsOf g).contains p
          match latencyOf c.hn isGrp j, latencyOf c.tn isGrp j with
          | some lh, some lt =>
            st := { st with latChecks := st.latChecks + 1 }
            if lh == .any then st := { st with latAny := st.latAny + 1 }
            if lh != lt && lh != .any && lt != .any then
              fail "DIFF" s!"what=latency-vs-twin out={j} group={g} hinted={lh.toString} twin={lt.toString} reported_stages={nOf g}"
              fail "PROPFAIL" s!"what=unbalanced out={j} group={g} register_count_hinted={lh.toString} register_count_twin={lt.toString} reported_stages={nOf g}"
              st := { st with diffs := st.diffs + 1, propfails := st.propfails + 1 }
            if o.ureg == 0 && lh != .any && lh != .exact (nOf g) then
              fail "DIFF" s!"what=latency-vs-stages out={j} group={g} model_latency={lh.toString} reported_stages={nOf g}"
              fail "PROPFAIL" s!"what=stage-count out={j} group={g} registers_on_paths={lh.toString} reported_stages={nOf g}"
              st := { st with diffs := st.diffs + 1, propfails := st.propfails + 1 }
          | _, _ => st := { st with latSkipped := st.latSkipped + 1 }
  -- ---- PROPFAIL: traces ---------------------------------------------------------------------------------------------
  let ncyc := c.stim.size
  if c.h.size != ncyc || c.t.size != ncyc then
    fail "DIFF" s!"what=trace-length stim={ncyc} hinted={c.h.size} twin={c.t.size}"
    return { st with diffs := st.diffs + 1 }
  -- enabled edges before each cycle (the edge after cycle 0 is under reset when the clock has a reset)
  let mut cnts : Array Nat := #[]
  let mut cnt := 0
  for cyc in [0:ncyc] do
    cnts := cnts.push cnt
    let en := c.enPins.all fun p => (c.stim[cyc]!).getD p "1" == "1"
    if !en then st := { st with stallCycles := st.stallCycles + 1 }
    if en && !(c.reset == "sync" && cyc == 0) then cnt := cnt + 1
  st := { st with cycles := st.cycles + ncyc }
  let maxN (dep : Nat) : Nat := maxOver ((List.range ngrp).filter (fun g => (dep >>> g) % 2 == 1) |>.map nOf)
  let mut firstBad : Option String := none      -- mismatch the property forbids
  let mut lagBad : Option String := none
  let mut predBad : Option String := none
  let havePred := c.cls == "resetedge" && c.p.size == ncyc
  for cyc in [0:ncyc] do
    for j in [0:c.outs.size] do
      let o := c.outs[j]!
      let a := (c.h[cyc]!).getD j "?"; let b := (c.t[cyc]!).getD j "?"
      -- "from the cycle the pipeline has filled when the region contains feed-forward registers"
      -- (filled = all register levels on the paths to this output hold values derived from inputs: `Ckt.depth ≤ cnt`)
      let thr := if o.ffd > 0 then maxN o.dep + o.ureg else 0
      if cnts[cyc]! >= thr then
        st := { st with ops := st.ops + 1 }
        if a != b && refines a b then st := { st with undefRefined := st.undefRefined + 1 }
        if !refines a b && firstBad.isNone then
          firstBad := some s!"cycle={cyc} out={j} hinted={a} twin={b} enabled_edges={cnts[cyc]!} stages={c.stages.toList} stim={(c.stim[cyc]!).toList}"
      if c.cls == "autonomous" && c.l.size == ncyc then
        let l := (c.l[cyc]!).getD j "?"
        st := { st with ops := st.ops + 1 }
        if !refines a l && lagBad.isNone then
          lagBad := some s!"cycle={cyc} out={j} hinted={a} lagtwin={l} enabled_edges={cnts[cyc]!} stages={c.stages.toList} derived_lags={c.lagsDerived} measured={c.lagsMeasured}"
      if havePred then
        let q := (c.p[cyc]!).getD j "?"
        st := { st with ops := st.ops + 1 }
        if a != q && predBad.isNone then
          predBad := some s!"cycle={cyc} out={j} hinted={a} predicted={q} twin={b} enabled_edges={cnts[cyc]!} stages={c.stages.toList}"
  if c.cls == "autonomous" then
    let haveLag := c.l.size == ncyc
    if haveLag then st := { st with lagChecked := st.lagChecked + 1 }
    -- structure: where the counter is visible, the register count between it and the outputs must be the recipe-derived lag
    let meas := if c.lagsMeasured == "-" then [] else c.lagsMeasured.splitOn ","
    let der := if c.lagsDerived == "-" then [] else c.lagsDerived.splitOn ","
    let mut structOk := true
    for m in meas do
      match m.splitOn ":" with
      | [step, v] =>
        if v != "-1" then
          st := { st with lagStructChecked := st.lagStructChecked + 1 }
          if !der.contains (step ++ ":" ++ v) then
            structOk := false
            fail "DIFF" s!"what=lag-structure counter_step={step} measured_registers={v} derived_lags={c.lagsDerived}"
            fail "PROPFAIL" s!"what=lag-structure counter_step={step} measured_registers={v} derived_lags={c.lagsDerived} stages={c.stages.toList}"
            st := { st with diffs := st.diffs + 1, propfails := st.propfails + 1 }
      | _ => pure ()
    if let some m := lagBad then
      fail "PROPFAIL" s!"what=lagtwin {m}"
      st := { st with propfails := st.propfails + 1 }
    if let some m := firstBad then
      st := { st with lagVisible := st.lagVisible + 1 }
      -- the known finding: explained by the state lag iff the twin with the recipe-derived lag matches and the structure agrees with it
      fail "PROPFAIL" s!"what={if lagBad.isNone && haveLag && structOk then "autonomous-state-lag" else "autonomous-unexplained"} {m}"
      st := { st with propfails := st.propfails + 1 }
  else if c.cls == "resetedge" then
    if havePred then st := { st with predChecked := st.predChecked + 1 }
    if let some m := predBad then
      fail "PROPFAIL" s!"what=reset-edge-prediction {m}"
      st := { st with propfails := st.propfails + 1 }
    if let some m := firstBad then
      -- the known finding, concretely: registers stand at the pipestages, reset value = power-on value of their input if any bit of it is
      -- defined; accepted only if the hinted design equals that prediction in every cycle, the clock has a synchronous reset, a register
      -- without reset value exists and the reset edge was enabled
      let edge0 := c.enPins.all fun p => (c.stim[0]!).getD p "1" == "1"
      let known := havePred && predBad.isNone && c.reset == "sync" && c.unreset && edge0
      if known then st := { st with resetEdgeCases := st.resetEdgeCases + 1 }
      fail "PROPFAIL" s!"what={if known then "reset-edge-sampling" else "differs-from-twin"} {m}"
      st := { st with propfails := st.propfails + 1 }
  else if let some m := firstBad then
    fail "PROPFAIL" s!"what=differs-from-twin {m}"
    st := { st with propfails := st.propfails + 1 }
  return st

def jsonOfMap (m : Std.HashMap String Nat) : String :=
  let l := m.toList.toArray.qsort (fun a b => a.1 < b.1) |>.toList
  "{" ++ ",".intercalate (l.map fun (k, v) => s!"\"{k}\":{v}") ++ "}"

partial def loop (h : IO.FS.Stream) (c : Case) (st : Stats) : IO Stats := do
  let line ← h.getLine
  if line.isEmpty then return st
  let toks := (line.trimAscii.toString.splitOn " ").filter (· != "")
  match toks with
  | "case" :: id :: rest =>
    let en := kvOf rest "en"
    loop h { id := id, cls := kvOf rest "cls", reset := kvOf rest "reset", rmix := kvOf rest "rmix",
             enPins := if en == "-" then [] else (en.splitOn ",").map String.toNat! } st
  | "in" :: _ => loop h { c with nIns := c.nIns + 1 } st
  | "grp" :: _ :: mems =>
    let pins := mems.map fun m => ((m.splitOn ":").headD "0").toNat!
    let unres := mems.any fun m => (m.splitOn ":").getD 1 "-" == "-"
    loop h { c with groups := c.groups.push pins, unreset := c.unreset || unres } st
  | "step" :: _ :: kind :: rest =>
    let c := if (kind == "hreg" || kind == "memrw") && kvOf rest "live" == "1" && kvOf rest "h" != "0" then
        { c with enRegs := (kind ++ (if c.enPins.isEmpty then "_nostall" else "_stall")) :: c.enRegs } else c
    let isReg := kind == "ffreg" || kind == "mreg" || kind == "negreg"
    let unres := isReg && kvOf rest "rst" == "-"
    let hint := (kind == "stage" || kind == "negreg") && kvOf rest "live" == "1"
    loop h { c with unreset := c.unreset || unres, hints := c.hints + (if hint then 1 else 0) } st
  | "out" :: _ :: rest =>
    loop h { c with outs := c.outs.push { step := (kvOf rest "step").toNat!, dep := (kvOf rest "dep").toNat!, ffd := (kvOf rest "ffd").toNat!, ureg := (kvOf rest "ureg").toNat! } } st
  | "mem" :: rest => loop h { c with mayReject := c.mayReject || kvOf rest "mayreject" == "1" } st
  | "memreg" :: rest =>
    let key := (if kvOf rest "rst" == "-" then "noreset" else "reset") ++ "_" ++ (if kvOf rest "en" == "-1" then "noenable" else "enable")
    loop h { c with memRegs := key :: c.memRegs } st
  | "stages" :: _ :: n :: _ => loop h { c with stages := c.stages.push n.toNat! } st
  | "error" :: rest => loop h { c with err := some (" ".intercalate rest) } st
  | "info" :: rest =>
    let lm := kvOf rest "lags"; let ld := kvOf rest "dlags"
    loop h { c with latches := (kvOf rest "latches").toNat!, lagsMeasured := (if lm == "" then "-" else lm), lagsDerived := (if ld == "" then "-" else ld) } st
  | "hn" :: rest => match parseGNode rest with
    | some (id, n) => loop h { c with hn := c.hn.insert id n } st
    | none => loop h c st
  | "tn" :: rest => match parseGNode rest with
    | some (id, n) => loop h { c with tn := c.tn.insert id n } st
    | none => loop h c st
  | "s" :: _ :: vals => loop h { c with stim := c.stim.push vals.toArray } st
  | "h" :: _ :: vals => loop h { c with h := c.h.push vals.toArray } st
  | "t" :: _ :: vals => loop h { c with t := c.t.push vals.toArray } st
  | "l" :: _ :: vals => loop h { c with l := c.l.push vals.toArray } st
  | "p" :: _ :: vals => loop h { c with p := c.p.push vals.toArray } st
  | ["end"] =>
    let st ← finishCase c st
    loop h {} st
  | _ => loop h c st

def main : IO Unit := do
  let st ← loop (← IO.getStdin) {} {}
  IO.println s!"SUMMARY \{\"cases\":{st.cases},\"ops\":{st.ops},\"diffs\":{st.diffs},\"propfails\":{st.propfails},\"rejected_designs\":{st.errors},\"memory_mixed_enables_rejected_not_judged\":{st.rejectedNotJudged},\"memory_mixed_enables_accepted_and_compared\":{st.mixedEnableAccepted},\"latency_checks\":{st.latChecks},\"latency_skipped\":{st.latSkipped},\"latency_any\":{st.latAny},\"cycles\":{st.cycles},\"stall_cycles\":{st.stallCycles},\"cases_with_holding_circuit\":{st.latchCases},\"hints\":{st.hints},\"twin_undefined_hinted_defined\":{st.undefRefined},\"autonomous_checked_against_lag_twin\":{st.lagChecked},\"autonomous_lag_visible\":{st.lagVisible},\"reset_edge_sampling_cases\":{st.resetEdgeCases},\"reset_edge_designs_checked_against_prediction\":{st.predChecked},\"counter_lags_checked_against_derivation\":{st.lagStructChecked},\"cases_enable_low_after_reset\":{st.enLowAfterReset},\"hist\":\{\"backward_retimed_registers\":{jsonOfMap st.memRegHist},\"grouped_enable_logic_in_retimed_area\":{jsonOfMap st.enRegHist},\"class\":{jsonOfMap st.cls},\"stages\":{jsonOfMap st.nHist},\"reset\":{jsonOfMap st.resetHist}}}"
