import GateryModel.C07.Model
import GateryModel.C07.Spec
import GateryModel.C07.Pipeline
/-!
Driver for C07. Per case: memory configuration, ports in declaration order, power-on contents, and per clock cycle the
inputs of every memory port and the asynchronous read data sampled on the netlist as built, the data pins (behind `L`
registers) before post-processing and the data pins after `design.postprocess()`.

DIFF     = the model (`Gatery.C07.cycle` = Node_MemPort::simulateEvaluate/simulateAdvance) disagrees with the sampled
           asynchronous read data, or the implementation accepted/rejected a configuration the guard model does not.
PROPFAIL = a data pin (before or after post-processing) differs from `ArrMem` with the declared latency.
Only the first DIFF and the first PROPFAIL of a case are printed.
-/
open Gatery.C07

abbrev W := String

def mergeW (a b : W) : W := String.ofList (List.zipWith (fun x y => if x == y && x != 'x' then x else 'x') a.toList b.toList)

def wordOps (width : Nat) : WordOps W := ⟨String.ofList (List.replicate width 'x'), mergeW⟩

def parseAddr (s : String) : Addr :=
  if s == "-" then ⟨0, 0⟩ else   -- zero-width address bus (depth 1)
  s.toList.foldl (fun a c => ⟨a.val * 2 + (if c == '1' then 1 else 0), a.defd * 2 + (if c == 'x' then 0 else 1)⟩) ⟨0, 0⟩

def parseTBit (s : String) : TBit :=
  if s == "-" then TBit.one else if s == "1" then ⟨true, true⟩ else if s == "0" then ⟨false, true⟩ else ⟨false, false⟩

/-- an input pin of the design: kind a(ddress) d(ata) e (IF condition of a write) r (ENIF enable of read registers) -/
structure PinDecl where
  kind : String
  port : Nat
  sub : Nat
  width : Nat

structure PortCfg where
  isWrite : Bool
  cond : Bool := false
  rmw : Bool := false
  rmwIdx : Option Nat := none   -- write data = data pin xor the (asynchronous) read data of that earlier read port
  shareIdx : Option Nat := none -- the address is the address pin of that earlier port
  share : Bool := false
  outXor : String := "-"
  rdEn : Bool := false          -- some read latency register sits under an enable scope
  stEn : List String := []      -- per stage: enable pin number or "-"
  enFrom : String := "-"        -- read port: uses the enable pins of that earlier read port
  enOf : String := "-"          -- write port: declared in the ENIF scope of enable pin 0 of that read port
  idx : Nat := 0
  rst : List String := []       -- reset values of the read latency registers (first register first); [] = none

structure Case where
  id : String := ""
  depth : Nat := 0
  width : Nat := 0
  aw : Nat := 0
  lat : Nat := 0
  type : String := ""
  init : String := ""
  dev : String := "0"
  mode : Nat := 0
  idle : Nat := 0
  resetCycles : Nat := 0
  memreset : Bool := false
  asyncReset : Bool := false
  initNet : Bool := false
  extraReset : Nat := 0
  rcModel : Nat := 0          -- number of reset cycles predicted from the configuration (never taken from the implementation)
  pins : Array PinDecl := #[]
  initMem : Bool := true      -- ClockConfig::initializeMemory of the (write) clock
  initRegs : Bool := true
  rmwEn : Bool := false
  noReset : Bool := false
  chains : Array (List W) := #[]   -- mode 9: contents of the read latency registers per read port (first register first)
  rcPred : Nat := 0
  wrInReset : Bool := false   -- writes are driven while the reset is asserted: the reset logic drops them (post only)
  specPost : ArrMem W := ⟨[]⟩
  readsPost : Array (List W) := #[]
  ports : Array PortCfg := #[]
  mem : List W := []          -- model state
  spec : ArrMem W := ⟨[]⟩     -- specification state
  specOk : Bool := true       -- controls so far two-valued and in range
  preOk : Bool := true
  postOk : Bool := true
  reads : Array (List W) := #[]   -- ArrMem read results per cycle
  diffed : Bool := false
  failed : Bool := false

structure Stats where
  cases : Nat := 0
  cycles : Nat := 0
  ops : Nat := 0          -- values compared (async read data + data pins)
  diffs : Nat := 0
  propfails : Nat := 0
  asyncCmp : Nat := 0
  portInCmp : Nat := 0     -- Node_MemPort input values compared with their derivation from the stimulus
  preCmp : Nat := 0
  postCmp : Nat := 0
  rawCollisions : Nat := 0   -- read of an address written earlier in the same cycle (enabled)
  wwCollisions : Nat := 0    -- two enabled writes to one address in a cycle
  undefInputs : Nat := 0
  outOfRange : Nat := 0
  specSkipped : Nat := 0     -- cases whose controls left the statement's domain (modes 3/4)
  postRejected : Nat := 0
  resetCycleDivergences : Nat := 0  -- mode 7: cases in which a write issued under reset is dropped by the post-processed design
  hazardCases : Nat := 0     -- post-processed with latency >= 1 and a write depending on a read (bypass logic generated)
  hist : List (String × Nat) := []
  printed : List (String × Nat) := []   -- messages printed per kind (only the first few of each kind are printed)

def bump (h : List (String × Nat)) (k : String) : List (String × Nat) :=
  match h with
  | [] => [(k, 1)]
  | (k', n) :: t => if k' == k then (k', n + 1) :: t else (k', n) :: bump t k

/-- print at most `maxPerKey` messages per key (the runner extracts the case of every printed PROPFAIL from the stream file) -/
def say (s : Stats) (key msg : String) : IO Stats := do
  let n := ((s.printed.find? (·.1 == key)).map (·.2)).getD 0
  let lim := ((← IO.getEnv "C07_SAY_MAX").bind String.toNat?).getD 3
  if n < lim then IO.println msg
  return { s with printed := bump s.printed key }

def kvOf (toks : List String) (key : String) : String :=
  match toks.find? (fun t => t.startsWith (key ++ "=")) with
  | some t => (t.drop (key.length + 1)).toString
  | none => ""

def splitSemi (toks : List String) : List (List String) :=
  let r := toks.foldl (fun (acc : List (List String) × List String) t => if t == ";" then (acc.2.reverse :: acc.1, []) else (acc.1, t :: acc.2)) ([], [])
  (r.2.reverse :: r.1).reverse

/-- parse the port-input tokens of one cycle -/
def parsePorts (ports : List PortCfg) (toks : List String) : Option (List (PortIn W)) :=
  match ports with
  | [] => if toks.isEmpty then some [] else none
  | p :: ps =>
    if p.isWrite then
      match toks with
      | en :: we :: a :: d :: rest => (parsePorts ps rest).map (PortIn.wr (parseTBit en) (parseTBit we) (parseAddr a) d :: ·)
      | _ => none
    else
      match toks with
      | en :: a :: rest => (parsePorts ps rest).map (PortIn.rd (parseTBit en) (parseAddr a) :: ·)
      | _ => none

/-- two-valued, in-range view of a port input (what the statement promises something about) -/
def toOp (cfg : Cfg) (p : PortIn W) : Option (Op W) :=
  let okA (a : Addr) := a.full cfg.aw && a.val < cfg.depth
  match p with
  | .rd en a => if en == TBit.one && okA a then some (.rd a.val) else none
  | .wr en we a d => if en == TBit.one && we.defd && okA a then some (.wr a.val we.val d) else none

def collisions (ops : List (Op W)) : Nat × Nat :=
  let r := ops.foldl (fun (acc : List Nat × Nat × Nat) o =>
    match o with
    | .rd a => (acc.1, if acc.1.contains a then acc.2.1 + 1 else acc.2.1, acc.2.2)
    | .wr a en _ => if en then (a :: acc.1, acc.2.1, if acc.1.contains a then acc.2.2 + 1 else acc.2.2) else acc) ([], 0, 0)
  (r.2.1, r.2.2)

/-- MemoryGroup::verify (MemoryDetector.cpp:971-1009) -/
def guardRejects (c : Case) : Bool :=
  let nR := (c.ports.toList.filter (!·.isWrite)).length
  let nW := (c.ports.toList.filter (·.isWrite)).length
  (c.type == "MEDIUM" && c.lat == 0) || (c.type == "SMALL" && (nR > 1 || nW > 1))

/-- a pin agrees with the specification if every bit the specification defines is defined and equal
(an undefined bit of the addressed word — uninitialised memory, undefined write data — promises nothing) -/
def refinesW (e g : String) : Bool :=
  e.length == g.length && (List.zipWith (fun x y => x == 'x' || x == y) e.toList g.toList).all id

def xorW (a k : String) : String :=
  if k == "-" || k == "" then a else
  String.ofList (List.zipWith (fun x y => if x == 'x' then 'x' else if x == y then '0' else '1') a.toList k.toList)

def pinVal (pins : List PinDecl) (stim : List String) (kind : String) (port sub : Nat) : Option String :=
  ((pins.zip stim).find? fun (p, _) => p.kind == kind && p.port == port && p.sub == sub).map (·.2)

/-- what `MemoryPortFactory` (frontend/Memory.h:50-62) makes of an address signal: the lower `aw` bits, or zero extension -/
def fitAddr (aw : Nat) (v : String) : String :=
  if aw == 0 then "-" else
  let l := v.toList
  if l.length ≥ aw then String.ofList (l.drop (l.length - aw)) else String.ofList (List.replicate (aw - l.length) '0' ++ l)

/-- four-state AND of two bits / XOR of two words (Node_Logic) -/
def and4 (a b : String) : String := if a == "0" || b == "0" then "0" else if a == "1" && b == "1" then "1" else "x"
def xor4 (a b : String) : String :=
  String.ofList (List.zipWith (fun x y => if x == 'x' || y == 'x' then 'x' else if x == y then '0' else '1') a.toList b.toList)

/-- two-valued, in-range view of derived controls -/
def addrOk (cfg : Cfg) (a : Addr) : Bool := a.full cfg.aw && a.val < cfg.depth

/-- **The port inputs of one cycle, derived from the applied stimulus and the declared program only** (ports in DECLARATION order):
the tokens expected at the inputs of each port's Node_MemPort (R: enable address | W: enable wrEnable address data), the model's
port inputs and — while all controls are defined and in range — the specification's operations.  Address: the port's (or the shared)
address pin through `fitAddr`; write enable: the IF condition pin and-ed with the ENIF enable the write was declared under (`enof`),
unconnected if neither; write data: the data pin, xor-ed with the asynchronous read data of read port `rmw` — taken from the model
run on the ports declared so far for the model, from `ArrMem` run on the operations so far for the specification. -/
def derivePorts (ops : WordOps W) (cfg : Cfg) (mem : List W) (spec : ArrMem W) (ports : List PortCfg) (pins : List PinDecl) (stim : List String) :
    List String × List (PortIn W) × Option (List (Op W)) := Id.run do
  let mut toks : List String := []
  let mut mports : List (PortIn W) := []
  let mut sops : Option (List (Op W)) := some []
  for p in ports do
    let owner := p.shareIdx.getD p.idx
    let aTok := fitAddr cfg.aw ((pinVal pins stim "a" owner 0).getD "")
    let a := parseAddr aTok
    let readPos (j : Nat) := (ports.filter fun q => !q.isWrite && q.idx < j).length
    if !p.isWrite then
      toks := toks ++ ["-", aTok]
      mports := mports ++ [.rd TBit.one a]
      sops := sops.bind fun l => if addrOk cfg a then some (l ++ [.rd a.val]) else none
    else
      let d := (pinVal pins stim "d" p.idx 0).getD ""
      let condTok := if p.cond then pinVal pins stim "e" p.idx 0 else none
      let scopeTok := p.enOf.toNat?.bind fun r => pinVal pins stim "r" r 0
      let weTok := match scopeTok, condTok with
        | none, none => "-" | some x, none => x | none, some e => e | some x, some e => and4 x e
      let dataM := match p.rmwIdx with
        | some j => xor4 (((evalPorts ops cfg mem [] mports).2).getD (readPos j) ops.undef) d
        | none => d
      toks := toks ++ ["-", weTok, aTok, dataM]
      let we := parseTBit weTok
      mports := mports ++ [.wr TBit.one we a dataM]
      sops := sops.bind fun l =>
        if addrOk cfg a && we.defd then
          let dataS := match p.rmwIdx with
            | some j => xor4 (((ArrMem.ports ops.undef spec l).2).getD (readPos j) ops.undef) d
            | none => d
          some (l ++ [.wr a.val we.val dataS])
        else none
  return (toks, mports, sops)

/-- the stage enables of every read port, from the stimulus: "-" for a stage without enable scope -/
def deriveStageEnables (lat : Nat) (ports : List PortCfg) (pins : List PinDecl) (stim : List String) : List String :=
  (ports.filter (!·.isWrite)).map fun p =>
    let owner := p.enFrom.toNat?.getD p.idx
    let sts := (List.range lat).map fun k =>
      match (p.stEn.getD k "-").toNat? with
      | some e => (pinVal pins stim "r" owner e).getD "x"
      | none => "-"
    if sts.all (· == "-") then "-" else ",".intercalate sts

/-- `Clock::getMinResetCycles()` after post-processing, from the configuration: 1 for a synchronous reset with clocked nodes
(hlim/Clock.cpp:78-90), and with memory reset logic (MemoryGroup::buildReset, MemoryDetector.cpp: needs memoryResetType != NONE, a read
and a write port, and an initialisation network or defined power-on contents) one cycle per word, one more for the reset ROM's read
register, one more for an asynchronous reset (:778-781, :827-830); the harness adds `extra` on top -/
def predictResetCycles (noReset async memreset initNet : Bool) (init : String) (depth extra : Nat) (ports : List PortCfg) : Nat :=
  if noReset then 0 else
  let base := if async then 0 else 1
  let logic := memreset && ports.any (·.isWrite) && ports.any (!·.isWrite) && (initNet || init != "0")
  (if logic then max base (depth + (if initNet then 0 else 1) + (if async then 1 else 0)) else base) + extra

/-- the enable condition a port of the memory runs under, from the design: "-" = none, else owner port and stage pins -/
def PortCfg.domain (p : PortCfg) : String :=
  if p.isWrite then (if p.enOf == "-" then "-" else s!"{p.enOf}:0")
  else if !p.rdEn || p.stEn.all (· == "-") then "-"
  else
    let owner := if p.enFrom == "-" then toString p.idx else p.enFrom
    -- one enable for all stages is the condition `owner:pin`; per-stage scopes are a condition of their own
    if p.stEn.all (· == p.stEn.headD "-") then s!"{owner}:{p.stEn.headD "-"}" else s!"{owner}:{",".intercalate p.stEn}"

/-- design facts that select the two known causes of wrong hazard logic:
`mixed` = read-modify-write hazard logic is generated and the read ports of the memory and the dependent write ports do not all run
under one enable condition; `ring` = hazard logic in ring buffer mode (read latency > 2) with an enable on the read registers -/
def hazardFacts (lat : Nat) (ports : List PortCfg) : Bool × Bool :=
  let hazard := ports.any (·.rmw)
  let doms := (ports.filter fun p => !p.isWrite || p.rmw).map PortCfg.domain
  let mixed := hazard && !(doms.all (· == doms.headD "-"))
  let ring := hazard && lat > 2 && doms.any (· != "-")
  (mixed, ring)

def cmpPins (expect : List W) (got : List String) : Bool :=
  expect.length == got.length && (List.zipWith refinesW expect got).all id

partial def loop (h : IO.FS.Stream) (c : Case) (s : Stats) : IO Stats := do
  let line ← h.getLine
  if line.isEmpty then return s
  let toks := (line.trimAscii.toString.splitOn " ").filter (· ≠ "")
  match toks with
  | "case" :: id :: rest =>
    let c : Case := { id := id, depth := (kvOf rest "depth").toNat!, width := (kvOf rest "width").toNat!, aw := (kvOf rest "aw").toNat!,
                      lat := (kvOf rest "L").toNat!, type := kvOf rest "type", init := kvOf rest "init", dev := kvOf rest "dev",
                      mode := (kvOf rest "mode").toNat!, idle := (kvOf rest "idle").toNat!, resetCycles := (kvOf rest "resetcycles").toNat!, memreset := kvOf rest "memreset" == "1",
                      asyncReset := kvOf rest "async" == "1", initNet := kvOf rest "initnet" == "1", extraReset := (kvOf rest "extra").toNat?.getD 0, wrInReset := kvOf rest "wrinreset" == "1", noReset := kvOf rest "noreset" == "1", initMem := kvOf rest "initmem" != "0", initRegs := kvOf rest "initregs" != "0", rmwEn := kvOf rest "rmwen" == "1", rcPred := (kvOf rest "rcpred").toNat! }
    let s := { s with cases := s.cases + 1, hist := bump (bump (bump (bump s.hist s!"type:{c.type}") s!"L:{c.lat}") s!"init:{c.init}") s!"dev:{c.dev}" }
    let s := { s with hist := bump (bump s.hist (if c.depth == 2 ^ c.aw then "depth:pow2" else "depth:nonpow2")) s!"mode:{c.mode}" }
    let s := if c.mode == 8 then { s with hist := bump (bump (bump s.hist (if c.asyncReset then "reset:async" else "reset:sync")) s!"reset-extra:{kvOf rest "extra"}")
                                                         (if c.wrInReset then "reset:writes-during-reset" else "reset:write-right-after-reset") } else s
    let s := if c.depth ≤ 2 then { s with hist := bump s.hist s!"depth:{c.depth}" } else s
    loop h c s
  | "port" :: _ :: kind :: rest =>
    let isW := kind == "W"
    let p : PortCfg := { isWrite := isW, cond := kvOf rest "cond" == "1", rmw := kvOf rest "rmw" != "-" && isW, share := kvOf rest "share" != "-",
                         rmwIdx := if isW then (kvOf rest "rmw").toNat? else none, shareIdx := (kvOf rest "share").toNat? }
    let p := { p with outXor := if isW then "-" else kvOf rest "xor", idx := c.ports.size,
                      enFrom := if isW || kvOf rest "enfrom" == "" then "-" else kvOf rest "enfrom",
                      enOf := if !isW || kvOf rest "enof" == "" then "-" else kvOf rest "enof" }
    let rstS := kvOf rest "rst"
    let stS := kvOf rest "sten"
    let p := { p with stEn := if isW || stS == "-" || stS == "" then [] else stS.splitOn "," }
    let p := { p with rdEn := kvOf rest "en" == "1" && !isW, rst := if isW || rstS == "-" || rstS == "" then [] else rstS.splitOn "," }
    loop h { c with ports := c.ports.push p } s
  | "pin" :: _ :: kind :: rest =>
    let d : PinDecl := { kind := kind, port := (kvOf rest "port").toNat!, sub := (kvOf rest "sub").toNat!, width := (kvOf rest "w").toNat! }
    loop h { c with pins := c.pins.push d } s
  | "mem" :: ws =>
    let c := { c with rcModel := predictResetCycles c.noReset c.asyncReset c.memreset c.initNet c.init c.depth c.extraReset c.ports.toList }
    let shape := String.ofList (c.ports.toList.map fun p => if p.isWrite then 'W' else 'R')
    let s := { s with hist := bump s.hist s!"ports:{shape}" }
    let s := if c.ports.toList.any (·.rmw) then { s with hist := bump s.hist "rmw-design" } else s
    let s := if c.ports.toList.any (·.outXor != "-") then { s with hist := bump s.hist "logic-before-latency-regs" } else s
    let s := if c.ports.toList.any (·.share) then { s with hist := bump s.hist "shared-address" } else s
    let s := if c.ports.toList.any (fun p => p.isWrite && !p.cond) then { s with hist := bump s.hist "unconditional-write" } else s
    let undefW := (wordOps c.width).undef
    let chains := (c.ports.toList.filter (!·.isWrite)).map fun p => if p.rst.isEmpty then List.replicate c.lat undefW else p.rst
    let s := if (c.mode == 9 || c.mode == 10) then
        (c.ports.toList.filter (!·.isWrite)).foldl (fun s p =>
          { s with hist := bump s.hist s!"readreg:{if p.rst.isEmpty then "noreset-value" else "reset-value"}+{if !p.rdEn then "no-enable" else if p.stEn.all (· == p.stEn.headD "-") then "uniform-enable" else "per-stage-enables"}+{if c.ports.toList.any (·.isWrite) then "ram" else "rom"}" }) s
      else s
    -- `ws` are the declared contents; what the memory holds at power-on is the model's / the specification's business
    let isRom := !(c.ports.toList.any (·.isWrite))
    let ops := wordOps c.width
    let m0 := powerOn ops ws isRom c.initMem
    let a0 := ArrMem.init ops.undef ws (isRom || c.initMem)
    let s := if c.mode == 11 then
        { s with hist := bump (bump s.hist s!"poweron:initRegs={c.initRegs},initMem={c.initMem},{if isRom then "rom" else "ram"}")
                              s!"poweron:{if c.noReset then "noreset" else if c.asyncReset then "async" else "sync"},memreset={c.memreset}" }
      else s
    loop h { c with mem := m0, spec := a0, specPost := a0, chains := chains.toArray } s
  | "pre" :: r :: reason =>
    let c := { c with preOk := r == "ok", postOk := r == "ok" }
    let why := " ".intercalate reason
    if r != "ok" then
      if c.dev != "0" && why.startsWith "No_suitable_memory_configuration" then
        -- the device does not offer the requested size category (setType throws while the design is built)
        loop h c { s with hist := bump s.hist "device-lacks-type" }
      else
        let s ← say s "pre-exception" s!"DIFF case={c.id} what=pre-exception reason={why}"
        loop h c { s with diffs := s.diffs + 1 }
    else loop h c s
  | "net" :: rest =>
    let ext := kvOf rest "ext"
    let mut s := s
    if ext != "" && ext != "-" then
      for e in ext.splitOn "," do
        s := { s with hist := bump s.hist s!"prim:{((e.splitOn ":").headD "")}" }
    else if c.postOk && c.preOk then s := { s with hist := bump s.hist "prim:none(generic)" }
    loop h c s
  | "post" :: r :: reason =>
    let c := { c with postOk := r == "ok" && c.preOk }
    let expectReject := guardRejects c
    let why := " ".intercalate reason
    let mut s := s
    let mut c := c
    if r != "ok" then s := { s with postRejected := s.postRejected + 1, hist := bump s.hist s!"rejected:{why}" }
    if c.preOk && r == "ok" && expectReject && c.dev == "0" then
      s ← say s "guard" s!"DIFF case={c.id} what=guard model_rejects=true impl_rejects=false type={c.type} L={c.lat}"
      s := { s with diffs := s.diffs + 1 }
    -- read-latency registers of one read port under different enable scopes: when they have to be retimed (a bypass mux or other
    -- logic sits between port and registers) gatery refuses the design with an explicit design check (RegisterRetiming.cpp:1416-1431,
    -- "register with an enable signal that is incompatible with the inferred register enable"; MemoryDetector.cpp:613-616 keeps one
    -- enable condition per read port): a documented design-time rejection, counted and not judged
    let nonUniform := c.ports.toList.any fun p => !p.isWrite && p.rdEn && !(p.stEn.all (· == p.stEn.headD "-"))
    -- guard model: such a port needs its registers retimed iff a write port was declared before it (read-before-write bypass mux)
    -- or there is logic between port and registers
    let needsRetime := (c.ports.toList.foldl (fun (acc : Bool × Bool) p =>
        if p.isWrite then (true, acc.2)
        else (acc.1, acc.2 || (p.rdEn && !(p.stEn.all (· == p.stEn.headD "-")) && (acc.1 || p.outXor != "-")))) (false, false)).2
    let unjudgedStage := r != "ok" && needsRetime && why.startsWith "A_retiming_error_occured"
    -- read-modify-write under an enable: other read ports (other enables / none) may make the enable conditions of the retiming
    -- incompatible - the same explicit design check; accepted designs are judged
    let unjudgedRmw := r != "ok" && c.rmwEn && why.startsWith "A_retiming_error_occured"
    if unjudgedRmw && !unjudgedStage then s := { s with hist := bump s.hist "rejected-not-judged:rmw-under-enable-mixed-conditions" }
    if c.preOk && r == "ok" && c.rmwEn then s := { s with hist := bump s.hist "accepted:rmw-under-enable" }
    -- (candidate repair for the mixed-enable-domain defect: such designs are refused with an explicit design check)
    let unjudgedDom := r != "ok" && c.rmwEn && why.startsWith "Can_not_build_read_modify_write_hazard_logic"
    if unjudgedDom then s := { s with hist := bump s.hist "rejected-not-judged:hazard-logic-enable-domains" }
    let unjudged := unjudgedStage || unjudgedRmw || unjudgedDom
    if c.preOk && r == "ok" && needsRetime && c.dev == "0" then
      s ← say s "guard-en" s!"DIFF case={c.id} what=guard-per-stage-enables model_rejects=true impl_rejects=false L={c.lat}"
      s := { s with diffs := s.diffs + 1 }
    if unjudgedStage then s := { s with hist := bump s.hist "rejected-not-judged:per-stage-enables-need-retiming" }
    if c.preOk && r == "ok" && nonUniform then s := { s with hist := bump s.hist "accepted:per-stage-enables" }
    if c.preOk && r != "ok" && !expectReject && !unjudged then
      -- a configuration inside the statement's domain that post-processing refuses: the property fails for it
      s ← say s s!"post-rejected:{why}:{c.dev}" s!"PROPFAIL case={c.id} what=post-rejected reason={why} L={c.lat} type={c.type} dev={c.dev} reads={(c.ports.toList.filter (!·.isWrite)).length} writes={(c.ports.toList.filter (·.isWrite)).length}"
      c := { c with failed := true }
      s := { s with propfails := s.propfails + 1 }
    if c.postOk && c.idle < c.rcModel && c.mode != 7 && !c.wrInReset then
      s ← say s "idle" s!"DIFF case={c.id} what=harness-idle-shorter-than-reset idle={c.idle} reset={c.rcModel}"
      s := { s with diffs := s.diffs + 1 }
    -- the number of reset cycles the post-processed design asks for is compared with the prediction, never used
    if c.postOk && c.rcModel != c.resetCycles then
      s ← say s "rcpred" s!"DIFF case={c.id} what=reset-cycles model={c.rcModel} impl={c.resetCycles} depth={c.depth} async={c.asyncReset} memreset={c.memreset} initnet={c.initNet} init={c.init} mode={c.mode}"
      s := { s with diffs := s.diffs + 1 }
    if c.postOk && c.lat ≥ 1 && c.ports.toList.any (·.rmw) then s := { s with hazardCases := s.hazardCases + 1 }
    if c.postOk then
      let (mixed, ring) := hazardFacts c.lat c.ports.toList
      if mixed then s := { s with hist := bump s.hist "hazard-design:mixed-enable-domains" }
      if ring then s := { s with hist := bump s.hist "hazard-design:ring-buffer-under-enable" }
      if !mixed && !ring && c.rmwEn then s := { s with hist := bump s.hist "hazard-design:one-enable-domain" }
    loop h c s
  | "c" :: tStr :: ";" :: rest =>
    let t := tStr.toNat!
    let fields := splitSemi rest
    let stim := fields.getD 5 []
    match fields.take 4 with
    | [pin, asyncR, prePins, postPins] =>
      let cfg : Cfg := ⟨c.depth, c.aw⟩
      let ops := wordOps c.width
      -- everything model and specification consume is derived from the stimulus and the declared program
      let (expToks, ports, sopsD) := derivePorts ops cfg c.mem c.spec c.ports.toList c.pins.toList stim
      let ren := deriveStageEnables c.lat c.ports.toList c.pins.toList stim
      if stim.length != c.pins.size then
        let s ← say s "unparsed" s!"DIFF case={c.id} cycle={t} what=unparsed stimulus={stim.length} pins={c.pins.size}"
        loop h { c with diffed := true } { s with diffs := s.diffs + 1 }
      else
        let mut c := c
        let mut s := { s with cycles := s.cycles + 1 }
        -- the values sampled at the Node_MemPort inputs are only compared
        s := { s with portInCmp := s.portInCmp + expToks.length, ops := s.ops + expToks.length }
        if pin != expToks && !c.diffed then
          s ← say s "portin" s!"DIFF case={c.id} cycle={t} what=port-inputs derived={expToks} sampled={pin} stimulus={stim}"
          c := { c with diffed := true }
          s := { s with diffs := s.diffs + 1 }
        -- model
        let r := cycle ops cfg c.mem ports
        s := { s with asyncCmp := s.asyncCmp + asyncR.length, ops := s.ops + asyncR.length }
        if r.2 != asyncR && !c.diffed then
          s ← say s "async" s!"DIFF case={c.id} cycle={t} what=async-read model={r.2} impl={asyncR} inputs={pin}"
          c := { c with diffed := true }
          s := { s with diffs := s.diffs + 1 }
        c := { c with mem := r.1 }
        -- specification
        if c.specOk && sopsD.isSome then
          let sops := sopsD.getD []
          let (raw, ww) := collisions sops
          s := { s with rawCollisions := s.rawCollisions + raw, wwCollisions := s.wwCollisions + ww }
          let sr := ArrMem.ports ops.undef c.spec sops
          c := { c with spec := sr.1, reads := c.reads.push sr.2 }
          if c.wrInReset then
            -- after post-processing the reset logic owns the write port while the reset is asserted: writes issued then are dropped
            let sopsP := if t < c.rcModel then sops.map (fun o => match o with | .wr a _ d => Op.wr a false d | o => o) else sops
            let srP := ArrMem.ports ops.undef c.specPost sopsP
            c := { c with specPost := srP.1, readsPost := c.readsPost.push srP.2 }
        else
          if c.specOk then
            s := { s with specSkipped := s.specSkipped + 1 }
            if c.mode != 3 && c.mode != 4 && !c.failed then
              -- the main streams never leave the statement's domain; if they do the harness is broken
              s ← say s "domain" s!"DIFF case={c.id} cycle={t} what=controls-outside-domain inputs={pin}"
              s := { s with diffs := s.diffs + 1 }
          c := { c with specOk := false }
          s := { s with undefInputs := s.undefInputs + (ports.filter fun p => match p with
                    | .rd en a => !(en.defd && a.full cfg.aw) | .wr en we a _ => !(en.defd && we.defd && a.full cfg.aw)).length,
                        outOfRange := s.outOfRange + (ports.filter fun p => match p with
                    | .rd _ a => a.full cfg.aw && a.val ≥ cfg.depth | .wr _ _ a _ => a.full cfg.aw && a.val ≥ cfg.depth).length }
        if c.specOk && (c.mode == 9 || c.mode == 10) then
          -- read-register family: enabled shift registers with reset values behind the array read
          let rports := c.ports.toList.filter (!·.isWrite)
          let expect := c.chains.toList.map fun ch => ch.getLastD ops.undef
          s := { s with preCmp := s.preCmp + expect.length, ops := s.ops + expect.length }
          if !cmpPins expect prePins && !c.failed then
            s ← say s "pre9" s!"PROPFAIL case={c.id} cycle={t} what=pre-readreg L={c.lat} type={c.type} async={c.asyncReset} model={expect} pins={prePins} enables={ren}"
            c := { c with failed := true }
            s := { s with propfails := s.propfails + 1 }
          -- cycle 0 of a clock with reset is the reset cycle: the post-processed pins are compared from the first cycle after it
          if c.postOk && (c.noReset || t ≥ 1) then
            s := { s with postCmp := s.postCmp + expect.length, ops := s.ops + expect.length }
            if !cmpPins expect postPins && !c.failed then
              let bad := ((List.zip (List.zip expect postPins) rports).find? fun ((e, g), _) => !refinesW e g).map (·.2)
              let hazard := c.ports.toList.any (·.rmw)
              let pen := (bad.map (·.rdEn)).getD false
              let prst := (bad.map (!·.rst.isEmpty)).getD false
              let (mixed, ring) := hazardFacts c.lat c.ports.toList
              s ← say s s!"post9:{c.dev}:{hazard}:{pen}:{prst}:{mixed}:{ring}" s!"PROPFAIL case={c.id} cycle={t} what=post-readreg hazard={hazard} domains={if mixed then "mixed" else "one"} ring={ring} port_en={pen} port_rst={prst} L={c.lat} type={c.type} dev={c.dev} async={c.asyncReset} noreset={c.noReset} model={expect} pins={postPins} pre_pins={prePins} enables={ren}"
              c := { c with failed := true }
              s := { s with propfails := s.propfails + 1 }
          -- clock edge
          let inReset := !c.noReset && t < (if c.rcModel == 0 then 1 else c.rcModel)
          let newReads := c.reads[t]!
          let chains := (List.zip (List.zip c.chains.toList rports) (List.zip newReads (ren ++ List.replicate rports.length "-"))).map fun ((ch, p), (rd, e)) =>
            if inReset && !p.rst.isEmpty then p.rst
            else
              -- stage enables of this cycle ("-" = no enable scope: always loads); the proved pipeline model does the edge
              let es := if e == "-" then [] else (e.splitOn ",").map (· != "0")
              pipeStep (xorW rd p.outXor) ch es
          c := { c with chains := chains.toArray }
        if c.specOk && t ≥ c.lat && (c.mode != 9 && c.mode != 10) then
          let xors := (c.ports.toList.filter (!·.isWrite)).map (·.outXor)
          let expect := List.zipWith xorW (c.reads[t - c.lat]!) xors
          s := { s with preCmp := s.preCmp + expect.length, ops := s.ops + expect.length }
          if !cmpPins expect prePins && !c.failed then
            s ← say s "pre" s!"PROPFAIL case={c.id} cycle={t} what=pre L={c.lat} type={c.type} arrmem={expect} pins={prePins}"
            c := { c with failed := true }
            s := { s with propfails := s.propfails + 1 }
          let expect := if c.wrInReset then List.zipWith xorW (c.readsPost[t - c.lat]!) xors else expect
          if c.postOk && t - c.lat ≥ c.rcModel then
            s := { s with postCmp := s.postCmp + expect.length, ops := s.ops + expect.length }
            if !cmpPins expect postPins && !c.failed && c.mode == 7 then
              s ← say s "obs" s!"OBS case={c.id} cycle={t} what=write-under-reset-dropped L={c.lat} arrmem={expect} pins={postPins}"
              c := { c with failed := true }
              s := { s with resetCycleDivergences := s.resetCycleDivergences + 1 }
            if !cmpPins expect postPins && !c.failed then
              s ← say s s!"post:{c.dev}:{c.memreset}:{c.asyncReset}:{c.depth == 2 ^ c.aw}" s!"PROPFAIL case={c.id} cycle={t} what=post L={c.lat} type={c.type} dev={c.dev} memreset={c.memreset} async={c.asyncReset} depth={c.depth} pow2={c.depth == 2 ^ c.aw} resetcycles={c.rcModel} arrmem={expect} pins={postPins} pre_pins={prePins}"
              c := { c with failed := true }
              s := { s with propfails := s.propfails + 1 }
        loop h c s
    | _ =>
      let s ← say s "malformed" s!"DIFF case={c.id} cycle={t} what=malformed-line"
      loop h c { s with diffs := s.diffs + 1 }
  | _ => loop h c s

def main : IO Unit := do
  let s ← loop (← IO.getStdin) {} {}
  let hist := ",".intercalate (s.hist.map fun (k, n) => s!"\"{k}\":{n}")
  IO.println s!"SUMMARY \{\"cases\":{s.cases},\"cycles\":{s.cycles},\"ops\":{s.ops},\"diffs\":{s.diffs},\"propfails\":{s.propfails},\"async_compared\":{s.asyncCmp},\"port_inputs_compared\":{s.portInCmp},\"pre_pins_compared\":{s.preCmp},\"post_pins_compared\":{s.postCmp},\"read_after_write_collisions\":{s.rawCollisions},\"write_write_collisions\":{s.wwCollisions},\"undefined_port_inputs\":{s.undefInputs},\"out_of_range_accesses\":{s.outOfRange},\"spec_skipped_cases\":{s.specSkipped},\"post_rejected\":{s.postRejected},\"hazard_cases\":{s.hazardCases},\"reset_cycle_write_divergences\":{s.resetCycleDivergences},\"hist\":\{{hist}}}"
