import Driver.NodesMain
import Driver.C08Mem
/-! Driver for C08: node-level correspondence + "a defined bit is never contradicted by a concretisation".
    The harness header line names the stream; the `mem` stream has its own protocol (`Driver/C08Mem.lean`). -/
def main : IO Unit := do
  let stdin ← IO.getStdin
  let first ← stdin.getLine
  if (first.splitOn "mode=mem").length > 1 then MemDrv.run else Drv.run true
