import Driver.NodesMain
/-! Driver for C08: node-level correspondence + "a defined bit is never contradicted by a concretisation". -/
def main : IO Unit := Drv.run true
