import Driver.NodesCommon
import GateryModel.C08.MemRead
/-!
Driver for the `mem` stream of C08 (`harness/c03.cpp`, mode `mem`): every read of every run is recomputed with
`memRead` (`C08/MemRead.lean`) and compared word for word (`DIFF`); the read data under an abstract address is compared with the read
data of every concretisation of the address, in the same memory and in the memory with concretised contents (`PROPFAIL` if a
defined bit is contradicted).
-/
open Gatery.Nodes Drv

namespace MemDrv

structure M where
  caseId : String := ""
  depth : Nat := 0
  w : Nat := 0
  exact : Bool := false
  post : Bool := false
  ca : List BV4 := []
  cb : List BV4 := []
  isAbs : Bool := true
  absOk : Bool := false             -- the abstract run of the current stimulus was evaluated (did not throw)
  addr : Array BV4 := #[]          -- current run's addresses
  absAddr : Array BV4 := #[]
  absA : Array BV4 := #[]          -- abstract run: read data of memory A per port
  absB : Array BV4 := #[]
  cases : Nat := 0
  reads : Nat := 0
  pairs : Nat := 0
  bits : Nat := 0
  diffs : Nat := 0
  propfails : Nat := 0
  nonMono : Nat := 0
  buildErr : Nat := 0
  crashes : Nat := 0
  hist : List (String × Nat) := []
  seen : List (String × Nat) := []
  out : Array String := #[]

def M.diff (s : M) (m : String) : M :=
  if s.diffs < 30 then { s with diffs := s.diffs + 1, out := s.out.push ("DIFF case=" ++ s.caseId ++ " " ++ m) } else { s with diffs := s.diffs + 1 }
def M.propfail (s : M) (m : String) : M :=
  if s.propfails < 30 then { s with propfails := s.propfails + 1, out := s.out.push ("PROPFAIL case=" ++ s.caseId ++ " " ++ m) }
  else { s with propfails := s.propfails + 1 }

def shape (s : M) (addr : BV4) : String :=
  let c := candidates addr
  let beyond := if c.all (· ≥ s.depth) then "all" else if c.any (· ≥ s.depth) then "some" else "none"
  s!"exact={if s.exact then 1 else 0} depth={if 2 ^ addr.length == s.depth then "pow2" else "npow2"} undef-addr-bits={(addr.filter (· == .x)).length} candidates-beyond={beyond}"

def relate (s : M) (what : String) (p : Nat) (abs conc : BV4) (absAddr addr : BV4) : M :=
  let s := { s with pairs := s.pairs + 1, bits := s.bits + abs.length }
  if !BV4.compatB abs conc then
    s.propfail s!"kind=memread class=defined-bit-contradicted port={p} {what} {shape s absAddr} depth={s.depth} w={s.w} post={if s.post then 1 else 0} abstract-addr={BV4.toString absAddr} addr={BV4.toString addr} abstract={BV4.toString abs} concretised={BV4.toString conc} contentsA=[{" ".intercalate (s.ca.map BV4.toString)}]"
  else if !BV4.leB abs conc then { s with nonMono := s.nonMono + 1 } else s

def step (s : M) (line : String) : M :=
  let toks := (line.trimAscii.toString.splitOn " ").filter (· ≠ "")
  match toks with
  | "case" :: id :: _ => { s with caseId := id, cases := s.cases + 1, ca := [], cb := [], addr := #[], absAddr := #[], absA := #[], absB := #[] }
  | ["mem", d, w, e, p, _] => { s with depth := d.toNat!, w := w.toNat!, exact := e == "1", post := p == "1" }
  | "ca" :: rest => { s with ca := rest.map BV4.ofString }
  | "cb" :: rest => { s with cb := rest.map BV4.ofString }
  | ["ports", n] => { s with addr := Array.replicate n.toNat! [], absAddr := Array.replicate n.toNat! [], absA := Array.replicate n.toNat! [], absB := Array.replicate n.toNat! [] }
  | "stim" :: _ => { s with isAbs := true, absOk := false }
  | "stimc" :: _ => { s with isAbs := false }
  | ["pv", p, a] =>
    let a := BV4.ofString a
    let s := { s with addr := s.addr.setIfInBounds p.toNat! a }
    if s.isAbs then { s with absAddr := s.absAddr.setIfInBounds p.toNat! a } else s
  | ["rd", p, ra, rb] => Id.run do
    let p := p.toNat!
    let ra := BV4.ofString ra; let rb := BV4.ofString rb
    let a := s.addr.getD p []
    let mut s := { s with reads := s.reads + 2, hist := bump s.hist (shape s a) }
    let ma := memRead s.exact s.w s.ca none (some a)
    let mb := memRead s.exact s.w s.cb none (some a)
    if ma != ra then s := s.diff s!"kind=memread mem=A port={p} {shape s a} addr={BV4.toString a} model={BV4.toString ma} impl={BV4.toString ra} contents=[{" ".intercalate (s.ca.map BV4.toString)}]"
    if mb != rb then s := s.diff s!"kind=memread mem=B port={p} {shape s a} addr={BV4.toString a} model={BV4.toString mb} impl={BV4.toString rb} contents=[{" ".intercalate (s.cb.map BV4.toString)}]"
    -- contents refined, same address
    s := relate s "contents-concretised" p ra rb a a
    if s.isAbs then
      s := { s with absA := s.absA.setIfInBounds p ra, absB := s.absB.setIfInBounds p rb, absOk := true }
    else if s.absOk then
      let aa := s.absAddr.getD p []
      s := relate s "address-concretised" p (s.absA.getD p []) ra aa a
      s := relate s "address-and-contents-concretised" p (s.absA.getD p []) rb aa a
    return s
  | "rdthrow" :: rest =>
    -- the read is total in the model: a throwing simulator is a broken correspondence
    (s.diff ("kind=memread-throws the simulator threw while evaluating a memory read: " ++ " ".intercalate rest ++ " addrs=" ++ " ".intercalate (s.addr.toList.map BV4.toString)))
  | "builderr" :: _ => { s with buildErr := s.buildErr + 1 }
  | "simerr" :: rest => s.diff ("kind=simerr " ++ " ".intercalate rest)
  | "crash" :: rest => { (s.diff ("kind=crash " ++ " ".intercalate rest)) with crashes := s.crashes + 1 }
  | _ => s

partial def loop (h : IO.FS.Stream) (s : M) : IO M := do
  let line ← h.getLine
  if line.isEmpty then return s
  let s := step s line
  for m in s.out do IO.println m
  loop h { s with out := #[] }

def run : IO Unit := do
  let s ← loop (← IO.getStdin) {}
  let hist := "{" ++ ",".intercalate (s.hist.map fun (k, n) => s!"\"{k}\":{n}") ++ "}"
  IO.println (s!"SUMMARY \{\"cases\":{s.cases},\"ops\":{s.reads},\"diffs\":{s.diffs},\"propfails\":{s.propfails},\"conc_pairs\":{s.pairs}," ++
    s!"\"compat_bits\":{s.bits},\"non_monotone\":{s.nonMono},\"mem_build_errors\":{s.buildErr},\"crash_cases\":{s.crashes},\"mem_reads\":{hist}}")

end MemDrv
