import GateryModel.C09.Spec
/-!
Driver for C09.  Reads the protocol of `harness/c09.cpp` on stdin.

* mode `ops`: every operation is applied to the model (`step`); the implementation's outcome (`r ok|e`) and its full graph dump
  are compared with the model (`DIFF` = model ≠ implementation), and the decidable `Inv` is evaluated on the implementation's
  dump (`PROPFAIL` = the implementation's graph is not well formed).
* mode `design`: every dump (after construction steps and at every pass boundary) is checked with `Inv`, `AllGrouped` and the
  type/width agreement; `PROPFAIL` on failure. The dump parser is checked by a print/parse round trip (`DIFF … roundtrip`).
-/
open Gatery.C09

def bump (h : List (String × Nat)) (k : String) : List (String × Nat) :=
  match h with
  | [] => [(k, 1)]
  | (a, n) :: t => if a == k then (a, n+1) :: t else (a, n) :: bump t k

/-! ## printing -/

def showH (h : Nat) : String := if h ≥ deadHandle then "?" else toString h
def showNP (p : NodePort) : String := if p.node ≥ deadHandle then "?" else s!"{p.node}.{p.port}"
def showONP : Option NodePort → String
  | none => "-"
  | some p => showNP p
def showOH : Option Nat → String
  | none => "-"
  | some h => showH h

def npLt (a b : NodePort) : Bool := a.node < b.node || (a.node == b.node && a.port < b.port)

def renderNode (n : PNode) : String := Id.run do
  let code := if n.dk ≠ 0 then n.dk + 1 else if n.sig then 1 else 0
  let mut s := s!"n {n.h} {n.id} {code} {if n.refs > 0 then 1 else 0} {showOH n.grp} {n.ins.size}"
  for d in n.ins do s := s ++ " " ++ showONP d
  s := s ++ s!" {n.outs.size}"
  for (t, cs) in n.outs do
    s := s ++ s!" {t.kind} {t.width} {cs.length}"
    for c in cs do s := s ++ " " ++ showNP c
  s := s ++ s!" {n.clks.size}"
  for c in n.clks do s := s ++ " " ++ showOH c
  return s

def render (g : PGraph) : Array String := Id.run do
  let mut out : Array String := #[s!"D {g.size}"]
  out := out.push (" ".intercalate ("o" :: g.order.map showH))
  for n in g.nodes do out := out.push (renderNode n)
  let mut i := 0
  for ns in g.groups do
    out := out.push (" ".intercalate (["g", toString i, toString ns.length] ++ ns.map showH))
    i := i + 1
  i := 0
  for cs in g.clocks do
    if g.calive.getD i false then
      let sorted := (cs.toArray.qsort npLt).toList
      let ca := g.caches.getD i []
      out := out.push (" ".intercalate (["k", toString i, showOH (g.cdrv.getD i none), showOH (g.rdrv.getD i none), toString cs.length] ++ sorted.map showNP ++
        ["c", toString ca.length] ++ ca.map showNP))
    else
      out := out.push s!"k {i} x"     -- destroyed clock
    i := i + 1
  return out

/-! ## parsing -/

def pNat (s : String) : Nat := s.toNat!
def pH (s : String) : Nat := if s == "?" then deadHandle else s.toNat!
def pOH (s : String) : Option Nat := if s == "-" then none else some (pH s)
def pNP (s : String) : NodePort :=
  if s == "?" then ⟨deadHandle, 0⟩ else
  match s.splitOn "." with
  | [a, b] => ⟨a.toNat!, b.toNat!⟩
  | _ => ⟨deadHandle, 0⟩
def pONP (s : String) : Option NodePort := if s == "-" then none else some (pNP s)

/-- token cursor -/
structure Cur where
  toks : Array String
  pos : Nat := 0

def Cur.next (c : Cur) : String × Cur := (c.toks.getD c.pos "0", { c with pos := c.pos + 1 })

def parseNode (toks : Array String) : PNode × Cur := Id.run do
  let mut c : Cur := { toks := toks, pos := 1 }
  let (h, c1) := c.next; c := c1
  let (id, c1) := c.next; c := c1
  let (sig, c1) := c.next; c := c1
  let (ref, c1) := c.next; c := c1
  let (grp, c1) := c.next; c := c1
  let (nIn, c1) := c.next; c := c1
  let mut ins : Array (Option NodePort) := #[]
  for _ in [0:pNat nIn] do
    let (t, c1) := c.next; c := c1
    ins := ins.push (pONP t)
  let (nOut, c1) := c.next; c := c1
  let mut outs : Array (CType × List NodePort) := #[]
  for _ in [0:pNat nOut] do
    let (k, c1) := c.next; c := c1
    let (w, c1) := c.next; c := c1
    let (nc, c1) := c.next; c := c1
    let mut cs : Array NodePort := #[]
    for _ in [0:pNat nc] do
      let (t, c1) := c.next; c := c1
      cs := cs.push (pNP t)
    outs := outs.push (⟨pNat k, pNat w⟩, cs.toList)
  let (nClk, c1) := c.next; c := c1
  let mut clks : Array (Option Nat) := #[]
  for _ in [0:pNat nClk] do
    let (t, c1) := c.next; c := c1
    clks := clks.push (pOH t)
  return ({ h := pNat h, id := pNat id, sig := sig == "1", dk := (if pNat sig ≥ 2 then pNat sig - 1 else 0), refs := if ref == "1" then 1 else 0, grp := pOH grp,
            ins := ins, outs := outs, clks := clks }, c)

def parseKind (toks : List String) : NKind :=
  match toks with
  | "SIG" :: _ => .sig
  | "LOGIC" :: _ => .logic
  | "ARITH" :: _ => .arith
  | "CMP" :: _ => .cmp
  | "MUX" :: _ => .mux
  | "REG" :: _ => .reg
  | "SHIFT" :: _ => .shift
  | "PRIO" :: _ => .prio
  | "REWIRE" :: _ :: rest =>
    let rec go : List String → List (Nat × Nat × Nat × Nat)
      | a :: b :: c :: d :: t => (pNat a, pNat b, pNat c, pNat d) :: go t
      | _ => []
    .rewire (go rest)
  | _ => .other

/-! ## driver state -/

structure DS where
  mode : String := "ops"
  caseId : String := ""
  variant : String := ""
  sm : State := State.init                 -- model state (compacted)
  pending : Option (Res State) := none     -- model's answer to the current op
  throwSm : State := State.init            -- model state if the current op throws (`afterThrow`)
  prevImpl : Option State := none          -- the implementation's previous graph of this case (for the two-state type check)
  lastOp : String := ""
  stepNo : Nat := 0                        -- index of the current op within the case
  lastAt : String := ""
  postOk : Bool := true
  -- dump being read
  g : PGraph := {}
  raw : Array String := #[]
  kinds : Array (Nat × String × NKind) := #[]
  gtree : Array (Option Nat × List Nat) := #[]
  inDump : Bool := false
  -- counters
  cases : Nat := 0
  ops : Nat := 0
  dumps : Nat := 0
  diffs : Nat := 0
  propfails : Nat := 0
  maxNodes : Nat := 0
  typeChecked : Nat := 0
  hist : List (String × Nat) := []
  res : List (String × Nat) := []
  variants : List (String × Nat) := []
  boundaries : List (String × Nat) := []
  tkinds : List (String × Nat) := []
  reallocs : List (String × Nat) := []     -- passes inside which Circuit::m_nodes was reallocated
  flags : List (String × Nat) := []

def compact (s : State) : State :=
  let g := tabulate s
  g.toState

def parseOp (toks : List String) : Option (List Op) :=
  match toks with
  | ["newgroup"] => some [.createGroup]
  | "newclock" :: _ => some [.createClock]
  | ["clone", h] => some [.cloneNode (pNat h)]
  | ["killclock", c] => some [.destroyClock (pNat c)]
  | ["tconnect", cls, h, i, d] => some [.typedConnect (pNat cls) (pNat h) (pNat i) (pONP d)]
  | ["moveinto", _, _] => some []     -- NodeGroup::moveInto: the group tree is evaluated on the dumps, not modelled (no node membership changes)
  | ["getclocked", c] => some [.getClockedNodes (pNat c)]
  | ["setdrv", k, c, h] => some [.setLogicDriver (pNat k) (pNat c) (pNat h)]
  | "copysubnet" :: cc :: nIn :: rest =>
    let ins := (rest.take (pNat nIn)).map pNP
    match rest.drop (pNat nIn) with
    | nOut :: rest2 => some [.copySubnet ins ((rest2.take (pNat nOut)).map pNP) (cc == "1")]
    | [] => none
  | ["connect", h, i, d] => some [.connect (pNat h) (pNat i) (pONP d)]
  | ["disconnect", h, i] => some [.disconnect (pNat h) (pNat i)]
  | ["sconnect", h, d] => some [.signalConnect (pNat h) (pONP d)]
  | ["resizeIn", h, n] => some [.resizeInputs (pNat h) (pNat n)]
  | ["resizeOut", h, n] => some [.resizeOutputs (pNat h) (pNat n)]
  | ["bypass", h, o, i] => some [.bypass (pNat h) (pNat o) (pNat i)]
  | ["bypassSelf", h, o, i] => some [.bypass (pNat h) (pNat o) (pNat i)]
  | ["settype", h, o, k, w] => some [.setType (pNat h) (pNat o) ⟨pNat k, pNat w⟩]
  | ["group", h, g] => some [.moveToGroup (pNat h) (pOH g)]
  | ["attach", h, p, c] => some [.attachClock (pNat h) (pNat p) (pOH c)]
  | ["detach", h, p] => some [.detachClock (pNat h) (pNat p)]
  | ["addclock", h, c] => some [.addClock (pNat h) (pOH c)]
  | ["addref", h] => some [.addRef (pNat h)]
  | ["remref", h] => some [.removeRef (pNat h)]
  | ["erase", i] => some [.eraseNode (pNat i)]
  | ["cull"] => some [.cullOrphanedSignals]
  | _ => none

/-- `new K sig nIn nOut nClk (kind width)*` : createNode, then the output types the constructor chose -/
def applyNew (s : State) (toks : List String) : Res State :=
  match toks with
  | "new" :: kn :: sig :: nIn :: nOut :: nClk :: types =>
    let h := s.size
    let s1 := createNode s (sig == "1") (pNat nIn) (pNat nOut) (pNat nClk) (if kn == "K" then 1 else if kn == "Z" then 2 else 0)
    let rec go (s : State) (o : Nat) : List String → Res State
      | k :: w :: t => (setOutputConnectionType s h o ⟨pNat k, pNat w⟩).bind fun s' => go s' (o + 1) t
      | _ => .ok s
    go s1 0 types
  | _ => .error .ub

def applyOps (s : State) : List Op → Res State
  | [] => .ok s
  | op :: ops => (step s op).bind fun s1 => applyOps s1 ops

def resName : Res State → String
  | .ok _ => "ok"
  | .error .assert => "e"
  | .error .abort => "abort"
  | .error .ub => "ub"
  | .error .diverge => "diverge"

def invReport (s : State) : List String :=
  (if decide (EdgeInv s.size s.alive s.numIn s.inp s.numOut s.conns) then [] else ["edges"]) ++
  (if decide (GroupInv s.size s.alive s.grp s.ngroups s.gnodes) then [] else ["groups"]) ++
  (if decide (ClockInv s.size s.alive s.numClk s.clk s.nclocks s.clocked) then [] else ["clocks"]) ++
  (if decide (IdInv s.size s.alive s.nid s.nextId) then [] else ["ids"]) ++
  (if decide (CAInv s.size s.alive s.numClk s.clk s.calive) then [] else ["deadclock"]) ++
  (if decide (DriverInv s.size s.alive s.dk s.numClk s.clk s.nclocks s.calive s.drv) then [] else ["drivers"]) ++
  (if decide (CacheInv s.nclocks s.clocked s.cache) then [] else ["cache"]) ++
  (if decide (OrderInv s.size s.alive s.order) then [] else ["storage"])

/-- first differing line of two renderings -/
def firstDiff (a b : Array String) : String := Id.run do
  for i in [0:max a.size b.size] do
    let x := a.getD i "<none>"
    let y := b.getD i "<none>"
    if x != y then return s!"model=[{x}] impl=[{y}]"
  return "equal"

def typeCheck (d : DS) (s : State) : List String × Nat × List (String × Nat) := Id.run do
  let mut viol : List String := []
  let mut n := 0
  let mut tk := d.tkinds
  for (h, name, k) in d.kinds do
    tk := bump tk name
    let ins := (List.range (s.numIn h)).map fun i => (s.inp h i).map fun p => s.ctype p.node p.port
    let outs := (List.range (s.numOut h)).map (s.ctype h)
    let v := nodeTypeViolations k ins outs
    match k with
    | .other => pure ()
    | _ => n := n + 1
    if !v.isEmpty then viol := viol ++ [s!"node{h}({name}):" ++ ",".intercalate v]
  return (viol, n, tk)

def finishDump (d : DS) : IO DS := do
  let mut d := { d with dumps := d.dumps + 1, inDump := false, maxNodes := max d.maxNodes d.g.nodes.size }
  -- `m_nextNodeId` is not observable through the public API: the smallest value consistent with the dump is assumed
  let g := { d.g with nextId := d.g.nodes.foldl (fun m n => max m (n.id + 1)) 0 }
  -- parser round trip
  let rr := render g
  if rr != d.raw then
    IO.println s!"DIFF case={d.caseId} at={d.lastAt} op=[{d.lastOp}] roundtrip {firstDiff rr d.raw}"
    d := { d with diffs := d.diffs + 1 }
  let si := g.toState
  if d.mode == "ops" then
    -- model side
    let sm' := match d.pending with
      | some (.ok s') => compact s'
      | some (.error .assert) => compact d.throwSm
      | _ => d.sm
    let mr := render (tabulate sm')
    if mr != d.raw then
      IO.println s!"DIFF case={d.caseId} step={d.stepNo} op=[{d.lastOp}] {firstDiff mr d.raw}"
      -- resynchronise on the implementation
      let nid := g.nodes.foldl (fun m n => max m (n.id + 1)) sm'.nextId
      d := { d with diffs := d.diffs + 1, sm := { si with nextId := nid } }
    else
      d := { d with sm := sm' }
    d := { d with pending := none }
  let bad := invReport si
  let bad := if d.mode == "design" ∧ !(decide (AllGrouped si)) then bad ++ ["ungrouped"] else bad
  let mut bad := bad
  let gv := groupTreeViolations d.gtree
  if !gv.isEmpty then bad := bad ++ ["grouptree:" ++ ";".intercalate (gv.take 4)]
  if d.mode == "ops" then
    -- two-state clause on the implementation's own consecutive graphs: no connection that persists sees another driver type
    match d.prevImpl with
    | some p => if !(decide (TypeStable p si)) then bad := bad ++ ["type_changed_under_consumer"]
    | none => pure ()
    d := { d with prevImpl := some si }
  if d.mode == "design" then
    let (tv, n, tk) := typeCheck d si
    d := { d with typeChecked := d.typeChecked + n, tkinds := tk }
    if !tv.isEmpty then bad := bad ++ ["types:" ++ ";".intercalate (tv.take 5)]
  if !bad.isEmpty then
    IO.println s!"PROPFAIL case={d.caseId} step={d.stepNo} variant={d.variant} at={d.lastAt} op=[{d.lastOp}] violated={",".intercalate bad}"
    d := { d with propfails := d.propfails + 1 }
  return { d with g := {}, raw := #[], kinds := #[], gtree := #[] }

partial def loop (h : IO.FS.Stream) (d : DS) : IO DS := do
  let line ← h.getLine
  if line.isEmpty then return d
  let ln := line.trimAscii.toString
  let toks := (ln.splitOn " ").filter (· ≠ "")
  if d.inDump then
    match toks with
    | ["."] => loop h (← finishDump d)
    | "o" :: rest => loop h { d with g := { d.g with order := rest.map pH }, raw := d.raw.push ln }
    | "n" :: _ =>
      let (n, _) := parseNode toks.toArray
      loop h { d with g := { d.g with nodes := d.g.nodes.push n }, raw := d.raw.push ln }
    | "g" :: _ :: _ :: rest => loop h { d with g := { d.g with groups := d.g.groups.push (rest.map pH) }, raw := d.raw.push ln }
    | ["k", _, "x"] =>
      loop h { d with g := { d.g with clocks := d.g.clocks.push [], caches := d.g.caches.push [], calive := d.g.calive.push false, cdrv := d.g.cdrv.push none,
                                       rdrv := d.g.rdrv.push none }, raw := d.raw.push ln }
    | "k" :: _ :: cd :: rd :: n :: rest =>
      let setE := (rest.take (pNat n)).map pNP
      let caE := ((rest.drop (pNat n)).drop 2).map pNP     -- after the marker "c" and the count
      loop h { d with g := { d.g with clocks := d.g.clocks.push setE, caches := d.g.caches.push caE, calive := d.g.calive.push true, cdrv := d.g.cdrv.push (pOH cd),
                                       rdrv := d.g.rdrv.push (pOH rd) }, raw := d.raw.push ln }
    | "gt" :: _ :: par :: _ :: rest =>
      loop h { d with gtree := d.gtree.push (pOH par, rest.map fun s => if s == "!" then deadHandle else pH s) }
    | "t" :: hh :: rest => loop h { d with kinds := d.kinds.push (pNat hh, rest.headD "?", parseKind rest) }
    | _ =>
      IO.println s!"DIFF case={d.caseId} unparsed dump line [{ln}]"
      loop h { d with diffs := d.diffs + 1 }
  else
  match toks with
  | [] => loop h d
  | "#" :: _ => loop h d
  | "case" :: k :: mode :: rest =>
    let v := rest.headD ""
    loop h { d with mode := mode, caseId := k, variant := v, cases := d.cases + 1, sm := State.init, pending := none, prevImpl := none, lastOp := "", lastAt := "", stepNo := 0,
                    variants := if mode == "design" then bump d.variants v else d.variants,
                    flags := (rest.drop 1).foldl bump d.flags }
  | ["end"] => loop h d
  | "D" :: n :: _ => loop h { d with inDump := true, g := { size := pNat n }, raw := #[ln], kinds := #[], gtree := #[] }
  | "at" :: w :: _ => loop h { d with lastAt := w, stepNo := d.stepNo + 1, boundaries := bump d.boundaries w }
  | "rl" :: w :: _ => loop h { d with reallocs := bump d.reallocs w }
  | "sh" :: moved :: _ => loop h { d with flags := bump d.flags (if pNat moved > 0 then "shuffle_changed_order" else "shuffle_identity") }
  | "post" :: w :: _ => loop h { d with res := bump d.res ("post-" ++ w) }
  | "build" :: w :: _ => loop h { d with res := bump d.res ("build-" ++ w) }
  | "op" :: rest =>
    let r : Res State :=
      match rest with
      | "new" :: _ => applyNew d.sm rest
      | _ => match parseOp rest with
        | some ops => applyOps d.sm ops
        | none => .error .ub
    let thr : State :=
      match rest with
      | "new" :: _ => d.sm
      | _ => match parseOp rest with
        | some [op] => afterThrow d.sm op
        | _ => d.sm
    loop h { d with throwSm := thr, pending := some r, lastOp := " ".intercalate rest, ops := d.ops + 1, stepNo := d.stepNo + 1, hist := bump d.hist (rest.headD "?") }
  | ["r", w] =>
    let m := match d.pending with | some r => resName r | none => "?"
    let mut d := { d with res := bump d.res w }
    if w == "skip" then
      -- the harness did not run the call because the real loop would not terminate: the model must say so
      if m != "diverge" then
        IO.println s!"DIFF case={d.caseId} step={d.stepNo} op=[{d.lastOp}] model={m} impl=would-not-terminate"
        d := { d with diffs := d.diffs + 1 }
      loop h { d with pending := none }
    else
      if m != w then
        IO.println s!"DIFF case={d.caseId} step={d.stepNo} op=[{d.lastOp}] outcome model={m} impl={w}"
        d := { d with diffs := d.diffs + 1 }
      loop h d
  | _ =>
    IO.println s!"DIFF case={d.caseId} unparsed line [{ln}]"
    loop h { d with diffs := d.diffs + 1 }

def jsonHist (h : List (String × Nat)) : String :=
  "{" ++ ",".intercalate (h.map fun (k, n) => s!"\"{k}\":{n}") ++ "}"

def main : IO Unit := do
  let d ← loop (← IO.getStdin) {}
  IO.println (s!"SUMMARY \{\"cases\":{d.cases},\"ops\":{d.ops},\"dumps\":{d.dumps},\"diffs\":{d.diffs},\"propfails\":{d.propfails}," ++
    s!"\"max_nodes\":{d.maxNodes},\"type_checked_nodes\":{d.typeChecked},\"hist\":{jsonHist d.hist},\"outcomes\":{jsonHist d.res}," ++
    s!"\"variants\":{jsonHist d.variants},\"design_flags\":{jsonHist d.flags},\"realloc_inside_pass\":{jsonHist d.reallocs},\"boundaries\":{jsonHist d.boundaries},\"kinds\":{jsonHist d.tkinds}}")
