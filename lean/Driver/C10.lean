import GateryModel.C10.Unstable
import Std
/-!
Driver for C10 (two harness streams, see harness/c10.cpp).

* container stream: operation histories on the real `StableSet/StableMap/UnstableMap` instantiations, comparator calls and
  `std::sort` on real nodes / clocks / groups.  The keys arrive as `(null, id, address rank[, port …])`.
  DIFF     = the Lean model (translated comparator + sorted-container model; `runU` for UnstableMap) disagrees with the implementation.
  PROPFAIL = the implementation's iteration is not the id-sorted sequence of the live keys / its `std::sort` output is not id-sorted /
             an UnstableMap observation differs from the address-free reference map `runR`.
* design stream: per generated design the digests of all emitted files + traces per (layout, construction).
  PROPFAIL = two constructions of the same design differ (spec: all digests equal; shuffled node order: traces equal).
  DIFF     = harness inconsistent with itself (digests differ but no mismatch line, or vice versa).
-/
open Gatery.C10 Gatery.Gen.StableCompare

inductive Key where
  | np (k : NodePort)
  | ptr (p : Ptr)
  | rc (c : RegisterConfig)
deriving DecidableEq

def mkPtr (null id addr : Nat) : Ptr := if null == 1 then none else some ⟨id, addr⟩

def Key.skey : Key → List Nat
  | .np k => skeyNodePort k
  | .ptr p => skeyPtr p
  | .rc c => skeyRegisterConfig c

/-- the translated comparator for the case kind -/
def cmpFor (kind : String) (second : Bool) (a b : Key) : M Bool :=
  match kind, a, b with
  | "np", .np x, .np y => if second then cmpRefCtdNodePort x y else cmpNodePort x y
  | "umap", .np x, .np y => cmpNodePort x y
  | "ss", .np x, .np y => cmpStorageSignal ⟨x.node, x.port⟩ ⟨y.node, y.port⟩
  | "node", .ptr x, .ptr y => cmpNodePtr x y
  | "clock", .ptr x, .ptr y => cmpClockPtr x y
  | "group", .ptr x, .ptr y => cmpNodeGroupPtr x y
  | "rc", .rc x, .rc y => cmpRegisterConfig x y
  | _, _, _ => none

structure Stats where
  cases : Nat := 0
  ops : Nat := 0
  diffs : Nat := 0
  propfails : Nat := 0
  hist : Std.HashMap String Nat := {}

def Stats.bump (s : Stats) (k : String) (n : Nat := 1) : Stats := { s with hist := s.hist.insert k (s.hist.getD k 0 + n) }

def kvOf (toks : List String) (key : String) : String :=
  match toks.find? (fun t => t.startsWith (key ++ "=")) with
  | some t => (t.drop (key.length + 1)).toString
  | none => ""

def natsOf (toks : List String) : List Nat := toks.filterMap String.toNat?

def idxOf (keys : Array Key) (k : Key) : Nat := (keys.toList.findIdx? (· == k)).getD 999999

/-- spec for iteration: live keys (by stable-key equality; the first inserted representative stays) sorted by stable key -/
def specIter (keys : Array Key) (ops : List (Bool × Nat)) : List Nat :=
  let live := ops.foldl (fun (acc : List Nat) (o : Bool × Nat) =>
    let sk := (keys.getD o.2 (.ptr none)).skey
    if o.1 then (if acc.any (fun i => (keys.getD i (.ptr none)).skey == sk) then acc else acc ++ [o.2])
    else acc.filter (fun i => (keys.getD i (.ptr none)).skey != sk)) []
  -- insertion sort by lexLt on stable keys
  live.foldl (fun acc i =>
    let sk := (keys.getD i (.ptr none)).skey
    let (lo, hi) := acc.partition (fun j => lexLt (keys.getD j (.ptr none)).skey sk)
    lo ++ [i] ++ hi) []

def modelIter (kind : String) (second : Bool) (keys : Array Key) (ops : List (Bool × Nat)) : List Nat :=
  let lt := ltOf (cmpFor kind second)
  let r := run lt (ops.map fun o => if o.1 then Op.insert (keys.getD o.2 (.ptr none)) else Op.erase (keys.getD o.2 (.ptr none)))
  r.map (idxOf keys)

def sortedBySkey (keys : Array Key) (l : List Nat) : Bool :=
  match l with
  | [] => true
  | _ :: t => (l.zip t).all fun (a, b) => !lexLt (keys.getD b (.ptr none)).skey (keys.getD a (.ptr none)).skey

/-- address key of a NodePort key for the pointer order of UnstableMap<NodePort,…> -/
def akeyOf (keys : Array Key) (i : Nat) : List Nat :=
  match keys.getD i (.ptr none) with
  | .np k => [(k.node.map (·.addr)).getD 0, k.port]
  | _ => [0]

def obsStr : Obs Nat → String
  | .ins b v => s!"ins {if b then 1 else 0} {v.getD 0}"
  | .val v => match v with | some x => s!"find 1 {x}" | none => "find 0 0"
  | .count n => s!"count {n}"
  | .bool b => s!"has {if b then 1 else 0}"
  | .unit => "unit"

def processContainerCase (hdr : List String) (body : Array String) (st : Stats) : IO Stats := do
  let id := hdr.getD 1 "?"
  let kind := kvOf hdr "kind"
  let mut st := { st with cases := st.cases + 1 }
  st := st.bump s!"container_kind_{kind}"
  if kvOf hdr "addr_order_differs_from_id_order" == "1" then st := st.bump "cases_with_address_order_ne_id_order"
  let mut keys : Array Key := #[]     -- ids as reported by getId(): input of the *model* (it replays what the code compares)
  let mut skeys : Array Key := #[]    -- ids := creation index known to the harness: input of the address-free *specification*
  let mut idPairs : List (Nat × Nat) := []   -- (creation index, reported id) of every non-null object seen
  let mut ops : List (Bool × Nat) := []
  let mut uops : List (UOp Nat Nat) := []
  let mut uobs : List String := []
  let mut sin : List Nat := []
  for line in body do
    let toks := line.trimAscii.toString.splitOn " "
    match toks with
    | "k" :: _ :: "np" :: rest =>
      match natsOf rest with
      | [nl, i, a, c, p] =>
        keys := keys.push (.np ⟨mkPtr nl i a, p⟩); skeys := skeys.push (.np ⟨mkPtr nl c a, p⟩)
        if nl == 0 then idPairs := (c, i) :: idPairs
      | _ => pure ()
    | "k" :: _ :: "ptr" :: rest =>
      match natsOf rest with
      | [nl, i, a, c] =>
        keys := keys.push (.ptr (mkPtr nl i a)); skeys := skeys.push (.ptr (mkPtr nl c a))
        if nl == 0 then idPairs := (c, i) :: idPairs
      | _ => pure ()
    | "k" :: _ :: "rc" :: rest =>
      match natsOf rest with
      | [n1, i1, a1, c1, n2, i2, a2, c2, t, r, h] =>
        keys := keys.push (.rc ⟨mkPtr n1 i1 a1, mkPtr n2 i2 a2, t, r, h⟩); skeys := skeys.push (.rc ⟨mkPtr n1 c1 a1, mkPtr n2 c2 a2, t, r, h⟩)
        if n1 == 0 then idPairs := (c1, i1) :: idPairs
        if n2 == 0 then idPairs := (c2, i2) :: idPairs
      | _ => pure ()
    | ["o", "i", x] => ops := ops ++ [(true, x.toNat!)]
    | ["o", "e", x] => ops := ops ++ [(false, x.toNat!)]
    | tag :: rest =>
      if tag == "iter" || tag == "iter2" then
        let impl := natsOf rest
        let second := tag == "iter2"
        st := { st with ops := st.ops + ops.length }
        st := st.bump "container_ops" ops.length
        let model := modelIter kind second keys ops
        if model != impl then
          IO.println s!"DIFF case={id} what=iteration kind={kind} model={model} impl={impl}"
          st := { st with diffs := st.diffs + 1 }
        let spec := specIter skeys ops
        if spec != impl then
          IO.println s!"PROPFAIL case={id} what=container:{kind}:iteration-not-id-sorted spec={spec} impl={impl}"
          st := { st with propfails := st.propfails + 1 }
      else if tag == "c" then
        match natsOf rest with
        | [a, b, r] =>
          st := { st with ops := st.ops + 1 }
          st := st.bump "comparator_calls"
          let ka := keys.getD a (.ptr none); let kb := keys.getD b (.ptr none)
          let m := cmpFor kind false ka kb
          if m != some (r == 1) then
            IO.println s!"DIFF case={id} what=comparator kind={kind} a={a} b={b} model={repr m} impl={r}"
            st := { st with diffs := st.diffs + 1 }
          -- property on the implementation: the result is the comparison of the address-free keys
          if (r == 1) != lexLt (skeys.getD a (.ptr none)).skey (skeys.getD b (.ptr none)).skey then
            IO.println s!"PROPFAIL case={id} what=container:{kind}:comparator-not-by-id a={a} b={b} impl={r}"
            st := { st with propfails := st.propfails + 1 }
        | _ => pure ()
      else if tag == "sin" then sin := natsOf rest
      else if tag == "sout" then
        let impl := natsOf rest
        st := { st with ops := st.ops + 1 }
        st := st.bump "sorts"
        let model := (fromList (ltOf (cmpFor kind false)) (sin.map fun i => keys.getD i (.ptr none))).map (idxOf keys)
        -- keys of the table are pairwise distinct, but several null-node ports are equivalent: compare modulo stable key
        let sk := fun (l : List Nat) => l.map fun i => (skeys.getD i (.ptr none)).skey
        if !(sortedBySkey skeys impl) || impl.length != sin.length || !(impl.all fun i => sin.contains i) then
          IO.println s!"PROPFAIL case={id} what=container:{kind}:sort-not-id-sorted in={sin} out={impl}"
          st := { st with propfails := st.propfails + 1 }
        let dedup := fun (l : List (List Nat)) => l.foldl (fun acc x => if acc.contains x then acc else acc ++ [x]) []
        if dedup (sk impl) != sk model then
          IO.println s!"DIFF case={id} what=sort kind={kind} model={model} impl={impl}"
          st := { st with diffs := st.diffs + 1 }
      else if tag == "u" then
        match rest with
        | ["ins", x, v, ins, after] => uops := uops ++ [.insert x.toNat! v.toNat!]; uobs := uobs ++ [s!"ins {ins} {after}"]
        | ["asg", x, v] => uops := uops ++ [.assign x.toNat! v.toNat!]; uobs := uobs ++ ["unit"]
        | ["find", x, f, v] => uops := uops ++ [.find x.toNat!]; uobs := uobs ++ [s!"find {f} {v}"]
        | ["era", x, n] => uops := uops ++ [.erase x.toNat!]; uobs := uobs ++ [s!"count {n}"]
        | ["has", x, b] => uops := uops ++ [.contains x.toNat!]; uobs := uobs ++ [s!"has {b}"]
        | ["size", n] => uops := uops ++ [.size]; uobs := uobs ++ [s!"count {n}"]
        | ["clr"] => uops := uops ++ [.clear]; uobs := uobs ++ ["unit"]
        | _ => pure ()
      else pure ()
    | _ => pure ()
  -- the ids the comparators rely on: unique per object and increasing in creation order (the harness knows the creation order)
  let badId := idPairs.any fun (c1, i1) => idPairs.any fun (c2, i2) => (c1 < c2 && !(i1 < i2)) || (c1 == c2 && i1 != i2)
  if badId then
    let shown := (idPairs.reverse.take 12).map fun (c, i) => s!"{c}:{i}"
    IO.println s!"PROPFAIL case={id} what=container:{kind}:ids-not-unique-increasing-in-creation-order creation_index:reported_id={shown}"
    st := { st with propfails := st.propfails + 1 }
  st := st.bump "objects_id_checked" idPairs.length
  if kind == "umap" then
    st := { st with ops := st.ops + uops.length }
    st := st.bump "unstable_map_ops" uops.length
    let ltA := fun (i j : Nat) => lexLt (akeyOf keys i) (akeyOf keys j)
    let m := (runU ltA [] uops).map obsStr
    let r := (runR [] uops).map obsStr
    if m != uobs then
      let bad := ((m.zip uobs).zip (List.range m.length)).find? fun ((a, b), _) => a != b
      IO.println s!"DIFF case={id} what=unstable-map first={repr bad}"
      st := { st with diffs := st.diffs + 1 }
    if r != uobs then
      let bad := ((r.zip uobs).zip (List.range r.length)).find? fun ((a, b), _) => a != b
      IO.println s!"PROPFAIL case={id} what=container:umap:observation-differs-from-address-free-reference first={repr bad}"
      st := { st with propfails := st.propfails + 1 }
  return st

def processDesignCase (hdr : List String) (body : Array String) (st : Stats) : IO Stats := do
  let id := hdr.getD 1 "?"
  let family := kvOf hdr "family"
  let exportMode := kvOf hdr "export"
  let mut st := { st with cases := st.cases + 1 }
  st := st.bump s!"family_{family}"
  st := st.bump s!"export_{exportMode}"
  st := st.bump s!"tool_{kvOf hdr "tool"}"
  st := st.bump s!"testbench_recorder_{kvOf hdr "tb"}"
  let mut ref : Option (String × String) := none
  let mut unequal : List String := []
  let mut mismatches : List (List String × String × String) := []
  let mut permProblems : List String := []
  let mut permSeen := 0
  let mut shuffleVariants := 0
  let mut lines := body.toList
  while !lines.isEmpty do
    let line := lines.head!
    lines := lines.tail!
    let toks := line.trimAscii.toString.splitOn " "
    match toks with
    | "variant" :: name :: _ =>
      st := { st with ops := st.ops + 1 }
      let kind := kvOf toks "kind"
      st := st.bump s!"variants_{kind}"
      if kind == "shuffle" then shuffleVariants := shuffleVariants + 1
      let dg := kvOf toks "digest"; let tr := kvOf toks "trace"
      if name == "L0/b0" then ref := some (dg, tr)
      else
        match ref with
        | some (rd, rt) =>
          -- the specification: every construction gives the same files and traces; a shuffled node order the same traces
          if kind == "full" && (dg != rd || tr != rt) then unequal := unequal ++ [name]
          if kind == "shuffle" && tr != rt then unequal := unequal ++ [name]
        | none => unequal := unequal ++ [name]
    | "perm" :: name :: _ =>
      permSeen := permSeen + 1
      let mode := kvOf toks "mode"; let n := (kvOf toks "n").toNat?.getD 0; let moved := (kvOf toks "moved").toNat?.getD 0; let tail := (kvOf toks "tail").toNat?.getD 0
      st := st.bump s!"permutation_{mode}"
      if moved > 0 then st := st.bump "permutations_non_identity"
      -- the permutation is observed, not assumed: it must be a permutation of the same nodes and must not be the identity
      if mode == "" || kvOf toks "same_set" != "1" then permProblems := permProblems ++ [s!"{name}:not-a-permutation-or-missing"]
      else if n > 1 && moved == 0 then permProblems := permProblems ++ [s!"{name}:{mode}:identity(n={n})"]
      else if mode == "library-shuffleNodes" && n >= 16 && (2 * moved < n || tail == 0) then
        permProblems := permProblems ++ [s!"{name}:{mode}:partial(n={n},moved={moved},moved_in_last_quarter={tail})"]
    | "layout" :: _ :: _ =>
      st := st.bump s!"layout_{kvOf toks "name"}"
      if kvOf toks "exit" != "0" then st := st.bump "child_process_failures"
    | "info" :: "nodes" :: n :: _ => st := st.bump "nodes_after_postprocessing" n.toNat!
    | "alloc" :: _ :: "arena_served" :: n :: "shim_active" :: s :: "aslr_off" :: a :: _ =>
      if n != "0" then st := st.bump "children_with_arena_allocator"
      if s == "1" then st := st.bump "children_with_malloc_shim_active"
      if a == "1" then st := st.bump "children_with_aslr_off"
    | "mismatch" :: _ =>
      let a := ((lines.headD "").drop 3).toString.trimAscii.toString
      let b := (((lines.drop 1).headD "").drop 3).toString.trimAscii.toString
      mismatches := mismatches ++ [(toks, a, b)]
    | _ => pure ()
  for (toks, a, b) in mismatches do
    let other := kvOf toks "other"
    let vkind := if ((other.splitOn "/").getD 1 "").startsWith "s" then "node-order-shuffle" else "layout"
    let kind := kvOf toks "kind"
    -- the export mode is part of the class only for file-list differences (they exist only with several files)
    let cls := if kind == "filelist" then s!"{family}:{exportMode}:{vkind}:{kind}" else s!"{family}:{vkind}:{kind}"
    IO.println s!"PROPFAIL case={id} what={cls} ref={kvOf toks "ref"} other={other} file={kvOf toks "file"} line={kvOf toks "line"} A=[{a}] B=[{b}] differing_variants={unequal.length} export={exportMode} tool={kvOf hdr "tool"}"
    st := { st with propfails := st.propfails + 1 }
    st := st.bump s!"propfail_{family}_{kind}"
  if mismatches.isEmpty != unequal.isEmpty then
    -- crash mismatches have no variant line; everything else must be consistent
    if !(mismatches.all fun (t, _, _) => kvOf t "kind" == "crash") || mismatches.isEmpty then
      IO.println s!"DIFF case={id} what=harness-inconsistent unequal_digests={unequal} mismatch_lines={mismatches.length}"
      st := { st with diffs := st.diffs + 1 }
  if permSeen != shuffleVariants then permProblems := permProblems ++ [s!"perm-lines={permSeen} shuffle-variants={shuffleVariants}"]
  if !permProblems.isEmpty then
    -- the "for all permutations of the node list" part of the property would pass vacuously
    IO.println s!"DIFF case={id} what=node-permutation-not-effective problems={permProblems}"
    st := { st with diffs := st.diffs + 1 }
  if ref.isNone then
    IO.println s!"DIFF case={id} what=no-reference-variant"
    st := { st with diffs := st.diffs + 1 }
  return st

partial def readAll (h : IO.FS.Stream) (acc : Array String) : IO (Array String) := do
  let l ← h.getLine
  if l.isEmpty then return acc else readAll h (acc.push l)

def main : IO Unit := do
  let lines ← readAll (← IO.getStdin) #[]
  let mut st : Stats := {}
  let mut hdr : List String := []
  let mut body : Array String := #[]
  let mut inCase := false
  for l in lines do
    let toks := l.trimAscii.toString.splitOn " "
    if toks.head? == some "case" then
      hdr := toks; body := #[]; inCase := true
    else if toks.head? == some "end" && inCase then
      inCase := false
      if (kvOf hdr "family") != "" then st ← processDesignCase hdr body st
      else st ← processContainerCase hdr body st
    else if inCase then body := body.push l
  let hist := ",".intercalate (st.hist.toList.map fun (k, v) => s!"\"{k}\":{v}")
  IO.println s!"SUMMARY \{\"cases\":{st.cases},\"ops\":{st.ops},\"diffs\":{st.diffs},\"propfails\":{st.propfails},\"hist\":\{{hist}}}"
