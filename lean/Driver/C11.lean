import GateryModel.C01.Spec
/-!
Driver for C11: decorations must not change behaviour. For every decorated twin: its pre-post-processing trace must equal the
undecorated twin's exactly; its post-processing trace must satisfy `F` against the undecorated twin's post-processing trace
in both directions (no contradicting defined bit; identical when the reference run is fully defined).
-/
open Gatery.C01

structure Case where
  id : String := ""
  adef : Bool := false
  upre : Trace := []
  upost : Trace := []
  dpre : List (Nat × Trace) := []
  dpost : List (Nat × Trace) := []
  decos : List (Nat × String) := []

structure Stats where
  cases : Nat := 0
  ops : Nat := 0
  diffs : Nat := 0
  propfails : Nat := 0
  twins : Nat := 0
  twinErr : Nat := 0
  adefCases : Nat := 0
  preChanged : Nat := 0
  postChanged : Nat := 0
  hist : List (String × Nat) := []

def bump (h : List (String × Nat)) (k : String) : List (String × Nat) :=
  match h with
  | [] => [(k, 1)]
  | (a, n) :: t => if a == k then (a, n+1) :: t else (a, n) :: bump t k

def addRow (l : List (Nat × Trace)) (i : Nat) (row : List Value) : List (Nat × Trace) :=
  match l with
  | [] => [(i, [row])]
  | (j, t) :: rest => if i == j then (j, t ++ [row]) :: rest else (j, t) :: addRow rest i row

def showRow (r : List Value) : String := " ".intercalate (r.map String.ofList)

def finish (c : Case) (st : Stats) : IO Stats := do
  let mut st := st
  if c.id == "" then return st
  for (i, tr) in c.dpre do
    -- any textual difference before post-processing is a behaviour change (decorations are identities for the simulator)
    let t := (firstBad c.upre tr true).getD 0
    let d := (c.decos.find? (·.1 == i)).map (·.2) |>.getD "?"
    IO.println s!"PROPFAIL case={c.id} what=pre-postprocessing twin={i} deco=[{d}] cycle={t} undecorated=[{showRow (c.upre.getD t [])}] decorated=[{showRow (tr.getD t [])}]"
    st := { st with propfails := st.propfails + 1, preChanged := st.preChanged + 1 }
  for (i, tr) in c.dpost do
    st := { st with postChanged := st.postChanged + 1 }
    if !F c.upost tr c.adef then
      let t := (firstBad c.upost tr c.adef).getD 0
      let d := (c.decos.find? (·.1 == i)).map (·.2) |>.getD "?"
      IO.println s!"PROPFAIL case={c.id} what=post-postprocessing twin={i} deco=[{d}] cycle={t} adef={c.adef} undecorated=[{showRow (c.upost.getD t [])}] decorated=[{showRow (tr.getD t [])}]"
      st := { st with propfails := st.propfails + 1 }
  return st

partial def loop (h : IO.FS.Stream) (c : Case) (st : Stats) : IO Stats := do
  let line ← h.getLine
  if line.isEmpty then finish c st
  else
  let toks := (line.trimAscii.toString.splitOn " ").filter (· ≠ "")
  match toks with
  | "case" :: k :: _ :: adef :: _ =>
    let st ← finish c st
    let ad := adef == "adef=1"
    loop h { id := k, adef := ad } { st with cases := st.cases + 1, adefCases := st.adefCases + (if ad then 1 else 0) }
  | "upre" :: _ :: row => loop h { c with upre := c.upre ++ [row.map String.toList] } st
  | "upost" :: _ :: row => loop h { c with upost := c.upost ++ [row.map String.toList] } st
  | "twin" :: i :: rest =>
    let flags := rest.filter (fun s => s.endsWith "=1")
    let st := flags.foldl (fun s f => { s with hist := bump s.hist (f.dropEnd 2).toString }) st
    loop h { c with decos := c.decos ++ [(i.toNat!, " ".intercalate rest)] } { st with twins := st.twins + 1, ops := st.ops + 2 }
  | "terr" :: _ => loop h c { st with twinErr := st.twinErr + 1 }
  | "dif" :: i :: verdict :: u :: d :: _ =>
    -- the export half, interface level: the exported top entity of the decorated twin has the data ports of the undecorated one
    let deco := (c.decos.lookup i.toNat!).getD ""
    let uu := (u.drop 2).toString; let dd := (d.drop 2).toString
    let st := { st with ops := st.ops + 1, hist := bump st.hist "exported-twin" }
    if verdict == "same" then loop h c st
    else if dd.startsWith "export-threw:" && !uu.startsWith "export-threw:" then
      IO.println s!"PROPFAIL case={c.id} what=export-decorated-throws reason={(dd.drop 13).toString.take 70} twin={i} deco=[{deco}]"
      loop h c { st with propfails := st.propfails + 1 }
    else if uu.startsWith "export-threw:" then loop h c { st with hist := bump st.hist "export-of-undecorated-twin-throws" }
    else
      IO.println s!"PROPFAIL case={c.id} what=export-interface twin={i} undecorated=[{uu}] decorated=[{dd}] deco=[{deco}]"
      loop h c { st with propfails := st.propfails + 1 }
  | "dpre" :: i :: _ :: row => loop h { c with dpre := addRow c.dpre i.toNat! (row.map String.toList) } st
  | "dpost" :: i :: _ :: row => loop h { c with dpost := addRow c.dpost i.toNat! (row.map String.toList) } st
  | ["end"] =>
    let st ← finish c st
    loop h {} st
  | _ => loop h c st

def main : IO Unit := do
  let st ← loop (← IO.getStdin) {} {}
  let hist := ",".intercalate (st.hist.map fun (k, n) => s!"\"{k}\":{n}")
  IO.println s!"SUMMARY \{\"cases\":{st.cases},\"ops\":{st.ops},\"diffs\":{st.diffs},\"propfails\":{st.propfails},\"twins\":{st.twins},\"twins_not_constructible\":{st.twinErr},\"fully_defined_reference_runs\":{st.adefCases},\"twins_with_changed_pre_trace\":{st.preChanged},\"twins_with_textually_changed_post_trace\":{st.postChanged},\"hist\":\{{hist}}}"
