import GateryModel.C12.SpecExec
/-!
Driver for C12: reads the harness protocol on stdin.  For every dumped graph (before and after post-processing) it
replays the clock-domain inference and the per-node check on the model and compares with what the real
`inferClockDomains` / `detectUnguardedCDCCrossings` / `getOutputClockRelation` / `getClockPinSource` produced (`DIFF`),
and evaluates the path-based specification (`Crossing`, via `crossingB`) against the verdict of the real
`design.postprocess()` (`PROPFAIL`: an unmarked / wrongly marked crossing accepted, or a correctly marked design rejected).
-/
open Gatery.C12

structure GraphIn where
  tag : String := ""
  clocks : Array (ClockInfo × Nat) := #[]
  nodes : Array Node := #[]
  nouts : Array Nat := #[]
  types : Array String := #[]
  supported : Bool := true
  order : List Nat := []
  ocr : Array (Option Rel) := #[]
  dom : Array (Option Dom) := #[]
  domErr : Bool := false
  flagged : List Nat := []
  flaggedErr : Bool := false
  gps : List (Nat × Nat) := []                   -- generator's physical-source class of each clock (from what it requested)
  req : List (Nat × List (Option Clk)) := []     -- clock(s) the generator requested at a register / pin / marker / memory port

structure GraphOut where
  implFlagged : Bool := false
  crossing : Bool := false        -- `Crossing g ps`: between clocks, or a hazard of an unbound clock slot
  clockCrossing : Bool := false   -- a crossing between two clock domains
  usable : Bool := false      -- supported node kinds only, closed, order covers all ports
  hasUnknown : Bool := false

structure D where
  caseId : String := ""
  cur : GraphIn := {}
  inGraph : Bool := false
  pre : Option GraphOut := none
  post : Option GraphOut := none
  verdict : String := ""
  intent : Option Bool := none
  multi : Bool := true
  cases : Nat := 0
  graphs : Nat := 0
  ops : Nat := 0
  diffs : Nat := 0
  propfails : Nat := 0
  hist : List (String × Nat) := []
  stats : List (String × Nat) := []

def bumpBy (h : List (String × Nat)) (k : String) (n : Nat) : List (String × Nat) :=
  match h with
  | [] => [(k, n)]
  | (a, m) :: t => if a == k then (a, m + n) :: t else (a, m) :: bumpBy t k n

def D.stat (d : D) (k : String) (n : Nat := 1) : D := { d with stats := bumpBy d.stats k n }

def parseClk (s : String) : Option Clk := if s == "n" || s == "-" then none else some s.toNat!

def parsePortList (l : List String) : List (Option Nat) := l.map fun s => if s == "-" then none else some s.toNat!

def showDom : Option Dom → String
  | none => "-"
  | some .unknown => "u"
  | some .const => "c"
  | some (.clock c) => s!"k{c}"

def parseDom (s : String) : Option Dom :=
  if s == "-" then none else if s == "u" then some .unknown else if s == "c" then some .const
  else some (.clock (s.drop 1).toString.toNat!)

def showRel : Rel → String
  | .clock c => "c " ++ (match c with | none => "n" | some k => toString k)
  | .inputs ds => "i" ++ String.join (ds.map fun | none => " -" | some d => s!" {d}")

/-- evaluate one dumped graph: returns messages and the spec/impl facts needed for the case verdict -/
def evalGraph (caseId : String) (gi : GraphIn) : Array String × GraphOut × List (String × Nat) := Id.run do
  let mut msgs : Array String := #[]
  let mut st : List (String × Nat) := []
  let diff (k : String) (m : String) : String := s!"DIFF case={caseId} graph={gi.tag} kind={k} {m}"
  -- clocks
  let tbl := gi.clocks.map (·.1)
  let ps : Clk → Clk := pinSource tbl
  for i in [0:gi.clocks.size] do
    let impl := (gi.clocks.getD i (default, 0)).2
    if ps i != impl then
      msgs := msgs.push (diff "pinsource" s!"clock={i} model={ps i} impl={impl}")
    if impl != i then st := bumpBy st "clocksSharingPin" 1
  -- the reported partition of the clocks into pin sources against the one the generator asked for (per clock, every design)
  let prop (k : String) (m : String) : String := s!"PROPFAIL case={caseId} graph={gi.tag} kind={k} {m}"
  let gpsOf (c : Nat) : Option Nat := (gi.gps.find? (·.1 == c)).map (·.2)
  for (i, gi_) in gi.gps do
    let implI := (gi.clocks.getD i (default, 0)).2
    let mut bad : Option (Nat × Bool) := none
    for (j, gj) in gi.gps do
      if j < i && bad.isNone then
        let implJ := (gi.clocks.getD j (default, 0)).2
        if (gi_ == gj) != (implI == implJ) then bad := some (j, gi_ == gj)
    match bad with
    | some (j, want) =>
      msgs := msgs.push (prop "pin-partition" s!"clock={i} and clock={j}: requested {if want then "the same" else "different"} physical clock source(s), getClockPinSource says {if want then "different" else "the same"} (pin sources {implI} / {(gi.clocks.getD j (default, 0)).2})")
    | none => pure ()
  st := bumpBy st "clocksCheckedAgainstRequest" gi.gps.length
  -- specification side: clocks are one domain iff the generator requested the same physical source (fallback: the modelled pin source)
  let allKnown := gi.clocks.size > 0 && (List.range gi.clocks.size).all fun c => (gpsOf c).isSome
  let psSpec : Clk → Clk := if allKnown then
      fun c => match gpsOf c with
        | some cl => ((gi.gps.filter (·.2 == cl)).map (·.1)).foldl min c
        | none => c
    else ps
  if allKnown then st := bumpBy st "graphsJudgedWithRequestedSources" 1
  -- graph
  let mut ports : Array (Nat × Nat) := #[]
  for i in [0:gi.nodes.size] do
    for o in [0:gi.nouts.getD i 0] do
      ports := ports.push (i, o)
  let g : Graph := { nodes := gi.nodes, ports := ports }
  let n := ports.size
  st := bumpBy st "nodes" gi.nodes.size
  st := bumpBy st "ports" n
  if !gi.supported then
    st := bumpBy st "unsupportedGraphs" 1
  -- the clock slots of the nodes against the clocks the generator requested there
  for (k, want) in gi.req do
    let have_ : List (Option Clk) := match (gi.nodes.getD k default).kind with
      | .plain (some c) => [c]
      | .plain none => []
      | .memPort c => [c]
      | .noCheck c => [c]
      | .cdc i o => [some i, o]
    if have_ != want then
      msgs := msgs.push (prop "clock-binding" s!"node={k} type={gi.types.getD k "?"} requested={want} bound={have_}")
  st := bumpBy st "nodesCheckedAgainstRequest" gi.req.length
  -- output relations
  for p in [0:n] do
    match gi.ocr.getD p none with
    | none => msgs := msgs.push (diff "rel" s!"port={p} model={showRel (g.rel p)} impl=e")
    | some r =>
      if gi.supported && r != g.rel p then
        msgs := msgs.push (diff "rel" s!"port={p} node={g.owner p} type={gi.types.getD (g.owner p) "?"} model={showRel (g.rel p)} impl={showRel r}")
  -- inference
  let portOrder : List Nat := Id.run do
    let mut first : Array Nat := #[]
    let mut acc := 0
    for i in [0:gi.nodes.size] do
      first := first.push acc
      acc := acc + gi.nouts.getD i 0
    let mut l : Array Nat := #[]
    for k in gi.order do
      for o in [0:gi.nouts.getD k 0] do
        l := l.push (first.getD k 0 + o)
    return l.toList
  let mut modelTotal : Nat → Dom := fun _ => .const
  match infer g (n * n + 2 * n + 16) portOrder with
  | none => msgs := msgs.push (diff "dom" "model=out-of-fuel")
  | some σ =>
    modelTotal := σ.total
    if gi.domErr then msgs := msgs.push (diff "dom" "impl=exception")
    else
      let mut bad : Option Nat := none
      for p in [0:n] do
        if bad.isNone && σ.get p != gi.dom.getD p none then bad := some p
      match bad with
      | some p => msgs := msgs.push (diff "dom" s!"port={p} node={g.owner p} type={gi.types.getD (g.owner p) "?"} model={showDom (σ.get p)} impl={showDom (gi.dom.getD p none)}")
      | none => pure ()
      -- order dependence of the map (not of the verdict): compare with the denotational map
      let mut od := false
      for p in [0:n] do
        if σ.total p != dom g p then od := true
      if od && (g.depths).isSome then st := bumpBy st "orderDependentMaps" 1
    -- flagged nodes
    let mf := g.flagged ps σ.total
    if gi.flaggedErr then msgs := msgs.push (diff "flagged" "impl=exception")
    else if gi.supported && mf != gi.flagged then
      msgs := msgs.push (diff "flagged" s!"model={mf} impl={gi.flagged}")
    st := bumpBy st "flaggedNodes" gi.flagged.length
  -- hypotheses of the theorems, checked on this very graph
  let closed := g.closedB
  let depths := g.depths
  let acyc := match depths with | some dp => g.rankedB (fun p => dp.getD p 0) | none => false
  let covered := (List.range n).all fun p => portOrder.contains p
  if !closed then msgs := msgs.push (diff "wellformed" "dump references a port out of range")
  if !covered then msgs := msgs.push (diff "wellformed" "storage order does not cover all ports")
  if !acyc then st := bumpBy st "cyclicGraphs" 1
  let usable := gi.supported && closed && covered
  let hasUnknown := !g.noUnknownB
  if hasUnknown then st := bumpBy st "graphsWithUnboundClock" 1
  let mut crossing := false
  let mut clockCrossing := false
  if usable then
    let ls := g.labelSets depths
    crossing := g.crossingB psSpec ls
    clockCrossing := g.crossingB psSpec ls true
    -- by `verdict_iff_crossing` the model verdict must agree with the path-based specification (same pin-source function on both sides)
    let mv := g.rejects ps modelTotal
    if mv != g.crossingB ps ls then
      msgs := msgs.push (diff "spec-model" s!"modelRejects={mv} crossingB={g.crossingB ps ls}")
    if acyc && mv != g.rejects ps (dom g) then
      msgs := msgs.push (diff "confluence" s!"modelRejects={mv} domRejects={g.rejects ps (dom g)}")
    let nmark := gi.nodes.foldl (fun a nd => match nd.kind with | .cdc _ _ => a + 1 | _ => a) 0
    st := bumpBy st "markers" nmark
  return (msgs, { implFlagged := !gi.flagged.isEmpty, crossing := crossing, clockCrossing := clockCrossing, usable := usable, hasUnknown := hasUnknown }, st)

def parseNode (toks : List String) : Option (Node × Nat × String × Bool) :=
  match toks with
  | _idx :: nout :: kind :: a :: b :: ty :: "ins" :: ins =>
    let ins := parsePortList ins
    let k : Kind × Bool :=
      if kind == "plain" then (if a == "-" then (.plain none, true) else (.plain (some (parseClk a)), true))
      else if kind == "memport" then (.memPort (parseClk a), true)
      else if kind == "nocheck" then (.noCheck (parseClk a), true)
      else if kind == "cdc" then (.cdc a.toNat! (parseClk b), true)
      else (.plain none, false)
    some (⟨k.1, ins⟩, nout.toNat!, ty, k.2)
  | _ => none

def endCase (d : D) : D × Array String := Id.run do
  let mut d := d
  let mut msgs : Array String := #[]
  match d.pre, d.post with
  | some pre, some post =>
    let thrown := d.verdict == "cdc"
    d := d.stat ("verdict." ++ d.verdict)
    if d.verdict == "cdc" || d.verdict == "ok" then
      -- Circuit::postprocess throws iff the detection (on the post-processed graph) flags a node
      if thrown != post.implFlagged then
        msgs := msgs.push s!"DIFF case={d.caseId} kind=verdict postprocess={d.verdict} flaggedAfterPostprocess={post.implFlagged}"
      if pre.usable && post.usable then
        -- the property, on the design as written and on the graph the check actually sees.  Hazards that involve only unbound
        -- clock slots (no clock domain to cross into; reachable only through the hlim API) are outside the property statement:
        -- for them only the model/implementation comparison above applies.
        if !thrown && pre.clockCrossing then
          msgs := msgs.push s!"PROPFAIL case={d.caseId} kind=crossing-accepted the design as built contains an unmarked/wrongly marked crossing between two clock domains but postprocess() did not throw (crossingAfterPostprocess={post.crossing})"
        else if thrown && !pre.crossing then
          msgs := msgs.push s!"PROPFAIL case={d.caseId} kind=clean-rejected every crossing of the design as built is correctly marked but postprocess() threw the CDC error (crossingAfterPostprocess={post.crossing})"
        else if !thrown && post.clockCrossing then
          msgs := msgs.push s!"PROPFAIL case={d.caseId} kind=crossing-accepted-post the post-processed graph contains a crossing between two clock domains but postprocess() did not throw"
        else if thrown && !post.crossing then
          msgs := msgs.push s!"PROPFAIL case={d.caseId} kind=clean-rejected-post the post-processed graph contains no crossing but postprocess() threw the CDC error"
        if thrown && !pre.clockCrossing then d := d.stat "rejectedOnlyForUnboundClockHazard"
        if !thrown && pre.crossing then d := d.stat "unboundClockHazardGoneAfterOptimisation"
        if pre.crossing != post.crossing then d := d.stat "crossingChangedByOptimisation"
        match d.intent with
        | some i =>
          if i != pre.crossing then
            msgs := msgs.push s!"DIFF case={d.caseId} kind=intent generator={i} crossingB(pre)={pre.crossing}"
        | none => pure ()
        d := d.stat (if pre.crossing then "designs.crossing" else "designs.clean")
        if !d.multi then d := d.stat "designs.singleDomain"
        if pre.hasUnknown then d := d.stat "designs.withUnboundClock"
      else d := d.stat "designs.unusable"
    else d := d.stat "designs.otherError"
  | _, _ => d := d.stat "designs.incomplete"
  return (d, msgs)

partial def loop (h : IO.FS.Stream) (d : D) : IO D := do
  let line ← h.getLine
  if line.isEmpty then return d
  let toks := (line.trimAscii.toString.splitOn " ").filter (· ≠ "")
  match toks with
  | [] => loop h d
  | "#" :: _ => loop h d
  | "case" :: k :: _ =>
    loop h { d with caseId := k, cases := d.cases + 1, pre := none, post := none, verdict := "", intent := none, multi := true, inGraph := false }
  | "builderror" :: _ => loop h (d.stat "builderrors")
  | "errmsg" :: _ => loop h d
  | "gen" :: kvs =>
    let mut d := d
    for kv in kvs do
      match kv.splitOn "=" with
      | [k, v] =>
        if k == "intent" then d := { d with intent := some (v == "1") }
        else if k == "multi" then d := { d with multi := v == "1" }
        else d := { d with hist := bumpBy d.hist k v.toNat! }
      | _ => pure ()
    loop h d
  | ["graph", tag] => loop h { d with cur := { tag := tag }, inGraph := true }
  | "clocks" :: _ => loop h d
  | ["clock", _i, par, sds, sde, nm, fr, ph, ps] =>
    let ci : ClockInfo := { parent := parseClk par, selfDrivenSim := sds == "1", selfDrivenExp := sde == "1", sameName := nm == "1",
                            sameFreq := fr == "1", phaseSync := ph == "1" }
    loop h { d with cur := { d.cur with clocks := d.cur.clocks.push (ci, ps.toNat!) } }
  | "size" :: _ => loop h d
  | "node" :: rest =>
    match parseNode rest with
    | some (nd, nout, ty, sup) =>
      loop h { d with cur := { d.cur with nodes := d.cur.nodes.push nd, nouts := d.cur.nouts.push nout, types := d.cur.types.push ty,
                                          supported := d.cur.supported && sup } }
    | none =>
      IO.println s!"DIFF case={d.caseId} kind=protocol unparsed node line"
      loop h { d with diffs := d.diffs + 1 }
  | "order" :: l => loop h { d with cur := { d.cur with order := l.map (·.toNat!) } }
  | "ocr" :: _p :: "c" :: c :: _ => loop h { d with cur := { d.cur with ocr := d.cur.ocr.push (some (.clock (parseClk c))) } }
  | "ocr" :: _p :: "i" :: l => loop h { d with cur := { d.cur with ocr := d.cur.ocr.push (some (.inputs (parsePortList l))) } }
  | "ocr" :: _ => loop h { d with cur := { d.cur with ocr := d.cur.ocr.push none } }
  | "dom" :: l =>
    if l == ["e"] then loop h { d with cur := { d.cur with domErr := true } }
    else loop h { d with cur := { d.cur with dom := (l.map parseDom).toArray } }
  | "flagged" :: l =>
    if l == ["e"] then loop h { d with cur := { d.cur with flaggedErr := true } }
    else loop h { d with cur := { d.cur with flagged := l.map (·.toNat!) } }
  | ["gps", c, cl] => loop h { d with cur := { d.cur with gps := d.cur.gps ++ [(c.toNat!, cl.toNat!)] } }
  | "req" :: k :: cs => loop h { d with cur := { d.cur with req := (k.toNat!, cs.map parseClk) :: d.cur.req } }
  | ["endgraph"] =>
    let (msgs, out, st) := evalGraph d.caseId d.cur
    msgs.forM IO.println
    let nd := msgs.foldl (fun a m => if m.startsWith "DIFF" then a + 1 else a) 0
    let np := msgs.foldl (fun a m => if m.startsWith "PROPFAIL" then a + 1 else a) 0
    let mut d := { d with graphs := d.graphs + 1, ops := d.ops + d.cur.ocr.size, diffs := d.diffs + nd, propfails := d.propfails + np, inGraph := false }
    for (k, v) in st do d := d.stat k v
    if d.cur.tag == "pre" then d := { d with pre := some out } else d := { d with post := some out }
    loop h d
  | ["postprocess", v] => loop h { d with verdict := v }
  | ["end"] =>
    let (d, msgs) := endCase d
    msgs.forM IO.println
    let nd := msgs.foldl (fun a m => if m.startsWith "DIFF" then a + 1 else a) 0
    let np := msgs.foldl (fun a m => if m.startsWith "PROPFAIL" then a + 1 else a) 0
    loop h { d with diffs := d.diffs + nd, propfails := d.propfails + np }
  | _ =>
    IO.println s!"DIFF case={d.caseId} kind=protocol unparsed line [{line.trimAscii.toString.take 80}]"
    loop h { d with diffs := d.diffs + 1 }

def jsonMap (l : List (String × Nat)) : String :=
  "{" ++ ",".intercalate (l.map fun (k, n) => s!"\"{k}\":{n}") ++ "}"

def main : IO Unit := do
  let d ← loop (← IO.getStdin) {}
  IO.println s!"SUMMARY \{\"cases\":{d.cases},\"graphs\":{d.graphs},\"ops\":{d.ops},\"diffs\":{d.diffs},\"propfails\":{d.propfails},\"hist\":{jsonMap d.hist},\"stats\":{jsonMap d.stats}}"
