import GateryModel.C13.Vhdl
import GateryModel.C13.Comments
/-!
Driver for C13.

`alloc` cases: a scope tree and a request sequence with the names the real `vhdl::NamespaceScope` returned.
  DIFF     = the model (`run` on the translated keyword table) returns something else.
  PROPFAIL = a name returned by the implementation for a legal desired name is not a basic identifier, is a reserved word of
             VHDL-2008 in some letter case, or equals (ignoring case) a name returned earlier for the same scope or an ancestor.
`export` cases: the text of the files a real `vhdl::VHDLExport` wrote for a generated design.
  PROPFAIL = one of the static checks of `C13/Vhdl.lean` fails on the text (illegal identifier, reserved word as identifier,
             duplicate in a declarative region, use before/without declaration, width mismatch, variable read before written,
             unparseable text).
             Additionally every line of the text that contains the marker `Zq7Zq7` (which the harness puts into every line of every
             comment it attaches) must be blank-or-`--`-prefixed (`comment-as-code`).
  DIFF     = the export threw for a design the generator considers valid.
             `name-lost`: a name carried by an object of the exported circuit (`n <kind> <name>` lines: pins, entities, instance
             names, clock and reset pins, named signals/constants) has no trace in the text, i.e. no declared identifier at the
             expected kind of position equals `formatDuplicateName (initialName kind name) k` for any attempt `k` (model functions).
  DIFF     = … or the set of files below the scratch directory is not exactly {design.vhd}; or (split export, one case in three)
             the files are not exactly one `<name>.vhd` per entity / package of the single-file export, or one of them does not
             hold exactly that unit; or an object of the circuit carries a name the generator never requested (`nx`).
`comment` cases: calls of the four comment formatters of the real `DefaultCodeFormatting`.
  DIFF     = the model (`C13/Comments.lean`) writes a different text.
  PROPFAIL = a line of the text the implementation wrote is neither blank nor a `--` comment line (`comment-as-code`).
-/
open Gatery.C13

structure Stats where
  cases : Nat := 0
  allocCases : Nat := 0
  exportCases : Nat := 0
  ops : Nat := 0
  requests : Nat := 0
  malformed : Nat := 0
  diffs : Nat := 0
  propfails : Nat := 0
  suffixed : Nat := 0
  maxAttempt : Nat := 0
  exportExceptions : Nat := 0
  tokens : Nat := 0
  identifiers : Nat := 0
  units : Nat := 0
  processes : Nat := 0
  instances : Nat := 0
  blocks : Nat := 0
  components : Nat := 0
  assignments : Nat := 0
  kinds : List (String × Nat) := []
  positions : List (String × Nat) := []
  problems : List (String × Nat) := []
  nameClasses : List (String × Nat) := []
  commentCalls : Nat := 0
  commentLines : Nat := 0           -- lines written by the formatters (mode 5) that were checked
  markerLines : Nat := 0            -- exported lines carrying the comment marker that were checked
  commentsAttached : List (String × Nat) := []
  formatterKinds : List (String × Nat) := []
  namesExpected : List (String × Nat) := []      -- per kind: names carried by circuit objects
  namesTraced : List (String × Nat) := []        -- per kind: … found at the expected kind of position
  filesSeen : Nat := 0
  splitExports : Nat := 0
  splitFiles : Nat := 0

def bump (h : List (String × Nat)) (k : String) (n : Nat := 1) : List (String × Nat) :=
  match h.find? (·.1 == k) with
  | some _ => h.map fun e => if e.1 == k then (e.1, e.2 + n) else e
  | none => h ++ [(k, n)]

def histJson (h : List (String × Nat)) : String :=
  "{" ++ ",".intercalate (h.map fun (k, v) => s!"\"{k}\":{v}") ++ "}"

def parseKind (s : String) : Option Kind :=
  match s with
  | "sig0" => some (.signal .entityInput) | "sig1" => some (.signal .entityOutput)
  | "sig2" => some (.signal .childEntityInput) | "sig3" => some (.signal .childEntityOutput)
  | "sig4" => some (.signal .registerInput) | "sig5" => some (.signal .registerOutput)
  | "sig6" => some (.signal .attributedSignal) | "sig7" => some (.signal .localSignal)
  | "sig8" => some (.signal .localVariable) | "sig9" => some (.signal .constant)
  | "clk" => some .clock | "rst" => some .reset | "pin" => some .ioPin | "pkg" => some .package | "ent" => some .entity
  | "blk" => some .block | "procc" => some (.process true) | "procn" => some (.process false) | "inst" => some .instance
  | _ => none

def nameClass (n : String) : String :=
  let l := Vhdl.lcs n
  if reserved2008.contains l then (if n == l then "reserved-lower" else if n == String.ofList (n.toList.map Char.toUpper) then "reserved-upper" else "reserved-mixed")
  else "other"

structure Case where
  id : String := ""
  kind : String := ""
  tree : Tree := []
  reqs : Array (Req × String × String) := #[]      -- request, kind token, implementation result
  names : Array (String × String) := #[]            -- export: position, name
  lines : Array String := #[]
  exc : Option String := none
  comments : Array (String × String) := #[]          -- export: where, text
  expected : Array (String × String) := #[]          -- export: kind, name carried by a circuit object
  notRequested : Array (String × String) := #[]
  files : Array String := #[]                        -- every regular file below the scratch directory
  split : Bool := false
  splitExc : Option String := none
  splitFiles : Array (String × Array String) := #[]  -- path, lines
  calls : Array (String × Nat × String × String × String) := #[]   -- formatter kind, indentation, name, comment, output

def hexVal (c : Char) : Nat :=
  if c.isDigit then c.toNat - 48 else if 'a' ≤ c ∧ c ≤ 'f' then c.toNat - 87 else 0

def unhex (s : String) : String :=
  if s == "-" then "" else
  let rec go : List Char → List Char
    | a :: b :: rest => Char.ofNat (hexVal a * 16 + hexVal b) :: go rest
    | _ => []
  String.ofList (go s.toList)

/-- printable rendering of a comment for the replay line -/
def quoteS (s : String) : String :=
  String.join (s.toList.map fun c => if c == '\n' then "\\n" else if c == '\r' then "\\r" else if c == '\t' then "\\t" else String.singleton c)

def marker : String := "Zq7Zq7"

def emit (tag cid msg : String) : IO Unit := IO.println s!"{tag} case={cid} {msg}"

def finishAlloc (c : Case) (st : Stats) : IO Stats := do
  let mut st := { st with allocCases := st.allocCases + 1 }
  let reqs := c.reqs.toList.map (·.1)
  let model := (run c.tree (initState keywordNames c.tree) reqs).2
  let mut idx := 0
  -- earlier results of the implementation: (scope, lower-cased name, original)
  let mut earlier : List (Nat × Name × String) := []
  for ((r, ktok, impl), m) in c.reqs.toList.zip model do
    st := { st with requests := st.requests + 1, ops := st.ops + 1, kinds := bump st.kinds ktok,
                    nameClasses := bump st.nameClasses (nameClass (nameToString r.desired)) }
    let ms := match m with
      | .name n => nameToString n
      | .assertFails => "!e"
      | .loopExhausted => "!loop"
    if ms != impl then
      emit "DIFF" c.id s!"what=alloc req={idx} scope={r.scope} kind={ktok} desired={nameToString r.desired} model={ms} impl={impl}"
      st := { st with diffs := st.diffs + 1 }
    let legal := isBasicId r.desired
    if !legal then st := { st with malformed := st.malformed + 1 }
    if impl == "!e" then
      -- the implementation rejected the request: fine for malformed requests / entity names in non-root scopes (checked by DIFF)
      pure ()
    else if legal then
      let n := bytes impl
      if impl != nameToString (initialName r.kind r.desired) then st := { st with suffixed := st.suffixed + 1 }
      if !isBasicId n then
        emit "PROPFAIL" c.id s!"what=illegal-identifier sig=alloc-illegal-identifier name={impl} req={idx} kind={ktok} desired={nameToString r.desired}"
        st := { st with propfails := st.propfails + 1 }
      if isReserved n then
        emit "PROPFAIL" c.id s!"what=reserved sig={if Gatery.Gen.keywordTable.contains (Vhdl.lcs impl) then "reserved-although-in-table" else s!"reserved:{Vhdl.lcs impl}"} name={Vhdl.lcs impl} returned={impl} req={idx} kind={ktok} desired={nameToString r.desired} (allocate* returned a VHDL-2008 reserved word)"
        st := { st with propfails := st.propfails + 1 }
      let ch := chain c.tree r.scope
      match earlier.find? (fun e => ch.contains e.1 && e.2.1 == lower n) with
      | some e =>
        emit "PROPFAIL" c.id s!"what=duplicate sig=alloc-duplicate name={impl} earlier={e.2.2} earlierScope={e.1} req={idx} scope={r.scope} kind={ktok}"
        st := { st with propfails := st.propfails + 1 }
      | none => pure ()
      earlier := (r.scope, lower n, impl) :: earlier
    idx := idx + 1
  return st

/-- is `ident` what the allocator makes of `initial` (some attempt of `formatDuplicateName`, model function)? -/
def derivedFrom (initial : Name) (ident : String) : Bool :=
  let i := bytes ident
  if i == initial then true
  else if i.length > initial.length + 1 && i.take (initial.length + 1) == initial ++ [95] then
    match (nameToString (i.drop (initial.length + 1))).toNat? with
    | some n => n ≥ 2 && formatDuplicateName initial (n - 1) == i
    | none => false
  else false

def allSigTypes : List SigType := [.entityInput, .entityOutput, .childEntityInput, .childEntityOutput, .registerInput, .registerOutput,
  .attributedSignal, .localSignal, .localVariable, .constant]

/-- (position kinds, initial names) at which a name of the given circuit-object kind must show up -/
def traceSpec (kind : String) (name : Name) : List String × List Name :=
  match kind with
  | "pin" => (["port"], [initialName .ioPin name])
  | "ent" => (["entity"], [initialName .entity name])
  | "inst" => (["inst"], [initialName .instance name])
  | "clk" => (["port", "signal"], [initialName .clock name])
  | "rst" => (["port", "signal"], [initialName .reset name])
  | "sig" => (["port", "signal", "variable", "constant"], allSigTypes.map fun t => initialName (.signal t) name)
  | "const" => (["constant", "port", "signal", "variable"], allSigTypes.map fun t => initialName (.signal t) name)
  | "area" => (["proc", "block"], [initialName (.process true) name, initialName (.process false) name, initialName .block name])
  | _ => ([], [])

def traced (declared : List (String × String)) (kind : String) (name : String) : Bool :=
  let (positions, initials) := traceSpec kind (bytes name)
  declared.any fun (k, ident) => positions.contains k && initials.any fun i => derivedFrom i ident

/-- kinds whose trace is required (the exporter has no legitimate way to drop them); the others are counted only -/
def hardKinds : List String := ["pin", "ent", "inst", "clk", "rst", "sig", "area"]

def finishExport (c : Case) (st : Stats) : IO Stats := do
  let mut st := { st with exportCases := st.exportCases + 1 }
  for (pos, n) in c.names do
    st := { st with positions := bump st.positions pos, nameClasses := bump st.nameClasses (nameClass n) }
  match c.exc with
  | some e =>
    emit "DIFF" c.id s!"what=export-exception text={e}"
    return { st with diffs := st.diffs + 1, exportExceptions := st.exportExceptions + 1 }
  | none =>
    -- files: exactly the single file we asked for
    st := { st with filesSeen := st.filesSeen + c.files.size }
    if c.files.toList != ["design.vhd"] then
      emit "DIFF" c.id s!"what=files expected=[design.vhd] found={c.files.toList}"
      st := { st with diffs := st.diffs + 1 }
    for (k, n) in c.notRequested do
      emit "DIFF" c.id s!"what=name-not-requested kind={k} name={n} (an object of the circuit carries a name the generator did not give it)"
      st := { st with diffs := st.diffs + 1 }
    let rep := Vhdl.checkFile c.lines
    -- every name carried by a circuit object must leave its trace
    if rep.parsed then
      let mut lost := 0
      for (k, n) in c.expected do
        st := { st with namesExpected := bump st.namesExpected k, ops := st.ops + 1 }
        if traced rep.declared k n then st := { st with namesTraced := bump st.namesTraced k }
        else if hardKinds.contains k then
          lost := lost + 1
          st := { st with propfails := st.propfails + 1, problems := bump st.problems "name-lost" }
          if lost ≤ 3 then
            emit "PROPFAIL" c.id s!"what=name-lost sig=name-lost:{k} kind={k} name={n} detail=[no declared identifier at a {(traceSpec k []).1} position is derived from this name]"
      -- split export: one file per entity / package, each holding exactly that unit
      if c.split then
        st := { st with splitExports := st.splitExports + 1, splitFiles := st.splitFiles + c.splitFiles.size }
        match c.splitExc with
        | some e =>
          emit "DIFF" c.id s!"what=split-export-exception text={e}"
          st := { st with diffs := st.diffs + 1 }
        | none =>
          let unitsOf (d : List (String × String)) := (d.filter fun (k, _) => k == "entity" || k == "package").map (·.2)
          let want := (unitsOf rep.declared).map (· ++ ".vhd")
          let have_ := c.splitFiles.toList.map (·.1)
          let srt (l : List String) := (l.toArray.qsort (· < ·)).toList
          if srt want != srt have_ then
            emit "DIFF" c.id s!"what=split-files expected={srt want} found={srt have_}"
            st := { st with diffs := st.diffs + 1 }
          for (path, lines) in c.splitFiles do
            let r2 := Vhdl.checkFile lines
            let us := unitsOf r2.declared
            if !r2.parsed || us.map (· ++ ".vhd") != [path] then
              emit "DIFF" c.id s!"what=split-file-content file={path} units={us} parsed={r2.parsed} problems={(r2.problems.take 2).map (·.detail)}"
              st := { st with diffs := st.diffs + 1 }
    st := { st with tokens := st.tokens + rep.tokens, identifiers := st.identifiers + rep.identifiers, ops := st.ops + rep.identifiers,
                    units := st.units + rep.units, processes := st.processes + rep.processes, instances := st.instances + rep.instances,
                    blocks := st.blocks + rep.blocks, components := st.components + rep.components,
                    assignments := st.assignments + rep.assignments }
    for (w, _) in c.comments do st := { st with commentsAttached := bump st.commentsAttached w }
    -- user comment text (marked) must only appear in comment lines
    let mut ln := 0
    let mut leaks := 0
    for l in c.lines do
      ln := ln + 1
      if (l.splitOn marker).length > 1 then
        st := { st with markerLines := st.markerLines + 1, ops := st.ops + 1 }
        if !Comments.commentedLine l.toList then
          leaks := leaks + 1
          st := { st with propfails := st.propfails + 1, problems := bump st.problems "comment-as-code" }
          if leaks ≤ 3 then
            emit "PROPFAIL" c.id s!"what=comment-as-code sig=comment-as-code:export line={ln} detail=[text of a user comment is not inside a `--` comment] text=[{quoteS l}]"
    -- one line per distinct (what, name), at most 12 per case
    let mut seen : List (String × String) := []
    for p in rep.problems do
      let key := (p.what, Vhdl.lcs p.name)
      if !seen.contains key then
        seen := key :: seen
        st := { st with propfails := st.propfails + 1, problems := bump st.problems p.what }
        if seen.length ≤ 12 then
          let src := (c.lines[p.line - 1]?).getD ""
          let nm := if p.what == "reserved" then Vhdl.lcs p.name else p.name
          -- sig: the shape of the failure (kinds of the two declarations for duplicates, the word for reserved words)
          let kindsOf := (p.detail.splitOn " ").filter fun w => ["port", "signal", "variable", "constant", "component", "label", "entity", "package", "param"].contains w
          let sg := if p.what == "reserved" then (if Gatery.Gen.keywordTable.contains nm then "reserved-although-in-table" else s!"reserved:{nm}") else if p.what == "duplicate" then s!"duplicate:{"/".intercalate (kindsOf.take 2)}" else if p.what == "width" && (p.detail.splitOn "literal").length > 1 then "width:literal" else p.what
          emit "PROPFAIL" c.id s!"what={p.what} sig={sg} name={nm} line={p.line} detail=[{p.detail}] text=[{src.trimAscii.toString}]"
    return st

def finishComment (c : Case) (st : Stats) : IO Stats := do
  let mut st := st
  let mut idx := 0
  for (kind, ind, name, comment, impl) in c.calls do
    st := { st with commentCalls := st.commentCalls + 1, ops := st.ops + 1, formatterKinds := bump st.formatterKinds kind }
    let model := match kind with
      | "entity" => (Comments.formatEntityComment {} name.toList comment.toList).text
      | "block" => (Comments.formatBlockComment {} comment.toList).text
      | "process" => (Comments.formatProcessComment {} ind comment.toList).text
      | _ => (Comments.formatCodeComment {} ind comment.toList).text
    if model != impl then
      emit "DIFF" c.id s!"what=comment-formatter call={idx} kind={kind} indentation={ind} comment=[{quoteS comment}] model=[{quoteS model}] impl=[{quoteS impl}]"
      st := { st with diffs := st.diffs + 1 }
    let lines := impl.splitOn "\n"
    st := { st with commentLines := st.commentLines + lines.length }
    match lines.find? (fun l => !Comments.commentedLine l.toList) with
    | some l =>
      emit "PROPFAIL" c.id s!"what=comment-as-code sig=comment-as-code:{kind} call={idx} indentation={ind} comment=[{quoteS comment}] line=[{quoteS l}] (format{kind.capitalize}Comment wrote comment text outside a `--` comment)"
      st := { st with propfails := st.propfails + 1, problems := bump st.problems "comment-as-code" }
    | none => pure ()
    idx := idx + 1
  return st

def finish (c : Case) (st : Stats) : IO Stats := do
  let st := { st with cases := st.cases + 1 }
  if c.kind == "alloc" then finishAlloc c st
  else if c.kind == "comment" then finishComment c st
  else if c.kind == "export" then finishExport c st
  else do
    emit "DIFF" c.id s!"what=protocol unknown case kind {c.kind}"
    return { st with diffs := st.diffs + 1 }

def optNat (s : String) : Option Nat := if s == "-" then none else s.toNat?

partial def loop (h : IO.FS.Stream) (c : Case) (st : Stats) : IO Stats := do
  let line ← h.getLine
  if line.isEmpty then return st
  let line := (line.dropEndWhile (fun ch => ch == '\n' || ch == '\r')).toString
  if line.startsWith "v " || line == "v" then
    loop h { c with lines := c.lines.push (line.drop 2).toString } st
  else if line.startsWith "w " || line == "w" then
    let sf := c.splitFiles
    let sf := if sf.size == 0 then sf else sf.modify (sf.size - 1) fun (p, ls) => (p, ls.push (line.drop 2).toString)
    loop h { c with splitFiles := sf } st
  else
    let toks := (line.splitOn " ").filter (· != "")
    match toks with
    | "words" :: ws =>
      if ws != reserved2008 then
        IO.println s!"DIFF case=- what=reserved-word-list the harness' word list differs from reserved2008"
        loop h c { st with diffs := st.diffs + 1 }
      else loop h c st
    | ["case", id, kind] => loop h { id := id, kind := kind } st
    | "tree" :: _ :: ps => loop h { c with tree := ps.map optNat } st
    | ["q", sc, k, d, "=>", res] =>
      match parseKind k, sc.toNat? with
      | some kind, some s =>
        let desired := if d == "-" then [] else bytes d
        loop h { c with reqs := c.reqs.push (⟨s, kind, desired⟩, k, res) } st
      | _, _ =>
        IO.println s!"DIFF case={c.id} what=protocol line={line}"
        loop h c { st with diffs := st.diffs + 1 }
    | ["u", pos, n] => loop h { c with names := c.names.push (pos, n) } st
    | ["n", k, n] => loop h { c with expected := c.expected.push (k, if n == "-" then "" else n) } st
    | ["nx", k, n] => loop h { c with notRequested := c.notRequested.push (k, n) } st
    | ["split"] => loop h { c with split := true } st
    | "gx" :: rest => loop h { c with split := true, splitExc := some (" ".intercalate rest) } st
    | ["g", path] => loop h { c with splitFiles := c.splitFiles.push (path, #[]) } st
    | ["c", w, hx] => loop h { c with comments := c.comments.push (w, unhex hx) } st
    | ["k", kind, ind, n, cm, out] =>
      loop h { c with calls := c.calls.push (kind, ind.toNat?.getD 0, unhex n, unhex cm, unhex out) } st
    | "x" :: rest => loop h { c with exc := some (" ".intercalate rest) } st
    | "f" :: rest => loop h { c with files := c.files.push (" ".intercalate rest) } st
    | ["end"] =>
      let st ← finish c st
      loop h {} st
    | _ => loop h c st

def main : IO Unit := do
  let st ← loop (← IO.getStdin) {} {}
  let missing := reserved2008.filter fun w => !Gatery.Gen.keywordTable.contains w
  let extra := Gatery.Gen.keywordTable.filter fun w => !reserved2008.contains w
  let q (l : List String) := "[" ++ ",".intercalate (l.map fun s => s!"\"{s}\"") ++ "]"
  IO.println s!"SUMMARY \{\"cases\":{st.cases},\"alloc_cases\":{st.allocCases},\"export_cases\":{st.exportCases},\"ops\":{st.ops},\"diffs\":{st.diffs},\"propfails\":{st.propfails},\"alloc_requests\":{st.requests},\"alloc_malformed\":{st.malformed},\"alloc_renamed\":{st.suffixed},\"export_exceptions\":{st.exportExceptions},\"vhdl_tokens\":{st.tokens},\"vhdl_identifiers\":{st.identifiers},\"vhdl_units\":{st.units},\"vhdl_processes\":{st.processes},\"vhdl_instances\":{st.instances},\"vhdl_blocks\":{st.blocks},\"vhdl_components\":{st.components},\"vhdl_assignments\":{st.assignments},\"files_seen\":{st.filesSeen},\"split_exports\":{st.splitExports},\"split_files\":{st.splitFiles},\"comment_formatter_calls\":{st.commentCalls},\"comment_formatter_lines\":{st.commentLines},\"exported_comment_lines_checked\":{st.markerLines},\"hist\":\{\"alloc_kinds\":{histJson st.kinds},\"name_positions\":{histJson st.positions},\"name_classes\":{histJson st.nameClasses},\"problems\":{histJson st.problems},\"comments_attached\":{histJson st.commentsAttached},\"circuit_names_expected\":{histJson st.namesExpected},\"circuit_names_traced\":{histJson st.namesTraced},\"formatter_kinds\":{histJson st.formatterKinds}},\"keyword_table_size\":{Gatery.Gen.keywordTable.length},\"reserved2008_size\":{reserved2008.length},\"reserved_words_missing_from_table\":{q missing},\"table_entries_not_reserved\":{q extra}}"
