import GateryModel.C14.Model
/-!
Driver for C14. Per case: the condition network (array of nodes), roots, the implementation's analysis of each root,
its verdicts on all pairs, the derived conjunctions and the circuits it rebuilt.
DIFF = the model (`parse false`, verdict functions, `build`) disagrees with the implementation.
PROPFAIL = a positive verdict / an analysed form / a rebuilt circuit of the implementation is falsified by a valuation.
-/
open Gatery.C14

structure ImplConj where
  undef : Bool
  contra : Bool
  terms : List (Nat × Bool)
  deriving BEq

structure Case where
  id : String := ""
  g : Graph := #[]
  cmps : List (Nat × Nat × Nat) := []     -- comparison atoms: node ↦ (vector, constant)
  roots : Array (Option Nat) := #[]
  impl : Array ImplConj := #[]
  model : Array St := #[]

structure Stats where
  cases : Nat := 0
  ops : Nat := 0            -- verdicts + parses + builds checked
  diffs : Nat := 0
  propfails : Nat := 0
  positives : Nat := 0      -- positive verdicts truth-table checked
  exhaustiveTT : Nat := 0
  sampledTT : Nat := 0
  undefRoots : Nat := 0
  contraRoots : Nat := 0
  sigNodes : Nat := 0
  builds : Nat := 0
  maxLeaves : Nat := 0
  cmpAtoms : Nat := 0

def optNat (s : String) : Option Nat := if s == "-" then none else s.toNat?

def parseNode (toks : List String) : Option CNode :=
  match toks with
  | ["leaf"] => some .leaf | ["cx"] => some .leaf
  | ["cmp", _, _] => some .leaf      -- `vector == constant`: an atom of the analysis; its truth value comes from the vector valuation
  | ["c0"] => some (.const false) | ["c1"] => some (.const true)
  | ["not", a] => some (.not (optNat a))
  | ["sig", a] => some (.sig (optNat a))
  | ["and", a, b] => some (.and (optNat a) (optNat b))
  | ["or", a, b] => some (.or (optNat a) (optNat b))
  | _ => none

def kv (tok key : String) : String := (tok.drop (key.length + 1)).toString

def parseTerms (s : String) : List (Nat × Bool) :=
  if s == "-" then [] else (s.splitOn ",").map fun t =>
    match t.splitOn ":" with
    | [a, b] => (a.toNat!, b == "1")
    | _ => (0, false)

def sortPairs (l : List (Nat × Bool)) : List (Nat × Bool) :=
  l.foldr (fun t acc => let (lo, hi) := acc.partition (fun u => u.1 < t.1); lo ++ [t] ++ hi) []

def stTerms (s : St) : List (Nat × Bool) := sortPairs (s.terms.map fun t => (t.driver, t.negated))

def leavesOf (g : Graph) : List Nat := (List.range g.size).filter fun i => g[i]? == some .leaf

/-- valuations that respect the comparison atoms: every 3-bit value of the (at most two) compared vectors × the given valuations of
    the free atoms; `vec == k` is true exactly for the vector value `k` -/
def withCmps (cmps : List (Nat × Nat × Nat)) (base : List (Nat → Bool)) : List (Nat → Bool) :=
  if cmps.isEmpty then base else
  (List.range 64).flatMap fun vv => base.map fun ρ => fun i =>
    match cmps.find? (·.1 == i) with
    | some (_, v, k) => (if v == 0 then vv % 8 else vv / 8) == k
    | none => ρ i

/-- valuations to try: all of them for ≤ 12 leaves, otherwise 512 pseudo-random ones -/
def valuations0 (leaves : List Nat) (salt : Nat) : List (Nat → Bool) × Bool :=
  let L := leaves.length
  if L ≤ 12 then
    ((List.range (2 ^ L)).map fun m => fun i => match leaves.idxOf? i with | some k => m.testBit k | none => false, true)
  else
    ((List.range 512).map fun m => fun i =>
        let x := (i + 1) * 0x9E3779B97F4A7C15 + (m + 1) * 0xBF58476D1CE4E5B9 + salt
        ((x / 2^17) ^^^ (x / 2^31)) % 2 == 1, false)

def valuationsC (cmps : List (Nat × Nat × Nat)) (leaves : List Nat) (salt : Nat) : List (Nat → Bool) × Bool :=
  let free := leaves.filter fun i => !(cmps.any (·.1 == i))
  let (base, ex) := valuations0 (if free.length ≤ 6 || cmps.isEmpty then free else free.take 6) salt
  (withCmps cmps base, ex && (free.length ≤ 6 || cmps.isEmpty))

def implSem (g : Graph) (ρ : Nat → Bool) (c : ImplConj) : Bool :=
  !c.contra && c.terms.all fun t => eval g ρ t.1 != t.2

def evalPort (g : Graph) (ρ : Nat → Bool) (p : Option Nat) : Bool := match p with | none => true | some i => eval g ρ i

def b2s (b : Bool) : String := if b then "1" else "0"

def showConj (c : ImplConj) : String :=
  s!"u={b2s c.undef} c={b2s c.contra} terms=" ++ ",".intercalate (c.terms.map fun t => s!"{t.1}:{b2s t.2}")

def ofSt (s : St) : ImplConj := ⟨s.undef, s.contra, stTerms s⟩

def toSt (c : ImplConj) : St := { terms := c.terms.map fun t => ⟨t.1, t.2, t.1⟩, undef := c.undef, contra := c.contra }

partial def loop (h : IO.FS.Stream) (c : Case) (st : Stats) (lineNo : Nat) : IO Stats := do
  let line ← h.getLine
  if line.isEmpty then return st
  let toks := (line.trimAscii.toString.splitOn " ").filter (· ≠ "")
  let fail (kind msg : String) : IO Unit := IO.println s!"{kind} case={c.id} line={lineNo} {msg}"
  match toks with
  | "case" :: k :: _ => loop h { id := k } { st with cases := st.cases + 1 } (lineNo+1)
  | "n" :: _ :: rest =>
    match parseNode rest with
    | some n =>
      let isSig := match n with | .sig _ => 1 | _ => 0
      let cmps := match rest with | ["cmp", v, k] => (c.g.size, v.toNat!, k.toNat!) :: c.cmps | _ => c.cmps
      loop h { c with g := c.g.push n, cmps := cmps } { st with sigNodes := st.sigNodes + isSig, cmpAtoms := st.cmpAtoms + (if rest.head? == some "cmp" then 1 else 0) } (lineNo+1)
    | none => fail "DIFF" s!"unparsed node line [{line.trimAscii}]"; loop h c { st with diffs := st.diffs + 1 } (lineNo+1)
  | ["root", _, p] => loop h { c with roots := c.roots.push (optNat p) } st (lineNo+1)
  | ["parse", r, u, ct, ts] =>
    let ic : ImplConj := ⟨kv u "u" == "1", kv ct "c" == "1", parseTerms (kv ts "terms")⟩
    let r := r.toNat!
    let mut st := { st with ops := st.ops + 1 }
    if r < 100 then
      let root := c.roots.getD r none
      let m := parse false c.g root
      if !(ofSt m == ic) then
        fail "DIFF" s!"what=parse root={root} model=[{showConj (ofSt m)}] impl=[{showConj ic}]"
        st := { st with diffs := st.diffs + 1 }
      if ic.undef then st := { st with undefRoots := st.undefRoots + 1 }
      if ic.contra then st := { st with contraRoots := st.contraRoots + 1 }
      -- property: the analysed form means the same as the original condition, for every valuation
      if !ic.undef then
        let leaves := leavesOf c.g
        let (vals, ex) := valuationsC c.cmps leaves lineNo
        st := if ex then { st with exhaustiveTT := st.exhaustiveTT + 1 } else { st with sampledTT := st.sampledTT + 1 }
        st := { st with maxLeaves := max st.maxLeaves leaves.length }
        match vals.find? (fun ρ => evalPort c.g ρ root != implSem c.g ρ ic) with
        | some ρ =>
          let w := " ".intercalate (leaves.map fun l => s!"{l}={b2s (ρ l)}")
          fail "PROPFAIL" s!"what=analysed-form root={root} impl=[{showConj ic}] original={b2s (evalPort c.g ρ root)} analysed={b2s (implSem c.g ρ ic)} valuation=[{w}] sig={st.sigNodes}"
          st := { st with propfails := st.propfails + 1 }
        | none => pure ()
      loop h { c with impl := c.impl.push ic, model := c.model.push m } st (lineNo+1)
    else
      -- derived conjunctions: 100 = intersectTermsWith(0,1), 101 = removeTerms(0, that)
      let a := c.model.getD 0 {}; let b := c.model.getD 1 {}
      let x := intersectTermsWith a b
      let m := if r == 100 then some x else removeTerms a x
      match m with
      | some m =>
        if !(ofSt m == ic) then
          fail "DIFF" s!"what=derived{r} model=[{showConj (ofSt m)}] impl=[{showConj ic}]"
          st := { st with diffs := st.diffs + 1 }
      | none => fail "DIFF" s!"what=derived{r} model=assert impl=[{showConj ic}]"; st := { st with diffs := st.diffs + 1 }
      -- property for intersect: both originals imply the intersection (its terms are a subset of each)
      if r == 100 then
        let leaves := leavesOf c.g
        let (vals, _) := valuationsC c.cmps leaves lineNo
        let ia := c.impl.getD 0 ⟨true, false, []⟩; let ib := c.impl.getD 1 ⟨true, false, []⟩
        if !ia.contra && !ib.contra then
          match vals.find? (fun ρ => (implSem c.g ρ ia && !implSem c.g ρ { ic with contra := false }) || (implSem c.g ρ ib && !implSem c.g ρ { ic with contra := false })) with
          | some _ => fail "PROPFAIL" s!"what=intersect impl=[{showConj ic}]"; st := { st with propfails := st.propfails + 1 }
          | none => pure ()
      loop h c st (lineNo+1)
  | ["pairop", i, j, opeq, opcmp] =>
    -- `operator==` / `operator<=>` of Conjunction (keys of `std::map<Conjunction, …>` caches): "equal" is a conclusion of equality
    -- and must hold for every valuation; both operators must agree
    let ii := i.toNat!; let jj := j.toNat!
    let mut st := { st with ops := st.ops + 1 }
    let e := kv opeq "opeq" == "1"; let cmp := kv opcmp "opcmp" == "1"
    if e != cmp then
      fail "DIFF" s!"what=operators-disagree pair={ii},{jj} opeq={b2s e} opcmp_equal={b2s cmp}"
      st := { st with diffs := st.diffs + 1 }
    if e || cmp then
      let ri := c.roots.getD ii none; let rj := c.roots.getD jj none
      let ia := c.impl.getD ii ⟨true, false, []⟩; let ib := c.impl.getD jj ⟨true, false, []⟩
      let leaves := leavesOf c.g
      let (vals, _) := valuationsC c.cmps leaves lineNo
      st := { st with positives := st.positives + 1 }
      if !ia.undef && !ib.undef then
        match vals.find? (fun ρ => evalPort c.g ρ ri != evalPort c.g ρ rj) with
        | some ρ =>
          let w := " ".intercalate (leaves.map fun l => s!"{l}={b2s (ρ l)}")
          fail "PROPFAIL" s!"what=operator== roots={ri},{rj} values={b2s (evalPort c.g ρ ri)},{b2s (evalPort c.g ρ rj)} valuation=[{w}]"
          st := { st with propfails := st.propfails + 1 }
        | none => pure ()
    loop h c st (lineNo+1)
  | ["pair", i, j, eq, neg, sub, cbt, cbtc] =>
    let i := i.toNat!; let j := j.toNat!
    let a := c.model.getD i {}; let b := c.model.getD j {}
    let impl := [kv eq "eq" == "1", kv neg "neg" == "1", kv sub "sub" == "1", kv cbt "cbt" == "1", kv cbtc "cbtc" == "1"]
    let model := [isEqualTo a b, isNegationOf a b, isSubsetOf a b, cannotBothBeTrue a b, cannotBothBeTrue a b]
    let mut st := { st with ops := st.ops + 1 }
    if impl != model then
      fail "DIFF" s!"what=verdicts pair={i},{j} model={model.map b2s} impl={impl.map b2s}"
      st := { st with diffs := st.diffs + 1 }
    -- property: every positive verdict of the implementation holds for every valuation
    if impl.any id then
      let ri := c.roots.getD i none; let rj := c.roots.getD j none
      let leaves := leavesOf c.g
      let (vals, _) := valuationsC c.cmps leaves lineNo
      st := { st with positives := st.positives + (impl.filter id).length }
      let names := ["isEqualTo", "isNegationOf", "isSubsetOf", "cannotBothBeTrue", "cannotBothBeTrue(cmp)"]
      for (nm, k) in names.zip (List.range 5) do
        if impl.getD k false then
          let bad := vals.find? fun ρ =>
            let x := evalPort c.g ρ ri; let y := evalPort c.g ρ rj
            match k with
            | 0 => x != y
            | 1 => x == y
            | 2 => y && !x          -- i ⊆ j : every term of i is a term of j, so j implies i
            | _ => x && y
          match bad with
          | some ρ =>
            let w := " ".intercalate (leaves.map fun l => s!"{l}={b2s (ρ l)}")
            fail "PROPFAIL" s!"what={nm} roots={ri},{rj} values={b2s (evalPort c.g ρ ri)},{b2s (evalPort c.g ρ rj)} valuation=[{w}] sig={st.sigNodes}"
            st := { st with propfails := st.propfails + 1 }
          | none => pure ()
    loop h c st (lineNo+1)
  | ["built", r, p] =>
    let r := r.toNat!
    let root := c.roots.getD r none
    let outp := optNat p
    let mut st := { st with ops := st.ops + 1, builds := st.builds + 1 }
    -- model: rebuild from the model's analysis on the graph as it was before this build and compare structure
    -- (the implementation's new nodes are already appended to c.g; strip them to get the old graph)
    let m := c.model.getD r {}
    let leaves := leavesOf c.g
    let (vals, _) := valuationsC c.cmps leaves lineNo
    match vals.find? (fun ρ => evalPort c.g ρ root != evalPort c.g ρ outp) with
    | some ρ =>
      let w := " ".intercalate (leaves.map fun l => s!"{l}={b2s (ρ l)}")
      fail "PROPFAIL" s!"what=rebuilt root={root} built={outp} values={b2s (evalPort c.g ρ root)},{b2s (evalPort c.g ρ outp)} valuation=[{w}] sig={st.sigNodes}"
      st := { st with propfails := st.propfails + 1 }
    | none => pure ()
    -- structural comparison with the model's build: find the prefix graph (all nodes below the first node created by this build)
    let nNew := (sortTerms m.terms).foldl (fun acc t => acc + (if t.negated then 1 else 0)) 0 + ((sortTerms m.terms).length - 1)
      + (if m.terms.isEmpty && r % 2 == 1 then 1 else 0)
    let oldSize := c.g.size - nNew
    let (g', o') := build (c.g.extract 0 oldSize) m (r % 2 == 0)
    if !(g' == c.g && o' == outp) then
      fail "DIFF" s!"what=build root={root} model_out={o'} impl_out={outp} model_nodes={g'.size} impl_nodes={c.g.size}"
      st := { st with diffs := st.diffs + 1 }
    loop h c st (lineNo+1)
  | ["end"] =>
    if !c.g.wfb then
      fail "DIFF" "what=graph-not-topological"
      loop h {} { st with diffs := st.diffs + 1 } (lineNo+1)
    else loop h {} { st with sigNodes := st.sigNodes } (lineNo+1)
  | _ => loop h c st (lineNo+1)

def main : IO Unit := do
  let st ← loop (← IO.getStdin) {} {} 1
  IO.println s!"SUMMARY \{\"cases\":{st.cases},\"ops\":{st.ops},\"diffs\":{st.diffs},\"propfails\":{st.propfails},\"positive_verdicts_checked\":{st.positives},\"exhaustive_truth_tables\":{st.exhaustiveTT},\"sampled_truth_tables\":{st.sampledTT},\"undefined_roots\":{st.undefRoots},\"contradicting_roots\":{st.contraRoots},\"signal_nodes\":{st.sigNodes},\"builds\":{st.builds},\"max_leaves\":{st.maxLeaves},\"comparison_atoms\":{st.cmpAtoms}}"
