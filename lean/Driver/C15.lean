import GateryModel.C15.Spec
import GateryModel.C15.Gray
import GateryModel.C15.Array
import GateryModel.C15.Trans
/-!
Driver for C15: reads the harness protocol (harness/c15.cpp) on stdin.

For every case it
* recomputes the configuration the library chose (depth, latencies, design-check failure) from the request with
  the model (`mkCfg`) and compares (`DIFF … what=config`),
* replays every event on the model (`Gatery.C15.step`) and compares all interface values before each edge
  (`DIFF`; only the first difference of a case is reported, the model cannot resynchronise),
* evaluates the queue specification (`Gatery.C15.qcheck`) on the IMPLEMENTATION's trace (`PROPFAIL kind=…`;
  only the first violating event of a case is reported — afterwards the abstract queue is out of step).
-/
open Gatery.C15

structure Hist where
  kv : List (String × Nat) := []

def Hist.bump (h : Hist) (k : String) (n : Nat := 1) : Hist :=
  let rec go : List (String × Nat) → List (String × Nat)
    | [] => [(k, n)]
    | (a, m) :: t => if a == k then (a, m + n) :: t else (a, m) :: go t
  ⟨go h.kv⟩

def Hist.json (h : Hist) : String :=
  "{" ++ ",".intercalate (h.kv.map fun (k, n) => s!"\"{k}\":{n}") ++ "}"

def knownAfKind : String := "af-optimistic-level-eq-depth-before-first-push-edge"

structure Case where
  id : String := ""
  cfg : Cfg := { k := 0, lw := 1, lr := 1 }
  w : Nat := 1
  st : State String := init { k := 0, lw := 1, lr := 1 } "x"
  q : QState String := {}
  modelOk : Bool := true      -- false after the first DIFF of the case
  dual : Bool := false
  req : Nat := 0              -- the minimum depth the user requested (NOT the depth the FIFO reports)
  trans : Bool := false       -- case drives scl::TransactionalFifo
  tst : TState String := tinit { k := 0, lw := 1, lr := 1 } "x"
  tq : TSpec String := {}
  arr : Bool := false         -- case drives scl::FifoArray
  ast : ArrState String := []
  aqs : List (List String) := []
  gray : Bool := false        -- case ties grayEncode/grayDecode at width `w`
  stream : Bool := false      -- case drives strm::fifo (ready/valid wrapper)
  fall : Bool := false
  knownSeen : Bool := false   -- the known almost-full corner was already reported for this case
  specOk : Bool := true       -- false after the first PROPFAIL event of the case (the abstract queue is then out of step)
  active : Bool := false
  events : Nat := 0
  seenWrapP : Nat := 0
  line0 : Nat := 0

structure D where
  cs : Case := {}
  cases : Nat := 0
  errcases : Nat := 0
  events : Nat := 0
  diffs : Nat := 0
  propfails : Nat := 0
  hist : Hist := {}
  cov : Hist := {}

def field (toks : List String) (key : String) : Option String :=
  toks.findSome? fun t => if t.startsWith (key ++ "=") then some (t.drop (key.length + 1)).toString else none

def parseLat (s : String) : Option LatReq :=
  if s == "D" then some .dontCare
  else
    let n := (s.drop 1).toString.toNat?.getD 0
    if s.startsWith "S" then some (.specific n)
    else if s.startsWith "L" then some (.atLeast n)
    else if s.startsWith "M" then some (.atMost n)
    else none

def bitsOf (n w : Nat) : String :=
  String.ofList ((List.range w).reverse.map fun i => if n.testBit i then '1' else '0')

def b (s : String) : Bool := s == "1"
def bs (x : Bool) : String := if x then "1" else "0"

def startCase (d : D) (toks : List String) (lineNo : Nat) : IO D := do
  let id := toks.getD 1 "?"
  let get (k : String) : String := (field toks k).getD "0"
  let minD := (get "min").toNat!
  let dual := get "dual" == "1"
  let w := (get "w").toNat!
  let lat := (parseLat (get "lat")).getD .dontCare
  let model := mkCfg minD dual lat
  let mut d := { d with cases := d.cases + 1 }
  if field toks "mode" == some "trans" then
    d := { d with hist := (d.hist.bump "trans").bump s!"trans_lat_{(get "lat").take 1}" }
    match field toks "err", model with
    | none, some m =>
      let implCfg : Cfg := { k := (get "k").toNat!, lw := (get "lw").toNat!, lr := (get "lr").toNat! }
      let mut ok := true
      if m.k != implCfg.k || m.lw != implCfg.lw || m.lr != implCfg.lr then
        IO.println s!"DIFF case={id} line={lineNo} what=config model={repr m} impl={repr implCfg}"
        d := { d with diffs := d.diffs + 1 }; ok := false
      let x := String.ofList (List.replicate w 'x')
      return { d with hist := d.hist.bump s!"trans_lw{implCfg.lw}",
                      cs := { id := id, cfg := implCfg, w := w, active := true, trans := true, tst := tinit implCfg x, tq := { req := minD, lr := implCfg.lr }, modelOk := ok, req := minD, line0 := lineNo } }
    | err, m =>
      IO.println s!"DIFF case={id} line={lineNo} what=config model={repr m} impl=err:{err}"
      return { d with diffs := d.diffs + 1, errcases := d.errcases + 1, cs := { id := id, active := false } }
  if field toks "mode" == some "array" then
    let kf := (get "kf").toNat!
    let c : Cfg := { k := (get "k").toNat!, lw := 1, lr := 1 }
    let x := String.ofList (List.replicate w 'x')
    return { d with hist := ((d.hist.bump "array").bump s!"array_fifos{2^kf}").bump s!"array_depth{c.N}",
                    cs := { id := id, cfg := c, w := w, active := true, arr := true, ast := arrInit kf c x,
                            aqs := List.replicate (2^kf) [], line0 := lineNo } }
  if field toks "mode" == some "gray" then
    return { d with hist := (d.hist.bump "gray").bump s!"gray_w{w}", cs := { id := id, w := w, active := true, gray := true, line0 := lineNo } }
  if field toks "mode" == some "stream" then
    d := { d with hist := (d.hist.bump "stream").bump s!"stream_lat_{get "lat"}" }
    match field toks "err", mkCfg minD false (streamInnerLat lat) with
    | none, some m =>
      let x := String.ofList (List.replicate w 'x')
      return { d with cs := { id := id, cfg := m, w := w, st := init m x, q := {}, active := true, stream := true, req := minD,
                              fall := streamFallThrough lat, line0 := lineNo } }
    | err, m =>
      IO.println s!"DIFF case={id} line={lineNo} what=config model={repr m} impl=err:{err}"
      return { d with diffs := d.diffs + 1, errcases := d.errcases + 1, cs := { id := id, active := false } }
  d := { d with hist := (d.hist.bump (if dual then "dual" else "single")).bump s!"lat_{(get "lat").take 1}" }
  match field toks "err" with
  | some err =>
    d := { d with errcases := d.errcases + 1, hist := d.hist.bump "rejected" }
    if model.isSome || err != "e" then
      IO.println s!"DIFF case={id} line={lineNo} what=config model={repr model} impl=err:{err}"
      d := { d with diffs := d.diffs + 1 }
    return { d with cs := { id := id, active := false } }
  | none =>
    let implCfg : Cfg := { k := (get "k").toNat!, lw := (get "lw").toNat!, lr := (get "lr").toNat! }
    let mut ok := true
    match model with
    | some m =>
      if m.k != implCfg.k || m.lw != implCfg.lw || m.lr != implCfg.lr || 2 ^ m.k != (get "N").toNat! then
        IO.println s!"DIFF case={id} line={lineNo} what=config model={repr m} impl={repr implCfg}"
        d := { d with diffs := d.diffs + 1 }; ok := false
    | none =>
      IO.println s!"DIFF case={id} line={lineNo} what=config model=err impl={repr implCfg}"
      d := { d with diffs := d.diffs + 1 }; ok := false
    d := { d with hist := (d.hist.bump s!"k{implCfg.k}").bump s!"lw{implCfg.lw}" }
    let x := String.ofList (List.replicate w 'x')
    return { d with cs := { id := id, cfg := implCfg, w := w, st := init implCfg x, q := {}, modelOk := ok, active := true, dual := dual, req := minD, line0 := lineNo } }

def showOut (c : Cfg) (o : Out String) : String :=
  s!"{bs o.full} {bs o.pushValid} {bs o.af} {bitsOf o.pushSize (c.k+1)} | {bs o.empty} {bs o.popValid} {bs o.ae} {bitsOf o.popSize (c.k+1)} {o.peek}"

def binVal (s : String) : Nat := s.foldl (fun a ch => 2 * a + (if ch == '1' then 1 else 0)) 0

def doEvent (d : D) (toks : List String) (lineNo : Nat) : IO D := do
  let cs := d.cs
  if !cs.active then return d
  match toks with
  | [_, pc, qc, pr, qr, push, data, afl, pop, ael, _, full, pvalid, af, psize, _, empty, qvalid, ae, qsize, peek] =>
    let c := cs.cfg
    let e : Ev String := { pushClk := b pc, popClk := b qc, pushRst := b pr, popRst := b qr, pushReq := b push, data := data,
                           afLevel := afl.toNat!, popReq := b pop, aeLevel := ael.toNat! }
    let oi : Out String := { full := b full, pushValid := b pvalid, af := b af, pushSize := binVal psize,
                             empty := b empty, popValid := b qvalid, ae := b ae, popSize := binVal qsize, peek := peek }
    let mut d := { d with events := d.events + 1 }
    let mut cs := cs
    -- model vs implementation
    if cs.modelOk then
      let om := outputs c cs.st e
      let sm := showOut c om
      let si := s!"{full} {pvalid} {af} {psize} | {empty} {qvalid} {ae} {qsize} {peek}"
      if sm != si then
        IO.println s!"DIFF case={cs.id} line={lineNo} event={cs.events} what=outputs model=[{sm}] impl=[{si}]"
        d := { d with diffs := d.diffs + 1 }
        cs := { cs with modelOk := false }
      else
        cs := { cs with st := step c cs.st e }
    -- specification vs implementation
    let fillBefore := cs.q.queue.length
    let (viol, q') := if cs.specOk then qcheck c.N c.M c.lw cs.req c.lr cs.q e oi else ([], cs.q)
    -- the known corner (flag only, the abstract queue stays in step) is reported once per case and does not end the spec check
    let (kn, other) := viol.partition (· == knownAfKind)
    let viol := (if cs.knownSeen then [] else kn) ++ other
    for v in viol do
      IO.println s!"PROPFAIL case={cs.id} line={lineNo} event={cs.events} kind={v} dual={if cs.dual then 1 else 0} fill={fillBefore} N={c.N} lw={c.lw} ev=[{" ".intercalate toks}]"
      d := { d with propfails := d.propfails + 1 }
    if !kn.isEmpty then cs := { cs with knownSeen := true }
    if !other.isEmpty then cs := { cs with specOk := false }
    -- coverage of the boundary situations
    let mut cov := d.cov
    if e.pushRst || e.popRst then cov := cov.bump "reset_events"
    else
      if e.pushClk && e.popClk then cov := cov.bump "both_edges" else if e.pushClk then cov := cov.bump "push_edge_only" else cov := cov.bump "pop_edge_only"
      if e.pushClk && e.pushReq && fillBefore == c.N then cov := cov.bump "push_attempt_at_capacity"
      if e.popClk && e.popReq && fillBefore == 0 then cov := cov.bump "pop_attempt_at_none"
      if e.pushClk && e.popClk && e.pushReq && e.popReq && fillBefore == c.N then cov := cov.bump "push_and_pop_at_capacity"
      if e.pushClk && e.popClk && e.pushReq && e.popReq && fillBefore == 0 then cov := cov.bump "push_and_pop_at_none"
      if e.pushClk && oi.pushValid then
        cov := cov.bump "accepted"
        if (q'.acc) % c.M == 0 then cov := cov.bump "put_pointer_wraps"
        if cs.dual then
          if (q'.acc) % c.M ≥ 256 then cov := cov.bump "accepts_with_put_pointer_ge_256"
          if (q'.acc) % c.M ≥ 512 then cov := cov.bump "accepts_with_put_pointer_ge_512"
      if e.popClk && oi.popValid then cov := cov.bump "yielded"
      if oi.full then cov := cov.bump "events_full_flag"
      if !oi.empty then cov := cov.bump "events_nonempty_flag"
    d := { d with cov := cov }
    return { d with cs := { cs with q := q', events := cs.events + 1 } }
  | _ =>
    IO.println s!"DIFF case={cs.id} line={lineNo} what=unparsed-event"
    return { d with diffs := d.diffs + 1 }

def doStreamEvent (d : D) (toks : List String) (lineNo : Nat) : IO D := do
  let cs := d.cs
  if !cs.active then return d
  match toks with
  | [_, rst, inValid, data, outReady, _, inReady, outValid, outData] =>
    let c := cs.cfg
    let mut d := { d with events := d.events + 1 }
    let mut cs := cs
    if cs.modelOk then
      let om := streamOutputs cs.fall cs.st (b inValid) data
      let sm := s!"{bs om.inReady} {bs om.outValid} {om.outData}"
      let si := s!"{inReady} {outValid} {outData}"
      -- out_data is only meaningful while out_valid
      let same := bs om.inReady == inReady && bs om.outValid == outValid && (!om.outValid || om.outData == outData)
      if !same then
        IO.println s!"DIFF case={cs.id} line={lineNo} event={cs.events} what=stream-outputs model=[{sm}] impl=[{si}]"
        d := { d with diffs := d.diffs + 1 }
        cs := { cs with modelOk := false }
      else
        cs := { cs with st := step c cs.st (streamEvent cs.fall cs.st (b rst) (b inValid) data (b outReady)) }
    let fillBefore := cs.q.queue.length
    let (viol, q') := if cs.specOk then scheck c.N c.lw cs.req c.lr cs.fall cs.q (b rst) (b inValid) data (b outReady) (b inReady) (b outValid) outData
                      else ([], cs.q)
    for v in viol do
      IO.println s!"PROPFAIL case={cs.id} line={lineNo} event={cs.events} kind={v} fill={fillBefore} N={c.N} lw={c.lw} ev=[{" ".intercalate toks}]"
      d := { d with propfails := d.propfails + 1 }
    if !viol.isEmpty then cs := { cs with specOk := false }
    let mut cov := d.cov
    if b rst then cov := cov.bump "reset_events"
    else
      cov := cov.bump "stream_cycles"
      let acc := b inValid && b inReady
      let yld := b outValid && b outReady
      if acc then cov := cov.bump "stream_accepted"
      if yld then cov := cov.bump "stream_yielded"
      if acc && yld && fillBefore == 0 then cov := cov.bump "stream_fallthrough_beats"
      if b inValid && !(b inReady) then cov := cov.bump "stream_backpressure_at_capacity"
    d := { d with cov := cov }
    return { d with cs := { cs with q := q', events := cs.events + 1 } }
  | _ =>
    IO.println s!"DIFF case={cs.id} line={lineNo} what=unparsed-event"
    return { d with diffs := d.diffs + 1 }

def toBits (s : String) : Gray.Bits := s.toList.map (· == '1')
def ofBits (v : Gray.Bits) : String := String.ofList (v.map fun x => if x then '1' else '0')

/-- `g <x> <enc> <dec> <rt>`: model vs implementation for both primitives, and the round trip on the implementation -/
def doGray (d : D) (toks : List String) (lineNo : Nat) : IO D := do
  let cs := d.cs
  if !cs.active then return d
  match toks with
  | [_, x, enc, dec, rt] =>
    let v := toBits x
    let mut d := { d with events := d.events + 1, cov := d.cov.bump "gray_values" }
    let mut cs := cs
    let me := ofBits (Gray.grayEncode v)
    let md := ofBits (Gray.grayDecode v)
    let mr := ofBits (Gray.grayDecode (Gray.grayEncode v))
    if cs.modelOk && (me != enc || md != dec || mr != rt || x.length != cs.w) then
      IO.println s!"DIFF case={cs.id} line={lineNo} what=gray w={cs.w} x={x} model=[{me} {md} {mr}] impl=[{enc} {dec} {rt}]"
      d := { d with diffs := d.diffs + 1 }
      cs := { cs with modelOk := false }
    if cs.specOk && rt != x then
      IO.println s!"PROPFAIL case={cs.id} line={lineNo} kind=gray-roundtrip w={cs.w} x={x} grayEncode={enc} grayDecode_of_that={rt}"
      d := { d with propfails := d.propfails + 1 }
      cs := { cs with specOk := false }
    return { d with cs := cs }
  | _ =>
    IO.println s!"DIFF case={cs.id} line={lineNo} what=unparsed-event"
    return { d with diffs := d.diffs + 1 }

/-- `a <rst> <push> <pushSel> <data> <pop> <popSel> | <full> <empty> <size> <peek>` -/
def doArray (d : D) (toks : List String) (lineNo : Nat) : IO D := do
  let cs := d.cs
  if !cs.active then return d
  match toks with
  | [_, rst, push, pushSel, data, pop, popSel, _, full, empty, size, peek] =>
    let c := cs.cfg
    let x := String.ofList (List.replicate cs.w 'x')
    let e : AEv String := { rst := b rst, push := b push, pushSel := pushSel.toNat!, data := data, pop := b pop, popSel := popSel.toNat! }
    let oi : AOut String := { full := b full, empty := b empty, size := binVal size, peek := peek }
    let mut d := { d with events := d.events + 1 }
    let mut cs := cs
    if cs.modelOk then
      let om := arrOutputs c x cs.ast e
      -- peek is a don't-care while empty
      let same := bs om.full == full && bs om.empty == empty && bitsOf om.size (c.k+1) == size && (om.empty || om.peek == peek)
      if !same then
        IO.println s!"DIFF case={cs.id} line={lineNo} event={cs.events} what=array-outputs model=[{bs om.full} {bs om.empty} {bitsOf om.size (c.k+1)} {om.peek}] impl=[{full} {empty} {size} {peek}]"
        d := { d with diffs := d.diffs + 1 }
        cs := { cs with modelOk := false }
      else if !e.rst then
        cs := { cs with ast := arrStep c cs.ast e }
    let fp := ((cs.aqs[e.pushSel]?).getD []).length
    let fq := ((cs.aqs[e.popSel]?).getD []).length
    let (viol, qs') := if cs.specOk then acheck c.N cs.aqs e oi else ([], cs.aqs)
    for v in viol do
      IO.println s!"PROPFAIL case={cs.id} line={lineNo} event={cs.events} kind={v} fillPushSel={fp} fillPopSel={fq} N={c.N} ev=[{" ".intercalate toks}]"
      d := { d with propfails := d.propfails + 1 }
    if !viol.isEmpty then cs := { cs with specOk := false }
    let mut cov := d.cov
    if e.rst then cov := cov.bump "reset_events"
    else
      cov := cov.bump "array_cycles"
      if e.pushSel != e.popSel then cov := cov.bump "array_selectors_differ"
      if e.push && !oi.full then cov := cov.bump "array_accepted"
      if e.pop && !oi.empty then cov := cov.bump "array_yielded"
      if e.push && fp == c.N then cov := cov.bump "array_push_attempt_at_capacity"
      if e.push && fp == c.N && e.pushSel != e.popSel && fq != c.N then cov := cov.bump "array_push_at_capacity_other_fifo_popsel"
      if e.pop && fq == 0 then cov := cov.bump "array_pop_attempt_at_none"
      if e.pop && fq == 0 && e.pushSel != e.popSel && fp != 0 then cov := cov.bump "array_pop_at_none_other_fifo_pushsel"
      if e.push && e.pop && e.pushSel == e.popSel then cov := cov.bump "array_push_pop_same_fifo"
    d := { d with cov := cov }
    return { d with cs := { cs with aqs := qs', events := cs.events + 1 } }
  | _ =>
    IO.println s!"DIFF case={cs.id} line={lineNo} what=unparsed-event"
    return { d with diffs := d.diffs + 1 }

/-- `x <rst> <push> <data> <pushCommit> <pushRollback> <cutoff> <pop> <popCommit> <popRollback> | <full> <pvalid> <psize> | <empty> <qvalid> <qsize> <peek>` -/
def doTrans (d : D) (toks : List String) (lineNo : Nat) : IO D := do
  let cs := d.cs
  if !cs.active then return d
  match toks with
  | [_, rst, push, data, pc, pr, cut, afl, pop, qc, qr, ael, _, full, pvalid, psize, af, _, empty, qvalid, qsize, ae, peek] =>
    let c := cs.cfg
    let e : TEv String := { rst := b rst, pushReq := b push, data := data, pushCommit := b pc, pushRollback := b pr, cutoff := cut.toNat!,
                            afLevel := afl.toNat!, popReq := b pop, popCommit := b qc, popRollback := b qr, aeLevel := ael.toNat! }
    let oi : TOut String := { full := b full, pushValid := b pvalid, pushSize := binVal psize, af := b af, empty := b empty, popValid := b qvalid,
                              popSize := binVal qsize, ae := b ae, peek := peek }
    let mut d := { d with events := d.events + 1 }
    let mut cs := cs
    if cs.modelOk then
      let om := toutputs c cs.tst e
      let sm := s!"{bs om.full} {bs om.pushValid} {bitsOf om.pushSize (c.k+1)} {bs om.af} | {bs om.empty} {bs om.popValid} {bitsOf om.popSize (c.k+1)} {bs om.ae} {om.peek}"
      let si := s!"{full} {pvalid} {psize} {af} | {empty} {qvalid} {qsize} {ae} {peek}"
      if sm != si then
        IO.println s!"DIFF case={cs.id} line={lineNo} event={cs.events} what=trans-outputs model=[{sm}] impl=[{si}]"
        d := { d with diffs := d.diffs + 1 }
        cs := { cs with modelOk := false }
      else if !e.rst then
        cs := { cs with tst := tstep c cs.tst e }
    let q := cs.tq
    let (viol, q') := if cs.specOk then tcheck c.N c.M c.lw q e oi else ([], q)
    let (kn, other) := viol.partition (· == knownAfKind)
    let viol := (if cs.knownSeen then [] else kn) ++ other
    for v in viol do
      IO.println s!"PROPFAIL case={cs.id} line={lineNo} event={cs.events} kind={v} committed={q.com.length} tentativePushed={q.tent.length} popCommitted={q.gc} popTentative={q.gt} N={c.N} lw={c.lw} ev=[{" ".intercalate toks}]"
      d := { d with propfails := d.propfails + 1 }
    if !kn.isEmpty then cs := { cs with knownSeen := true }
    if !other.isEmpty then cs := { cs with specOk := false }
    let mut cov := d.cov
    if e.rst then cov := cov.bump "reset_events"
    else
      cov := cov.bump "trans_cycles"
      if oi.pushValid then cov := cov.bump "trans_accepted"
      if oi.popValid then cov := cov.bump "trans_yielded"
      if e.pc then cov := cov.bump "trans_push_commits"
      if e.pc && e.cutoff > 0 then cov := cov.bump "trans_push_commits_with_cutoff"
      if e.pr then cov := cov.bump "trans_push_rollbacks"
      if e.qc then cov := cov.bump "trans_pop_commits"
      if e.qr then cov := cov.bump "trans_pop_rollbacks"
      if e.qr && oi.popValid then cov := cov.bump "trans_pop_with_rollback_same_cycle"
      if e.qr && oi.popValid && q.gt > 0 then cov := cov.bump "trans_pop_with_rollback_after_tentative_pops"
      if e.pr && oi.pushValid then cov := cov.bump "trans_push_with_rollback_same_cycle"
      if e.pushCommit && e.pushRollback then cov := cov.bump "trans_push_commit_and_rollback_same_cycle"
      if e.popCommit && e.popRollback then cov := cov.bump "trans_pop_commit_and_rollback_same_cycle"
      if e.qc && oi.popValid then cov := cov.bump "trans_pop_with_commit_same_cycle"
      if e.pushReq && oi.full then cov := cov.bump "trans_push_attempt_when_full"
      if oi.full && q.gt > 0 then cov := cov.bump "trans_full_while_pops_uncommitted"
    d := { d with cov := cov }
    return { d with cs := { cs with tq := q', events := cs.events + 1 } }
  | _ =>
    IO.println s!"DIFF case={cs.id} line={lineNo} what=unparsed-event"
    return { d with diffs := d.diffs + 1 }

partial def loop (h : IO.FS.Stream) (d : D) (lineNo : Nat) : IO D := do
  let line ← h.getLine
  if line.isEmpty then return d
  let toks := (line.trimAscii.toString.splitOn " ").filter (· ≠ "")
  match toks with
  | [] => loop h d (lineNo + 1)
  | "#" :: _ => loop h d (lineNo + 1)
  | "case" :: _ => loop h (← startCase d toks lineNo) (lineNo + 1)
  | "t" :: _ => loop h (← doEvent d toks lineNo) (lineNo + 1)
  | "s" :: _ => loop h (← doStreamEvent d toks lineNo) (lineNo + 1)
  | "g" :: _ => loop h (← doGray d toks lineNo) (lineNo + 1)
  | "a" :: _ => loop h (← doArray d toks lineNo) (lineNo + 1)
  | "x" :: _ => loop h (← doTrans d toks lineNo) (lineNo + 1)
  | "abort" :: rest =>
    IO.println s!"DIFF case={d.cs.id} line={lineNo} what=harness-abort msg=[{" ".intercalate rest}]"
    loop h { d with diffs := d.diffs + 1 } (lineNo + 1)
  | ["end"] => loop h { d with cs := { d.cs with active := false } } (lineNo + 1)
  | _ => loop h d (lineNo + 1)

def main : IO Unit := do
  let d ← loop (← IO.getStdin) {} 1
  IO.println s!"SUMMARY \{\"cases\":{d.cases},\"ops\":{d.events},\"diffs\":{d.diffs},\"propfails\":{d.propfails},\"rejected\":{d.errcases},\"hist\":{d.hist.json},\"cov\":{d.cov.json}}"
