import GateryModel.C16.Spec
/-!
Driver for C16: reads the harness log (per-cycle valid/ready/payload at every stage boundary of a chain of real gatery
stream stages) on stdin and
* replays every stage on its Lean model with the logged inputs of that stage, and the whole chain on the composed model
  with only the signals at the two ends — `DIFF` when valid / payload / ready differ (model ≠ implementation);
* checks the property itself on the implementation's log — `PROPFAIL`:
  `seq`   an emitted beat is not the next beat of the list specification applied to the accepted (or currently offered) beats,
  `undelivered`  after the drain phase accepted beats are still missing at the output,
  `law`   a stage output dropped valid or changed its payload before the transfer.
-/
open Gatery.C16

structure Sig where
  v : Bool
  r : Bool
  b : Beat
  u : Beat := Beat.zero   -- undefined bits of the word fields (masks); `eop`/`sop` = that flag is undefined
  undef : Bool
  rUndef : Bool := false
  deriving Inhabited

structure Run where
  S : Stage Beat Beat
  s : S.σ

structure SpecRun where
  T : Trans Beat Beat
  s : T.τ

structure StCheck where
  name : String
  run : Run
  spec : SpecRun
  expected : Array Beat := #[]
  expTags : Array (List String) := #[]   -- per expected beat: fields its source beats left (partly) undefined
  pendU : List String := []              -- … of the accepted beats that have not produced an output beat yet
  stale : Bool := false                  -- widthExtend: the slots an eop-terminated group does not reach keep older content
  checkUndef : Bool := true
  nout : Nat := 0
  nin : Nat := 0

structure CaseSt where
  id : String := ""
  descs : Array Desc := #[]
  stages : Array StCheck := #[]
  chain : Option Run := none
  chainSpec : Option StCheck := none
  prev : Array Sig := #[]
  prevCtl : List Bool := []
  cyc : Nat := 0
  diffed : Bool := false
  failed : Bool := false
  stallmode : Nat := 0
  frame : Bool := false          -- stream carries sop and eop with coherent framing at the head
  inPkt : Array Bool := #[]      -- per boundary: inside a packet (last transferred beat had no eop)

structure D where
  cases : Nat := 0
  diffs : Nat := 0
  propfails : Nat := 0
  ops : Nat := 0
  cycles : Nat := 0
  tin : Nat := 0
  tout : Nat := 0
  lawEvents : Nat := 0
  backpressured : Nat := 0
  hist : List (String × Nat) := []
  lens : List (String × Nat) := []
  kinds : List (String × Nat) := []
  fails : List (String × Nat) := []
  obs : List (String × Nat) := []

def bump (h : List (String × Nat)) (k : String) (n : Nat := 1) : List (String × Nat) :=
  match h with
  | [] => [(k, n)]
  | (a, m) :: t => if a == k then (a, m+n) :: t else (a, m) :: bump t k n

def hexVal (c : Char) : Nat :=
  if c.isDigit then c.toNat - '0'.toNat else if 'a' ≤ c ∧ c ≤ 'f' then c.toNat - 'a'.toNat + 10 else 0
def parseHex (s : String) : Nat := s.foldl (fun a c => a * 16 + hexVal c) 0
def toHex (n : Nat) : String := String.ofList (Nat.toDigits 16 n)

def showBeat (b : Beat) : String := s!"{toHex b.data},{if b.eop then 1 else 0}{if b.sop then 1 else 0},{toHex b.aux},be={toHex b.be},emp={toHex b.emp}"

/-- names of the fields in which two beats differ, e.g. `sop` or `data+be` -/
def beatDiff (a b : Beat) : String :=
  "+".intercalate ((if a.data != b.data then ["data"] else []) ++ (if a.eop != b.eop then ["eop"] else []) ++
    (if a.sop != b.sop then ["sop"] else []) ++ (if a.aux != b.aux then ["aux"] else []) ++
    (if a.be != b.be then ["be"] else []) ++ (if a.emp != b.emp then ["emp"] else []))

/-- `x` with the bits of mask `m` cleared -/
def clrBits (x m : Nat) : Nat := x - (x &&& m)

/-- a model beat with everything the implementation reports as undefined cleared (the harness logs undefined bits as 0) -/
def maskBeat (b u : Beat) : Beat :=
  ⟨clrBits b.data u.data, b.eop && !u.eop, b.sop && !u.sop, clrBits b.aux u.aux, clrBits b.be u.be, clrBits b.emp u.emp⟩

/-- names of the fields that have an undefined bit -/
def undefFields (u : Beat) : List String :=
  (if u.data != 0 then ["data"] else []) ++ (if u.eop then ["eop"] else []) ++ (if u.sop then ["sop"] else []) ++
  (if u.aux != 0 then ["aux"] else []) ++ (if u.be != 0 then ["be"] else []) ++ (if u.emp != 0 then ["emp"] else [])

def words (l : String) : List String := (l.trimAscii.toString.splitOn " ").filter (· ≠ "")

def kv (ws : List String) (k : String) : Option String :=
  ws.findSome? fun w => if w.startsWith (k ++ "=") then some (w.drop (k.length + 1)).toString else none

def parseSig (w : String) : Sig :=
  match w.splitOn "," with
  | vr :: d :: es :: m :: rest =>
    let be := rest.headD "0"
    let emp := (rest.drop 1).headD "0"
    let c := vr.toList
    let v := c.getD 0 '0'; let r := c.getD 1 '0'
    let e := es.toList.getD 0 '0'; let s := es.toList.getD 1 '0'
    -- payload is logged in every cycle (undefined bits of the words as 0); only flags can be `u`
    -- an undefined ready on a stream that offers nothing is not a handshake event (simulator pessimism: e.g. widthExtend
    -- derives ready(source) from eop(source) of whatever an invalid source happens to hold)
    -- undefined payload / meta bits are kept as masks (`<hex>/<hex mask>`, flags `u`) and checked where beats are transferred
    let und := v == 'u' || (r == 'u' && v == '1')
    let val (x : String) : Nat := parseHex ((x.splitOn "/").headD "0")
    let msk (x : String) : Nat := match x.splitOn "/" with | [_, m] => parseHex m | _ => 0
    ⟨v == '1', r == '1', ⟨val d, e == '1', s == '1', val m, val be, val emp⟩,
     ⟨msk d, e == 'u', s == 'u', msk m, msk be, msk emp⟩, und, r == 'u'⟩
  | _ => ⟨false, false, Beat.zero, Beat.zero, true, false⟩

def parseDesc (ws : List String) : Option Desc :=
  -- "stage <i> <name> params… win= wout="
  match ws with
  | _ :: _ :: "ds" :: _ => some .ds
  | _ :: _ :: "dsb" :: _ => some .dsb
  | _ :: _ :: "rr" :: _ => some .rr
  | _ :: _ :: "dec" :: _ => some .dec
  | _ :: _ :: "stall" :: _ => some .stall
  | _ :: _ :: "dly" :: n :: _ => some (.dly n.toNat!)
  | _ :: _ :: "fifo" :: d :: l :: ft :: _ => some (.fifo d.toNat! l.toNat! (ft == "1"))
  | _ :: _ :: "ext" :: r :: w :: bw :: _ => some (.ext r.toNat! w.toNat! bw.toNat!)
  | _ :: _ :: "red" :: r :: w :: bw :: _ => some (.red r.toNat! w.toNat! bw.toNat!)
  | _ :: _ :: "pext" :: r :: w :: bw :: ek :: ew :: _ => some (.pext r.toNat! w.toNat! bw.toNat! ek.toNat! ew.toNat!)
  | _ :: _ :: "pred" :: r :: w :: bw :: ek :: _ => some (.pred r.toNat! w.toNat! bw.toNat! ek.toNat!)
  | _ => none

namespace Gatery.C16
instance : Inhabited Desc := ⟨.ds⟩

def Desc.name : Desc → String
  | .ds => "ds" | .dsb => "dsb" | .rr => "rr" | .dec => "dec" | .stall => "stall"
  | .dly n => s!"dly{n}" | .fifo d l ft => s!"fifo{d}/{l}/{if ft then 1 else 0}" | .ext r _ _ => s!"ext{r}" | .red r _ _ => s!"red{r}"
  | .pext r _ _ ek _ => s!"pext{r}e{ek}" | .pred r _ _ ek => s!"pred{r}e{ek}"

def Desc.kind : Desc → String
  | .ds => "ds" | .dsb => "dsb" | .rr => "rr" | .dec => "dec" | .stall => "stall"
  | .dly _ => "dly" | .fifo _ _ ft => if ft then "fifo0" else "fifo" | .ext _ _ _ => "ext" | .red _ _ _ => "red"
  | .pext .. => "pext" | .pred .. => "pred"

/-- list specification of a stage -/
def Desc.spec : Desc → Trans Beat Beat
  | .ext r w bw => extSpec r extSlot (extMk w bw)
  | .red r w bw => redSpec r (redSlice r w bw)
  | .pext r w bw ek ew => pExtSpec r (0, 0) extSlot Beat.eop Beat.sop Beat.emp (pExtStart r w ek) (emptyUnit ek w) (pExtMod r w ek ew) (pExtMk w bw)
  | .pred r w bw ek => pRedSpec r (pRedSlice r w bw ek) (pRedFin r w bw ek)
  | _ => Trans.idT

def Desc.usesCtl : Desc → Bool
  | .stall => true
  | _ => false

end Gatery.C16

def mkCheck (d : Desc) : StCheck :=
  { name := d.name, run := ⟨d.stage, d.stage.init⟩, spec := ⟨d.spec, d.spec.init⟩,
    stale := match d with | .pext .. => true | _ => false }

instance : Inhabited StCheck := ⟨mkCheck .ds⟩

def chainSpecOf (ds : List Desc) : Trans Beat Beat := ds.foldl (fun T d => T.comp d.spec) Trans.idT

def startCase (ws : List String) : CaseSt :=
  { id := ws.getD 1 "?", stallmode := ((kv ws "stallmode").getD "0").toNat!, frame := (kv ws "frame").getD "0" == "1" }

def finishSetup (cs : CaseSt) : CaseSt :=
  let ds := cs.descs.toList
  let S := (chainOf ds).toStage
  let T := chainSpecOf ds
  { cs with
    stages := cs.descs.map mkCheck
    inPkt := Array.replicate (cs.descs.size + 1) false
    chain := some ⟨S, S.init⟩
    chainSpec := some { name := "chain", run := ⟨wire, ()⟩, spec := ⟨T, T.init⟩, checkUndef := false } }  -- undefined bits are attributed per stage

def ctlOf (bits : List Bool) : Ctl := fun i => bits.getD i false

structure Msgs where
  diff : Option String := none
  fail : Option (String × String) := none   -- (signature, message)

/-- list-spec bookkeeping for one stage (or the whole chain): returns updated state and an optional failure text -/
def specStep (c : StCheck) (bi bo : Sig) : StCheck × Option String := Id.run do
  let mut c := c
  let mut err : Option String := none
  if bo.v && bo.r then
    let k := c.nout
    let exp : Option (Beat × List String) :=
      if k < c.expected.size then (c.expected[k]?).map fun e => (e, c.expTags.getD k [])
      else if bi.v then ((c.spec.T.runFrom c.spec.s [bi.b])[k - c.expected.size]?).map fun e => (e, c.pendU ++ undefFields bi.u)
      else none
    match exp with
    | some (e, tag) =>
      -- a transferred beat must not carry an undefined bit in a field that its source beats defined
      let exempt := tag ++ (if c.stale && e.eop then ["data", "be"] else [])
      let bad := (undefFields bo.u).filter fun f => !exempt.contains f
      if c.checkUndef && !bad.isEmpty then
        err := some s!"undef={"+".intercalate bad} emitted[{k}]={showBeat bo.b} undefined_bits={showBeat bo.u} expected={showBeat e}"
      else if maskBeat e bo.u != bo.b then
        err := some s!"fields={beatDiff (maskBeat e bo.u) bo.b} emitted[{k}]={showBeat bo.b} expected={showBeat e}"
    | none => err := some s!"emitted[{k}]={showBeat bo.b} but no accepted or offered beat is left to account for it"
    c := { c with nout := k + 1 }
  if bi.v && bi.r then
    let r := c.spec.T.step c.spec.s bi.b
    let pend := c.pendU ++ (undefFields bi.u).filter fun f => !c.pendU.contains f
    c := { c with spec := ⟨c.spec.T, r.1⟩, expected := c.expected ++ r.2.toArray,
                  expTags := c.expTags ++ (r.2.map fun _ => pend).toArray,
                  pendU := if r.2.isEmpty then pend else [], nin := c.nin + 1 }
  return (c, err)

def stepRun (r : Run) (ctl : Ctl) (bi bo : Sig) : Run × Fwd Beat × Bool :=
  let x : Fwd Beat := ⟨bi.v, bi.b⟩
  (⟨r.S, r.S.next r.s ctl x bo.r⟩, r.S.fwd r.s ctl x, r.S.bwd r.s ctl x bo.r)

def cmpOut (what : String) (o : Fwd Beat) (rin : Bool) (bi bo : Sig) : Option String :=
  if o.valid != bo.v then some s!"{what} field=vout model={o.valid} impl={bo.v}"
  else if bo.v && maskBeat o.data bo.u != bo.b then some s!"{what} field=dout model={showBeat o.data} impl={showBeat bo.b}"
  else if !bi.rUndef && rin != bi.r then some s!"{what} field=rin model={rin} impl={bi.r}"
  else none

structure DAcc where
  cs : CaseSt
  d : D
  out : List String := []

def DAcc.diff (a : DAcc) (msg : String) : DAcc :=
  if a.cs.diffed then a else
    { a with cs := { a.cs with diffed := true }, d := { a.d with diffs := a.d.diffs + 1 }, out := a.out ++ [s!"DIFF case={a.cs.id} cyc={a.cs.cyc} {msg}"] }

def DAcc.fail (a : DAcc) (sig msg : String) : DAcc :=
  if a.cs.failed then a else
    { a with cs := { a.cs with failed := true }, d := { a.d with propfails := a.d.propfails + 1, fails := bump a.d.fails sig },
             out := a.out ++ [s!"PROPFAIL case={a.cs.id} kind={sig} {msg}"] }

/-- replay of stage `i` in the current cycle -/
def stageStep (sigs : Array Sig) (ctlBits : List Bool) (ac : DAcc × List Bool) (i : Nat) : DAcc × List Bool :=
  let (a, chainCtl) := ac
  let bi := sigs[i]!; let bo := sigs[i+1]!
  let st : StCheck := a.cs.stages[i]!
  let desc : Desc := a.cs.descs[i]!
  let c := ctlBits.getD i false
  let chainCtl := if desc.usesCtl then chainCtl ++ [c] else chainCtl
  let (run', o, rin) := stepRun st.run (ctlOf [c]) bi bo
  let a := match cmpOut s!"stage={i} {st.name}" o rin bi bo with
    | some m => a.diff m
    | none => a
  let (st', err) := specStep { st with run := run' } bi bo
  let a := match err with
    | some e =>
      let nxt := match a.cs.descs[i+1]? with | some (d2 : Desc) => d2.kind | none => "end"
      -- signature = stage kind + the beat fields that are wrong (`seq:pred:sop`), or `:extra` for a beat nobody accounted for
      let flds := if e.startsWith "fields=" then ((e.drop 7).toString.splitOn " ").headD "?" else "extra"
      if e.startsWith "undef=" then
        a.fail s!"undef:{desc.kind}:{((e.drop 6).toString.splitOn " ").headD "?"}" s!"stage={i} {st.name} next={nxt} cyc={a.cs.cyc} {e}"
      else
      a.fail s!"seq:{desc.kind}:{flds}" s!"stage={i} {st.name} next={nxt} cyc={a.cs.cyc} {e}"
    | none => a
  let d := a.d
  let d := { d with ops := d.ops + 1, tin := d.tin + (if bi.v && bi.r then 1 else 0),
                    backpressured := d.backpressured + (if bo.v && !bo.r then 1 else 0) }
  ({ a with cs := { a.cs with stages := a.cs.stages.set! i st' }, d := d }, chainCtl)

/-- interface law at boundary `j` between the previous and the current cycle.
    The signature `law:stall` is reserved for exactly one shape: the output of `strm::stall` offered a beat with ready low,
    the stall condition was low in that cycle and is high in this one, the stall's input still offers the same beat and the
    output valid is now low. Every other failure of the output law gets a different signature. -/
def lawStep (sigs : Array Sig) (ctlBits : List Bool) (a : DAcc) (j : Nat) : DAcc :=
  let p := a.cs.prev[j]!; let q := sigs[j]!
  if p.v && !p.r then
    let a := { a with d := { a.d with lawEvents := a.d.lawEvents + 1 } }
    if !(q.v && q.b == p.b && q.u == p.u) then
      if j == 0 then a.diff "harness producer violates the interface law"
      else
        let desc : Desc := a.cs.descs[j-1]!
        let cPrev := a.cs.prevCtl.getD (j-1) false
        let cNow := ctlBits.getD (j-1) false
        let inNow := sigs[j-1]!
        let stallShape := desc.usesCtl && !cPrev && cNow && !q.v && inNow.v && inNow.b == p.b
        let sig := if stallShape then s!"law:{desc.kind}" else if desc.usesCtl then s!"law:{desc.kind}-other" else s!"law:{desc.kind}"
        a.fail sig s!"stage={j-1} {desc.name} cyc={a.cs.cyc} output offered {showBeat p.b} with ready=0, next cycle valid={q.v} payload={showBeat q.b} stall_prev={cPrev} stall_now={cNow}"
    else a
  else a

/-- packet framing at boundary `j`: a transferred beat carries sop exactly if the previous transferred beat carried eop
    (or it is the first one) — checked on streams that carry both signals and whose producer frames coherently -/
def frameStep (sigs : Array Sig) (a : DAcc) (j : Nat) : DAcc :=
  let q := sigs[j]!
  if q.v && q.r then
    let inP := a.cs.inPkt.getD j false
    let a := if q.b.sop == !inP then a else
      if j == 0 then a.diff "harness producer frames packets incoherently"
      else
        let desc : Desc := a.cs.descs[j-1]!
        a.fail s!"frame:{desc.kind}" s!"stage={j-1} {desc.name} cyc={a.cs.cyc} transferred {showBeat q.b}: sop={q.b.sop} but {if inP then "inside a packet" else "at the start of a packet"}"
    { a with cs := { a.cs with inPkt := a.cs.inPkt.setIfInBounds j (!q.b.eop) } }
  else a

def processCycle (cs : CaseSt) (d : D) (ws : List String) : CaseSt × D × List String :=
  let ctlBits := ((ws.getD 1 "").toList.map (· == '1'))
  let sigs := ((ws.drop 2).map parseSig).toArray
  let n := cs.stages.size
  if sigs.size != n + 1 then
    (cs, { d with diffs := d.diffs + 1 }, [s!"DIFF case={cs.id} cyc={cs.cyc} malformed cycle line ({sigs.size} boundaries, {n} stages)"])
  else
    let a : DAcc := { cs := cs, d := d }
    let a := if sigs.any (·.undef) then a.diff "undefined handshake signal or undefined payload while valid in the implementation" else a
    let (a, chainCtl) := (List.range n).foldl (stageStep sigs ctlBits) (a, [])
    -- whole chain
    let b0 := sigs[0]!; let bn := sigs[n]!
    let a := match a.cs.chain with
      | some ch =>
        let (ch', o, rin) := stepRun ch (ctlOf chainCtl) b0 bn
        let a := { a with cs := { a.cs with chain := some ch' } }
        match cmpOut "chain" o rin b0 bn with
        | some m => a.diff m
        | none => a
      | none => a
    let a := match a.cs.chainSpec with
      | some c =>
        let (c', err) := specStep c b0 bn
        let a := { a with cs := { a.cs with chainSpec := some c' } }
        match err with
        | some e =>
          let flds := if e.startsWith "fields=" then ((e.drop 7).toString.splitOn " ").headD "?" else "extra"
          a.fail s!"seq:chain:{flds}" s!"cyc={a.cs.cyc} {e}"
        | none => a
      | none => a
    let a := { a with d := { a.d with tout := a.d.tout + (if bn.v && bn.r then 1 else 0) } }
    let a := if a.cs.prev.size == n + 1 then (List.range (n+1)).foldl (lawStep sigs ctlBits) a else a
    let a := if a.cs.frame then (List.range (n+1)).foldl (frameStep sigs) a else a
    ({ a.cs with prev := sigs, prevCtl := ctlBits, cyc := a.cs.cyc + 1 }, { a.d with cycles := a.d.cycles + 1 }, a.out)

def endCase (cs : CaseSt) (d : D) : D × List String :=
  let a : DAcc := { cs := cs, d := d }
  -- after the drain phase (consumer ready in every cycle, nothing stalled):
  -- * every boundary quiet but a stage has emitted less than the specification of what it accepted: beats are LOST -> PROPFAIL
  -- * some boundary still offers a beat that is never taken: the chain is stuck (a liveness matter, not part of this
  --   property's statement) -> counted observation `OBS`, attributed to the stage that blocks
  let n := cs.stages.size
  let undel := (List.range n).filter fun i => let st : StCheck := cs.stages[i]!; st.expected.size != st.nout
  let chainUndel := match cs.chainSpec with | some c => c.expected.size != c.nout | none => false
  let kindAt (i : Nat) : String := match cs.descs[i]? with | some (d : Desc) => d.kind | none => "end"
  let a := if undel.isEmpty && !chainUndel then a else
    let blocked := ((List.range (n+1)).filter fun j => match cs.prev[j]? with | some (p : Sig) => p.v && !p.r | none => false).getLast?
    let i0 := undel.head?.getD 0
    let st : StCheck := cs.stages[i0]!
    match blocked with
    | some j =>
      let later := (List.range n).filter fun i => i > j && (match (cs.descs[i]? : Option Desc) with | some (Desc.red r _ _) => decide (r > 1) | _ => false)
      let nxt := match later.head? with | some i => kindAt i | none => kindAt (j+1)
      let sig := s!"undelivered:{kindAt j}>{nxt}"
      { a with d := { a.d with obs := bump a.d.obs sig },
               out := a.out ++ [s!"OBS case={cs.id} kind={sig} blocked_at_stage={j} first_incomplete_stage={i0} {st.name} accepted={st.nin} specified_out={st.expected.size} emitted={st.nout}"] }
    | none =>
      a.fail s!"lost:{kindAt i0}" s!"stage={i0} {st.name} all boundaries idle but accepted={st.nin} specified_out={st.expected.size} emitted={st.nout}"
  let d := a.d
  let hist := cs.descs.foldl (fun h (dsc : Desc) =>
    let h := bump h dsc.kind
    match dsc with   -- width changers on ByteEnable streams, by ratio
    | .ext r _ bw => if bw > 0 then bump h s!"ext{r}_be" else h
    | .red r _ bw => if bw > 0 then bump h s!"red{r}_be" else h
    | _ => h) d.hist
  ({ d with cases := d.cases + 1, hist := hist, lens := bump d.lens (toString cs.descs.size) }, a.out)

def jsonHist (h : List (String × Nat)) : String :=
  "{" ++ ", ".intercalate (h.map fun (k, v) => s!"\"{k}\": {v}") ++ "}"

/-- one `case … end` block -/
def runCase (lines : Array String) (d : D) : D × List String :=
  let r := lines.foldl (fun (st : CaseSt × D × List String) line =>
    let (cs, d, out) := st
    let ws := words line
    match ws with
    | "case" :: _ => (startCase ws, { d with kinds := bump d.kinds ((kv ws "kind").getD "?") }, out)
    | "stage" :: _ =>
      match parseDesc ws with
      | some dsc => ({ cs with descs := cs.descs.push dsc }, d, out)
      | none => (cs, { d with diffs := d.diffs + 1 }, out ++ [s!"DIFF case={cs.id} unparsable stage line: {line.trimAscii}"])
    | "c" :: _ =>
      let cs := if cs.chain.isNone then finishSetup cs else cs
      let (cs', d', o) := processCycle cs d ws
      (cs', d', out ++ o)
    | "err" :: _ => (cs, { d with diffs := d.diffs + 1 }, out ++ [s!"DIFF case={cs.id} implementation threw: {line.trimAscii}"])
    | "end" :: _ =>
      let (d', o) := endCase cs d
      (cs, d', out ++ o)
    | _ => st) (({} : CaseSt), d, [])
  (r.2.1, r.2.2)

partial def loop (h : IO.FS.Stream) (d : D) (acc : Array String) : IO D := do
  let line ← h.getLine
  if line.isEmpty then return d
  if line.startsWith "end" then
    let (d, out) := runCase (acc.push line) d
    for o in out do IO.println o
    loop h d #[]
  else if line.startsWith "#" then loop h d acc
  else loop h d (acc.push line)

def main : IO Unit := do
  let stdin ← IO.getStdin
  let d ← loop stdin {} #[]
  IO.println ("SUMMARY {" ++ s!"\"cases\": {d.cases}, \"diffs\": {d.diffs}, \"propfails\": {d.propfails}, \"ops\": {d.ops}, \"cycles\": {d.cycles}, " ++
    s!"\"transfers_in\": {d.tin}, \"transfers_out\": {d.tout}, \"law_events\": {d.lawEvents}, \"backpressured\": {d.backpressured}, " ++
    s!"\"hist\": {jsonHist d.hist}, \"chain_len\": {jsonHist d.lens}, \"stream_kind\": {jsonHist d.kinds}, \"fails\": {jsonHist d.fails}, \"obs\": {jsonHist d.obs}" ++ "}")
