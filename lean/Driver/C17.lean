import GateryModel.C17.Spec
/-!
Driver for C17: reads the harness protocol on stdin.  For every simulated vector / clock cycle of every generated
circuit it recomputes the outputs (a) with the structural model of the generator (`DIFF` when the implementation
printed something else: correspondence broken) and (b) from the mathematical definition (`PROPFAIL` when the
implementation's output is not the defined value: the property fails on that concrete input).
-/
open Gatery.C17

def parseBits (s : String) : Nat × Nat :=
  if s == "-" then (0, 0) else (s.length, s.foldl (fun a c => 2 * a + (if c == '1' then 1 else 0)) 0)

def fmt (w v : Nat) : String :=
  if w == 0 then "-" else String.ofList ((List.range w).reverse.map fun i => if v.testBit i then '1' else '0')

def fmtX (w : Nat) : String := if w == 0 then "-" else String.ofList (List.replicate w 'x')

def fmtO (w : Nat) (v : Option Nat) : String := match v with | some v => fmt w v | none => fmtX w

def fmtB (b : Bool) : String := if b then "1" else "0"

/-- result of evaluating one vector: model outputs, expected outputs by definition (`none` = the definition leaves it open),
an extra relational check on the implementation's outputs -/
structure Res where
  model : Option (List String)
  spec : List (Option String) := []
  rel : List (Nat × Nat) → Bool := fun _ => true     -- relation the implementation's outputs must satisfy

def bump (h : List (String × Nat)) (k : String) (n : Nat := 1) : List (String × Nat) :=
  match h with
  | [] => [(k, n)]
  | (a, m) :: t => if a == k then (a, m + n) :: t else (a, m) :: bump t k n

def bitsOf (x : Nat × Nat) : List Bool := ofNat x.1 x.2

def prefixXor (w a : Nat) : Nat := (List.range w).foldl (fun r k => r ^^^ (a >>> k)) 0

def sumL (l : List Nat) : Nat := l.foldl (· + ·) 0

/-- does the generator (by the model) reject these parameters? -/
def modelRejects (prim : String) (p : List Nat) : Bool :=
  match prim, p with
  | "encoder", [n] => n < 2
  | "encdec", [w] => 2 ^ w < 2
  | "thermw", [w, outW] => outW > 2 ^ w - 1
  | "graydec", [w] => w == 0
  | "grayrt", [w] => w == 0
  | "grayenc", [w] => w == 0
  | "divs", [nw, _] => nw < 2
  | "divpipe", [nw, _, _, sgn] => sgn == 1 && nw < 2
  | "crc", [rw, dw, pw] => pw > max rw dw || max rw dw == 0 || dw == 0
  | "bad", _ => true
  | _, _ => false

/-- is the mathematical definition itself undefined for these parameters (malformed use)?  Today exactly the parameters the
generator rejects; a primitive whose generator starts to throw where the definition is meaningful must be listed here as `false`
(as `biggestPowerOfTwo` for widths ≥ 32 was before 7605865). -/
def specRejects (prim : String) (p : List Nat) : Bool :=
  match prim, p with
  | "bpt", _ => false           -- the largest power of two below a value is defined at every width
  | _, _ => modelRejects prim p

def evalV (prim : String) (p : List Nat) (ins : List (Nat × Nat)) : Res :=
  match prim, p, ins with
  | "bitcount", [n], [a] =>
    let bits := bitsOf a
    { model := some [fmt (bitcountW n) (bitcount bits)], spec := [some (fmt (bitcountW n) (Spec.popcount bits))] }
  | "decoder", [w], [a] =>
    { model := some [fmt (2 ^ w) (toNat (decoder w a.2))], spec := [some (fmt (2 ^ w) (2 ^ a.2))] }
  | "encoder", [n], [a] =>
    let bits := bitsOf a
    match encoder bits with
    | none => { model := none }
    | some o => { model := some [fmtO o.w o.v],
                  spec := [if Spec.popcount bits == 1 then (Spec.lowestSet bits).map (fmt (log2C n)) else none] }
  | "encdec", [w], [a] =>
    match encoder (decoder w a.2) with
    | none => { model := none }
    | some o => { model := some [fmtO o.w o.v], spec := [some (fmt w a.2)] }
  | "pe", [_], [a] =>
    let bits := bitsOf a
    let o := priorityEncoder bits
    { model := some [fmtO o.w o.v, fmtB o.valid],
      spec := [(Spec.lowestSet bits).map (fmt o.w), some (fmtB (a.2 != 0))] }
  | "petree", [n, bps, np], [a] =>
    let bits := bitsOf a
    if nextPow2 ((n + 2 ^ bps - 1) / 2 ^ bps) != np then { model := some ["nextPow2-mismatch"] }
    else match peTree bps (n + 1) bits with
    | none => { model := none }
    | some o => { model := some [fmtO o.w o.v, fmtB o.valid],
                  spec := [(Spec.lowestSet bits).map (fmt o.w), some (fmtB (a.2 != 0))] }
  | "clz", [_], [a] =>
    let bits := bitsOf a
    let o := countLeadingZeros bits
    { model := some [fmtO o.w o.v], spec := [some (fmt o.w (Spec.clz bits))] }
  | "therm", [w], [a] =>
    { model := some [fmt (2 ^ w - 1) (toNat (uintToThermometric w a.2))], spec := [some (fmt (2 ^ w - 1) (2 ^ a.2 - 1))] }
  | "thermw", [w, outW], [a] =>
    match uintToThermometricW w a.2 outW with
    | none => { model := none }
    | some bits => { model := some [fmt outW (toNat bits)], spec := [some (fmt outW ((2 ^ a.2 - 1) % 2 ^ outW))] }
  | "thermback", [n], [a] =>
    let bits := bitsOf a
    { model := some [fmt (bitcountW n) (thermometricToUInt bits)], spec := [some (fmt (bitcountW n) (Spec.popcount bits))] }
  | "thermrt", [w], [a] =>
    let t := uintToThermometric w a.2
    { model := some [fmt (bitcountW t.length) (thermometricToUInt t)], spec := [some (fmt w a.2)] }
  | "grayenc", [w], [a] =>
    { model := some [fmt w (grayEncode a.2)], spec := [some (fmt w (Spec.reflectedGray w a.2))] }
  | "graydec", [w], [a] =>
    match grayDecode w a.2 with
    | none => { model := none }
    | some r => { model := some [fmt w r], spec := [some (fmt w (prefixXor w a.2))],
                  rel := fun outs => match outs with | [o] => Spec.reflectedGray w o.2 == a.2 | _ => false }
  | "grayrt", [w], [a] =>
    match grayDecode w (grayEncode a.2) with
    | none => { model := none }
    | some r => { model := some [fmt w r], spec := [some (fmt w a.2)] }
  | "minu", [w], [a, b] => { model := some [fmt w (minU a.2 b.2)], spec := [some (fmt w (Nat.min a.2 b.2))] }
  | "maxu", [w], [a, b] => { model := some [fmt w (maxU a.2 b.2)], spec := [some (fmt w (Nat.max a.2 b.2))] }
  | "mins", [w], [a, b] =>
    { model := some [fmt w (minS w a.2 b.2)], spec := [some (fmt w ((min (toInt w a.2) (toInt w b.2)) % (2 ^ w : Nat)).toNat)] }
  | "maxs", [w], [a, b] =>
    { model := some [fmt w (maxS w a.2 b.2)], spec := [some (fmt w ((max (toInt w a.2) (toInt w b.2)) % (2 ^ w : Nat)).toNat)] }
  | "bpt", [w], [a] =>
    { model := some [fmt w (biggestPowerOfTwo w a.2)], spec := [some (fmt w (Spec.biggestPowerOfTwo a.2))] }
  | "divu", [nw, dw], [n, d] =>
    { model := some [fmt nw (longDivision nw dw n.2 d.2).1], spec := [if d.2 == 0 then none else some (fmt nw (n.2 / d.2))] }
  | "divs", [nw, dw], [n, d] =>
    if nw < 2 then { model := none } else
    { model := some [fmt nw (longDivisionS nw dw n.2 d.2)], spec := [if d.2 == 0 then none else some (fmt nw (Spec.sdiv nw n.2 d.2))] }
  | "csa", [w], [a, b, c] =>
    let (s, cy) := addCarrySave a.2 b.2 c.2
    { model := some [fmt w s, fmt w cy],
      rel := fun outs => match outs with | [s, cy] => s.2 + 2 * cy.2 == a.2 + b.2 + c.2 | _ => false }
  | "csadd", [w, k], ins =>
    let ops := ins.map (·.2)
    let st := csaAddAll w ops
    let tot := sumL ops % 2 ^ w
    if ins.length != k then { model := some ["operand-count"] } else
    { model := some (if k ≥ 2 then [fmt w st.sum, fmt w st.carry, fmt w (st.total w)] else [fmt w st.sum, fmt w (st.total w)]),
      spec := if k ≥ 2 then [none, none, some (fmt w tot)] else [none, some (fmt w tot)],
      rel := fun outs => match outs with
        | [s, cy, _] => (s.2 + cy.2) % 2 ^ w == tot
        | [s, _] => s.2 == tot
        | _ => false }
  | "adder", [w, k], ins =>
    let ops := ins.map (·.2)
    -- Adder<UInt>::add: `if (m_count++ == 0) m_sum = b; else m_sum += b;`
    let m := match ops with | [] => 0 | a :: t => t.foldl (fun s b => (s + b) % 2 ^ w) a
    if ins.length != k then { model := some ["operand-count"] } else
    { model := some [fmt w m], spec := [some (fmt w (sumL ops % 2 ^ w))] }
  | "addc", [w], [a, b, ci] =>
    let (s, co) := addC w a.2 b.2 (ci.2 == 1)
    let coSpec := (List.range w).foldl (fun r i => if Spec.carryOut a.2 b.2 (ci.2 == 1) i then r ||| 2 ^ i else r) 0
    { model := some [fmt w s, fmt w co], spec := [some (fmt w ((a.2 + b.2 + ci.2) % 2 ^ w)), some (fmt w coSpec)] }
  | "crc", [rw, dw, pw], [r, d, pl] =>
    match crc rw dw pw r.2 d.2 pl.2 with
    | none => { model := none }
    | some x => { model := some [fmt rw x],
                  spec := [if pw == rw then some (fmt rw (Spec.pmod rw pl.2 ((r.2 <<< dw) ^^^ (d.2 <<< rw)))) else none] }
  | "crcwk", [which, dw, _], ins =>
    match wellKnown[which]? with
    | none => { model := some ["unknown-parameter-set"] }
    | some pr =>
      let data := ins.map (·.2)
      match crcRun pr dw data with
      | none => { model := none }
      | some x =>
        let consts := [fmt pr.w pr.polynomial, fmt pr.w pr.initialRemainder, fmtB pr.reverseData, fmtB pr.reverseCrc, fmt pr.w pr.xorOut]
        { model := some (consts ++ [fmt pr.w x]),
          spec := consts.map some ++ [some (fmt pr.w (Spec.crcDef pr dw data))],
          rel := fun outs => if data == Spec.checkMessage && dw == 8 then (outs.getLast?.map (·.2)) == Spec.checkValues[which]? else true }
  | "crcgen", [w, dw, _], pl :: ini :: rd :: rc :: xo :: data =>
    let pr : CrcParams := ⟨w, pl.2, ini.2, rd.2 == 1, rc.2 == 1, xo.2⟩
    let data := data.map (·.2)
    match crcRun pr dw data with
    | none => { model := none }
    | some x => { model := some [fmt w x], spec := [some (fmt w (Spec.crcDef pr dw data))] }
  | "bad", _, _ => { model := none }
  | _, _, _ => { model := some ["unparsed"] }

structure D where
  caseId : String := ""
  prim : String := ""
  params : List Nat := []
  header : String := ""
  reportedDiff : Bool := false
  reportedFail : Bool := false
  sawErr : Bool := false
  -- counters
  cfg : CounterCfg := ⟨0, false, false⟩
  mval : Nat := 0
  sval : Nat := 0
  sdom : Bool := true     -- the specification state is inside its domain (value < end)
  prevDesc : String := "after=[reset]"
  histBits : Array (List Bool) := #[]    -- input stream of a registered (pipelined) primitive
  histIn : Array (Nat × Nat) := #[]       -- input stream of the pipelined divider
  stages : Nat := 0
  failClasses : List (String × Nat) := []
  -- synchronizeGrayCode
  gs : GraySyncState := ⟨none, []⟩
  gsSeenA : Bool := false
  gsSeenB : Bool := false
  gsBeff : Nat := 0                 -- output-domain latch instants so far
  gsStable : Nat × Bool × Nat := (0, false, 0)   -- (held input value, input register has it, chain latches since)
  gsResetChecks : Nat := 0          -- how often "output = reset while the chain holds reset values" was evaluated
  gsSettledChecks : Nat := 0        -- how often "output = held input" was evaluated
  -- statistics
  cases : Nat := 0
  ops : Nat := 0
  errs : Nat := 0
  diffs : Nat := 0
  propfails : Nat := 0
  hist : List (String × Nat) := []
  whist : List (String × Nat) := []
  mhist : List (String × Nat) := []       -- Counter API usage patterns exercised (prim:mask)
  exhaustive : Nat := 0

def wclass (w : Nat) : String :=
  if w ≤ 8 then "w0-8" else if w ≤ 16 then "w9-16" else if w ≤ 32 then "w17-32" else if w ≤ 64 then "w33-64" else "w65+"

def D.diff (d : D) (msg : String) : IO D := do
  if !d.reportedDiff then IO.println s!"DIFF case={d.caseId} {d.header} {msg}"
  return { d with diffs := d.diffs + 1, reportedDiff := true }

/-- coarse class of a property failure; at most 3 cases per class are printed (all are counted) -/
def failClass (prim msg : String) : String :=
  let has (p : String) := (msg.splitOn p).length > 1
  prim ++ (if has "unbalanced-latency" then ":ul" else "") ++ (if has "signed-difference-overflows" then ":ovf" else "") ++ (if has "inc&dec-at-limit" then ":lim" else "") ++ (if has "impl=err" then ":err" else "")

def D.fail (d : D) (msg : String) : IO D := do
  let cls := failClass d.prim msg
  let seen := (d.failClasses.find? (·.1 == cls)).map (·.2) |>.getD 0
  if !d.reportedFail && seen < 3 then IO.println s!"PROPFAIL case={d.caseId} {d.header} {msg}"
  return { d with propfails := d.propfails + 1, reportedFail := true,
                  failClasses := if d.reportedFail then d.failClasses else bump d.failClasses cls }

def splitIO (toks : List String) : List String × List String :=
  let ins := toks.takeWhile (· != ">")
  (ins, (toks.dropWhile (· != ">")).drop 1)

def isCounter (prim : String) : Bool := prim == "ctr_end" || prim == "ctr_w" || prim == "ctr_uend" || prim == "updown"

/-- usage pattern from the case line: bit 0 inc, 1 dec, 2 reset, 3 load -/
def useOfMask (m : Nat) : CounterUse := ⟨m.testBit 0, m.testBit 1, m.testBit 2, m.testBit 3⟩

def counterCfg (prim : String) (p : List Nat) : CounterCfg :=
  match prim, p with
  | "ctr_end", [e, _, m, _] => counterCfgOfEnd e (useOfMask m).autoInc
  | "ctr_w", [w, _, m, _] => counterCfgOfWidth w (useOfMask m).autoInc
  | "ctr_uend", [w, _, m, _] => ⟨w, true, (useOfMask m).autoInc⟩
  | "updown", [w, _] => counterCfgOfWidth w false
  | _, _ => ⟨0, false, false⟩

def stepSeq (d : D) (toks : List String) : IO D := do
  let (ins, outs) := splitIO toks
  match ins with
  | [i, dd, l, r, lv, e] =>
    let inc := i == "1"; let dec := dd == "1"; let ld := l == "1"; let rs := r == "1"
    let lv := (parseBits lv).2; let ev := (parseBits e).2
    let w := d.cfg.w
    let reset := d.params.getD 1 0
    let implOk := !(outs.any fun s => s.any (· == 'x'))
    let implV := (parseBits (outs.getD 0 "-")).2
    if d.prim == "updown" then
      let mut d := d
      -- (1) value visible in this cycle = the one the model / the definition predicted from the previous cycle
      let mOut := [fmt w d.mval]
      if mOut != outs then d ← d.diff s!"{d.prevDesc} model={mOut} impl={outs}"
      let sOut := [fmt w d.sval]
      if sOut != outs then d ← d.fail s!"{d.prevDesc} spec={sOut} impl={outs}"
      -- (2) predictions for the next cycle, from the implementation's current state
      let base := if implOk then implV else d.mval
      let o := counterUpDownStep w reset base inc dec ld
      let snext := Spec.clampStep (2 ^ w - 1) base inc dec ld (reset % 2 ^ w)
      let atLimit := base == 0 || base + 1 == 2 ^ w
      let desc := s!"after=[value={fmt w base} inc={i} dec={dd} reset={l}{if inc && dec && !ld && atLimit then " inc&dec-at-limit" else ""}]"
      return { d with mval := o.next, sval := snext, prevDesc := desc }
    else
      let E := match d.prim with
        | "ctr_end" => d.params.getD 0 1
        | "ctr_w" => 2 ^ w
        | _ => if ev == 0 then 2 ^ w else ev
      let em1 := match d.prim with
        | "ctr_uend" => endM1 w ev
        | _ => endM1 w E
      let use := useOfMask (d.params.getD 2 0)
      let resetLast := d.params.getD 3 0 == 1
      let calls : CounterCalls := ⟨inc, dec, rs, ld, lv⟩
      let rv := reset % 2 ^ w
      let mut d := d
      -- model: outputs of this cycle from the predicted value
      let o := counterStep d.cfg d.mval (callsToIn use resetLast rv em1 calls)
      let mOut := [fmt w o.value, fmtB o.last, fmtB o.first, fmtB o.becomesFirst]
      let inDesc := s!"in=[inc={i} dec={dd} load={l} reset={r} lv={lv} end={ev}] api-mask={d.params.getD 2 0}"
      if mOut != outs then d ← d.diff s!"{d.prevDesc} {inDesc} model={mOut} impl={outs}"
      -- definition: the API definition of the counter (modulo E), defined while the value is inside [0,E)
      if d.sdom then
        let sn := Spec.apiStep E rv use resetLast d.sval calls
        let sOut := [fmt w d.sval, fmtB (d.sval + 1 == E), fmtB (d.sval == 0), fmtB (sn == 0)]
        if sOut != outs then d ← d.fail s!"{d.prevDesc} {inDesc} spec={sOut} impl={outs}"
      -- predictions for the next cycle from the implementation's current state
      let base := if implOk then implV else d.mval
      let o2 := counterStep d.cfg base (callsToIn use resetLast rv em1 calls)
      let snext := Spec.apiStep E rv use resetLast base calls
      let desc := s!"after=[value={fmt w base} inc={i} dec={dd} load={l} reset={r} lv={lv} end={ev}]"
      let loads := (use.load && ld) || (use.reset && rs)
      return { d with mval := o2.next, sval := snext, sdom := if loads then decide (snext < E) else decide (base < E), prevDesc := desc }
  | _ => d.diff s!"unparsed sequential line {toks}"

/-- registered priorityEncoderTree: one input word per clock cycle -/
def stepTreeReg (d : D) (toks : List String) : IO D := do
  let (ins, outs) := splitIO toks
  match d.params, ins with
  | [n, bps, np], [a] =>
    let bits := bitsOf (parseBits a)
    let hist := d.histBits.push bits
    let t := hist.size - 1
    let mut d := { d with histBits := hist }
    if nextPow2 ((n + 2 ^ bps - 1) / 2 ^ bps) != np then return (← d.diff s!"nextPow2 model={nextPow2 ((n + 2 ^ bps - 1) / 2 ^ bps)} impl={np}")
    let lmax := peTreeRegDepth bps (n + 1) n
    if t < lmax then return d              -- registers not yet loaded on every path
    match peTreeReg bps (n + 1) (fun s => hist.getD s []) t with
    | none => d.diff s!"t={t} model=rejects impl={outs}"
    | some o =>
      let mOut := [fmtO o.w o.v, fmtB o.valid]
      if mOut != outs then d ← d.diff s!"t={t} in={a} model={mOut} impl={outs}"
      -- definition: a pipelined primitive has ONE latency L with out(t+L) = f(in(t)); L = number of register levels
      let src := hist.getD (t - lmax) []
      let low := Spec.lowestSet src
      let expV := fmtB low.isSome
      let ok := match outs with
        | [r, v] => v == expV && (match low with | some i => r == fmt o.w i | none => true)
        | _ => false
      if !ok then
        d ← d.fail s!"t={t} latency={lmax} in(t-latency)={fmt n (toNat src)} spec=[{(low.map (fmt o.w)).getD "*"}, {expV}] impl={outs}"
      return d
  | _, _ => d.diff s!"unparsed petreereg line {toks}"

/-- pipelined longDivision: out(t) = n(t-L) / d(t-L) -/
def stepDivPipe (d : D) (toks : List String) : IO D := do
  let (ins, outs) := splitIO toks
  match d.params, ins with
  | [nw, dw, _, sgn], [a, b] =>
    let hist := d.histIn.push ((parseBits a).2, (parseBits b).2)
    let t := hist.size - 1
    let mut d := { d with histIn := hist }
    let L := d.stages
    if t < L then return d
    let (n, dd) := hist.getD (t - L) (0, 0)
    let m := if sgn == 1 then longDivisionS nw dw n dd else (longDivision nw dw n dd).1
    if [fmt nw m] != outs then d ← d.diff s!"t={t} stages={L} in(t-L)=[{n}, {dd}] model={fmt nw m} impl={outs}"
    if dd != 0 then
      let sp := if sgn == 1 then Spec.sdiv nw n dd else n / dd
      if [fmt nw sp] != outs then d ← d.fail s!"t={t} stages={L} in(t-L)=[{n}, {dd}] spec={fmt nw sp} impl={outs}"
    return d
  | _, _ => d.diff s!"unparsed divpipe line {toks}"

/-- extra classification of a failing vector (used for the finding signatures) -/
def failNote (prim : String) (p : List Nat) (ins : List (Nat × Nat)) : String :=
  match prim, p, ins with
  | "mins", [w], [a, b] | "maxs", [w], [a, b] =>
    let dlt := toInt w a.2 - toInt w b.2
    let half : Int := (2 ^ (w - 1) : Nat)
    if dlt < -half || dlt ≥ half || -dlt < -half || -dlt ≥ half then " signed-difference-overflows" else ""
  | _, _, _ => ""

def graySyncCfg (p : List Nat) : GraySync :=
  match p with
  | [w, hasReset, rv, outStages, inStage, _, _] => ⟨w, outStages, inStage == 1, if hasReset == 1 then some rv else none⟩
  | _ => ⟨0, 0, false, none⟩

/-- synchronizeGrayCode: `p > out` (power-on) and `e <A|B|AB> in > out` (one clock-edge instant) -/
def stepGraySync (d : D) (kind : String) (toks : List String) : IO D := do
  let (ins, outs) := splitIO toks
  let c := graySyncCfg d.params
  let w := c.w
  if kind == "p" then
    let s0 := graySyncInit c
    let mut d := { d with gs := s0 }
    let mOut := [fmtO w (graySyncOut c s0)]
    if mOut != outs then d ← d.diff s!"power-on model={mOut} impl={outs}"
    match c.reset with
    | some r =>
      d := { d with gsResetChecks := d.gsResetChecks + 1 }
      if [fmt w r] != outs then d ← d.fail s!"power-on reset-phase spec=[{fmt w r}] impl={outs}"
    | none => pure ()
    return d
  match ins with
  | [ev, a] =>
    let inp := (parseBits a).2
    let edgeA := ev == "A" || ev == "AB"; let edgeB := ev == "B" || ev == "AB"
    -- the first edge of each clock falls into that domain's (one cycle) reset: registers with a reset value keep it
    let effA := edgeA && !(c.reset.isSome && !d.gsSeenA)
    let effB := edgeB && !(c.reset.isSome && !d.gsSeenB)
    let s1 := graySyncStep c d.gs effA effB inp
    let mut d := { d with gs := s1, gsSeenA := d.gsSeenA || edgeA, gsSeenB := d.gsSeenB || edgeB, gsBeff := d.gsBeff + (if effB then 1 else 0) }
    let mOut := [fmtO w (graySyncOut c s1)]
    let desc := s!"event={ev} in={a} latches-so-far={d.gsBeff}"
    if mOut != outs then d ← d.diff s!"{desc} model={mOut} impl={outs}"
    -- definition (1): while the chain still holds reset values the output is `reset`
    match c.reset with
    | some r =>
      if d.gsBeff < c.outStages then
        d := { d with gsResetChecks := d.gsResetChecks + 1 }
        if [fmt w r] != outs then d ← d.fail s!"{desc} reset-phase spec=[{fmt w r}] impl={outs}"
    | none => pure ()
    -- definition (2): an input held long enough (one input-clock latch, then `outStages` output-clock latches) appears at the output
    let (x, gotA, nB) := d.gsStable
    let (gotA, nB) := if inp != x then (!c.inStage, 0) else (gotA, nB)
    let nB := if effB && gotA then nB + 1 else nB
    let gotA := gotA || effA
    d := { d with gsStable := (inp, gotA, nB) }
    if nB ≥ c.outStages then
      d := { d with gsSettledChecks := d.gsSettledChecks + 1 }
      if [fmt w inp] != outs then d ← d.fail s!"{desc} settled spec=[{fmt w inp}] impl={outs}"
    return d
  | _ => d.diff s!"unparsed graysync line {toks}"

def stepV (d : D) (toks : List String) : IO D := do
  let (ins, outs) := splitIO toks
  let insP := ins.map parseBits
  let r := evalV d.prim d.params insP
  let inDesc := s!"in={ins}"
  let mut d := d
  match r.model with
  | none => d ← d.diff s!"{inDesc} model=rejects impl={outs}"
  | some m =>
    if m != outs then d ← d.diff s!"{inDesc} model={m} impl={outs}"
  -- property
  let exp := r.spec
  let bad := (exp.zip outs).any fun (e, o) => match e with | some e => e != o | none => false
  let outsP := outs.map parseBits
  let hasX := outs.any fun s => s.any (· == 'x')
  let relBad := !(r.rel outsP) && !(hasX && exp.all (·.isNone))
  if bad || (exp.length != outs.length && !exp.isEmpty) then
    d ← d.fail s!"{inDesc} spec={exp.map fun e => e.getD "*"} impl={outs}{failNote d.prim d.params insP}"
  else if relBad then
    d ← d.fail s!"{inDesc} relation-violated impl={outs}"
  return d

partial def loop (h : IO.FS.Stream) (d : D) : IO D := do
  let line ← h.getLine
  if line.isEmpty then return d
  let toks := (line.trimAscii.toString.splitOn " ").filter (· ≠ "")
  match toks with
  | [] => loop h d
  | "#" :: _ => loop h d
  | "case" :: k :: prim :: ps =>
    let params := ps.map String.toNat!
    let cfg := counterCfg prim params
    let reset := params.getD 1 0
    loop h { d with caseId := k, prim := prim, params := params, header := s!"prim={prim} params={params}",
                    reportedDiff := false, reportedFail := false, sawErr := false, cases := d.cases + 1,
                    cfg := cfg, mval := reset % 2 ^ cfg.w, sval := reset % 2 ^ cfg.w, sdom := true, prevDesc := "after=[reset]", histBits := #[], histIn := #[], stages := 0,
                    gs := ⟨none, []⟩, gsSeenA := false, gsSeenB := false, gsBeff := 0, gsStable := (0, false, 0),
                    whist := bump d.whist (wclass (params.getD 0 0)),
                    mhist := if isCounter prim && prim != "updown" then bump d.mhist s!"{prim}:m{params.getD 2 0}" else d.mhist }
  | ["end"] => loop h d
  | ["stages", l] =>
    let m := longDivisionStages (d.params.getD 0 0) (d.params.getD 2 0)
    let d := { d with stages := l.toNat! }
    if m != l.toNat! then loop h (← d.diff s!"stages model={m} impl={l}") else loop h d
  | ["width", w] =>
    if isCounter d.prim && w.toNat! != d.cfg.w then loop h (← d.diff s!"width model={d.cfg.w} impl={w}") else loop h d
  | ["err", cls] =>
    let mut d := { d with errs := d.errs + 1, sawErr := true, hist := bump d.hist (d.prim ++ ":err") }
    if !(modelRejects d.prim d.params) then d ← d.diff s!"model=accepts impl=err:{cls}"
    if !(specRejects d.prim d.params) then d ← d.fail s!"spec=defined impl=err:{cls} (the generator rejects these parameters)"
    loop h d
  | "v" :: rest =>
    let d ← stepV d rest
    loop h { d with ops := d.ops + 1, hist := bump d.hist d.prim }
  | "p" :: rest =>
    let d ← stepGraySync d "p" rest
    loop h { d with ops := d.ops + 1, hist := bump d.hist d.prim }
  | "e" :: rest =>
    let d ← stepGraySync d "e" rest
    loop h { d with ops := d.ops + 1, hist := bump d.hist d.prim }
  | "s" :: rest =>
    let d ← if d.prim == "petreereg" then stepTreeReg d rest else if d.prim == "divpipe" then stepDivPipe d rest else stepSeq d rest
    loop h { d with ops := d.ops + 1, hist := bump d.hist d.prim }
  | _ => loop h (← d.diff s!"unparsed line {line.trimAscii.toString}")

def main : IO Unit := do
  let d ← loop (← IO.getStdin) {}
  let js (h : List (String × Nat)) := ",".intercalate (h.map fun (k, n) => s!"\"{k}\":{n}")
  IO.println s!"SUMMARY \{\"cases\":{d.cases},\"ops\":{d.ops},\"errs\":{d.errs},\"diffs\":{d.diffs},\"propfails\":{d.propfails},\"hist\":\{{js d.hist}},\"widths\":\{{js d.whist}},\"counter_api\":\{{js d.mhist}},\"graysync_reset_checks\":{d.gsResetChecks},\"graysync_settled_checks\":{d.gsSettledChecks}}"
