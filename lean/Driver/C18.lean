import GateryModel.C18.Literal
import GateryModel.C18.SigImport
/-!
Driver for C18: reads the harness protocol on stdin, replays every operation on
(a) the word-level model and (b) the bit-array specification, and compares both with what the
implementation printed.  `DIFF` = model ≠ implementation (correspondence broken),
`PROPFAIL` = implementation ≠ specification (the property fails on a concrete input).
-/
open Gatery.C18 Gatery.Gen

structure SpecS where
  size : Nat
  planes : List Bits
  deriving BEq

structure D where
  ext : Bool := false
  caseId : String := ""
  model : Array BVS := #[]
  spec : Array SpecS := #[]
  ops : Nat := 0
  cases : Nat := 0
  diffs : Nat := 0
  propfails : Nat := 0
  hist : List (String × Nat) := []
  lastOp : String := ""
  trace : List String := []      -- ops of the current case (for replay files)
  litRes : Option ParseResult := none
  litStr : String := ""
  caseKind : String := ""

def bump (h : List (String × Nat)) (k : String) : List (String × Nat) :=
  match h with
  | [] => [(k, 1)]
  | (a, n) :: t => if a == k then (a, n+1) :: t else (a, n) :: bump t k

def hexVal (c : Char) : Nat :=
  if c.isDigit then c.toNat - '0'.toNat else if 'a' ≤ c ∧ c ≤ 'f' then c.toNat - 'a'.toNat + 10 else 0
def parseHex (s : String) : Nat := s.foldl (fun a c => a * 16 + hexVal c) 0
def toHex (n : Nat) : String := String.ofList (Nat.toDigits 16 n)

def parsePlane (s : String) : Plane :=
  if s == "-" then [] else (s.splitOn ",").map fun w => BitVec.ofNat 64 (parseHex w)

def parseInt (s : String) : Int :=
  if s.startsWith "-" then -((s.drop 1).toString.toNat!) else s.toNat!

def specOf (b : BVS) : SpecS := ⟨b.size, b.abs⟩

def np (d : D) : Nat := if d.ext then 4 else 2

def showBVS (b : BVS) : String :=
  s!"{b.size}:" ++ " ".intercalate (b.planes.map fun p => ",".intercalate (p.map fun w => toHex w.toNat))
def showSpec (s : SpecS) : String :=
  s!"{s.size}:" ++ " ".intercalate (s.planes.map fun p => String.ofList (p.map fun b => if b then '1' else '0'))

def mreg (d : D) (r : Nat) : BVS := d.model.getD r (BVS.empty (np d))
def sreg (d : D) (r : Nat) : SpecS := d.spec.getD r ⟨0, List.replicate (np d) []⟩

def setM (d : D) (r : Nat) (b : BVS) : D := { d with model := d.model.setIfInBounds r b }
def setS (d : D) (r : Nat) (s : SpecS) : D := { d with spec := d.spec.setIfInBounds r s }

def specPlaneMap (s : SpecS) (k : Nat) (f : Bits → Bits) : SpecS := { s with planes := s.planes.modify k f }

/-- result of running one op on model+spec: either a value to compare with `->`, or a mutated register -/
inductive Out where
  | val (model spec : String)
  | mut (r : Nat)
  | err (r : Nat)        -- model says: precondition violated, the code asserts
  | bad

def boolS (b : Bool) : String := if b then "1" else "0"

def step (d : D) (toks : List String) : D × Out :=
  let n (s : String) : Nat := s.toNat!
  match toks with
  | ["resize", r, sz] =>
    let r := n r; let sz := n sz
    let d := setM d r ((mreg d r).resize sz)
    let s := sreg d r
    (setS d r ⟨sz, s.planes.map (specResize · sz)⟩, .mut r)
  | ["set", r, p, i] =>
    let r := n r; (setS (setM d r ((mreg d r).mapPlane (n p) (setBit · (n i)))) r (specPlaneMap (sreg d r) (n p) (specAssign · (n i) true)), .mut r)
  | ["clear", r, p, i] =>
    let r := n r; (setS (setM d r ((mreg d r).mapPlane (n p) (clearBit · (n i)))) r (specPlaneMap (sreg d r) (n p) (specAssign · (n i) false)), .mut r)
  | ["toggle", r, p, i] =>
    let r := n r; (setS (setM d r ((mreg d r).mapPlane (n p) (toggleBit · (n i)))) r (specPlaneMap (sreg d r) (n p) (specToggle · (n i))), .mut r)
  | ["assign", r, p, i, b] =>
    let r := n r; let b := b == "1"
    (setS (setM d r ((mreg d r).mapPlane (n p) (assignBit · (n i) b))) r (specPlaneMap (sreg d r) (n p) (specAssign · (n i) b)), .mut r)
  | ["get", r, p, i] =>
    (d, .val (boolS (bit ((mreg d (n r)).plane (n p)) (n i))) (boolS (sBit ((sreg d (n r)).planes.getD (n p) []) (n i))))
  | ["setRange", r, p, off, sz, b] =>
    let r := n r; let b := b == "1"
    (setS (setM d r ((mreg d r).mapPlane (n p) (setRange · (n off) (n sz) b))) r (specPlaneMap (sreg d r) (n p) (specSetRange · (n off) (n sz) b)), .mut r)
  | ["copyRange", r, doff, r2, soff, sz] =>
    let r := n r; let r2 := n r2
    let d' := setM d r ((mreg d r).copyRange (n doff) (mreg d r2) (n soff) (n sz))
    let s := sreg d r; let s2 := sreg d r2
    (setS d' r { s with planes := List.zipWith (fun a b => specCopy a b (n doff) (n soff) (n sz)) s.planes s2.planes }, .mut r)
  | ["cmpRange", r, doff, r2, soff, sz] =>
    let m := if d.ext then (mreg d (n r)).compareRangeExt (n doff) (mreg d (n r2)) (n soff) (n sz)
             else (mreg d (n r)).compareRangeDefault (n doff) (mreg d (n r2)) (n soff) (n sz)
    let a := (sreg d (n r)).planes; let b := (sreg d (n r2)).planes
    let s := if d.ext then specCompareExt a b (n doff) (n soff) (n sz)
             else specCompareDefault (a.getD 0 []) (a.getD 1 []) (b.getD 0 []) (b.getD 1 []) (n doff) (n soff) (n sz)
    (d, .val (boolS m) (boolS s))
  | ["extract", r, p, off, sz] =>
    let pl := (mreg d (n r)).plane (n p)
    if PreX pl (n off) (n sz) then
      (d, .val (toHex (extract pl (n off) (n sz)).toNat) (toHex (specExtract ((sreg d (n r)).planes.getD (n p) []) (n off) (n sz)).toNat))
    else (d, .err (n r))
  | ["extractNS", r, p, off, sz] =>
    let pl := (mreg d (n r)).plane (n p)
    if PreXNS pl (n off) (n sz) then
      (d, .val (toHex (extractNS pl (n off) (n sz)).toNat) (toHex (specExtract ((sreg d (n r)).planes.getD (n p) []) (n off) (n sz)).toNat))
    else (d, .err (n r))
  | ["insert", r, p, off, sz, v] =>
    let r := n r; let v := BitVec.ofNat 64 (parseHex v)
    if PreI ((mreg d r).plane (n p)) (n off) (n sz) then
      (setS (setM d r ((mreg d r).mapPlane (n p) (insert · (n off) (n sz) v))) r (specPlaneMap (sreg d r) (n p) (specInsert · (n off) (n sz) v)), .mut r)
    else (d, .err r)
  | ["insertNS", r, p, off, sz, v] =>
    let r := n r; let v := BitVec.ofNat 64 (parseHex v)
    if PreNS ((mreg d r).plane (n p)) (n off) (n sz) then
      (setS (setM d r ((mreg d r).mapPlane (n p) (insertNS · (n off) (n sz) v))) r (specPlaneMap (sreg d r) (n p) (specInsert · (n off) (n sz) v)), .mut r)
    else (d, .err r)
  | ["extractS", r, r2, start, sz] =>
    let r := n r
    let s2 := sreg d (n r2)
    (setS (setM d r ((mreg d (n r2)).extractState (n start) (n sz))) r ⟨n sz, s2.planes.map (slice · (n start) (n sz))⟩, .mut r)
  | ["insertS", r, r2, off, sz] =>
    let r := n r; let m2 := mreg d (n r2)
    if m2.size + n off ≤ (mreg d r).size then
      let width := if n sz ≠ 0 then n sz else m2.size
      let s := sreg d r; let s2 := sreg d (n r2)
      (setS (setM d r ((mreg d r).insertState m2 (n off) (n sz))) r
        { s with planes := List.zipWith (fun a b => specCopy a b (n off) 0 width) s.planes s2.planes }, .mut r)
    else (d, .err r)
  | ["append", r, r2] =>
    let r := n r; let s := sreg d r; let s2 := sreg d (n r2)
    (setS (setM d r ((mreg d r).append (mreg d (n r2)))) r ⟨s.size + s2.size, List.zipWith (· ++ ·) s.planes s2.planes⟩, .mut r)
  | ["assignS", r, r2] =>
    let r := n r; (setS (setM d r (mreg d (n r2))) r (sreg d (n r2)), .mut r)
  | ["eq", r, r2] =>
    (d, .val (boolS ((mreg d (n r)).eq (mreg d (n r2)))) (boolS (sreg d (n r) == sreg d (n r2))))
  | ["bigx", r, off, sz] =>
    if n sz > 64 ∧ n off % 64 ≠ 0 then (d, .err (n r)) else
    (d, .val (toString (extractBigInt ((mreg d (n r)).plane 0) (n off) (n sz))) (toString (specBigExtract ((sreg d (n r)).planes.getD 0 []) (n off) (n sz))))
  | ["bigi", r, off, sz, v] =>
    let r := n r
    if n sz > 64 ∧ n off % 64 ≠ 0 then (d, .err r) else
    let v := parseInt v
    (setS (setM d r ((mreg d r).mapPlane 0 (insertBigInt · (n off) (n sz) v))) r (specPlaneMap (sreg d r) 0 (specBigInsert · (n off) (n sz) v)), .mut r)
  | [op, r, p, start, sz] =>
    let m := mreg d (n r); let s := sreg d (n r)
    let sz := if sz == "max" then 2^64 - 1 else n sz
    let sp := s.planes.getD (n p) []
    if op == "allOne" then (d, .val (boolS (allOne (m.plane (n p)) m.size (n start) sz)) (boolS (specAll sp s.size (n start) sz true)))
    else if op == "allZero" then (d, .val (boolS (allZero (m.plane (n p)) m.size (n start) sz)) (boolS (specAll sp s.size (n start) sz false)))
    else if op == "anyOne" then (d, .val (boolS (anyOne (m.plane (n p)) m.size (n start) sz)) (boolS (!(specAll sp s.size (n start) sz false))))
    else (d, .bad)
  | _ => (d, .bad)

def parseDump (toks : List String) : Option (Nat × BVS) :=
  match toks with
  | "=" :: r :: sz :: planes => some (r.toNat!, ⟨sz.toNat!, planes.map parsePlane⟩)
  | _ => none

/-- compare registers with the implementation's dump, emit messages, resynchronise model and spec -/
def checkDump (d : D) (r : Nat) (impl : BVS) (lineNo : Nat) (out : Array String) : D × Array String := Id.run do
  let mut d := d
  let mut out := out
  if mreg d r != impl then
    out := out.push s!"DIFF case={d.caseId} line={lineNo} op=[{d.lastOp}] model={showBVS (mreg d r)} impl={showBVS impl}"
    d := { d with diffs := d.diffs + 1 }
  let si := specOf impl
  if !(sreg d r == si) then
    out := out.push s!"PROPFAIL case={d.caseId} line={lineNo} op=[{d.lastOp}] spec={showSpec (sreg d r)} impl={showSpec si}"
    d := { d with propfails := d.propfails + 1 }
  return (setS (setM d r impl) r si, out)

partial def loop (h : IO.FS.Stream) (d : D) (lineNo : Nat) (pending : Option Out) : IO D := do
  let line ← h.getLine
  if line.isEmpty then return d
  let toks := (line.trimAscii.toString.splitOn " ").filter (· ≠ "")
  match toks with
  | [] => loop h d (lineNo+1) pending
  | "#" :: _ => loop h d (lineNo+1) pending
  | "case" :: k :: cfg :: _ =>
    let ext := cfg == "E"
    let npl := if ext then 4 else 2
    loop h { d with ext := ext, caseId := k, cases := d.cases + 1, caseKind := cfg, litRes := none,
                    model := Array.replicate 4 (BVS.empty npl), spec := Array.replicate 4 ⟨0, List.replicate npl []⟩ } (lineNo+1) none
  | ["end"] => loop h d (lineNo+1) none
  | "byerr" :: rest =>
    IO.println s!"DIFF case={d.caseId} line={lineNo} op=[bytes] exception {" ".intercalate rest}"
    loop h { d with diffs := d.diffs + 1 } (lineNo+1) none
  | ["by", "c", hex, "->", bitsS] =>
    -- createDefaultBitVectorState(bytes): bit i of the state = bit (i % 8) of byte (i / 8), all defined
    let bytes : List Nat := if hex == "-" then [] else (List.range (hex.length / 2)).map fun j => hexVal (hex.toList.getD (2*j) '0') * 16 + hexVal (hex.toList.getD (2*j+1) '0')
    let chars := if bitsS == "-" then [] else bitsS.toList.reverse
    let ok := Sig.isImportOf chars bytes
    let d := { d with ops := d.ops + 1, hist := bump d.hist "bytes:create" }
    if !ok then
      IO.println s!"PROPFAIL case={d.caseId} line={lineNo} op=[bytes create {hex}] impl={bitsS}"
      loop h { d with propfails := d.propfails + 1 } (lineNo+1) none
    else loop h d (lineNo+1) none
  | ["by", "a", bitsS, fillS, "->", hex] =>
    let unhex := fun (h : String) => if h == "-" then ([] : List Nat) else (List.range (h.length / 2)).map fun j => hexVal (h.toList.getD (2*j) '0') * 16 + hexVal (h.toList.getD (2*j+1) '0')
    let out := unhex hex; let filler := unhex fillS
    let chars := if bitsS == "-" then [] else bitsS.toList.reverse
    let ok := 8 * out.length == chars.length && (List.range chars.length).all fun i => Sig.bytesBit out i == Sig.asDataBit chars filler i
    let d := { d with ops := d.ops + 1, hist := bump d.hist s!"bytes:asData:{if chars.any (· == 'x') then (if chars.all (· == 'x') then "undef" else "partial") else "def"}" }
    if !ok then
      IO.println s!"PROPFAIL case={d.caseId} line={lineNo} op=[bytes asData state={bitsS} filler={fillS}] impl={hex}"
      loop h { d with propfails := d.propfails + 1 } (lineNo+1) none
    else loop h d (lineNo+1) none
  | ["by", "e", bitsS, hex, "->", r] =>
    -- operator==(state, bytes): true iff every bit of the state is defined and equals the corresponding bit of the byte array
    let bytes : List Nat := if hex == "-" then [] else (List.range (hex.length / 2)).map fun j => hexVal (hex.toList.getD (2*j) '0') * 16 + hexVal (hex.toList.getD (2*j+1) '0')
    let chars := if bitsS == "-" then [] else bitsS.toList.reverse
    let spec := Sig.eqBytesSpec chars bytes
    let d := { d with ops := d.ops + 1, hist := bump d.hist s!"bytes:eq:{if chars.any (· == 'x') then "undef" else "def"}:{spec}" }
    if spec != (r == "1") then
      IO.println s!"PROPFAIL case={d.caseId} line={lineNo} op=[bytes eq state={bitsS} bytes={hex}] spec={spec} impl={r}"
      loop h { d with propfails := d.propfails + 1 } (lineNo+1) none
    else loop h d (lineNo+1) none
  | "sgerr" :: rest =>
    IO.println s!"DIFF case={d.caseId} line={lineNo} op=[sighandle] exception {" ".intercalate rest}"
    loop h { d with diffs := d.diffs + 1 } (lineNo+1) none
  | "sg" :: kind :: w :: v :: "->" :: bitsS :: rest =>
    -- integers through the simulation signal handles: import (uint64_t / int64_t / BigInt) and the conversions back
    let w := w.toNat!
    let vi : Int := v.toInt!
    let chars := if bitsS == "-" then [] else bitsS.toList.reverse   -- LSB first
    let implBit := fun (i : Nat) => chars.getD i '0' == '1'
    let allDefined := chars.all (· != 'x')
    let kvs := rest.map fun t => match t.splitOn "=" with | [a, b] => (a, b) | _ => ("", "")
    let opTxt := s!"sighandle {kind} w={w} v={v}"
    let mut d := { d with ops := d.ops + 1, hist := bump d.hist s!"sig:{kind}:{if w ≤ 64 then "≤64" else ">64"}:{if vi < 0 then "neg" else "nonneg"}" }
    -- import
    let specOk := chars.length == w && allDefined && (List.range w).all fun i => implBit i == Sig.specImport w vi i
    let modelBits : Option (Nat → Bool) := if kind == "u" then some (Sig.importU64 w vi.toNat) else if kind == "i" then some (Sig.importI64 w vi) else none
    match modelBits with
    | some mb =>
      if !(chars.length == w && allDefined && (List.range w).all fun i => implBit i == mb i) then
        IO.println s!"DIFF case={d.caseId} line={lineNo} op=[{opTxt}] model={String.ofList ((List.range w).reverse.map fun i => if mb i then '1' else '0')} impl={bitsS}"
        d := { d with diffs := d.diffs + 1 }
    | none => pure ()
    if !specOk then
      IO.println s!"PROPFAIL case={d.caseId} line={lineNo} op=[{opTxt}] spec={String.ofList ((List.range w).reverse.map fun i => if Sig.specImport w vi i then '1' else '0')} impl={bitsS}"
      d := { d with propfails := d.propfails + 1 }
    -- export
    let u := Sig.toNat w implBit
    match kvs.lookup "u" with
    | some x => if x.toNat! != u then
        IO.println s!"PROPFAIL case={d.caseId} line={lineNo} op=[sighandle value() w={w}] spec={u} impl={x} bits={bitsS}"
        d := { d with propfails := d.propfails + 1 }
    | none => pure ()
    match kvs.lookup "i" with
    | some x =>
      if x.toInt! != Sig.exportI64 w implBit then
        IO.println s!"DIFF case={d.caseId} line={lineNo} op=[sighandle int64 w={w}] model={Sig.exportI64 w implBit} impl={x} bits={bitsS}"
        d := { d with diffs := d.diffs + 1 }
      if x.toInt! != Sig.specSigned w implBit then
        IO.println s!"PROPFAIL case={d.caseId} line={lineNo} op=[sighandle int64 w={w}] spec={Sig.specSigned w implBit} impl={x} bits={bitsS}"
        d := { d with propfails := d.propfails + 1 }
    | none => pure ()
    match kvs.lookup "b" with
    | some x => if x.toInt! != (u : Int) then
        IO.println s!"PROPFAIL case={d.caseId} line={lineNo} op=[sighandle BigInt w={w}] spec={u} impl={x} bits={bitsS}"
        d := { d with propfails := d.propfails + 1 }
    | none => pure ()
    loop h d (lineNo+1) none
  | "lit" :: rest =>
    let s := " ".intercalate rest
    loop h { d with ops := d.ops + 1, hist := bump d.hist "parse", lastOp := s!"lit {s}", litRes := some (parseBitVector s), litStr := s } (lineNo+1) none
  | ["bin", s] =>
    match d.litRes with
    | some (.ok size v dd) =>
      let m := formatBinary size v dd
      let m := if m.isEmpty then "-" else m
      if m != s then
        IO.println s!"DIFF case={d.caseId} line={lineNo} op=[format {d.litStr}] model={m} impl={s}"
        loop h { d with diffs := d.diffs + 1 } (lineNo+1) none
      else loop h { d with ops := d.ops + 1, hist := bump d.hist "formatBinary" } (lineNo+1) none
    | _ => loop h d (lineNo+1) none
  | ["hex", s] =>
    match d.litRes with
    | some (.ok size v dd) =>
      let m := if size % 4 == 0 then formatHex size v dd else formatBinary size v dd
      let m := if m.isEmpty then "-" else m
      if m != s then
        IO.println s!"DIFF case={d.caseId} line={lineNo} op=[formathex {d.litStr}] model={m} impl={s}"
        loop h { d with diffs := d.diffs + 1 } (lineNo+1) none
      else loop h { d with ops := d.ops + 1, hist := bump d.hist "formatHex" } (lineNo+1) none
    | _ => loop h d (lineNo+1) none
  | ["fr", base, off, sz, str] =>
    match d.litRes with
    | some (.ok _ v dd) =>
      let m := formatRange v dd base.toNat! off.toNat! sz.toNat!
      let m := if m.isEmpty then "-" else m
      if m != str then
        IO.println s!"DIFF case={d.caseId} line={lineNo} op=[formatRange {d.litStr} base={base} off={off} size={sz}] model={m} impl={str}"
        IO.println s!"PROPFAIL case={d.caseId} line={lineNo} op=[formatRange {d.litStr} base={base} off={off} size={sz}] spec={m} impl={str}"
        loop h { d with diffs := d.diffs + 1, propfails := d.propfails + 1 } (lineNo+1) none
      else loop h { d with ops := d.ops + 1, hist := bump d.hist "formatRange" } (lineNo+1) none
    | _ => loop h d (lineNo+1) none
  | ["fs", base, drop, str] =>
    match d.litRes with
    | some (.ok size v dd) =>
      let m := formatState size v dd base.toNat! (drop == "1")
      let m := if m.isEmpty then "-" else m
      if m != str then
        IO.println s!"DIFF case={d.caseId} line={lineNo} op=[formatState {d.litStr} base={base} drop={drop}] model={m} impl={str}"
        loop h { d with diffs := d.diffs + 1 } (lineNo+1) none
      else loop h { d with ops := d.ops + 1, hist := bump d.hist "formatState" } (lineNo+1) none
    | _ => loop h d (lineNo+1) none
  | ["load", _] => loop h { d with lastOp := "load" } (lineNo+1) (some (.mut 99))   -- content loaded through data(): next dump is taken as is
  | "->" :: rest =>
    let v := " ".intercalate rest
    if d.litRes.isSome && (v == "ok" || v.startsWith "e:") then
      let m := match d.litRes with
        | some (.ok _ _ _) => "ok" | some .designError => "e:design" | some .internalError => "e:internal" | none => "?"
      -- specification of the grammar (`specLiteral`, all five literal kinds): accepted with these bits, or rejected with a design error
      let spec : Option (Option (List (Option Bool))) := some (specLiteral d.litStr)
      let mut d := d
      if m != v then
        IO.println s!"DIFF case={d.caseId} line={lineNo} op=[{d.lastOp}] model={m} impl={v}"
        d := { d with diffs := d.diffs + 1 }
      match spec with
      | some (some _) =>
        if v != "ok" then
          IO.println s!"PROPFAIL case={d.caseId} line={lineNo} op=[parse {d.litStr}] spec=accepts impl={v}"
          d := { d with propfails := d.propfails + 1 }
      | some none =>
        if v != "e:design" then
          IO.println s!"PROPFAIL case={d.caseId} line={lineNo} op=[parse {d.litStr}] spec=too-narrow(design error) impl={v}"
          d := { d with propfails := d.propfails + 1 }
      | none => pure ()
      loop h d (lineNo+1) none
    else
    match pending with
    | some (.val m s) =>
      let mut d := d
      if m != v then
        IO.println s!"DIFF case={d.caseId} line={lineNo} op=[{d.lastOp}] model={m} impl={v}"
        d := { d with diffs := d.diffs + 1 }
      if s != v then
        IO.println s!"PROPFAIL case={d.caseId} line={lineNo} op=[{d.lastOp}] spec={s} impl={v}"
        d := { d with propfails := d.propfails + 1 }
      loop h d (lineNo+1) none
    | some (.err r) =>
      let mut d := d
      if v != "e" then
        IO.println s!"DIFF case={d.caseId} line={lineNo} op=[{d.lastOp}] model=e impl={v}"
        d := { d with diffs := d.diffs + 1 }
      loop h d (lineNo+1) (some (.err r))
    | some (.mut r) =>
      -- implementation threw where the model expected a mutation
      IO.println s!"DIFF case={d.caseId} line={lineNo} op=[{d.lastOp}] model=ok impl={v}"
      loop h { d with diffs := d.diffs + 1 } (lineNo+1) (some (.mut r))
    | _ => loop h d (lineNo+1) none
  | "=" :: _ =>
    match parseDump toks with
    | some (r, impl) =>
      if d.ext == false && d.litRes.isSome && d.caseKind == "L" then
        let mut d := d
        match d.litRes with
        | some (.ok size v dd) =>
          let m : BVS := ⟨size, [v, dd]⟩
          if m != impl then
            IO.println s!"DIFF case={d.caseId} line={lineNo} op=[{d.lastOp}] model={showBVS m} impl={showBVS impl}"
            d := { d with diffs := d.diffs + 1 }
        | _ => pure ()
        let spec : Option (List (Option Bool)) := specLiteral d.litStr
        match spec with
        | some bits =>
          let implBits := resultBits (.ok impl.size (impl.plane 0) (impl.plane 1))
          if implBits != some bits then
            IO.println s!"PROPFAIL case={d.caseId} line={lineNo} op=[parse {d.litStr}] spec-bits-differ impl={showBVS impl}"
            d := { d with propfails := d.propfails + 1 }
        | none => pure ()
        loop h d (lineNo+1) none
      else
      if d.lastOp == "load" then
        loop h (setS (setM d r impl) r (specOf impl)) (lineNo+1) none
      else
        match pending with
        | some (.err _) =>
          -- the op was rejected: state must be unchanged; model was not stepped
          let (d, out) := checkDump d r impl lineNo #[]
          out.forM IO.println
          loop h d (lineNo+1) none
        | _ =>
          let (d, out) := checkDump d r impl lineNo #[]
          out.forM IO.println
          loop h d (lineNo+1) none
    | none => loop h d (lineNo+1) none
  | op :: _ =>
    let (d', o) := step d toks
    let d' := { d' with ops := d'.ops + 1, hist := bump d'.hist op, lastOp := line.trimAscii.toString }
    match o with
    | .bad =>
      IO.println s!"DIFF case={d.caseId} line={lineNo} op=[{line.trimAscii.toString}] model=unparsed impl=?"
      loop h { d' with diffs := d'.diffs + 1 } (lineNo+1) none
    | o => loop h d' (lineNo+1) (some o)

def main : IO Unit := do
  let d ← loop (← IO.getStdin) {} 1 none
  let hist := ",".intercalate (d.hist.map fun (k, n) => s!"\"{k}\":{n}")
  IO.println s!"SUMMARY \{\"cases\":{d.cases},\"ops\":{d.ops},\"diffs\":{d.diffs},\"propfails\":{d.propfails},\"hist\":\{{hist}}}"
