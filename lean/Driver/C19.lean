import GateryModel.Sched.Expr
import GateryModel.Sched.Clock
import GateryModel.Sched.Proc
import GateryModel.C04.Spec
import GateryModel.C19.Spec
/-!
Driver for C19: reads the protocol of `harness/c19.cpp` on stdin.

* `DIFF`     — the Lean model (`Sched/Sim.lean` event loop with `Sched/Proc.lean` process scripts) produces a different log than the
               implementation (skipped for cases flagged `nodiff`);
* `PROPFAIL` — the implementation's own log violates the property statement (`C19/Spec.lean`): a process resuming from `WaitFor d`
               at a time ≠ t+d, from `WaitClock` in the wrong phase or at a non-activation instant, from `WaitChange` with unchanged
               signals, same-instant resumes out of suspension order, a BEFORE/DURING read that is not the pre-edge value, an AFTER
               read that is not the post-edge value, a register not capturing a BEFORE write / capturing a DURING write, the fiber
               variant or a repetition producing a different log.
-/
open Gatery.Sched Gatery.C04 Gatery.C19

def bump (h : List (String × Nat)) (k : String) (n : Nat := 1) : List (String × Nat) :=
  match h with
  | [] => [(k, n)]
  | (a, m) :: t => if a == k then (a, m+n) :: t else (a, m) :: bump t k n

def parseRat (s : String) : Rat :=
  match s.splitOn "/" with
  | [n, d] => (n.toNat! : Rat) / (d.toNat! : Rat)
  | [n] => (n.toNat! : Rat)
  | _ => 0

def showRat (r : Rat) : String := s!"{r.num}/{r.den}"

def parseBits (s : String) : Val :=
  let cs := s.toList
  let v := cs.foldl (fun a c => 2*a + (if c == '1' then 1 else 0)) 0
  let d := cs.foldl (fun a c => 2*a + (if c == 'x' then 0 else 1)) 0
  ⟨cs.length, v, d⟩

def showBits (a : Val) : String :=
  if a.w == 0 then "-" else
  String.ofList ((List.range a.w).reverse.map fun i =>
    if !(a.d.testBit i) then 'x' else if a.v.testBit i then '1' else '0')

def kv (toks : List String) (k : String) : String :=
  match toks.find? (fun t => t.startsWith (k ++ "=")) with
  | some t => (t.drop (k.length + 1)).toString
  | none => ""

def parseTrig (s : String) : Trigger := if s == "R" then .rising else if s == "F" then .falling else .both
def parseRst (s : String) : ResetType := if s == "S" then .sync else if s == "A" then .async else .none
def parsePhase (s : String) : Phase := if s == "B" || s == "0" then .before else if s == "D" || s == "1" then .during else .after

partial def parseExpr : List String → Option (Expr × List String)
  | [] => none
  | t :: rest =>
    let un (f : Expr → Expr) := do let (a, r) ← parseExpr rest; pure (f a, r)
    let bin (f : Expr → Expr → Expr) := do let (a, r) ← parseExpr rest; let (b, r) ← parseExpr r; pure (f a b, r)
    if t == "not" then un .not else if t == "bit" then un .bit
    else if t == "xor" then bin .xor else if t == "and" then bin .and else if t == "or" then bin .or else if t == "add" then bin .add
    else if t.startsWith "q" then some (.q (t.drop 1).toString.toNat!, rest)
    else if t.startsWith "p" then some (.p (t.drop 1).toString.toNat!, rest)
    else if t.startsWith "c" then some (.c (parseBits (t.drop 1).toString), rest)
    else none

def parseExprOpt (toks : List String) : Option Expr :=
  match toks with
  | ["-"] => none
  | _ => (parseExpr toks).map (·.1)

def parseSigs (s : String) : List Sig :=
  if s == "-" then [] else (s.splitOn ",").map fun t =>
    if t.startsWith "q" then .q (t.drop 1).toString.toNat! else .p (t.drop 1).toString.toNat!

/-- script instruction as printed by the harness (clock waits still refer to clock ids) -/
inductive RawIns
  | wf (d : Rat) | wc (clock : Nat) (ph : Phase) | wch (sigs : List Sig) | ws | rd (sigs : List Sig) | wr (pin : Nat) (v : Val) | fk (s : Nat) | jn (k : Nat)
  deriving Repr, Inhabited

def RawIns.isWait : RawIns → Bool
  | .wf _ | .wc .. | .wch _ | .ws | .jn _ => true
  | _ => false

def parseIns (toks : List String) : Option RawIns :=
  match toks with
  | ["wf", d] => some (.wf (parseRat d))
  | ["wc", c, p] => some (.wc c.toNat! (parsePhase p))
  | ["wch", s] => some (.wch (parseSigs s))
  | ["ws"] => some .ws
  | ["rd", s] => some (.rd (parseSigs s))
  | ["wr", k, v] => some (.wr k.toNat! (parseBits v))
  | ["fk", s] => some (.fk s.toNat!)
  | ["jn", k] => some (.jn k.toNat!)
  | _ => none

def splitOnTok (toks : List String) (sep : String) : List (List String) :=
  let (cur, acc) := toks.foldl (fun (cur, acc) t => if t == sep then ([], acc ++ [cur]) else (cur ++ [t], acc)) ([], [])
  acc ++ [cur]

inductive Obs
  | clk (c : Nat) (rising : Bool) (t : Rat)
  | rst (c : Nat) (high : Bool) (t : Rat)
  | commit (t : Rat) (outs : List Val)
  | proc (pid : Nat) (t : Rat) (ph : Phase) (tick : Nat) (vals : List Val)
  deriving DecidableEq, Repr

def Obs.show : Obs → String
  | .clk c r t => s!"clk {c} {if r then 1 else 0} {showRat t}"
  | .rst c r t => s!"rst {c} {if r then 1 else 0} {showRat t}"
  | .commit t outs => s!"commit {showRat t} " ++ " ".intercalate (outs.map showBits)
  | .proc p t ph tick vals => s!"proc {p} {showRat t} {ph.toNat} {tick} " ++ " ".intercalate (vals.map showBits)

def parseObs (toks : List String) : Option Obs :=
  match toks with
  | "L" :: "clk" :: c :: f :: t :: _ => some (.clk c.toNat! (f == "1") (parseRat t))
  | "L" :: "rst" :: c :: f :: t :: _ => some (.rst c.toNat! (f == "1") (parseRat t))
  | "L" :: "commit" :: t :: vals => some (.commit (parseRat t) (vals.map parseBits))
  | "L" :: "proc" :: p :: t :: ph :: tick :: vals => some (.proc p.toNat! (parseRat t) (parsePhase ph) tick.toNat! (vals.map parseBits))
  | _ => none

def Obs.isClk : Obs → Bool | .clk .. => true | _ => false
def Obs.isRst : Obs → Bool | .rst .. => true | _ => false
def Obs.id : Obs → Nat | .clk c _ _ => c | .rst c _ _ => c | _ => 0

/-- sort every maximal run of consecutive `clk` (resp. `rst`) observations by clock id: the order among equal-priority hardware events
    is decided by the heap layout of `std::priority_queue`, not by `Event::operator<` -/
def canonRuns (l : List Obs) : List Obs :=
  let flush (run : List Obs) : List Obs := run.mergeSort fun a b => a.id ≤ b.id
  let (acc, run) := l.foldl (fun (acc, run) o =>
    match run with
    | [] => if o.isClk || o.isRst then (acc, [o]) else (acc ++ [o], [])
    | r :: _ =>
      if (o.isClk && r.isClk) || (o.isRst && r.isRst) then (acc, run ++ [o])
      else if o.isClk || o.isRst then (acc ++ flush run, [o])
      else (acc ++ flush run ++ [o], [])) ([], [])
  acc ++ flush run

structure RegInfo where
  clk : Nat
  decl : RegDecl
  d : Option Expr
  en : Option Expr

/-- spec-side view of one process (from the implementation's log only) -/
structure PView where
  script : Nat
  pc : Nat := 0                 -- index of the next instruction not yet accounted for
  last : Option (Rat × Phase × Nat × List Val) := none    -- previous observation
  lastSeq : Nat := 0            -- global sequence number of the previous observation
  inCommit : Bool := false      -- the process was last resumed by `commitState` (from a `WaitStable`)
  afterJoin : Bool := false     -- the process was last resumed by the end of a joined process
  deriving Inhabited

structure Case where
  id : String := ""
  nodiff : Bool := false
  diffsAtStart : Nat := 0       -- DIFF count when the case began
  suspects : List String := []  -- resumes of a WaitChange with unchanged values: property failures only if the model did not resume as well
  clocks : Array ClockDecl := #[]
  pinW : List Nat := []
  regs : Array RegInfo := #[]
  scripts : Array (List RawIns) := #[]
  nstart : Nat := 0
  exc : Bool := false
  started : Bool := false
  prog : Prog := ⟨[], [], [], ⟨[], fun _ _ _ => none, fun _ _ _ => none⟩⟩
  alloc : ClockTree.Alloc := {}
  sim : PSim := { ext := {} }
  pendingOp : Option ApiOp := none
  chunk : List Obs := []
  -- spec state
  views : List (Nat × PView) := []
  seq : Nat := 0
  prevOuts : List Val := []
  pinsCur : List Val := []
  edgeSnap : Option (List Val) := none      -- pin values at the end of the BEFORE phase of the current instant
  curTime : Rat := 0
  levels : List (Nat × Bool) := []
  instClk : List (Nat × Bool) := []
  instRst : List (Nat × Bool) := []
  resumes : List (Rat × Phase × Nat × Nat × Nat) := []   -- (t, phase, tick, suspendSeq, pid) of the resumes of the current instant, newest first
  joinResumes : List (Rat × Phase × Nat × Nat × Nat × Nat) := []   -- (t, phase, tick, joined fork index, suspendSeq, pid) of joiners resumed in the current instant
  afterReads : List (Nat × List Sig × List Val) := []    -- AFTER-phase post-clock-wait reads to be compared with the commit

structure St where
  cur : Case := {}
  cases : Nat := 0
  diffs : Nat := 0
  propfails : Nat := 0
  checks : Nat := 0
  hist : List (String × Nat) := []
  out : List String := []
  printedKeys : List String := []
  printed : List (String × Nat) := []

def fuel : Nat := 100000
def lookupD (l : List (Nat × α)) (k : Nat) (d : α) : α := (l.lookup k).getD d
def setKV (l : List (Nat × α)) (k : Nat) (v : α) : List (Nat × α) := (k, v) :: l.filter (·.1 != k)

def St.diff (s : St) (msg : String) : St :=
  if s.cur.nodiff then s else
  let n := (s.printed.lookup "DIFF").getD 0
  let s := { s with diffs := s.diffs + 1 }
  if n ≥ 40 then s else { s with out := s!"DIFF case={s.cur.id} {msg}" :: s.out, printed := ("DIFF", n+1) :: s.printed.filter (·.1 != "DIFF") }

def St.propfail (s : St) (msg : String) : St :=
  let kind := ((msg.splitOn " ").headD "")
  let key := s!"{s.cur.id}/{kind}"
  let n := (s.printed.lookup kind).getD 0
  let s := { s with propfails := s.propfails + 1 }
  if s.printedKeys.contains key || n ≥ 20 then s
  else { s with out := s!"PROPFAIL case={s.cur.id} {msg}" :: s.out, printedKeys := key :: s.printedKeys,
                printed := (kind, n+1) :: s.printed.filter (·.1 != kind) }

def St.count (s : St) (k : String) : St := { s with hist := bump s.hist k, checks := s.checks + 1 }

def tree (c : Case) : ClockTree := c.clocks.toList

def toInstr (cs : ClockTree) : RawIns → Instr
  | .wf d => .waitFor d
  | .wc c ph => if cs.relevant.contains c then .waitClk (cs.domIndex c) ph else .waitClkFree (cs.absFreq c) ph
  | .wch s => .waitChange s
  | .ws => .waitStable
  | .rd s => .read s
  | .wr k v => .write k v
  | .fk s => .fork s
  | .jn k => .join k

def startCase (s : St) : St := Id.run do
  let c := s.cur
  let cs := tree c
  let a := cs.alloc
  let net : ExprNet :=
    { regs := c.regs.toList.map fun r => { r.decl with dom := cs.domIndex r.clk },
      data := c.regs.toList.map (·.d), en := c.regs.toList.map (·.en) }
  let prog := cs.toProg net.toNet
  let pins0 := c.pinW.map Val.undef
  let ext : PExt := { scripts := c.scripts.toList.map fun sc => sc.map (toInstr cs) }
  -- a clock whose reported frequency is not positive (an implementation answer contradicting its configuration, reported by the ccfg
  -- check) would keep the model's event loop at one instant: report and do not simulate the case
  if (List.range c.clocks.size).any fun i => !(0 < cs.absFreq i) then
    return (s.diff "a clock reports a frequency that is not positive; case not simulated")
  let sim := powerOn prog (scriptSem c.nstart) fuel pins0 ext
  let mut h := s.hist
  for sc in c.scripts do
    for i in sc do
      h := bump h (match i with
        | .wf d => if d == 0 then "ins:waitFor0" else "ins:waitFor"
        | .wc cl ph => (if cs.relevant.contains cl then "ins:waitClk:" else "ins:waitClkFree:") ++ (match ph with | .before => "B" | .during => "D" | .after => "A")
        | .wch _ => "ins:waitChange" | .ws => "ins:waitStable" | .rd _ => "ins:read" | .wr .. => "ins:write" | .fk _ => "ins:fork" | .jn _ => "ins:join")
  h := bump h s!"nstart:{c.nstart}"
  h := bump h s!"clockpins:{a.clockPins.length}"
  return { s with cur := { c with started := true, prog := prog, alloc := a, sim := sim, pinsCur := pins0 }, hist := h }

def modelObs (c : Case) (n0 : Nat) : List Obs :=
  let added := (c.sim.log.take (c.sim.log.length - n0)).reverse
  added.map fun
    | .clock p r t => .clk (c.alloc.clockPins.getD p 0) r t
    | .reset p r t => .rst (c.alloc.resetPins.getD p 0) r t
    | .commit t outs => .commit t outs
    | .proc pid t ph tick vals => .proc pid t ph tick vals

def closeChunk (s : St) : St := Id.run do
  let c := s.cur
  if !c.started then return s
  let impl := c.chunk.reverse
  let n0 := c.sim.log.length
  let c' := match c.pendingOp with
    | some op => { c with sim := applyOp c.prog (scriptSem c.nstart) fuel c.sim op }
    | none => c
  let mobs := match c.pendingOp with
    | some _ => modelObs c' n0
    | none => modelObs c' 0
  let mut s := { s with cur := { c' with chunk := [], pendingOp := none } }
  let cm := canonRuns mobs
  let ci := canonRuns impl
  if cm != ci then
    let firstBad := (cm.zip ci).find? fun (a, b) => a != b
    let detail := match firstBad with
      | some (a, b) => s!"model=[{a.show}] impl=[{b.show}]"
      | none => s!"lengths model={mobs.length} impl={impl.length}"
    s := s.diff s!"log-after-op {detail}"
  if let some e := c'.sim.err then s := s.diff s!"model-error {e}"
  return s

def sigOf (outs pins : List Val) : Sig → Val
  | .q i => outs.getD i default
  | .p k => pins.getD k default

/-- a new instant begins: forget per-instant state -/
def newInstant (c : Case) (t : Rat) : Case :=
  if t == c.curTime then c else { c with curTime := t, edgeSnap := none, resumes := [], joinResumes := [], afterReads := [] }

/-- the hardware part of the instant starts (first DURING/AFTER observation or first clock/reset event): fix the pin values the edge sees -/
def fixEdge (c : Case) : Case := if c.edgeSnap.isSome then c else { c with edgeSnap := some c.pinsCur }

/-- property checks for one process observation -/
def specProc (s : St) (pid : Nat) (t : Rat) (ph : Phase) (tick : Nat) (vals : List Val) : St := Id.run do
  let mut s := { s with cur := newInstant s.cur t }
  if ph != .before then s := { s with cur := fixEdge s.cur }
  let c := s.cur
  let cs := tree c
  let some v := c.views.lookup pid | return s.propfail s!"kind=unknown-process pid={pid}"
  let script := c.scripts.getD v.script []
  -- instructions between the previous observation and this one
  let rest := script.drop v.pc
  let skipped := rest.takeWhile fun i => match i with | .rd _ => false | _ => true
  let pc' := v.pc + skipped.length + 1
  let rdSigs := match rest.drop skipped.length with | .rd sg :: _ => sg | _ => []
  let wait := skipped.find? (·.isWait)
  let mut c1 := c
  -- writes and forks happen in the context of this observation (the generator separates them from waits by observations)
  for i in skipped do
    match i with
    | .wr k val => c1 := { c1 with pinsCur := c1.pinsCur.set k val }
    | _ => pure ()
  s := { s with cur := c1 }
  let seq := c.seq + 1
  match wait, v.last with
  | none, some (t0, ph0, tick0, _) =>
    s := s.count "check:no-time-passes"
    if !(t == t0 && ph == ph0 && tick == tick0) then
      s := s.propfail s!"kind=time-passes-without-wait pid={pid} before=({showRat t0},{ph0.toNat},{tick0}) after=({showRat t},{ph.toNat},{tick})"
  | some w, some (t0, ph0, tick0, vals0) =>
    -- (c) same-instant resume order = suspension order. A joiner becomes runnable *by* the end of the joined process, whenever in
    -- the instant that happens: it is ordered only against the other joiners of the same process (order in which they began to wait)
    let key := (t, ph, tick)
    match w with
    | .jn k =>
      match s.cur.joinResumes.find? (fun (t', ph', tick', k', _, _) => (t', ph', tick') == key && k' == k) with
      | some (_, _, _, _, sseq', pid') =>
        s := s.count "check:join-resume-order"
        if sseq' > v.lastSeq then
          s := s.propfail s!"kind=join-resume-order time={showRat t} phase={ph.toNat} tick={tick} joined-fork={k} pid={pid'} (began to wait later) resumed before pid={pid} (began to wait earlier)"
      | none => pure ()
      s := { s with cur := { s.cur with joinResumes := (t, ph, tick, k, v.lastSeq, pid) :: s.cur.joinResumes } }
    | _ =>
      match s.cur.resumes.head? with
      | some (t', ph', tick', sseq', pid') =>
        if (t', ph', tick') == key then
          s := s.count "check:resume-order"
          if sseq' > v.lastSeq then
            s := s.propfail s!"kind=resume-order time={showRat t} phase={ph.toNat} tick={tick} pid={pid'} (suspended later) resumed before pid={pid} (suspended earlier)"
      | none => pure ()
      s := { s with cur := { s.cur with resumes := (t, ph, tick, v.lastSeq, pid) :: s.cur.resumes } }
    match w with
    | .wf d =>
      s := s.count (if d == 0 then "check:waitFor0" else "check:waitFor")
      let tickOk := if d == 0 then tick == (if ph0 == .after then tick0 + 1 else 0) else tick == 0
      if !(t == specWaitForTime t0 d && ph == .after && tickOk) then
        s := s.propfail s!"kind=waitFor pid={pid} suspended={showRat t0} d={showRat d} resumed={showRat t} phase={ph.toNat} tick={tick} expected={showRat (specWaitForTime t0 d)}"
    | .wc cl wph =>
      if cs.relevant.contains cl then
        s := s.count s!"check:waitClk:{wph.toNat}"
        let f := cs.absFreq cl
        let src := cs.clockPinSource cl
        let okTime := specIsActivation ((cs.get src).trig == .rising) (cs.get cl).trig f t
        if !(ph == wph && okTime && tick == 0 && !(t < t0)) then
          s := s.propfail s!"kind=waitClk pid={pid} clock={cl} wanted-phase={wph.toNat} resumed={showRat t} phase={ph.toNat} tick={tick} activation={okTime}"
        -- (a) visibility: BEFORE and DURING see the register outputs from before the edge (= the previous commit)
        if wph != .after then
          let regVals := rdSigs.zip vals |>.filterMap fun (sg, x) => match sg with | .q i => some (i, x) | _ => none
          for (i, x) in regVals do
            s := s.count "check:pre-edge-read"
            if x != c.prevOuts.getD i default then
              s := s.propfail s!"kind=visibility-pre-edge pid={pid} phase={wph.toNat} time={showRat t} reg={i} read={showBits x} pre-edge={showBits (c.prevOuts.getD i default)}"
        else
          s := { s with cur := { s.cur with afterReads := (pid, rdSigs, vals) :: s.cur.afterReads } }
      else
        s := s.count "check:waitClkFree"
        let f := cs.absFreq cl
        if !(t == specFreeClockTime t0 f && ph == wph && tick == 0) then
          s := s.propfail s!"kind=waitClkFree pid={pid} suspended={showRat t0} f={showRat f} resumed={showRat t} expected={showRat (specFreeClockTime t0 f)}"
    | .wch _ =>
      s := s.count "check:waitChange"
      if ph != .after then
        s := s.propfail s!"kind=waitChange-unchanged pid={pid} time={showRat t} before={vals0.map showBits} after={vals.map showBits}"
      else if vals == vals0 then
        -- the watched signals can change and change back before the resumed process reads them (another process writes the pin back
        -- in the same instant): equal values are a failure only if the model — whose watch semantics is proved (`waitChange_iff`:
        -- a watch fires iff a signal differs from the snapshot at a `checkSignalWatches` call) — did not resume the process as well,
        -- i.e. if the case shows a DIFF. Decided when the case ends.
        s := { s with cur := { s.cur with suspects := s!"kind=waitChange-unchanged pid={pid} time={showRat t} before={vals0.map showBits} after={vals.map showBits}" :: s.cur.suspects } }
    | .ws =>
      s := s.count "check:waitStable"
      -- a process that is itself running inside `commitState` waits for the next commit (possibly of the same instant)
      -- (after a join the process continues in the context in which the joined process ended, possibly a commit: either is accepted)
      if !((if v.afterJoin then !(t < t0) else if v.inCommit then !(t < t0) else t == t0) && ph == .after) then
        s := s.propfail s!"kind=waitStable pid={pid} suspended={showRat t0} resumed={showRat t} in-commit={v.inCommit}"
    | .jn _ =>
      s := s.count "check:join"
      if t < t0 then s := s.propfail s!"kind=join-resumed-in-the-past pid={pid} suspended={showRat t0} resumed={showRat t}"
    | _ => pure ()
  | _, none => pure ()
  let inCommit := match wait with | some .ws => true | some _ => false | none => v.inCommit
  let afterJoin := match wait with | some (.jn _) => true | some _ => false | none => v.afterJoin
  let v' : PView := { v with pc := pc', last := some (t, ph, tick, vals), lastSeq := seq, inCommit := inCommit, afterJoin := afterJoin }
  return { s with cur := { s.cur with views := setKV s.cur.views pid v', seq := seq } }

/-- register outputs at the commit: C04's `specInstant` with the pin values fixed at the end of the BEFORE phase
    (BEFORE writes are captured by the edge, DURING and AFTER writes are not), and the AFTER-phase reads = post-edge values -/
def specCommit (s : St) (t : Rat) (outs : List Val) : St := Id.run do
  let mut s := { s with cur := newInstant s.cur t }
  let c := s.cur
  let cs := tree c
  let pinsAtEdge := c.edgeSnap.getD c.pinsCur
  if c.prevOuts.length == outs.length then
    for (ri, i) in c.regs.toList.zipIdx do
      let cl := cs.get ri.clk
      let src := cs.clockPinSource ri.clk
      let rsrc := cs.resetPinSource ri.clk
      let dom : DomainDecl := { pin := 0, rstPin := rsrc, trig := cl.trig, rstType := cl.rstType, activeHigh := cl.activeHigh }
      let activated := c.instClk.any fun (p, rising) => p == src && cl.trig.activates rising
      let levelPre := match rsrc with | some r => lookupD c.levels r false | none => false
      let rstEvents := match rsrc with | some r => (c.instRst.reverse.filter (·.1 == r)).map (·.2) | none => []
      let q := c.prevOuts.getD i default
      let d := ri.d.map (·.eval c.prevOuts pinsAtEdge)
      let en := ri.en.map fun e => (e.eval c.prevOuts pinsAtEdge).toTri
      let expected := specInstant ri.decl dom activated levelPre rstEvents d en q
      let got := outs.getD i default
      if activated then s := s.count "check:register-at-edge"
      if got != expected then
        s := s.propfail s!"kind=register-capture reg={i} clock={ri.clk} time={showRat t} activated={activated} before={showBits q} got={showBits got} expected={showBits expected} pins-at-edge={pinsAtEdge.map showBits}"
  for (pid, sigs, vals) in c.afterReads do
    for (sg, x) in sigs.zip vals do
      match sg with
      | .q i =>
        s := s.count "check:post-edge-read"
        if x != outs.getD i default then
          s := s.propfail s!"kind=visibility-post-edge pid={pid} time={showRat t} reg={i} read={showBits x} post-edge={showBits (outs.getD i default)}"
      | _ => pure ()
  let mut levels := c.levels
  for (r, lvl) in c.instRst.reverse do levels := setKV levels r lvl
  return { s with cur := { s.cur with prevOuts := outs, levels := levels, instClk := [], instRst := [], afterReads := [] } }

def handleObs (s : St) (o : Obs) : St :=
  let s := { s with cur := { s.cur with chunk := o :: s.cur.chunk } }
  match o with
  | .clk c r t => let cur := fixEdge (newInstant s.cur t); { s with cur := { cur with instClk := (c, r) :: cur.instClk } }
  | .rst c r t => let cur := fixEdge (newInstant s.cur t); { s with cur := { cur with instRst := (c, r) :: cur.instRst } }
  | .commit t outs => specCommit s t outs
  | .proc pid t ph tick vals => specProc s pid t ph tick vals

def handleLine (s : St) (line : String) : St :=
  let toks := (line.trimAscii.toString.splitOn " ").filter (· != "")
  match toks with
  | "case" :: id :: rest => { s with cur := { id := id, nodiff := rest.contains "nodiff", diffsAtStart := s.diffs }, cases := s.cases + 1, out := [] }
  | "width" :: _ => s
  | "clock" :: i :: rest =>
    let p := kv rest "parent"
    let cd : ClockDecl :=
      { parent := if p == "-" then none else some p.toNat!, freqOrMul := parseRat (kv rest "fm"), name := kv rest "name",
        resetName := kv rest "rname", trig := parseTrig (kv rest "trig"), phaseSync := kv rest "psync" == "1",
        rstType := parseRst (kv rest "rst"), activeHigh := kv rest "act" == "H", hasNodes := kv rest "nodes" == "1" }
    if i.toNat! != s.cur.clocks.size then s.diff s!"clock ids not dense at {i}"
    else { s with cur := { s.cur with clocks := s.cur.clocks.push cd } }
  | "ccfg" :: i :: rest =>
    -- what the clock was asked to be: the reported attributes (model input above) must follow from it
    let opt := fun (k : String) => let v := kv rest k; if v == "~" then none else some v
    let cfg : ClockCfg :=
      { name := opt "name", resetName := opt "rname", trig := (opt "trig").map parseTrig, phaseSync := (opt "psync").map (· == "1"),
        rstType := (opt "rst").map parseRst, activeHigh := (opt "act").map (· == "H") }
    let cs : ClockTree := s.cur.clocks.toList
    let i := i.toNat!
    let d := cs.get i
    let e := cs.expectedDecl i cfg ((opt "mul").map parseRat)
    (ClockTree.declMismatch e d).foldl (fun s attr =>
      s.propfail s!"kind=clock-attribute attr={attr} clock={i} parent={repr d.parent} expected=[f={showRat e.freqOrMul} trig={repr e.trig} rst={repr e.rstType} actHigh={e.activeHigh} name={e.name} rname={e.resetName}] reported=[f={showRat d.freqOrMul} trig={repr d.trig} rst={repr d.rstType} actHigh={d.activeHigh} name={d.name} rname={d.resetName}]") s
  | "pin" :: _ :: w :: _ => { s with cur := { s.cur with pinW := s.cur.pinW ++ [w.toNat!] } }
  | "reg" :: _ :: rest =>
    let exprToks := rest.dropWhile (fun t => !t.startsWith "d=")
    let dToks := match exprToks with
      | t :: r => ((t.drop 2).toString :: r).takeWhile (· != ";")
      | [] => []
    let enToks := match (rest.dropWhile (· != ";")).drop 1 with
      | t :: r => (t.drop 3).toString :: r
      | [] => ["-"]
    let rs := kv rest "rst"
    let ri : RegInfo :=
      { clk := (kv rest "clk").toNat!,
        decl := { dom := 0, width := (kv rest "w").toNat!, rst := if rs == "-" then none else some (parseBits rs) },
        d := parseExprOpt dToks, en := parseExprOpt enToks }
    { s with cur := { s.cur with regs := s.cur.regs.push ri } }
  | "script" :: _ :: rest =>
    let parts := (splitOnTok rest ";").filter (· != [])
    let ins := parts.filterMap parseIns
    if ins.length != parts.length then s.diff s!"unparsable script {line}"
    else { s with cur := { s.cur with scripts := s.cur.scripts.push ins } }
  | ["nstart", n] => { s with cur := { s.cur with nstart := n.toNat! } }
  | ["begin"] => startCase s
  | "exception" :: _ => { s with cur := { s.cur with exc := true }, hist := bump s.hist "rejected-by-library" }
  | ["L", "start", pid, sc] =>
    { s with cur := { s.cur with views := setKV s.cur.views pid.toNat! { script := sc.toNat! } } }
  | "L" :: _ =>
    match parseObs toks with
    | some o => handleObs s o
    | none => s.diff s!"unparsable log line {line}"
  | "op" :: rest =>
    let s := closeChunk s
    let op : Option ApiOp := match rest with
      | ["adv"] => some .advanceEvent
      | ["advance", d] => some (.advance (parseRat d))
      | _ => none
    { s with cur := { s.cur with pendingOp := op }, hist := bump s.hist ("op:" ++ rest.headD "?") }
  | "X" :: "fiber-join-case" :: how :: _ => s.count s!"check:fiber-join-case:{how}"
  | "X" :: "fiber-same" :: _ => s.count "check:fiber-log-identical"
  | "X" :: "fiber-differs" :: rest => (s.count "check:fiber-log-identical").propfail s!"kind=fiber-differs {" ".intercalate rest}"
  | "X" :: "repeat-differs" :: rest => s.propfail s!"kind=repeat-differs {" ".intercalate rest}"
  | ["X", "reps", n] => { s with hist := bump s.hist "repetitions" (2 * n.toNat!), checks := s.checks + 2 * n.toNat! }
  | ["end"] =>
    let s := closeChunk s
    let sus := s.cur.suspects.reverse
    let s := { s with cur := { s.cur with suspects := [] } }
    if s.diffs > s.cur.diffsAtStart then sus.foldl (fun s m => s.propfail m) s
    else sus.foldl (fun s _ => s.count "check:waitChange-values-restored-model-agrees") s
  | _ => s

def jsonHist (h : List (String × Nat)) : String :=
  "{" ++ ", ".intercalate (h.map fun (k, n) => s!"\"{k}\": {n}") ++ "}"

partial def loop (h : IO.FS.Stream) (s : St) : IO St := do
  let line ← h.getLine
  if line.isEmpty then return s
  let s := handleLine s line
  let s ← if line.startsWith "end" then do
      for m in s.out.reverse do IO.println m
      pure { s with out := [] }
    else pure s
  loop h s

def main : IO Unit := do
  let stdin ← IO.getStdin
  let s ← loop stdin {}
  IO.println s!"SUMMARY \{\"cases\": {s.cases}, \"diffs\": {s.diffs}, \"propfails\": {s.propfails}, \"ops\": {s.checks}, \"hist\": {jsonHist s.hist}}"
