import Std
import GateryModel.C20.VCD
import GateryModel.C20.TV
/-!
Driver for C20. Per case the harness sends the recorder configuration, everything an independent callback observer saw,
the bodies of the real `.vcd` and `.testvectors` files and the outcome of replaying the test vectors.
* PROPFAIL kind=vcd-value     the real VCD, read with the Lean reader, gives another value than the simulator held at a commit
* DIFF what=vcd-line          `encode samples` differs from the real file (date line masked)
* DIFF what=tv-line           the recorder model's output for the observed callbacks differs from the real `.testvectors`
* PROPFAIL kind=replay-…      a CHECK (or RST) of the real test-vector file failed when replayed into a fresh simulator
-/
open Gatery.C20

structure Stats where
  cases : Nat := 0
  ops : Nat := 0               -- value comparisons (signal × commit) + file lines compared + replayed checks
  diffs : Nat := 0
  propfails : Nat := 0
  signals : Nat := 0
  commits : Nat := 0
  ticks : Nat := 0
  vcdLines : Nat := 0
  valueCmps : Nat := 0
  modelQueries : Nat := 0
  undefBits : Nat := 0
  sampledBits : Nat := 0
  scalarSigs : Nat := 0
  vectorSigs : Nat := 0
  hiddenSigs : Nat := 0
  memSigs : Nat := 0
  wideSigs : Nat := 0           -- > 64 bit
  nestedSigs : Nat := 0         -- scope depth ≥ 2
  maxWidth : Nat := 0
  samePsCommits : Nat := 0      -- commits overwritten inside one ps
  lineEvents : Nat := 0         -- clock / reset changes compared with their exact time
  identCodes : Nat := 0
  maxIdentCodes : Nat := 0
  tvLines : Nat := 0
  tvGroups : Nat := 0
  tvChecks : Nat := 0
  tvSets : Nat := 0
  tvRsts : Nat := 0
  tvDuringSets : Nat := 0
  tvEmptyIntervals : Nat := 0
  tvNonzeroRemainders : Nat := 0
  replayed : Nat := 0
  replayFails : Nat := 0
  precondViolations : Nat := 0
  selHist : Std.HashMap String Nat := {}

structure Commit where
  num : Nat
  den : Nat
  vals : List RVec
  deriving Inhabited

structure Case where
  id : String := ""
  sigs : Array Sig := #[]
  clocks : Array (Nat × Str) := #[]
  resets : Array (Nat × Str) := #[]
  clkInit : Array (Option Bool) := #[]
  rstInit : Array (Option Bool) := #[]
  evs : Array Ev := #[]
  commits : Array Commit := #[]
  vcd : Array String := #[]
  tevs : Array TV.TEv := #[]
  tphase : Array Nat := #[]
  tv : Array String := #[]
  q : Array (Bool × String) := #[]
  sel : String := ""
  alias : Std.HashMap String String := {}   -- output pin name -> first output pin on the same driver

def optStr (s : String) : Str := if s == "-" then [] else s.toList

def parseRaw (s : String) : RVec :=
  if s == "-" then [] else
  s.toList.reverse.map fun c =>
    if c == '0' then ⟨true, false⟩ else if c == '1' then ⟨true, true⟩ else if c == 'X' then ⟨false, true⟩ else ⟨false, false⟩

def parseB4s (s : String) : List B4 :=
  if s == "-" then [] else s.toList.reverse.map fun c => if c == '0' then .f else if c == '1' then .t else .x

def parseXBits (s : String) : List TV.XBit :=
  if s == "-" then [] else s.toList.reverse.map fun c => if c == '0' then .f else if c == '1' then .t else if c == 'z' then .z else .x

def parsePath (s : String) : List (Nat × Str) :=
  if s == "-" then [] else (s.splitOn ",").map fun e =>
    match e.splitOn ":" with
    | g :: rest => (g.toNat!, (":".intercalate rest).toList)
    | _ => (0, [])

def parseOptBool (s : String) : Option Bool := if s == "1" then some true else if s == "0" then some false else none

def b4s (v : List B4) : String := String.ofList (v.reverse.map b4Char)

def ratOf (n d : Nat) : Rat := mkRat n d

def bump (m : Std.HashMap String Nat) (k : String) : Std.HashMap String Nat := m.insert k (m.getD k 0 + 1)

/-- scope-aware `$var` table of a real file: (scope path, label, code, width) -/
def varTable (lines : Array String) : Array (List String × String × Str × Nat) := Id.run do
  let mut scope : List String := []
  let mut out := #[]
  for l in lines do
    if l == "$enddefinitions $end" then break
    let toks := l.splitOn " "
    match toks with
    | "$scope" :: _ :: name :: _ => scope := scope ++ [name]
    | "$upscope" :: _ => scope := scope.dropLast
    | "$var" :: "wire" :: w :: code :: label :: _ => out := out.push (scope, label, code.toList, w.toNat!)
    | _ => pure ()
  return out

def floorPs (n d : Nat) : Nat := tickPs n d

def checkCase (c : Case) (st0 : Stats) : IO Stats := do
  let mut st := st0
  let fail (kind msg : String) : IO Unit := IO.println s!"{kind} case={c.id} {msg}"
  if c.vcd.size < 3 then
    fail "DIFF" "what=vcd-missing"
    return { st with diffs := st.diffs + 1 }
  let cfg : Cfg := { date := (c.vcd[1]!).toList, sigs := c.sigs.toList, clocks := c.clocks.toList, resets := c.resets.toList }
  let init : Init := { clocks := c.clkInit.toList, resets := c.rstInit.toList }
  let evs := c.evs.toList
  -- preconditions of the theorems, evaluated on the real trace
  let widths := cfg.sigs.map Sig.width
  let commitsOk := c.commits.all fun cm => cm.vals.map List.length == widths
  let rec sorted (t : Nat) : List Ev → Bool
    | [] => true
    | .tick n d :: r => t ≤ tickPs n d && sorted (tickPs n d) r
    | _ :: r => sorted t r
  if !commitsOk || !sorted 0 evs then
    fail "DIFF" s!"what=precondition commitsOk={commitsOk} ticksSorted={sorted 0 evs}"
    st := { st with diffs := st.diffs + 1, precondViolations := st.precondViolations + 1 }
  -- statistics of what was exercised
  for s in cfg.sigs do
    st := { st with signals := st.signals + 1, maxWidth := max st.maxWidth s.width,
                    scalarSigs := st.scalarSigs + (if s.width == 1 && !s.isBVec then 1 else 0),
                    vectorSigs := st.vectorSigs + (if s.width == 1 && !s.isBVec then 0 else 1),
                    hiddenSigs := st.hiddenSigs + (if s.hidden then 1 else 0), memSigs := st.memSigs + (if s.mem.isSome then 1 else 0),
                    wideSigs := st.wideSigs + (if s.width > 64 then 1 else 0), nestedSigs := st.nestedSigs + (if s.path.length ≥ 2 then 1 else 0) }
  st := { st with commits := st.commits + c.commits.size, vcdLines := st.vcdLines + c.vcd.size, selHist := bump st.selHist c.sel,
                  ticks := st.ticks + (evs.filter fun e => match e with | .tick _ _ => true | _ => false).length }
  -- (ii) the model's encoding of the samples = the real file, line by line
  -- `encodeLines` = header ++ `encodeEvents`, the latter unrolled here callback by callback with the model's `encodeStep` (stack safe)
  let mut modelLines := (headerLines cfg init).toArray
  let mut tracked := initTracked cfg
  for e in c.evs do
    let r := encodeStep cfg tracked e
    tracked := r.1
    for l in r.2 do modelLines := modelLines.push l
  -- for triage of a broken correspondence: do both texts mean the same (same value changes under the same time stamps)? A time stamp
  -- under which nothing changes is dropped, repeated stamps are merged; everything else must agree line by line
  let meaning (ls : Array String) : Array String := Id.run do
    let mut out : Array String := #[]
    let mut pend : Option String := none
    let mut cur : Option String := none
    for l in ls do
      if l.startsWith "#" then pend := some l
      else
        match pend with
        | some p =>
          if cur != some p then out := out.push p
          cur := some p
          pend := none
        | none => pure ()
        out := out.push l
    return out
  let sameMeaning := meaning (modelLines.map String.ofList) == meaning c.vcd
  let mut vcdDiff := false
  if modelLines.size != c.vcd.size then
    vcdDiff := true
    fail "DIFF" s!"what=vcd-line-count model={modelLines.size} impl={c.vcd.size} same-value-changes-under-same-time-stamps={sameMeaning}"
  for i in [0:min modelLines.size c.vcd.size] do
    if !vcdDiff then
      let m := String.ofList modelLines[i]!
      if m != c.vcd[i]! then
        vcdDiff := true
        fail "DIFF" s!"what=vcd-line line={i + 1} model=[{m}] impl=[{c.vcd[i]!}] same-value-changes-under-same-time-stamps={sameMeaning}"
  st := { st with ops := st.ops + c.vcd.size, diffs := st.diffs + (if vcdDiff then 1 else 0) }
  -- (i) read the REAL file with the Lean reader and compare with the sampler at every commit
  let table := varTable c.vcd
  -- code of signal i: k-th `$var` with the same (scope, label), k = rank among the sampled signals with that (scope, label, hidden)
  let mut codes : Array Str := #[]
  let mut seen : Std.HashMap String Nat := {}
  let mut codeMissing := false
  for s in cfg.sigs do
    let scope := s.path.map (fun k => String.ofList k.2)
      ++ (match s.mem with | some k => ["memory_" ++ String.ofList k.2] | none => if s.hidden then ["__hidden"] else [])
    let label := String.ofList s.name
    let key := " ".intercalate scope ++ "|" ++ label
    let k := seen.getD key 0
    seen := seen.insert key (k + 1)
    let cands := table.filter fun e => e.1 == scope && e.2.1 == label
    match cands[k]? with
    | some e => codes := codes.push e.2.2.1
    | none => codes := codes.push []; codeMissing := true
  if codeMissing then
    fail "PROPFAIL" "kind=vcd-signal-not-declared a recorded signal has no $var line in the real file"
    st := { st with propfails := st.propfails + 1 }
  let bodyStart := (c.vcd.findIdx? (· == "$enddefinitions $end")).getD c.vcd.size
  let hdrLines := (c.vcd.extract 0 bodyStart).toList.map String.toList
  let items := (c.vcd.extract bodyStart c.vcd.size).map fun l => parseBody l.toList
  -- identifier codes: no two declared variables share one, every value change belongs to exactly one declared variable
  let mut declared : Std.HashMap String (List String) := {}
  for l in c.vcd.extract 0 bodyStart do
    match l.splitOn " " with
    | "$var" :: _ :: _ :: code :: label :: _ => declared := declared.insert code (label :: declared.getD code [])
    | _ => pure ()
  st := { st with identCodes := st.identCodes + declared.size, maxIdentCodes := max st.maxIdentCodes declared.size }
  let mut collisionReported := false
  for (code, labels) in declared.toList do
    if labels.length > 1 && !collisionReported then
      collisionReported := true
      fail "PROPFAIL" s!"kind=vcd-identifier-collision code=[{code}] is declared for {labels.length} variables: {labels.reverse} (of {declared.size} declared codes)"
      st := { st with propfails := st.propfails + 1 }
  for it in items do
    match it with
    | .change code _ =>
      if !declared.contains (String.ofList code) && !collisionReported then
        collisionReported := true
        fail "PROPFAIL" s!"kind=vcd-identifier-collision a value change uses code=[{String.ofList code}], which no $var line declares"
        st := { st with propfails := st.propfails + 1 }
    | _ => pure ()
  -- declared widths as the reader sees them
  for i in [0:cfg.sigs.length] do
    let w := declaredWidth hdrLines (codes[i]!)
    if w != (cfg.sigs.getD i default).width && !codeMissing then
      fail "PROPFAIL" s!"kind=vcd-width signal={i} declared={w} simulator={(cfg.sigs.getD i default).width}"
      st := { st with propfails := st.propfails + 1 }
  -- single pass: current value per code, commits checked when file time passes their ps
  let mut cur : Std.HashMap Str (List B4) := {}
  let mut ci := 0
  let mut firstBad := true
  let ncommits := c.commits.size
  let psOf (k : Nat) : Nat := let cm := c.commits[k]!; floorPs cm.num cm.den
  let checkCommit (k : Nat) (cur : Std.HashMap Str (List B4)) (st : Stats) (firstBad : Bool) : IO (Stats × Bool) := do
    let cm := c.commits[k]!
    let mut st := st
    let mut firstBad := firstBad
    -- only the last commit inside one picosecond is representable
    if k + 1 < ncommits && psOf (k + 1) == psOf k then
      return ({ st with samePsCommits := st.samePsCommits + 1 }, firstBad)
    let mut i := 0
    for v in cm.vals do
      let w := (cfg.sigs.getD i default).width
      let got := finish w (cur.get? (codes[i]!))
      let want := canon v
      st := { st with valueCmps := st.valueCmps + 1, sampledBits := st.sampledBits + w,
                      undefBits := st.undefBits + (want.filter (· == .x)).length }
      if got != want && firstBad then
        firstBad := false
        fail "PROPFAIL" s!"kind=vcd-value signal={i} name={String.ofList (cfg.sigs.getD i default).name} commit={k} time={cm.num}/{cm.den}s ps={psOf k} vcd={b4s got} simulator={b4s want}"
        st := { st with propfails := st.propfails + 1 }
      i := i + 1
    return (st, firstBad)
  for it in items do
    match it with
    | .time t' =>
      while ci < ncommits && psOf ci < t' do
        let r ← checkCommit ci cur st firstBad
        st := r.1; firstBad := r.2
        ci := ci + 1
    | .change code v => cur := cur.insert code v
    | .skip => pure ()
  while ci < ncommits do
    let r ← checkCommit ci cur st firstBad
    st := r.1; firstBad := r.2
    ci := ci + 1
  st := { st with ops := st.ops + st.valueCmps - st0.valueCmps }
  -- clock and reset lines: the value reconstructed from the REAL file at every time = what onClock / onReset reported, with exact times
  let lineCodes := (table.filter fun e => e.1 == ["clocks"]).map fun e => e.2.2.1
  let nclk := cfg.clocks.length
  let nlines := nclk + cfg.resets.length
  -- ground truth timelines: (ps, value) per line, starting with the value read at initialisation
  let mut truth : Array (Array (Nat × B4)) := Array.replicate nlines #[]
  for i in [0:nlines] do
    let iv := if i < nclk then init.clocks.getD i none else init.resets.getD (i - nclk) none
    truth := truth.set! i #[(0, match iv with | some b => ofBool b | none => .x)]
  let mut tps := 0
  for e in c.evs do
    match e with
    | .tick n d => tps := tickPs n d
    | .clock j b => if j < nclk then truth := truth.modify j (·.push (tps, ofBool b))
    | .reset j b => if j < cfg.resets.length then truth := truth.modify (nclk + j) (·.push (tps, ofBool b))
    | _ => pure ()
  -- timelines read from the file
  let mut fileTl : Std.HashMap Str (Array (Nat × B4)) := {}
  let mut ft := 0
  for it in items do
    match it with
    | .time t' => ft := t'
    | .change code [b] => if lineCodes.contains code then fileTl := fileTl.insert code ((fileTl.getD code #[]).push (ft, b))
    | _ => pure ()
  -- value as a function of time: keep the last change of every picosecond, drop changes to the same value
  let normalize (tl : Array (Nat × B4)) : Array (Nat × B4) := Id.run do
    let mut out : Array (Nat × B4) := #[]
    for (t, v) in tl do
      if out.size > 0 && (out.back!).1 == t then out := out.pop
      if !(out.size > 0 && (out.back!).2 == v) then out := out.push (t, v)
    return out
  for i in [0:nlines] do
    let want := normalize (truth[i]!)
    let got := match lineCodes[i]? with
      | some code => normalize (#[(0, B4.x)] ++ fileTl.getD code #[])
      | none => #[]
    st := { st with ops := st.ops + want.size, lineEvents := st.lineEvents + want.size }
    if got != want then
      let k := (List.range (max got.size want.size)).find? (fun k => got[k]? != want[k]?) |>.getD 0
      let sh (o : Option (Nat × B4)) : String := match o with | some (t, v) => s!"{String.ofList [b4Char v]}@{t}ps" | none => "-"
      let nm := if i < nclk then String.ofList (cfg.clocks.getD i default).2 else String.ofList (cfg.resets.getD (i - nclk) default).2
      fail "PROPFAIL" s!"kind={if i < nclk then "vcd-clock-time" else "vcd-reset-time"} line={nm} change#{k} vcd={sh got[k]?} simulator={sh want[k]?} (value of the line as a function of time, reconstructed from the file vs. onClock/onReset)"
      st := { st with propfails := st.propfails + 1 }
  -- the same reading through the model's `decodeLines` (the function of the round-trip theorem) on a few queries
  let realLines := c.vcd.toList.map String.toList
  if ncommits > 0 then
    for q in [0:6] do
      let k := (q * 7919 + c.vcd.size) % ncommits
      let i := (q * 104729 + ncommits) % (max 1 cfg.sigs.length)
      if i < cfg.sigs.length && !(k + 1 < ncommits && psOf (k + 1) == psOf k) then
        let got := decodeLines realLines (codes[i]!) (psOf k)
        let want := canon ((c.commits[k]!).vals.getD i [])
        st := { st with modelQueries := st.modelQueries + 1 }
        if got != want && firstBad then
          firstBad := false
          fail "PROPFAIL" s!"kind=vcd-value signal={i} commit={k} ps={psOf k} vcd={b4s got} simulator={b4s want} (decodeLines)"
          st := { st with propfails := st.propfails + 1 }
        -- and the specification function itself against the sampler
        let sp := if evs.length ≤ 20000 then specValue cfg evs i (psOf k) else want
        if sp != want then
          fail "DIFF" s!"what=spec-vs-sampler signal={i} commit={k} ps={psOf k} spec={b4s sp} sampler={b4s want}"
          st := { st with diffs := st.diffs + 1 }
  -- (ii-b) test vectors: recorder model on the observed callbacks = real file
  -- `TV.run 0 {}` unrolled with the model's `TV.step`
  let mut groupsA : Array TV.Group := #[]
  let mut tst : TV.St := {}
  let mut tj := 0
  for e in c.tevs do
    let r := TV.step tj tst e
    tst := r.2
    tj := tj + 1
    for g in r.1 do groupsA := groupsA.push g
  let groups := groupsA.toList
  -- preconditions of the test-vector theorems on the real callback sequence
  let rec mono (lo : Rat) : List TV.TEv → Bool
    | [] => true
    | .newPhase _ t :: r => decide (lo ≤ t) && mono t r
    | .finish t :: r => decide (lo ≤ t) && r.isEmpty
    | .powerOn :: _ => false
    | _ :: r => mono lo r
  let tvPre := match c.tevs.toList with
    | .powerOn :: rest => mono 0 rest && TV.passes none (.powerOn :: rest)
    | _ => false
  if !tvPre then
    fail "DIFF" "what=tv-precondition the callback sequence violates Mono / passes (model does not cover it)"
    st := { st with diffs := st.diffs + 1, precondViolations := st.precondViolations + 1 }
  -- tv_after_edge_strict on the real run: a group that is not scheduled strictly behind its flush start holds pre-edge records only
  let track := (TV.phaseTrack none c.tevs.toList).toArray
  for g in groups do
    if !(g.start < g.target) then
      for x in g.checks ++ g.sets ++ g.rsts do
        let ok := match track[x.tag]? with
          | some (some (.before, t)) => t == g.stop
          | some (some (.during, t)) => t == g.stop
          | _ => false
        if !ok then
          fail "PROPFAIL" s!"kind=tv-after-edge-on-edge statement {String.ofList x.name} (callback {x.tag}) was recorded after the flush at {g.stop}s and is written at that time"
          st := { st with propfails := st.propfails + 1 }
  -- several output pins on one driver: a CHECK may name any of them (the value is the same); compare under the first name
  let tvReal : Array String := Id.run do
    let mut out : Array String := #[]
    for l in c.tv do
      if out.size > 0 && c.tv[out.size - 1]! == "CHECK" then out := out.push (c.alias.getD l l) else out := out.push l
    return out
  let tvModel := (groups.flatMap TV.Group.lines).toArray
  let mut tvDiff := false
  if tvModel.size != tvReal.size then
    tvDiff := true
    fail "DIFF" s!"what=tv-line-count model={tvModel.size} impl={tvReal.size}"
  for i in [0:min tvModel.size tvReal.size] do
    if !tvDiff then
      let m := String.ofList tvModel[i]!
      if m != tvReal[i]! then
        tvDiff := true
        fail "DIFF" s!"what=tv-line line={i + 1} model=[{m}] impl=[{tvReal[i]!}]"
  st := { st with ops := st.ops + tvReal.size, diffs := st.diffs + (if tvDiff then 1 else 0), tvLines := st.tvLines + tvReal.size,
                  tvGroups := st.tvGroups + groups.length }
  for g in groups do
    st := { st with tvChecks := st.tvChecks + g.checks.length, tvSets := st.tvSets + g.sets.length, tvRsts := st.tvRsts + g.rsts.length,
                    tvEmptyIntervals := st.tvEmptyIntervals + (if g.start == g.stop then 1 else 0) }
  st := { st with tvDuringSets := st.tvDuringSets + (c.tevs.toList.filter fun e => match e with | .set true _ _ => true | _ => false).length }
  -- same statement skeleton: model and implementation file agree line by line except for the amounts after ADV; then the model's
  -- groups (exact targets, flush intervals) still describe the implementation's statements and adv_no_drift can be evaluated on the
  -- implementation's own ADV sums
  let mut sameSkeleton := tvModel.size == tvReal.size
  if sameSkeleton then
    for i in [0:tvReal.size] do
      if sameSkeleton && String.ofList tvModel[i]! != tvReal[i]! && !(i > 0 && tvReal[i - 1]! == "ADV" && String.ofList tvModel[i - 1]! == "ADV") then
        sameSkeleton := false
  -- written time of the REAL file never lags the exact target by a picosecond or more, and never runs ahead (adv_no_drift)
  let mut realAdv : Array Nat := #[]
  let mut li := 0
  while li + 1 < tvReal.size do
    if tvReal[li]! == "ADV" then
      realAdv := realAdv.push (tvReal[li + 1]!).toNat!
      li := li + 2
    else li := li + 3
  let mut written : Nat := 0
  let mut gi := 0
  let mut driftReported := false
  for g in groups do
    written := written + realAdv.getD gi g.adv
    gi := gi + 1
    let w : Rat := (written : Rat) / TV.psPerSec
    if !(w ≤ g.target && g.target < w + 1 / TV.psPerSec) && !driftReported && (!tvDiff || sameSkeleton) then
      driftReported := true
      fail "PROPFAIL" s!"kind=tv-drift group={gi} written={written}ps target={g.target}s interval=({g.start}s,{g.stop}s) statements={g.checks.length + g.sets.length + g.rsts.length}: the implementation's cumulative ADV is not within [target - 1ps, target] (adv_no_drift)"
      st := { st with propfails := st.propfails + 1 }
    if w != g.target then st := { st with tvNonzeroRemainders := st.tvNonzeroRemainders + 1 }
  -- every reset line that is a port of the design and that the simulator asserted / released must be driven by the test bench:
  -- the first RST statement of that name in the REAL file carries the first reported value, the last one the last reported value
  let mut rstTruth : Std.HashMap String (Bool × Bool) := {}
  let mut rstOrder : Array String := #[]
  for e in c.tevs do
    match e with
    | .rst _ name v =>
      let nm := String.ofList name
      match rstTruth.get? nm with
      | some (f, _) => rstTruth := rstTruth.insert nm (f, v)
      | none => rstTruth := rstTruth.insert nm (v, v); rstOrder := rstOrder.push nm
    | _ => pure ()
  let mut rstFile : Std.HashMap String (String × String) := {}
  let mut ri := 0
  while ri + 2 < c.tv.size + 1 do
    if ri + 1 < c.tv.size && c.tv[ri]! == "ADV" then ri := ri + 2
    else if ri + 2 < c.tv.size then
      if c.tv[ri]! == "RST" then
        let nm := c.tv[ri + 1]!
        let v := c.tv[ri + 2]!
        rstFile := rstFile.insert nm (match rstFile.get? nm with | some (f, _) => (f, v) | none => (v, v))
      ri := ri + 3
    else ri := ri + 3
  for nm in rstOrder do
    let (f, l) := rstTruth.getD nm (false, false)
    let b (x : Bool) := if x then "1" else "0"
    match rstFile.get? nm with
    | none =>
      fail "PROPFAIL" s!"kind=tv-reset-not-driven reset={nm}: the simulator asserted/released this reset port ({b f} … {b l}) but the test vectors contain no RST statement for it"
      st := { st with propfails := st.propfails + 1 }
    | some (ff, fl) =>
      if ff != b f || fl != b l then
        fail "PROPFAIL" s!"kind=tv-reset-value reset={nm} simulator first/last={b f}/{b l} file first/last={ff}/{fl}"
        st := { st with propfails := st.propfails + 1 }
  -- (iii) replay outcomes; classify failures by the group the statement belongs to
  -- root cause "recorded after the clock edge, written exactly on it": a statement recorded in the AFTER phase of a time step whose
  -- next flush (re-entered time step, or the destructor) happens at the same simulation time, i.e. with an empty interval
  let ntev := c.tevs.size
  -- (phase number, time) of the last phase notification before each callback
  let mut lastPhase : Array (Nat × Rat) := Array.replicate ntev (99, 0)
  let mut curPhase : Nat × Rat := (99, 0)
  for j in [0:ntev] do
    match c.tevs[j]! with
    | .newPhase _ t => curPhase := (c.tphase.getD j 99, t)
    | _ => pure ()
    lastPhase := lastPhase.set! j curPhase
  -- recorded when the clock edge of that time step had already happened (AFTER phase) or must not be seen by it (override in the
  -- DURING phase), but written in an empty flush interval, i.e. exactly on the edge
  let onEdge (g : TV.Group) (x : TV.Tagged) : Bool :=
    g.start == g.stop &&
    (match lastPhase[x.tag]?, c.tevs[x.tag]? with
     | some (2, t), _ => t == g.stop
     | some (1, t), some (.set true _ _) => t == g.stop
     | some (1, t), some (.rst true _ _) => t == g.stop
     | _, _ => false)
  let mut owner : Array (TV.Group × Bool) := #[]
  let mut tainted := false
  for g in groups do
    if (g.checks ++ g.sets ++ g.rsts).any (fun x => onEdge g x) then tainted := true
    for _ in g.checks do owner := owner.push (g, tainted)
    for _ in g.rsts do owner := owner.push (g, tainted)
  let mut k := 0
  let mut reported : Std.HashMap String Nat := {}
  for (ok, text) in c.q do
    st := { st with replayed := st.replayed + 1, ops := st.ops + 1 }
    if !ok then
      st := { st with replayFails := st.replayFails + 1 }
      -- when the model no longer describes the file, classify by the written time alone: exactly on a time step of the simulation?
      let wps := ((text.splitOn " ").getLast?.getD "0").toNat!
      let onStep := c.tevs.any fun e => match e with
        | .newPhase .after t => t == (wps : Rat) / TV.psPerSec
        | _ => false
      let kind := if tvDiff then (if onStep then "replay-statement-on-time-step" else "replay-check-failed") else match owner[k]? with
        | none => "replay-unclassified"
        | some (g, tainted) =>
          if g.interval == 0 && g.phase == 0 && !g.sets.isEmpty then "replay-poweron-check-before-set"
          else if tainted then "replay-empty-interval-at-edge"
          else if (g.stop - g.start) / ((2 + 1 : Nat) : Rat) < 1 / TV.psPerSec then "replay-sub-ps-interval"
          else "replay-check-failed"
      if !reported.contains kind then
        reported := reported.insert kind 1
        fail "PROPFAIL" s!"kind={kind} {text}"
        st := { st with propfails := st.propfails + 1 }
    k := k + 1
  return st

/-- one protocol line -/
def feed (line : String) (c : Case) (st : Stats) : IO (Case × Stats) := do
  let line := if line.endsWith "\n" then (line.dropEnd 1).toString else line
  if line.startsWith "V " then return ({ c with vcd := c.vcd.push (line.drop 2).toString }, st)
  if line == "V" then return ({ c with vcd := c.vcd.push "" }, st)
  if line.startsWith "W " then return ({ c with tv := c.tv.push (line.drop 2).toString }, st)
  if line == "W" then return ({ c with tv := c.tv.push "" }, st)
  let toks := (line.splitOn " ").filter (· ≠ "")
  match toks with
  | "case" :: k :: _ => return ({ id := k }, { st with cases := st.cases + 1 })
  | ["sel", s] => return ({ c with sel := s }, st)
  | ["alias", a, b] => return ({ c with alias := c.alias.insert a b }, st)
  | ["sig", _, w, bv, hid, name, path, mem] =>
    let m := if mem == "-" then none else match parsePath mem with | k :: _ => some k | [] => none
    return ({ c with sigs := c.sigs.push { width := w.toNat!, isBVec := bv == "1", hidden := hid == "1", name := optStr name, path := parsePath path, mem := m } }, st)
  | ["clk", _, id, name, v] => return ({ c with clocks := c.clocks.push (id.toNat!, optStr name), clkInit := c.clkInit.push (parseOptBool v) }, st)
  | ["rstsig", _, id, name, v] => return ({ c with resets := c.resets.push (id.toNat!, optStr name), rstInit := c.rstInit.push (parseOptBool v) }, st)
  | ["E", "T", n, d] => return ({ c with evs := c.evs.push (.tick n.toNat! d.toNat!) }, st)
  | "E" :: "C" :: n :: d :: vals =>
    let vs := vals.map parseRaw
    return ({ c with evs := c.evs.push (.commit vs), commits := c.commits.push ⟨n.toNat!, d.toNat!, vs⟩ }, st)
  | ["E", "K", i, v] => return ({ c with evs := c.evs.push (.clock i.toNat! (v == "1")) }, st)
  | ["E", "R", i, v] => return ({ c with evs := c.evs.push (.reset i.toNat! (v == "1")) }, st)
  | ["X", "P"] => return ({ c with tevs := c.tevs.push .powerOn }, st)
  | ["X", "N", p, n, d] =>
    let c := { c with tphase := (c.tphase ++ Array.replicate (c.tevs.size - c.tphase.size) 99).push p.toNat! }
    return ({ c with tevs := c.tevs.push (.newPhase (if p == "0" then .before else if p == "1" then .during else .after) (ratOf n.toNat! d.toNat!)) }, st)
  | ["X", "M"] => return ({ c with tevs := c.tevs.push .microTick }, st)
  | ["X", "S", du, name, bits] => return ({ c with tevs := c.tevs.push (.set (du == "1") (optStr name) (parseXBits bits)) }, st)
  | ["X", "R", du, name, v] => return ({ c with tevs := c.tevs.push (.rst (du == "1") (optStr name) (v == "1")) }, st)
  | ["X", "C", name, ib, bits] => return ({ c with tevs := c.tevs.push (.read (optStr name) (ib == "1") (parseB4s bits)) }, st)
  | ["X", "F", n, d] => return ({ c with tevs := c.tevs.push (.finish (ratOf n.toNat! d.toNat!)) }, st)
  | "Q" :: _ :: res :: _ => return ({ c with q := c.q.push (res == "ok", line) }, st)
  | ["end"] =>
    let st ← checkCase c st
    return ({}, st)
  | _ => return (c, st)

def main : IO Unit := do
  let h ← IO.getStdin
  let mut c : Case := {}
  let mut st : Stats := {}
  repeat
    let line ← h.getLine
    if line.isEmpty then break
    let r ← feed line c st
    c := r.1
    st := r.2
  let sel := ",".intercalate (st.selHist.toList.map fun (k, v) => s!"\"{k}\":{v}")
  IO.println s!"SUMMARY \{\"cases\":{st.cases},\"ops\":{st.ops},\"diffs\":{st.diffs},\"propfails\":{st.propfails},\"signals\":{st.signals},\"commits\":{st.commits},\"ticks\":{st.ticks},\"vcd_lines\":{st.vcdLines},\"value_comparisons\":{st.valueCmps},\"decodeLines_queries\":{st.modelQueries},\"sampled_bits\":{st.sampledBits},\"undefined_bits\":{st.undefBits},\"scalar_signals\":{st.scalarSigs},\"vector_signals\":{st.vectorSigs},\"hidden_signals\":{st.hiddenSigs},\"memory_words\":{st.memSigs},\"signals_wider_than_64\":{st.wideSigs},\"signals_in_nested_scopes\":{st.nestedSigs},\"max_width\":{st.maxWidth},\"commits_sharing_a_ps\":{st.samePsCommits},\"clock_reset_changes_compared\":{st.lineEvents},\"identifier_codes_checked\":{st.identCodes},\"max_identifier_codes_in_a_file\":{st.maxIdentCodes},\"tv_lines\":{st.tvLines},\"tv_groups\":{st.tvGroups},\"tv_checks\":{st.tvChecks},\"tv_sets\":{st.tvSets},\"tv_rsts\":{st.tvRsts},\"tv_sets_in_during_phase\":{st.tvDuringSets},\"tv_groups_in_empty_interval\":{st.tvEmptyIntervals},\"tv_groups_with_carried_remainder\":{st.tvNonzeroRemainders},\"replayed_statements\":{st.replayed},\"replay_failures\":{st.replayFails},\"precondition_violations\":{st.precondViolations},\"selection\":\{{sel}}}"
