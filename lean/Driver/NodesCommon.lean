import GateryModel.C03.Spec
/-!
Shared driver code for C03 and C08 (protocol of `harness/c03.cpp`).

For every case the driver
* evaluates the dumped netlist with `evalNet` / `evalNode` and compares **every node value** with the
  simulator (`DIFF kind=node`),
* re-computes every frontend operator with the lowering model `C03/Frontend.lean` from the operand values
  the simulator reported (`DIFF kind=fe`),
* compares the simulator's result with the mathematical definition `C03/Spec.lean`
  (`PROPFAIL`: fully defined operands → must equal the definition; partially undefined operands → every
  defined result bit must agree with the definition on sampled concretisations),
* in `const` mode compares construction-time with run-time evaluation,
* in `conc` mode (C08) checks that no defined bit of the abstract run is contradicted by a concretised run.
-/
open Gatery.Nodes Gatery.C03

namespace Drv

def bump (h : List (String × Nat)) (k : String) (n : Nat := 1) : List (String × Nat) :=
  match h with
  | [] => [(k, n)]
  | (a, m) :: t => if a == k then (a, m + n) :: t else (a, m) :: bump t k n

structure ValRec where
  op : String := ""
  args : List Nat := []
  params : List Nat := []
  spar : String := ""
  ty : Char := 'u'
  w : Nat := 0
  pol : Pol := .none          -- the policy *derived* from the frontend rules (used by model and definition)
  polRep : Pol := .none       -- the policy the implementation reported
  reqTy : Char := '?'         -- literal leaves / pins: requested type and width
  reqW : Nat := 0
  err : String := ""     -- "" built, "e" DesignError, "E" InternalError
  deriving Inhabited

structure St where
  c08 : Bool := false
  caseId : String := ""
  mode : String := ""
  vals : Array ValRec := #[]
  net : Array NetNode := #[]
  netTy : Array CType := #[]
  netName : Array String := #[]
  cycle : Nat := 0
  blit : Option Nat := none
  regInit : Array BV4 := #[]   -- seq mode: expected power-on content of every register (from the requested reset value)
  envHist : Array (Array BV4) := #[]  -- stimulus (pin / pad values) of every stimulus
  xvHist : Array (Array BV4) := #[]   -- expression values of every stimulus (for the post-processed re-simulation)
  postRuns : Nat := 0
  postValues : Nat := 0
  ctEval : Option Nat := none   -- const mode: the expression whose construction-time evaluation is in progress
  runIsAbs : Bool := true
  absSeqNv : Array (Array BV4) := #[]
  absSeqXv : Array (Array BV4) := #[]
  xo : Array Nat := #[]
  env : Array BV4 := #[]
  stim : String := ""
  implNv : Array BV4 := #[]
  absNv : Array BV4 := #[]      -- conc mode: node values of the abstract stimulus
  absXv : Array BV4 := #[]
  haveAbs : Bool := false
  unsafeReason : String := ""
  litStr : String := ""
  -- counters
  cases : Nat := 0
  ops : Nat := 0
  diffs : Nat := 0
  propfails : Nat := 0
  nodeEvals : Nat := 0
  feEvals : Nat := 0
  specChecks : Nat := 0
  xsoundChecks : Nat := 0
  errCases : Nat := 0
  unsafeCases : Nat := 0
  crashCases : Nat := 0
  stims : Nat := 0
  concPairs : Nat := 0
  compatBits : Nat := 0
  nonMono : Nat := 0
  propagated : Nat := 0
  opHist : List (String × Nat) := []
  kindHist : List (String × Nat) := []
  widthHist : List (String × Nat) := []
  defHist : List (String × Nat) := []
  nonMonoHist : List (String × Nat) := []
  nonMonoSrc : List (String × Nat) := []
  diffSeen : List (String × Nat) := []
  failSeen : List (String × Nat) := []
  out : Array String := #[]

def St.msg (s : St) (m : String) : St := { s with out := s.out.push m }
/-- the words `op=… class=…` / `kind=… nodekind=…` of a message: messages are capped *per key* so that a frequent class cannot
    hide a rare one -/
def msgKey (m : String) : String :=
  " ".intercalate (((m.splitOn " ").filter fun w =>
    w.startsWith "op=" ∨ w.startsWith "class=" ∨ w.startsWith "kind=" ∨ w.startsWith "nodekind=").take 3)

def lookup (h : List (String × Nat)) (k : String) : Nat := ((h.find? fun p => p.1 == k).map (·.2)).getD 0

def St.diff (s : St) (m : String) : St :=
  let k := msgKey m
  if lookup s.diffSeen k < 6 then
    { s with diffs := s.diffs + 1, diffSeen := bump s.diffSeen k, out := s.out.push ("DIFF case=" ++ s.caseId ++ " " ++ m) }
  else { s with diffs := s.diffs + 1 }

/-- in C08 mode only the C08 property itself (`class=defined-bit-contradicted`) is reported; the C03 verdicts on the same
    stream (result shapes, unsafe netlists, crashes) belong to `checks/c03.py` -/
def St.propfail (s : St) (m : String) : St :=
  if s.c08 ∧ (m.splitOn "class=defined-bit-contradicted").length < 2 ∧ (m.splitOn "class=register-power-on-content").length < 2 then s
  else
    let k := msgKey m
    if lookup s.failSeen k < 6 then
      { s with propfails := s.propfails + 1, failSeen := bump s.failSeen k, out := s.out.push ("PROPFAIL case=" ++ s.caseId ++ " " ++ m) }
    else { s with propfails := s.propfails + 1 }

def polOf (c : String) : Pol :=
  if c == "z" then .zero else if c == "o" then .one else if c == "s" then .sign else .none
def polOfChar (c : Char) : Pol := polOf (String.singleton c)
/-- policy letter of a binary operator: `i` = the policy the operand carries -/
def polAt (c : Char) (carried : Pol) : Pol := if c == 'i' then carried else polOfChar c

def widthBucket (w : Nat) : String :=
  if w == 0 then "0" else if w == 1 then "1" else if w ≤ 8 then "2-8" else if w ≤ 31 then "9-31" else if w ≤ 33 then "32-33"
  else if w ≤ 62 then "34-62" else if w ≤ 65 then "63-65" else if w ≤ 126 then "66-126" else if w ≤ 129 then "127-129" else "130-200"

def defClass (v : BV4) : String :=
  if v.isEmpty then "empty" else if v.allDef then "defined" else if v.all (· == .x) then "undefined" else "partial"

/-- the expansion policy a value carries, derived from the frontend's rules (never from the implementation's answer):
    literals: `UInt` zero, `SInt` sign, `BVec`/`Bit` none (`UInt.cpp:39`, `SInt.h:51`, `BVec.h:56`); `ext(x, …, e)` gives `e`
    (`UInt.cpp:47-95`); slice aliases and casts keep the policy of their source (`BitVector.h:286`, `:75`); `abs` returns
    `zext(res)`; `x = d; IF … x = a` keeps the policy of `d` (copy constructor, `BitVector.h:66`); every operator result is a
    fresh `SignalReadPort(node)` with policy none -/
def derivedPol (vals : Array ValRec) (r : ValRec) : Pol :=
  let argPol (i : Nat) : Pol := (vals.getD (r.args.getD i 0) {}).pol
  match r.op with
  | "lit" => if r.reqTy == 'u' then .zero else if r.reqTy == 's' then .sign else .none
  | "zext" | "zextby" => .zero | "oext" | "oextby" => .one | "sext" | "sextby" => .sign
  | "slice" | "upper" | "lower" | "dslice" | "tou" | "tos" | "tov" | "ifprio" => argPol 0
  | "ifchain" => argPol 1
  | "sabs" => .zero
  | _ => .none

def polName : Pol → String | .none => "none" | .zero => "zero" | .one => "one" | .sign => "sign"

/-! ### netlist parsing -/

def parseRange (s : String) : Range :=
  match s.splitOn ":" with
  | ["i", idx, off, sub] => ⟨sub.toNat!, .input idx.toNat! off.toNat!⟩
  | ["z", sub] => ⟨sub.toNat!, .zero⟩
  | ["o", sub] => ⟨sub.toNat!, .one⟩
  | ["u", sub] => ⟨sub.toNat!, .undef⟩
  | _ => ⟨0, .undef⟩

def parseIns (s : String) : List (Option Nat) :=
  if s == "-" then [] else (s.splitOn ",").map fun t => if t == "-" then none else some t.toNat!

def logicOf : String → LogicOp
  | "AND" => .AND | "NAND" => .NAND | "OR" => .OR | "NOR" => .NOR | "XOR" => .XOR | "EQ" => .EQ | _ => .NOT
def arithOf : String → ArithOp
  | "ADD" => .ADD | "SUB" => .SUB | "MUL" => .MUL | "DIV" => .DIV | _ => .REM
def cmpOf : String → CmpOp
  | "EQ" => .EQ | "NEQ" => .NEQ | "LT" => .LT | "GT" => .GT | "LEQ" => .LEQ | _ => .GEQ
def fillOfS : String → Fill
  | "Z" => .zero | "O" => .one | "S" => .last | _ => .rotate

/-- `n <i> <w> <b|v> <ins> <kind…>` -/
def parseNode (toks : List String) : Option (NetNode × CType × String) :=
  match toks with
  | _ :: w :: ty :: ins :: kind =>
    let w := w.toNat!
    let cty := if ty == "b" then CType.bool else CType.bitvec
    let ins := parseIns ins
    let mk (k : NetKind) (name : String) := some (⟨k, w, ins⟩, cty, name)
    match kind with
    | ["in", k] => mk (.input k.toNat!) "in"
    | ["sig"] => mk .signal "sig"
    | ["logic", op] => mk (.node (.logic (logicOf op)) cty) ("logic." ++ op)
    | ["arith", op] => mk (.node (.arith (arithOf op)) cty) ("arith." ++ op)
    | ["cmp", op, t] => mk (.node (.compare (cmpOf op) (if t == "b" then .bool else .bitvec)) cty) ("cmp." ++ op)
    | ["shift", d, f] => mk (.node (.shift (if d == "L" then .left else .right) (fillOfS f)) cty) ("shift." ++ d ++ f)
    | ["rew", rs] => mk (.node (.rewire (if rs == "-" then [] else (rs.splitOn ",").map parseRange)) cty) "rewire"
    | ["mux"] => mk (.node .mux cty) "mux"
    | ["prio"] => mk (.node .prio cty) "prio"
    | ["const", v] => mk (.node (.const (BV4.ofString v)) cty) "const"
    | ["tri", k] => mk (.tristate k.toNat!) "tristate"   -- Node_Pin with an output driver: ins = [data, outputEnable], pad value = env k
    | ["reg"] => mk (.input 0) "reg"     -- register output: state, taken from the implementation (C08 `seq` mode)
    | _ => none
  | _ => none

/-! ### frontend model / specification dispatch -/

structure Arg where
  ty : Char
  pol : Pol
  v : BV4

def isLogicName (n : String) : Option LogicOp :=
  match n with
  | "and" => some .AND | "or" => some .OR | "xor" => some .XOR | "nand" => some .NAND | "nor" => some .NOR | "xnor" => some .EQ
  | _ => none
def isArithName (n : String) : Option ArithOp :=
  match n with
  | "add" => some .ADD | "sub" => some .SUB | "mul" => some .MUL | "div" => some .DIV | "rem" => some .REM
  | _ => none
def isCmpName (n : String) : Option CmpOp :=
  match n with
  | "eq" => some .EQ | "neq" => some .NEQ | "lt" => some .LT | "gt" => some .GT | "leq" => some .LEQ | "geq" => some .GEQ
  | _ => none

def dynShiftOf (op : String) : Option (Dir × Fill) :=
  match op with
  | "zshl" => some (.left, .zero) | "oshl" => some (.left, .one) | "sshl" => some (.left, .last)
  | "zshr" => some (.right, .zero) | "oshr" => some (.right, .one) | "sshr" => some (.right, .last)
  | "drotl" => some (.left, .rotate) | "drotr" => some (.right, .rotate)
  | _ => none

def extPolOf (op : String) : Option (Pol × Bool) :=
  match op with
  | "zext" => some (.zero, false) | "oext" => some (.one, false) | "sext" => some (.sign, false)
  | "zextby" => some (.zero, true) | "oextby" => some (.one, true) | "sextby" => some (.sign, true)
  | _ => none

def pairs : List BV4 → List (BV4 × BV4)
  | c :: v :: rest => (c, v) :: pairs rest
  | _ => []

/-- the lowering model; `.error "?"` = operator unknown to the driver -/
def feOp (op : String) (a : List Arg) (p : List Nat) : FE BV4 :=
  let v (i : Nat) : BV4 := (a.getD i ⟨'u', .none, []⟩).v
  let t (i : Nat) : Char := (a.getD i ⟨'u', .none, []⟩).ty
  let apol (i : Nat) : Pol := (a.getD i ⟨'u', .none, []⟩).pol
  let p0 := p.getD 0 0
  match op.splitOn "." with
  | [name, pp] =>
    let pa := polAt (pp.toList.getD 0 'n') (apol 0); let pb := polAt (pp.toList.getD 1 'n') (apol 1)
    match isArithName name, isLogicName name, isCmpName name with
    | some aop, _, _ => if aop == .MUL ∧ t 0 == 's' then smul pa pb (v 0) (v 1) else arith aop pa pb (v 0) (v 1)
    | _, some lop, _ => logic lop pa pb (v 0) (v 1)
    | _, _, some cop =>
      if t 0 == 's' then
        match cop with
        | .LT => slt (v 0) (v 1) | .GT => sgt (v 0) (v 1) | .LEQ => sleq (v 0) (v 1) | .GEQ => sgeq (v 0) (v 1)
        | c => compare c .bitvec pa pb (v 0) (v 1)
      else compare cop .bitvec pa pb (v 0) (v 1)
    | _, _, _ => .error "?"
  | _ =>
  match op with
  | "band" => logic .AND .none .none (v 0) (v 1) | "bor" => logic .OR .none .none (v 0) (v 1)
  | "bxor" => logic .XOR .none .none (v 0) (v 1) | "bnand" => logic .NAND .none .none (v 0) (v 1)
  | "bnor" => logic .NOR .none .none (v 0) (v 1) | "bxnor" => logic .EQ .none .none (v 0) (v 1)
  | "beq" => compare .EQ .bool .none .none (v 0) (v 1) | "bneq" => compare .NEQ .bool .none .none (v 0) (v 1)
  | "bnot" | "not" => pure (lnot (v 0))
  | "vand" => bcast .AND (apol 0) (v 0) (v 1) | "vor" => bcast .OR (apol 0) (v 0) (v 1) | "vxor" => bcast .XOR (apol 0) (v 0) (v 1)
  | "vnand" => bcast .NAND (apol 0) (v 0) (v 1) | "vnor" => bcast .NOR (apol 0) (v 0) (v 1) | "vxnor" => bcast .EQ (apol 0) (v 0) (v 1)
  | "addbit" => addBit .ADD (apol 0) (v 0) (v 1) | "subbit" => addBit .SUB (apol 0) (v 0) (v 1)
  | "addc" => addc (apol 0) (apol 1) (v 0) (v 1) (v 2)
  | "sabs" => sabs (v 0)
  | "shl" => pure (staticShift .left .zero (v 0) p0)
  | "shr" => pure (staticShift .right (if t 0 == 's' then .last else .zero) (v 0) p0)
  | "rotl" => pure (rotl (v 0) p0) | "rotr" => pure (rotr (v 0) p0)
  | "shra" => shra (v 0) (v 1) p0
  | "slice" => slice (v 0) p0 (p.getD 1 0)
  | "upper" => if p0 > (v 0).length then .error "BitWidth underflow" else slice (v 0) ((v 0).length - p0) p0
  | "lower" => slice (v 0) 0 p0
  | "bitat" => bitAt (v 0) p0 | "msb" => msb (v 0) | "lsb" => lsb (v 0)
  | "dbit" => pure (dynBit (v 0) (v 1)) | "dslice" => pure (dynSliceOp (v 0) (v 1) p0)
  | "cat" => pure (cat (a.map (·.v))) | "pack" => pure (pack (a.map (·.v)))
  | "tou" | "tos" | "tov" => pure (v 0)
  -- read-back of a tristate pin (data, enable, pad) / of a bidirectional pin without output enable (data, pad)
  | "tri" => pure (evalTristate (v 0).length [some (v 0), some (v 1), some (v 2)])
  | "tria" => pure (evalTristate (v 0).length [some (v 0), none, some (v 1)])
  | "mux" => muxOp (apol 0) (v 0) ((a.drop 1).map (·.v))
  | "muxz" => muxOp .zero (v 0) ((a.drop 1).map (·.v))
  | "prio" => pure (prioOp (v 0) (pairs ((a.drop 1).map (·.v))))
  | "ifchain" => ifChain (apol 0) (v 0) (v 1) (List.zip p ((a.drop 2).map (·.v)))
  | "ifprio" => pure (ifPrio (v 0) (pairs ((a.drop 1).map (·.v))))
  | "addlit" => arith .ADD (apol 0) .zero (v 0) (uintLit p0) | "sublit" => arith .SUB (apol 0) .zero (v 0) (uintLit p0)
  | "mullit" => arith .MUL (apol 0) .zero (v 0) (uintLit p0) | "andlit" => logic .AND (apol 0) .zero (v 0) (uintLit p0)
  | "eqlit" => compare .EQ .bitvec (apol 0) .zero (v 0) (uintLit p0) | "ltlit" => compare .LT .bitvec (apol 0) .zero (v 0) (uintLit p0)
  | _ =>
    match dynShiftOf op, extPolOf op with
    | some (d, f), _ => pure (dynShift d f (v 0) (v 1))
    | _, some (pol, isBy) =>
      if isBy then extBy pol (v 0) p0
      else if t 0 == 'b' then extBitTo pol (v 0) p0 else extTo pol (v 0) p0
    | _, _ => .error "?"

/-- result class of an operator: the frontend type letter of the result -/
def resultTy (op : String) (a : List Arg) : Char :=
  let t0 := (a.getD 0 ⟨'u', .none, []⟩).ty
  match op.splitOn "." with
  | [name, _] => if (isCmpName name).isSome then 'b' else t0
  | _ =>
  if op.startsWith "b" && op != "bitat" then 'b'
  else match op with
    | "bitat" | "msb" | "lsb" | "dbit" | "eqlit" | "ltlit" => 'b'
    | "sabs" | "cat" | "pack" | "tou" | "shra" | "addc" => 'u'
    | "tos" => 's' | "tov" => 'v'
    | "mux" | "muxz" => (a.getD 1 ⟨'u', .none, []⟩).ty
    | "prio" | "ifprio" | "tri" | "tria" => t0
    | "ifchain" => (a.getD 1 ⟨'u', .none, []⟩).ty
    | _ => if t0 == 'b' then 'u' else t0

/-- the definition, on fully defined operands; `none` = no definition for this instance -/
def specOp (op : String) (a : List Arg) (p : List Nat) : Option BV4 :=
  let v (i : Nat) : BV4 := (a.getD i ⟨'u', .none, []⟩).v
  let t (i : Nat) : Char := (a.getD i ⟨'u', .none, []⟩).ty
  let apol (i : Nat) : Pol := (a.getD i ⟨'u', .none, []⟩).pol
  let p0 := p.getD 0 0
  let binArith (aop : ArithOp) (pa pb : Pol) (x y : BV4) : Option BV4 := do
    let (x', y', w) ← Spec.norm pa pb x y; pure (Spec.arith aop w x' y')
  let binLogic (lop : LogicOp) (pa pb : Pol) (x y : BV4) : Option BV4 := do
    let (x', y', _) ← Spec.norm pa pb x y; pure (Spec.bitwise lop x' y')
  let binCmp (cop : CmpOp) (signed : Bool) (pa pb : Pol) (x y : BV4) : Option BV4 := do
    let (x', y', _) ← Spec.norm pa pb x y; pure (if signed then Spec.scmp cop x' y' else Spec.ucmp cop x' y')
  match op.splitOn "." with
  | [name, pp] =>
    let pa := polAt (pp.toList.getD 0 'n') (apol 0); let pb := polAt (pp.toList.getD 1 'n') (apol 1)
    match isArithName name, isLogicName name, isCmpName name with
    | some aop, _, _ =>
      if aop == .MUL ∧ t 0 == 's' then
        -- the product of the two's-complement readings of the operands as they are, modulo 2^max(widths); with different
        -- widths the operator takes the sign bits, which an empty operand does not have
        (if (v 0).length ≠ (v 1).length ∧ ((v 0).isEmpty ∨ (v 1).isEmpty) then none
         else some (Spec.smul (max (v 0).length (v 1).length) (v 0) (v 1)))
      else binArith aop pa pb (v 0) (v 1)
    | _, some lop, _ => binLogic lop pa pb (v 0) (v 1)
    | _, _, some cop =>
      -- SInt order comparisons compare the two's-complement readings of the operands as they are
      if t 0 == 's' && cop != .EQ && cop != .NEQ then
        (if (v 0).isEmpty ∨ (v 1).isEmpty then none else some (Spec.scmp cop (v 0) (v 1)))
      else binCmp cop false pa pb (v 0) (v 1)
    | _, _, _ => none
  | _ =>
  match op with
  | "band" => binLogic .AND .none .none (v 0) (v 1) | "bor" => binLogic .OR .none .none (v 0) (v 1)
  | "bxor" => binLogic .XOR .none .none (v 0) (v 1) | "bnand" => binLogic .NAND .none .none (v 0) (v 1)
  | "bnor" => binLogic .NOR .none .none (v 0) (v 1) | "bxnor" => binLogic .EQ .none .none (v 0) (v 1)
  | "beq" => binCmp .EQ false .none .none (v 0) (v 1) | "bneq" => binCmp .NEQ false .none .none (v 0) (v 1)
  | "bnot" | "not" => some (Spec.bnot (v 0))
  | "vand" => binLogic .AND (apol 0) .sign (v 0) (v 1) | "vor" => binLogic .OR (apol 0) .sign (v 0) (v 1)
  | "vxor" => binLogic .XOR (apol 0) .sign (v 0) (v 1) | "vnand" => binLogic .NAND (apol 0) .sign (v 0) (v 1)
  | "vnor" => binLogic .NOR (apol 0) .sign (v 0) (v 1) | "vxnor" => binLogic .EQ (apol 0) .sign (v 0) (v 1)
  | "addbit" => binArith .ADD (apol 0) .zero (v 0) (v 1) | "subbit" => binArith .SUB (apol 0) .zero (v 0) (v 1)
  | "addc" => do
      let (x', y', w) ← Spec.norm (apol 0) (apol 1) (v 0) (v 1)
      if w = 0 then none else pure (Spec.add3 w x' y' (v 2))
  | "sabs" => if (v 0).isEmpty then none else some (Spec.sabs (v 0))
  | "shl" => some (Spec.shift .left .zero (v 0) p0)
  | "shr" => some (Spec.shift .right (if t 0 == 's' then .last else .zero) (v 0) p0)
  | "rotl" => some (Spec.shift .left .rotate (v 0) p0) | "rotr" => some (Spec.shift .right .rotate (v 0) p0)
  | "shra" => if (v 0).isEmpty ∨ p0 = 0 ∨ p0 > (v 0).length then none
              else some (Spec.shift .right (if (v 1).bit 0 = .t then .last else .zero) (v 0) p0)
  | "slice" => if p0 + p.getD 1 0 > (v 0).length then none else some (Spec.slice (v 0) p0 (p.getD 1 0))
  | "upper" => if p0 > (v 0).length then none else some (Spec.slice (v 0) ((v 0).length - p0) p0)
  | "lower" => if p0 > (v 0).length then none else some (Spec.slice (v 0) 0 p0)
  | "bitat" => if p0 < (v 0).length then some (Spec.slice (v 0) p0 1) else none
  | "msb" => if (v 0).isEmpty then none else some (Spec.slice (v 0) ((v 0).length - 1) 1)
  | "lsb" => if (v 0).isEmpty then none else some (Spec.slice (v 0) 0 1)
  | "dbit" => some (Spec.sliceOpen (v 0) (v 1).toNat 1)
  | "dslice" => some (Spec.sliceOpen (v 0) (v 1).toNat p0)
  | "cat" => some (Spec.concat (a.map (·.v)).reverse) | "pack" => some (Spec.concat (a.map (·.v)))
  | "tou" | "tos" | "tov" => some (v 0)
  | "tri" => some (if (v 1).bit 0 = .t then v 0 else v 2)   -- driven: the data; not driven: what the outside drives
  | "tria" => some (v 0)
  | "mux" | "muxz" =>
    let table := (a.drop 1).map (·.v)
    if table.isEmpty then none
    else if op == "mux" ∧ table.length > 2^(v 0).length ∧ apol 0 ≠ .zero then none
    else some (Spec.select (table.getLastD []).length table (v 0).toNat)
  | "prio" => some (Spec.prio (v 0) (pairs ((a.drop 1).map (·.v))))
  | "ifchain" =>
    -- a literal that does not fit the selector is ill-formed (the frontend rejects the comparison)
    if p.any (fun k => (uintLit k).length > (v 0).length ∧ apol 0 == Pol.none) then none
    else some (Spec.ifChain (v 0) (v 1) (List.zip p ((a.drop 2).map (·.v))))
  | "ifprio" => some (Spec.ifPrio (v 0) (pairs ((a.drop 1).map (·.v))))
  | "addlit" => binArith .ADD (apol 0) .zero (v 0) (uintLit p0) | "sublit" => binArith .SUB (apol 0) .zero (v 0) (uintLit p0)
  | "mullit" => binArith .MUL (apol 0) .zero (v 0) (uintLit p0) | "andlit" => binLogic .AND (apol 0) .zero (v 0) (uintLit p0)
  | "eqlit" => binCmp .EQ false (apol 0) .zero (v 0) (uintLit p0) | "ltlit" => binCmp .LT false (apol 0) .zero (v 0) (uintLit p0)
  | _ =>
    match dynShiftOf op, extPolOf op with
    | some (d, f), _ => some (Spec.shift d f (v 0) (v 1).toNat)
    | _, some (pol, isBy) =>
      let target := if isBy then (v 0).length + p0 else p0
      if t 0 == 'b' ∧ target = 0 then none else Spec.extend (if target = (v 0).length then .zero else pol) (v 0) target
    | _, _ => none

/-- input-shape class of an operator instance (for finding signatures; never derived from the outcome) -/
def shapeClass (op : String) (a : List Arg) (p : List Nat) : String :=
  let v (i : Nat) : BV4 := (a.getD i ⟨'u', .none, []⟩).v
  let t0 := (a.getD 0 ⟨'u', .none, []⟩).ty
  let p0 := p.getD 0 0
  match op.splitOn "." with
  | [name, pp] =>
    if t0 == 's' ∧ (name == "lt" ∨ name == "gt" ∨ name == "leq" ∨ name == "geq") then
      if (v 0).isEmpty ∨ (v 1).isEmpty then "zero-width"
      else if (v 0).allDef && (v 1).allDef then
        let w := max (v 0).length (v 1).length
        let d := (v 0).toInt - (v 1).toInt
        if d < -(2:Int)^(w-1) ∨ d ≥ (2:Int)^(w-1) then "signed-difference-overflows" else "difference-fits"
      else "undef"
    else if t0 == 's' ∧ name == "mul" then
      if (v 0).length == (v 1).length then "equal-widths"
      else
        let pn := if (v 0).length < (v 1).length then pp.toList.getD 0 'n' else pp.toList.getD 1 'n'
        s!"mixed-widths/narrower-operand-policy-{pn}"
    else "-"
  | _ =>
    if op == "shl" ∨ op == "shr" ∨ op == "rotl" ∨ op == "rotr" then
      (if p0 > (v 0).length then "amount-gt-width" else "amount-le-width")
    else if op == "mux" ∨ op == "muxz" then
      (if (v 0).allDef && (v 0).toNat ≥ a.length - 1 then "selector-out-of-range" else "selector-in-range")
    else if op == "dbit" then
      (if (v 1).allDef && (v 1).toNat ≥ (v 0).length then "index-out-of-range" else "index-in-range")
    else if op == "cat" ∨ op == "pack" then
      (if a.any (fun x => x.v.isEmpty) then "zero-width-operand" else "-")
    else if (v 0).isEmpty then "zero-width" else "-"

def opBase (op : String) : String := (op.splitOn ".").getD 0 op

/-- simple deterministic generator for concretisations in the driver -/
def lcg (s : Nat) : Nat := (s * 6364136223846793005 + 1442695040888963407) % 2^64

def concretise (seed : Nat) (v : BV4) : BV4 × Nat :=
  v.foldl (fun (acc, s) b =>
    match b with
    | .x => let s' := lcg s; (acc ++ [B4.ofBool ((s' / 2^33) % 2 == 1)], s')
    | b => (acc ++ [b], s)) ([], seed)

/-- impl agrees with the definition: same width; where the definition fixes a bit the implementation must report exactly it -/
def matchesSpec (impl spec : BV4) : Bool :=
  impl.length == spec.length && (List.zipWith (fun i s => s == B4.x || i == s) impl spec).all id

/-- a defined implementation bit must not contradict the definition of a concretisation -/
def soundAgainst (impl spec : BV4) : Bool :=
  impl.length == spec.length && (List.zipWith (fun i s => s == B4.x || i == B4.x || i == s) impl spec).all id

def showArgs (a : List Arg) : String :=
  " ".intercalate (a.map fun x => String.singleton x.ty ++ ":" ++ BV4.toString x.v)

def tyName (c : Char) : CType := if c == 'b' then .bool else .bitvec

/-! ### per-stimulus checks -/

def widthsOf (vals : Array (Option BV4)) (ins : List (Option Nat)) : List (Option Nat) :=
  ins.map fun o => match o with
    | none => none
    | some j => (vals.getD j none).map (·.length)

/-- evaluate the netlist with the model and compare every node with the simulator -/
def checkNodes (s : St) (impl : Array BV4) : St := Id.run do
  let mut s := s
  let mut vals : Array (Option BV4) := #[]
  for i in [0:s.net.size] do
    let n := s.net[i]!
    let isReg := s.netName.getD i "" == "reg"
    let r := if isReg then some (impl.getD i []) else evalNetNode s.env.toList vals.toList n
    vals := vals.push r
    let kindName := match n.kind with
      | .input _ => (if isReg then "reg" else "in") | .signal => "sig" | .tristate _ => "tristate"
      | .node k _ => match k with
        | .logic _ => "logic" | .arith _ => "arith" | .compare _ _ => "compare" | .shift _ _ => "shift"
        | .rewire _ => "rewire" | .mux => "mux" | .prio => "prio" | .const _ => "const"
    s := { s with nodeEvals := s.nodeEvals + 1, kindHist := bump s.kindHist kindName }
    let mv := r.getD (BV4.undef n.w)
    let iv := impl.getD i []
    if mv != iv then
      s := s.diff s!"stim={s.stim} kind=node node={i} nodekind={kindName} w={n.w} model={BV4.toString mv} impl={BV4.toString iv}"
    match n.kind with
    | .node k _ =>
      if !nodeOk k n.w (s.netTy.getD i .bitvec) (widthsOf vals n.ins) then
        s := s.diff s!"stim={s.stim} kind=guard node={i} nodekind={kindName} w={n.w}: the model's guard says the real node throws or reads outside its inputs, but it was simulated"
    | _ => pure ()
  return s

def isTri (op : String) : Bool := op == "tri" || op == "tria"

/-- operand values of value `k`; a tristate / bidirectional pin has the value driven onto its pad as an additional last operand -/
def argsOf (s : St) (xv : Array BV4) (r : ValRec) (k : Nat) : List Arg :=
  (r.args.map fun j => let a := s.vals.getD j {}; ⟨a.ty, a.pol, xv.getD j []⟩) ++
  (if isTri r.op then [⟨r.ty, .none, s.env.getD k []⟩] else [])

/-- frontend model and definition for every operator application of the case -/
def checkOps (s : St) (xv : Array BV4) (checkSpec : Bool) : St := Id.run do
  let mut s := s
  for k in [0:s.vals.size] do
    let r := s.vals[k]!
    if r.op == "lit" ∧ r.err == "" then
      -- a literal leaf must evaluate to the bits that were requested (the definition of a literal), not merely to what it dumped
      s := { s with specChecks := s.specChecks + 1 }
      let want := BV4.ofString r.spar
      if xv.getD k [] != want then
        s := s.propfail s!"stim={s.stim} val={k} op=literal class=literal-leaf/value type={String.singleton r.reqTy} requested={r.spar} impl={BV4.toString (xv.getD k [])}"
    if r.op == "pin" ∨ r.op == "lit" ∨ r.op == "regq" ∨ r.err != "" then continue
    let a := argsOf s xv r k
    let impl := xv.getD k []
    s := { s with feEvals := s.feEvals + 1 }
    match feOp r.op a r.params with
    | .error "?" => s := s.diff s!"stim={s.stim} kind=fe val={k} op={r.op}: operator unknown to the driver"
    | .error e => s := s.diff s!"stim={s.stim} kind=fe val={k} op={r.op} args=[{showArgs a}] model=error({e}) impl={BV4.toString impl}"
    | .ok m =>
      if m != impl then
        s := s.diff s!"stim={s.stim} kind=fe val={k} op={r.op} params={r.params} args=[{showArgs a}] model={BV4.toString m} impl={BV4.toString impl}"
    if !checkSpec then continue
    let cls := shapeClass r.op a r.params
    if a.all (fun x => x.v.allDef) then
      s := { s with specChecks := s.specChecks + 1, defHist := bump s.defHist "defined-operands" }
      match specOp r.op a r.params with
      | none => s := s.propfail s!"stim={s.stim} val={k} op={opBase r.op} class={cls}/built-but-illformed full={r.op} params={r.params} args=[{showArgs a}] impl={BV4.toString impl}: the frontend built an operator instance that has no definition"
      | some sp =>
        if !matchesSpec impl sp then
          s := s.propfail s!"stim={s.stim} val={k} op={opBase r.op} class={cls} full={r.op} params={r.params} args=[{showArgs a}] impl={BV4.toString impl} spec={BV4.toString sp}"
    else
      s := { s with defHist := bump s.defHist "undefined-operand-bits" }
      -- every defined result bit must agree with the definition on concretisations of the operands
      let mut seed := lcg (s.caseId.toNat! * 1000003 + k * 7919 + s.stim.toNat!)
      for _ in [0:3] do
        let mut ca : List Arg := []
        for x in a do
          let (cv, seed') := concretise seed x.v
          seed := lcg seed'
          ca := ca ++ [{ x with v := cv }]
        s := { s with xsoundChecks := s.xsoundChecks + 1 }
        match specOp r.op ca r.params with
        | none => pure ()
        | some sp =>
          if !soundAgainst impl sp then
            s := s.propfail s!"stim={s.stim} val={k} op={opBase r.op} class=xsound/{cls} full={r.op} params={r.params} args=[{showArgs a}] impl={BV4.toString impl} concretisation=[{showArgs ca}] spec={BV4.toString sp}"
            break
  return s

/-- structural checks that need no simulation: result type and width of every built operator -/
def checkShapes (s : St) : St := Id.run do
  let mut s := s
  for k in [0:s.vals.size] do
    let r := s.vals[k]!
    if r.err == "" ∧ r.polRep != r.pol then
      s := s.propfail s!"val={k} op={opBase r.op} class=expansion-policy/expected-{polName r.pol} full={r.op} reported={polName r.polRep}: the value carries another expansion policy than the frontend rules give"
    if (r.op == "lit" ∨ r.op == "pin") ∧ r.err == "" ∧ (r.w != r.reqW ∨ r.ty != r.reqTy) then
      s := s.propfail s!"val={k} op={if r.op == "lit" then "literal" else "pin"} class=literal-leaf/shape requested={String.singleton r.reqTy}{r.reqW} impl={String.singleton r.ty}{r.w}"
    if r.op == "pin" ∨ r.op == "lit" ∨ r.op == "regq" then continue
    let a : List Arg := (r.args.map fun j => let x := s.vals.getD j {}; ⟨x.ty, x.pol, List.replicate x.w .f⟩) ++
      (if isTri r.op then [⟨r.ty, .none, List.replicate r.w .f⟩] else [])
    s := { s with ops := s.ops + 1, opHist := bump s.opHist (opBase r.op), widthHist := bump s.widthHist (widthBucket r.w) }
    let fe := feOp r.op a r.params
    if r.err != "" then
      match fe with
      | .ok m => s := s.diff s!"kind=fe-guard val={k} op={r.op} params={r.params} argwidths={r.args.map fun j => (s.vals.getD j {}).w}: the frontend threw ({r.err}) but the model builds a result of width {m.length}"
      | .error "?" => s := s.diff s!"kind=fe val={k} op={r.op}: operator unknown to the driver"
      | .error _ => pure ()
      continue
    match fe with
    | .error "?" => pure ()
    | .error e => s := s.diff s!"kind=fe-guard val={k} op={r.op} params={r.params} argwidths={r.args.map fun j => (s.vals.getD j {}).w}: the frontend built it but the model rejects ({e})"
    | .ok m =>
      if m.length != r.w then s := s.diff s!"kind=fe-width val={k} op={r.op} model={m.length} impl={r.w}"
    -- the definition's width (operands all-zero have the same shape as any fully defined operands)
    match specOp r.op a r.params with
    | some sp =>
      if sp.length != r.w ∨ resultTy r.op a != r.ty then
        s := s.propfail s!"val={k} op={opBase r.op} class={shapeClass r.op a r.params}/result-shape full={r.op} params={r.params} argwidths={r.args.map fun j => (s.vals.getD j {}).w} impl={String.singleton r.ty}{r.w} spec={String.singleton (resultTy r.op a)}{sp.length}: result type/width differs from the definition"
    | none => pure ()
  return s

end Drv
