import Driver.NodesCommon
/-!
Protocol loop shared by `gv_c03` and `gv_c08` (see `harness/c03.cpp` for the line format).
-/
open Gatery.Nodes Gatery.C03 Drv

namespace Drv

def parseVals (toks : List String) : Array BV4 := (toks.map BV4.ofString).toArray

def resetCase (s : St) (id mode : String) : St :=
  { s with caseId := id, mode := mode, vals := #[], net := #[], netTy := #[], netName := #[], xo := #[], env := #[], stim := "",
           cycle := 0, ctEval := none, xvHist := #[], envHist := #[], blit := none, regInit := #[], runIsAbs := true, absSeqNv := #[], absSeqXv := #[],
           implNv := #[], absNv := #[], absXv := #[], haveAbs := false, unsafeReason := "", litStr := "", cases := s.cases + 1 }

/-- `v <k> <op> a<i>… <num>… [str] -> <t> <w> <p>` | `… -> e` -/
def parseValLine (toks : List String) : ValRec := Id.run do
  let mut r : ValRec := {}
  let body := toks.takeWhile (· != "->")
  let res := (toks.dropWhile (· != "->")).drop 1
  r := { r with op := body.getD 0 "" }
  if r.op == "pin" ∨ r.op == "lit" ∨ r.op == "regq" then
    -- `pin <t> <w>` / `lit <t> <w> <bits>` / `regq <i> <w>`: what was requested
    r := { r with spar := body.getD 3 "", reqTy := if r.op == "regq" then 'u' else (body.getD 1 "?").toList.getD 0 '?', reqW := (body.getD 2 "0").toNat! }
  else
    for t in body.drop 1 do
      if t.startsWith "a" ∧ (t.drop 1).all Char.isDigit ∧ t.length > 1 then r := { r with args := r.args ++ [(t.drop 1).toString.toNat!] }
      else if t.all Char.isDigit then r := { r with params := r.params ++ [t.toNat!] }
      else r := { r with spar := t }
  match res with
  | [e] => r := { r with err := e }
  | t :: w :: p :: _ => r := { r with ty := t.toList.getD 0 'u', w := w.toNat!, pol := polOf p }
  | _ => r := { r with err := "?" }
  return r

/-- C08: no defined bit of the abstract run may be contradicted by a (partial) concretisation.  A contradiction is reported
    at its *source* (`srcOk i`: all inputs of node `i` are still compatible); contradictions that merely propagate are counted. -/
def checkCompat (s : St) (what : String) (names : Nat → String) (abs conc : Array BV4)
    (isSource : Nat → Bool := fun _ => false) (srcOk : Nat → Bool := fun _ => true) : St := Id.run do
  let mut s := s
  for i in [0:abs.size] do
    let a := abs[i]!
    let c := conc.getD i []
    s := { s with compatBits := s.compatBits + a.length }
    if !BV4.compatB a c then
      if srcOk i then
        s := s.propfail s!"stim={s.stim} {what}={i} {names i} class=defined-bit-contradicted abstract={BV4.toString a} concretised={BV4.toString c}"
      else
        s := { s with propagated := s.propagated + 1 }
    else if !BV4.leB a c then
      -- allowed by the property, but not monotone: recorded so that the evidence shows where it happens
      s := { s with nonMono := s.nonMono + 1, nonMonoHist := bump s.nonMonoHist (names i) }
      if isSource i then s := { s with nonMonoSrc := bump s.nonMonoSrc (names i) }
  return s

def nodeKindName (s : St) (i : Nat) : String :=
  match (s.net.getD i ⟨.signal, 0, []⟩).kind with
  | .input _ => "kind=in" | .signal => "kind=sig" | .tristate _ => "kind=tristate"
  | .node k _ => match k with
    | .logic _ => "kind=logic" | .arith _ => "kind=arith" | .compare _ _ => "kind=compare" | .shift _ _ => "kind=shift"
    | .rewire _ => "kind=rewire" | .mux => "kind=mux" | .prio => "kind=prio" | .const _ => "kind=const"

/-- C08, post-processed designs (`pxv` of a conc / concw case): what the simulator reports for the post-processed design under
    stimulus `k` and the constants as written must not contradict, in any defined bit, the as-constructed netlist evaluated (by
    the model, which `checkNodes` compared with the simulator node by node) under the same stimulus with every undefined
    CONSTANT bit given a value: all 0, all 1 and random assignments.  Undefined constant bits are undefined sources like
    undefined inputs; an optimisation that turns one into a defined bit of another operand is caught here. -/
def checkPostConc (s : St) (k : Nat) (rest : List String) : St := Id.run do
  let env := s.envHist.getD k #[]
  let mut s := s
  let hasX := s.net.any fun n => match n.kind with | .node (.const v) _ => !v.allDef | _ => false
  let nsamp := if hasX then 5 else 1
  let mut seed := lcg (s.caseId.toNat! * 7919 + k * 104729 + 17)
  let mut refs : Array (List (Option BV4)) := #[]
  for c in [0:nsamp] do
    let mut net' : Array NetNode := #[]
    for n in s.net do
      match n.kind with
      | .node (.const v) ty =>
        let (cv, seed') :=
          if c == 0 then (v.map fun b => if b == B4.x then B4.f else b, seed)
          else if c == 1 then (v.map fun b => if b == B4.x then B4.t else b, seed)
          else concretise seed v
        seed := lcg seed'
        net' := net'.push { n with kind := .node (.const cv) ty }
      | _ => net' := net'.push n
    refs := refs.push (evalNet env.toList net'.toList)
  let refOf (c j : Nat) : BV4 := ((refs.getD c []).getD (s.xo.getD j 0) none).getD []
  let agrees (j : Nat) : Bool :=
    let cs := rest.getD j "?"
    cs == "?" || (List.range nsamp).all fun c => BV4.compatB (BV4.ofString cs) (refOf c j)
  for j in [0:s.vals.size] do
    let cs := rest.getD j "?"
    if cs == "?" then continue
    s := { s with postValues := s.postValues + 1, compatBits := s.compatBits + (BV4.ofString cs).length * nsamp }
    let r := s.vals[j]!
    if !agrees j ∧ r.args.all agrees then
      let c := ((List.range nsamp).find? fun c => !BV4.compatB (BV4.ofString cs) (refOf c j)).getD 0
      let a := argsOf s (s.xvHist.getD k #[]) r j
      s := s.propfail s!"stim={k} val={j} kind=post-processed op={opBase r.op} class=defined-bit-contradicted full={r.op} params={r.params} args=[{showArgs a}] post-processed={cs} as-constructed={BV4.toString ((s.xvHist.getD k #[]).getD j [])} reference={BV4.toString (refOf c j)} constants={if c == 0 then "x->0" else if c == 1 then "x->1" else "x->random"}: the post-processed design reports a defined bit that a completion of the undefined constant bits contradicts"
  return s

def step (s : St) (line : String) : St :=
  let toks := (line.trimAscii.toString.splitOn " ").filter (· ≠ "")
  match toks with
  | [] => s
  | "#" :: _ => s
  | "case" :: id :: mode :: _ => resetCase s id mode
  | "v" :: k :: rest =>
    let r := parseValLine rest
    -- model and definition use the policy the frontend rules give; the reported one is compared with it (checkShapes)
    let r := { r with polRep := r.pol }
    let r := { r with pol := derivedPol s.vals r }
    let idx := k.toNat!
    let vals := if idx == s.vals.size then s.vals.push r else s.vals
    { s with vals := vals }
  | "net" :: _ => s
  | "n" :: rest =>
    match parseNode rest with
    | some (n, ty, name) => { s with net := s.net.push n, netTy := s.netTy.push ty, netName := s.netName.push name }
    | none => (s.diff s!"kind=parse line=[{line.trimAscii.toString.take 200}]")
  | "xo" :: rest => { s with xo := (rest.map fun t => t.toNat!).toArray, env := Array.replicate s.vals.size [] }
  | "unsafe" :: i :: reason => { s with unsafeReason := " ".intercalate reason ++ " node=" ++ i }
  | ["unmodelled"] => s.diff "kind=unmodelled: a node kind outside the model occurs in the netlist"
  | "simerr" :: rest =>
    -- the simulator threw while compiling / evaluating a netlist the frontend accepted
    let ops := ",".intercalate ((s.vals.toList.filter fun r => r.op != "pin" ∧ r.op != "lit").map fun r => opBase r.op)
    let allZero := s.vals.toList.all fun r => r.w == 0
    let s := { s with crashCases := s.crashCases + 1 }
    if allZero then
      s.propfail s!"op=any class=design-without-state-bits/simulation-throws ops=[{ops}] what=[{(" ".intercalate rest).take 160}]: every signal of the design is zero bits wide"
    else
      s.propfail s!"op={if s.mode == "op" then ops else "dag"} class=simulation-throws ops=[{ops}] what=[{(" ".intercalate rest).take 160}]"
  | "crash" :: rest =>
    let ops := ",".intercalate ((s.vals.toList.filter fun r => r.op != "pin" ∧ r.op != "lit").map fun r => opBase r.op)
    let zero := s.vals.toList.any fun r => r.w == 0 ∧ r.err == ""
    let allZero := s.vals.toList.all fun r => r.w == 0
    let s := { s with crashCases := s.crashCases + 1 }
    let (opn, cls) :=
      if s.mode == "const" then
        -- exact shape: the crash happened while a zero-width expression was being evaluated at construction time
        match s.ctEval with
        | some k => ("dag", if (s.vals.getD k {}).w == 0 then "crash/construction-time-eval-zero-width" else "crash/construction-time-eval-other")
        | none => ("dag", "crash/const-design-simulation")
      else if s.mode == "lit" then ("literal", "crash/literal")
      else if allZero then
        -- exact shape of the known crash: no state bits at all and a rewire node with an empty INPUT range (cat/pack of a
        -- zero-width operand, rot(x, 0)): `Node_Rewire` reads `values[0]` of an empty state
        let emptyRange := s.net.any fun n => match n.kind with
          | .node (.rewire rs) _ => rs.any fun r => r.subwidth == 0 && (match r.src with | .input _ _ => true | _ => false)
          | _ => false
        ("any", if emptyRange then "design-without-state-bits/crash" else "design-without-state-bits/crash-other")
      else (if s.mode == "op" then ops else "dag", if zero then "crash/simulation-zero-width" else "crash/simulation")
    s.propfail s!"op={opn} class={cls} signal=[{" ".intercalate rest}] ops=[{ops}] lit=[{s.litStr}]: the code under test crashed"
  | "stim" :: k :: _ => { s with stim := k, haveAbs := false, stims := s.stims + 1, runIsAbs := true, absSeqNv := #[], absSeqXv := #[] }
  | "stimc" :: k :: _ => { s with stim := k, stims := s.stims + 1, runIsAbs := false }
  | ["cyc", t] => { s with cycle := t.toNat!, stims := s.stims + 1 }
  | "reg" :: _ :: q :: _ :: rst :: _ =>
    -- `reg i q=a<k> data=… rst=<bits|-> en=…`: the power-on content is the reset value, all undefined without one
    -- (`Node_Register::simulatePowerOn` → `writeResetValueTo(…, clearDefinedIfUnconnected = true)`)
    let w := (s.vals.getD ((q.drop 3).toString.toNat!) {}).w
    let rv := (rst.drop 4).toString
    { s with regInit := s.regInit.push (if rv == "-" then BV4.undef w else BV4.ofString rv) }
  | ["reginit", i, bits] =>
    let want := s.regInit.getD i.toNat! []
    if BV4.ofString bits != want then
      s.propfail s!"stim={s.stim} kind=reg class=register-power-on-content reg={i} expected={BV4.toString want} impl={bits}: after powerOn a register holds its reset value, or nothing defined without one"
    else s
  | ["regset", i, bits] =>
    let want := s.regInit.getD i.toNat! []
    if !BV4.leB want (BV4.ofString bits) then s.diff s!"kind=harness regset {i} {bits} is not a concretisation of {BV4.toString want}" else s
  | ["cteval", k] => { s with ctEval := if k == "done" then none else some k.toNat! }
  | ["pv", k, bits] => { s with env := s.env.setIfInBounds k.toNat! (BV4.ofString bits) }
  | "nv" :: rest => { s with implNv := parseVals rest }
  | "post" :: _ => { s with postRuns := s.postRuns + 1 }
  | "posterr" :: rest =>
    let ops := ",".intercalate ((s.vals.toList.filter fun r => r.op != "pin" ∧ r.op != "lit").map fun r => opBase r.op)
    s.propfail s!"op=dag class=post-processing-throws what=[{(" ".intercalate rest).take 160}] ops=[{ops}]: design.postprocess() (or the simulation of its result) threw on a design the frontend built and the simulator evaluated"
  | "pxv" :: k :: rest => if s.c08 then checkPostConc s k.toNat! rest else Id.run do
    -- the post-processed design on stimulus k: every tapped expression must still evaluate to what the design as constructed
    -- evaluated to (which was compared with the model and the definition above): no defined bit may differ, and a fully
    -- defined value must be reproduced exactly
    let pre := s.xvHist.getD k.toNat! #[]
    let mut s := s
    let agrees (j : Nat) : Bool :=
      let c := rest.getD j "?"
      c == "?" || (let pv := BV4.ofString c; let xv := pre.getD j []
                   BV4.compatB xv pv && (!xv.allDef || xv == pv))
    for j in [0:s.vals.size] do
      let c := rest.getD j "?"
      if c == "?" then continue
      s := { s with postValues := s.postValues + 1 }
      let r := s.vals[j]!
      if !agrees j ∧ r.args.all agrees then
        let a := argsOf s pre r j
        s := s.propfail s!"stim={k} val={j} op={opBase r.op} class=post-processed/{shapeClass r.op a r.params} full={r.op} params={r.params} args=[{showArgs a}] as-constructed={BV4.toString (pre.getD j [])} post-processed={c}: the design evaluates differently after design.postprocess()"
    return s
  | "xv" :: rest =>
    let xv := parseVals rest
    let s := { s with xvHist := s.xvHist.push xv, envHist := s.envHist.push s.env }
    let s := checkNodes s s.implNv
    let s := checkOps s xv (!s.c08)
    if s.mode == "seq" then
      -- sequential: the abstract run's values of cycle t are compared with every concretised run's values of cycle t
      if s.runIsAbs then { s with absSeqNv := s.absSeqNv.push s.implNv, absSeqXv := s.absSeqXv.push xv }
      else
        let s := { s with concPairs := s.concPairs + 1, stim := s.stim ++ "@cycle" ++ toString s.cycle }
        let absNv := s.absSeqNv.getD s.cycle #[]; let implNv := s.implNv; let net := s.net; let names := s.netName
        -- a register is a source when the previous cycle was still compatible; reported like any other node
        let srcOk := fun (i : Nat) =>
          names.getD i "" == "reg" ||
          ((net.getD i ⟨.signal, 0, []⟩).ins.all fun o => match o with
            | none => true
            | some j => BV4.compatB (absNv.getD j []) (implNv.getD j []))
        let isSource := fun (i : Nat) =>
          names.getD i "" != "reg" &&
          ((net.getD i ⟨.signal, 0, []⟩).ins.all fun o => match o with
            | none => true
            | some j => BV4.leB (absNv.getD j []) (implNv.getD j []))
        let s := checkCompat s "node" (fun i => if names.getD i "" == "reg" then "kind=reg" else nodeKindName s i) absNv implNv isSource srcOk
        { s with stim := (s.stim.splitOn "@").getD 0 s.stim }
    else if s.mode == "conc" ∨ s.mode == "concw" then
      if !s.haveAbs then { s with absNv := s.implNv, absXv := xv, haveAbs := true }
      else
        let s := { s with concPairs := s.concPairs + 1 }
        -- a node is a *source* of non-monotonicity if all of its inputs are refined but its output is not
        let absNv := s.absNv; let implNv := s.implNv; let net := s.net
        let isSource := fun (i : Nat) =>
          (net.getD i ⟨.signal, 0, []⟩).ins.all fun o => match o with
            | none => true
            | some j => BV4.leB (absNv.getD j []) (implNv.getD j [])
        let srcOk := fun (i : Nat) =>
          (net.getD i ⟨.signal, 0, []⟩).ins.all fun o => match o with
            | none => true
            | some j => BV4.compatB (absNv.getD j []) (implNv.getD j [])
        let before := s.propfails
        let s := checkCompat s "node" (nodeKindName s) s.absNv s.implNv isSource srcOk
        -- expression values are node outputs: only consulted when no node explains a contradiction
        if s.propfails == before then checkCompat s "val" (fun i => "op=" ++ opBase (s.vals.getD i {}).op) s.absXv xv else s
    else { s with absXv := xv }
  | "ct" :: rest => Id.run do
    -- construction-time vs run-time evaluation of constant expressions
    let mut s := s
    for k in [0:s.vals.size] do
      let c := rest.getD k "?"
      let rt := BV4.toString (s.absXv.getD k [])
      s := { s with specChecks := s.specChecks + 1 }
      let r := s.vals[k]!
      -- report the innermost expression only: an operand that already differs explains the difference
      let argsAgree := r.args.all fun j => rest.getD j "?" == BV4.toString (s.absXv.getD j [])
      if c != rt ∧ argsAgree then
        let a := argsOf s s.absXv r k
        -- how the two evaluations relate: the construction-time evaluation threw, or is a refinement of / refined by / in
        -- contradiction with the run-time value
        let rtv := s.absXv.getD k []
        let ctv := BV4.ofString c
        let rel := if c.startsWith "e(" ∨ c == "e" then "ct-throws"
                   else if BV4.leB rtv ctv then "ct-more-defined" else if BV4.leB ctv rtv then "ct-less-defined"
                   else if BV4.compatB ctv rtv then "ct-differently-defined" else "ct-contradicts-rt"
        s := s.propfail s!"val={k} op={opBase r.op} class=construction-time-vs-run-time/{shapeClass r.op a r.params}/{rel} full={r.op} params={r.params} construction={c.take 200} runtime={rt}"
    return s
  | "lit" :: rest => { s with litStr := " ".intercalate rest, ops := s.ops + 1, opHist := bump s.opHist "literal" }
  | ["blit", code] => { s with blit := some code.toNat!, ops := s.ops + 1, opHist := bump s.opHist "bit-literal" }
  | ["->", r] => Id.run do
    let mut s := s
    if let some code := s.blit then
      -- Bit(char)
      let c := Char.ofNat code
      s := { s with blit := none, feEvals := s.feEvals + 1, specChecks := s.specChecks + 1 }
      let feS := match parseBit c with | .ok v => BV4.toString v | .error _ => "e"
      if feS != r then s := s.diff s!"kind=fe op=bit-literal char={code} model={feS} impl={r}"
      let cls := if c == 'x' ∨ c == 'X' then "undefined-char" else if c == '0' ∨ c == '1' then "digit" else "other-char"
      match Spec.bitLiteral c with
      | none => if r != "e" then s := s.propfail s!"op=bit-literal class={cls}/accepted-illformed char={code} impl={r}"
      | some v => if BV4.toString v != r then s := s.propfail s!"op=bit-literal class={cls}/value char={code} impl={r} spec={BV4.toString v}"
      return s
    let fe := parseBitVector s.litStr
    let sp := Spec.literal s.litStr
    s := { s with feEvals := s.feEvals + 1, specChecks := s.specChecks + 1 }
    let feS := match fe with
      | .ok v => BV4.toString v
      | .error e => if e.startsWith "E:" then "E" else "e"
    if feS != r then s := s.diff s!"kind=fe op=literal lit={s.litStr} model={feS} impl={r}"
    let base := (s.litStr.toList.dropWhile Char.isDigit).getD 0 '?'
    let ndig := (s.litStr.toList.dropWhile Char.isDigit).length - 1
    let cls := s!"base-{base}/" ++ (if base == 'o' ∧ ndig ≥ 22 then "digits>=22" else if base == 'd' then "dec" else "-")
    match sp with
    | none => if r != "e" ∧ r != "E" then s := s.propfail s!"op=literal class={cls}/accepted-illformed lit={s.litStr} impl={r}"
    | some v =>
      if r == "E" then s := s.propfail s!"op=literal class={cls}/internal-error lit={s.litStr} spec={BV4.toString v}: a well-formed literal trips an internal assertion"
      else if r == "e" then s := s.propfail s!"op=literal class={cls}/rejected lit={s.litStr} spec={BV4.toString v}: a well-formed literal is rejected"
      else if BV4.toString v != r then s := s.propfail s!"op=literal class={cls}/value lit={s.litStr} impl={r} spec={BV4.toString v}"
    return s
  | ["end"] => Id.run do
    if s.mode == "lit" then return s
    let mut s := checkShapes s
    if s.vals.any (fun r => r.err != "") then s := { s with errCases := s.errCases + 1 }
    if s.unsafeReason != "" then
      s := { s with unsafeCases := s.unsafeCases + 1 }
      -- which operator produced the unsafe node: the last static shift / cat with the matching shape, else "dag"
      -- which operator's result is the unsafe node
      let nodeIdx := ((s.unsafeReason.splitOn "node=").getD 1 "").toNat!
      let culprit := (List.range s.vals.size).filter fun k => s.xo.getD k (s.net.size + 1) == nodeIdx ∧ (s.vals.getD k {}).op != "pin"
      let (opn, cls) := match culprit with
        | k :: _ =>
          let r := s.vals.getD k {}
          let a : List Arg := r.args.map fun j => let x := s.vals.getD j {}; ⟨x.ty, x.pol, List.replicate x.w .f⟩
          (opBase r.op, shapeClass r.op a r.params)
        | [] => ("dag", "-")
      s := s.propfail s!"op={opn} class={cls}/unsafe-netlist reason=[{s.unsafeReason}]: the frontend built a netlist on which the simulator has undefined behaviour (not simulated)"
    return s
  | _ => s.diff s!"kind=parse line=[{line.trimAscii.toString.take 200}]"

partial def loop (h : IO.FS.Stream) (s : St) : IO St := do
  let line ← h.getLine
  if line.isEmpty then return s
  let s := step s line
  for m in s.out do IO.println m
  loop h { s with out := #[] }

def histJson (h : List (String × Nat)) : String :=
  "{" ++ ",".intercalate (h.map fun (k, n) => s!"\"{k}\":{n}") ++ "}"

def run (c08 : Bool) : IO Unit := do
  let s ← loop (← IO.getStdin) { c08 := c08 }
  IO.println (s!"SUMMARY \{\"cases\":{s.cases},\"ops\":{s.nodeEvals + s.feEvals},\"diffs\":{s.diffs},\"propfails\":{s.propfails}," ++
    s!"\"operator_instances\":{s.ops},\"node_evals\":{s.nodeEvals},\"fe_evals\":{s.feEvals},\"spec_checks\":{s.specChecks},\"xsound_checks\":{s.xsoundChecks}," ++
    s!"\"stimuli\":{s.stims},\"error_cases\":{s.errCases},\"unsafe_cases\":{s.unsafeCases},\"crash_cases\":{s.crashCases},\"post_processed_runs\":{s.postRuns},\"post_processed_values\":{s.postValues}," ++
    s!"\"conc_pairs\":{s.concPairs},\"compat_bits\":{s.compatBits},\"non_monotone\":{s.nonMono},\"propagated_contradictions\":{s.propagated}," ++
    s!"\"hist\":{histJson s.opHist},\"node_kinds\":{histJson s.kindHist},\"widths\":{histJson s.widthHist},\"definedness\":{histJson s.defHist},\"non_monotone_where\":{histJson s.nonMonoHist},\"non_monotone_sources\":{histJson s.nonMonoSrc}}")

end Drv
