import GateryModel.C08.Compat
/-!
# C01, layer A — congruence: replacing one node by a locally sound alternative preserves the observable behaviour

Netlists are `Gatery.Nodes.Netlist` lists (node `i` reads outputs of nodes `< i`). A post-processing rewrite is modelled as the
in-place replacement of one node by another node (other kind and/or other input wiring to earlier nodes); passes that bypass a
node are the special case where the node becomes a forwarding of one of its inputs.

`F` for netlists: every node value of the rewritten netlist is compatible with the original one (no contradicting defined bit),
and if the original run is free of undefined values the rewritten run is identical.
-/
namespace Gatery.C01
open Gatery.Nodes BV4

/-- every value exists and is fully defined -/
def ValsDef (vals : Vals) : Prop := ∀ o ∈ vals, ∃ v, o = some v ∧ v.allDef = true

theorem evalNetFrom_append (env : Env) (a b : List NetNode) (v : Vals) :
    evalNetFrom env (a ++ b) v = evalNetFrom env b (evalNetFrom env a v) := by
  induction a generalizing v with
  | nil => rfl
  | cons n ns ih => simp only [List.cons_append, evalNetFrom, ih]

/-- evaluation only appends: the values computed so far are a prefix of the result -/
theorem evalNetFrom_prefix (env : Env) (net : List NetNode) (v : Vals) :
    ∃ t, evalNetFrom env net v = v ++ t := by
  induction net generalizing v with
  | nil => exact ⟨[], by simp [evalNetFrom]⟩
  | cons n ns ih =>
    obtain ⟨t, ht⟩ := ih (v ++ [evalNetNode env v n])
    exact ⟨evalNetNode env v n :: t, by simp only [evalNetFrom, ht, List.append_assoc, List.singleton_append]⟩

theorem valsDef_of_append {a b : Vals} (h : ValsDef (a ++ b)) : ValsDef a :=
  fun o ho => h o (List.mem_append_left _ ho)

/-- what a rewrite of node `n` into `n'` has to guarantee, in the context of the nodes `pre` evaluated before it,
    for every admissible environment (`ok`: e.g. stimulus values have the widths of their pins) -/
structure LocalSound (ok : Env → Prop) (pre : List NetNode) (n n' : NetNode) : Prop where
  compat : ∀ env, ok env → optCompat (evalNetNode env (evalNet env pre) n) (evalNetNode env (evalNet env pre) n')
  eqdef : ∀ env, ok env → ValsDef (evalNet env pre) → (∃ v, evalNetNode env (evalNet env pre) n = some v ∧ v.allDef = true) →
            evalNetNode env (evalNet env pre) n' = evalNetNode env (evalNet env pre) n

/-- **Congruence.** One locally sound replacement anywhere in a netlist: every value of the new netlist is compatible with
    the old one, and identical whenever the old run is fully defined. For every netlist, every environment. -/
theorem replace_sound {ok : Env → Prop} (pre post : List NetNode) (n n' : NetNode) (h : LocalSound ok pre n n') (env : Env) (hok : ok env) :
    ValsCompat (evalNet env (pre ++ n :: post)) (evalNet env (pre ++ n' :: post)) ∧
    (ValsDef (evalNet env (pre ++ n :: post)) → evalNet env (pre ++ n' :: post) = evalNet env (pre ++ n :: post)) := by
  unfold evalNet
  rw [evalNetFrom_append, evalNetFrom_append]
  simp only [evalNetFrom]
  have hrefl : EnvCompat env env := forall₂_refl BV4.compat_refl env
  constructor
  · apply evalNetFrom_compat hrefl
    exact forall₂_append (forall₂_refl optCompat_refl _) (.cons (h.compat env hok) .nil)
  · intro hd
    obtain ⟨t, ht⟩ := evalNetFrom_prefix env post (evalNetFrom env pre [] ++ [evalNetNode env (evalNetFrom env pre []) n])
    rw [ht] at hd
    have hd1 : ValsDef (evalNetFrom env pre [] ++ [evalNetNode env (evalNetFrom env pre []) n]) := valsDef_of_append hd
    have hpre : ValsDef (evalNetFrom env pre []) := valsDef_of_append hd1
    have hn := hd1 (evalNetNode env (evalNetFrom env pre []) n) (by simp)
    have := h.eqdef env hok hpre hn
    unfold evalNet at this
    rw [this]

/-- sequences of locally sound replacements -/
inductive Rewrites (ok : Env → Prop) : List NetNode → List NetNode → Prop
  | refl (a : List NetNode) : Rewrites ok a a
  | step {a pre post : List NetNode} {n n' : NetNode} :
      Rewrites ok a (pre ++ n :: post) → LocalSound ok pre n n' → Rewrites ok a (pre ++ n' :: post)

/-- **Any number of passes, defined runs.** If the run of the original netlist is free of undefined values, the netlist obtained
    by any finite sequence of locally sound replacements computes exactly the same values. -/
theorem rewrites_defined {ok : Env → Prop} (a b : List NetNode) (h : Rewrites ok a b) (env : Env) (hok : ok env) (hd : ValsDef (evalNet env a)) :
    evalNet env b = evalNet env a := by
  induction h with
  | refl => rfl
  | step _ hl ih =>
    have := (replace_sound _ _ _ _ hl env hok).2 (by rw [ih]; exact hd)
    rw [this, ih]

theorem compat_of_compat_def {u v m : BV4} (h1 : BV4.compat u m) (h2 : BV4.compat m v) (hm : m.allDef = true) : BV4.compat u v := by
  refine ⟨h1.1.trans h2.1, fun i => ?_⟩
  have a := h1.2 i
  have b := h2.2 i
  by_cases hi : i < m.length
  · have hmd : (m.bit i).isDef = true := by
      unfold BV4.allDef at hm
      rw [List.all_eq_true] at hm
      unfold BV4.bit
      have : m.getD i B4.x = m[i] := by simp [List.getD_eq_getElem?_getD, hi]
      rw [this]
      exact hm _ (List.getElem_mem hi)
    cases hu : u.bit i <;> cases hv : v.bit i <;> cases hmb : m.bit i <;> simp_all [B4.compat, B4.isDef]
  · have : u.bit i = B4.x := bit_of_ge u i (by have := h1.1; omega)
    exact Or.inl this

/-- **Any number of passes, partially undefined stimulus.** If some concretisation `env'` of the stimulus makes the original run
    fully defined, then under the (partially undefined) stimulus itself no defined bit of the rewritten netlist contradicts the original. -/
theorem rewrites_compat {ok : Env → Prop} (a b : List NetNode) (h : Rewrites ok a b) (env env' : Env) (he : EnvCompat env env')
    (hok' : ok env') (hd : ValsDef (evalNet env' a)) : ValsCompat (evalNet env a) (evalNet env b) := by
  have e := rewrites_defined a b h env' hok' hd
  have c1 : ValsCompat (evalNet env a) (evalNet env' a) := evalNetFrom_compat he a .nil
  have c2 : ValsCompat (evalNet env' b) (evalNet env b) := by
    have : EnvCompat env' env := by
      clear hd e c1 h hok'
      induction he with
      | nil => exact .nil
      | cons hab _ ih => exact .cons (BV4.compat_symm hab) ih
    exact evalNetFrom_compat this b .nil
  rw [e] at c2
  -- pointwise: both are compatible with the fully defined middle run
  generalize evalNet env a = x at c1
  generalize evalNet env b = z at c2
  generalize evalNet env' a = m at c1 c2 hd
  induction c1 generalizing z with
  | nil => cases c2; exact .nil
  | @cons p q l l' hpq _ ih =>
    cases c2 with
    | @cons _ r _ l'' hqr hrest =>
      refine .cons ?_ (ih _ hrest (fun o ho => hd o (List.mem_cons_of_mem _ ho)))
      obtain ⟨mv, hq, hmd⟩ := hd q (by simp)
      subst hq
      cases p with
      | none => simp [optCompat] at hpq
      | some u =>
        cases r with
        | none => simp [optCompat] at hqr
        | some v => exact compat_of_compat_def hpq hqr hmd

end Gatery.C01
