import GateryModel.C01.Rules2
/-!
# C01 — `removeIrrelevantMuxes`: rewiring past a mux whose other input is masked further on

`m = mux(c; a, b)`. A consumer `K` of `m` is rewired to read `a` directly.  This changes `K` (and everything computed from it, the
*tainted* set `S`) whenever `c` selects `b` — it is sound only if every way out of the tainted set passes through data input 0 of a
later mux whose condition has the value of `c`: that mux then selects its other input exactly when the taint is real.  (A tainted
*selector* input masks nothing: the defect repaired by ef1e091.)

`masked_rewire_defined`: for every environment in which the conditions are defined, every node outside the tainted set — in
particular every output pin — has the same value before and after the rewiring.  Netlists of any size, any shape of the tainted set.
-/
namespace Gatery.C01
open Gatery.Nodes BV4

theorem gather_congr (v v' : Vals) (ins : List (Option Nat)) (h : ∀ i, some i ∈ ins → v.getD i none = v'.getD i none) :
    gather v ins = gather v' ins := by
  unfold gather
  apply List.map_congr_left
  intro o ho
  cases o with
  | none => rfl
  | some i => exact h i ho

theorem evalNetNode_congr (env : Env) (v v' : Vals) (n : NetNode) (h : gather v n.ins = gather v' n.ins) :
    evalNetNode env v n = evalNetNode env v' n := by
  unfold evalNetNode
  cases n.kind <;> simp only [h]

theorem evalNetNode_congr2 (env : Env) (v v' : Vals) (n n' : NetNode) (hk : n'.kind = n.kind) (hw : n'.w = n.w)
    (h : gather v n'.ins = gather v' n.ins) : evalNetNode env v n' = evalNetNode env v' n := by
  unfold evalNetNode
  rw [hk, hw]
  cases n.kind <;> simp only [h]

theorem evalNet_length (env : Env) (net : List NetNode) : (evalNet env net).length = net.length := by
  unfold evalNet; rw [evalNetFrom_length]; simp

theorem getD_none_of_ge (v : Vals) (j : Nat) (h : v.length ≤ j) : v.getD j none = none := by
  simp [List.getD_eq_getElem?_getD, List.getElem?_eq_none h]

/-- every node reads only earlier nodes -/
@[reducible] def Topo (net : List NetNode) : Prop := ∀ (j : Nat) (n : NetNode), net[j]? = some n → ∀ i, some i ∈ n.ins → i < j

/-- the value of every node is its node function applied to the values of the whole evaluation -/
theorem evalNet_node (env : Env) (net : List NetNode) (ht : Topo net) (j : Nat) (n : NetNode) (hj : net[j]? = some n) :
    (evalNet env net).getD j none = evalNetNode env (evalNet env net) n := by
  rw [evalNet_getD env net j n hj]
  have hlt : j < net.length := (List.getElem?_eq_some_iff.mp hj).1
  apply evalNetNode_congr
  apply gather_congr
  intro i hi
  exact evalNet_take_getD env net j i (ht j n hj i hi) (by omega)

/-- **Generic simulation argument.** Two netlists of the same length; `S` marks nodes whose values may differ. If every unmarked
    node of `new`, evaluated on values that agree with `old` on the unmarked nodes before it, yields the value it has in `old`,
    then all unmarked nodes agree. -/
theorem agree_outside (env : Env) (old new : List NetNode) (hlen : new.length = old.length) (S : Nat → Bool)
    (hstep : ∀ j n', new[j]? = some n' → S j = false →
      (∀ i, i < j → S i = false → (evalNet env new).getD i none = (evalNet env old).getD i none) →
      evalNetNode env (evalNet env (new.take j)) n' = (evalNet env old).getD j none) :
    ∀ j, S j = false → (evalNet env new).getD j none = (evalNet env old).getD j none := by
  intro j
  induction j using Nat.strongRecOn with
  | _ j ih =>
    intro hs
    by_cases hj : j < new.length
    · have hn : new[j]? = some new[j] := List.getElem?_eq_getElem hj
      rw [evalNet_getD env new j _ hn]
      exact hstep j _ hn hs (fun i hi hsi => ih i hi hsi)
    · rw [getD_none_of_ge _ _ (by rw [evalNet_length]; omega), getD_none_of_ge _ _ (by rw [evalNet_length]; omega)]

/-- the value seen at one input port -/
def lookV (v : Vals) (o : Option Nat) : Option BV4 :=
  match o with
  | none => none
  | some i => v.getD i none

theorem lookV_congr (v v' : Vals) (o : Option Nat) (h : ∀ i, o = some i → v.getD i none = v'.getD i none) : lookV v o = lookV v' o := by
  cases o with
  | none => rfl
  | some i => exact h i rfl

theorem gather3 (v : Vals) (a b c : Option Nat) : gather v [a, b, c] = [lookV v a, lookV v b, lookV v c] := by
  rfl

/-- data input `p` of a two-input mux -/
def pick {α : Type} (p : Bool) (x y : α) : α := if p then y else x

theorem evalMux_ofBool (w : Nat) (s : Bool) (e0 e1 : Option BV4) :
    evalMux w [some [B4.ofBool s], e0, e1] = copyIn w (pick s e0 e1) := by
  cases s
  · simpa [pick, B4.ofBool] using evalMux_sel_f w e0 e1
  · simpa [pick, B4.ofBool] using evalMux_sel_t w e0 e1

/-- `m = mux(c; d0, d1)` at index `m`; consumer `K` (index `k`) reads `m` at `port` and is rewired to data input `p` of the mux.
    `S` marks the tainted nodes. -/
structure MaskedRewire (old new : List NetNode) (S : Nat → Bool) (k m c d0 d1 w : Nat) (ty : CType) (K : NetNode) (port : Nat) (p : Bool) : Prop where
  len : new.length = old.length
  topo : Topo old
  same : ∀ j, j ≠ k → new[j]? = old[j]?
  hK : old[k]? = some K
  hK' : new[k]? = some { K with ins := K.ins.set port (some (pick p d0 d1)) }
  hport : K.ins[port]? = some (some m)
  hm : old[m]? = some ⟨.node .mux ty, w, [some c, some d0, some d1]⟩
  hmk : m < k
  sk : S k = true
  sbefore : ∀ j, j < k → S j = false
  /-- every untainted node after `K` either reads no tainted node, or is a two-input mux with untainted selector that reads taint
      at one data input only (the other one is untainted) -/
  after : ∀ j n, k < j → old[j]? = some n → S j = false →
    (∀ i, some i ∈ n.ins → S i = false) ∨
    (∃ ty' w' c' e0 e1, n = ⟨.node .mux ty', w', [some c', e0, e1]⟩ ∧ S c' = false)

/-- what the environment has to satisfy: the mux condition is a defined bit `cb`, the bypassed input has the width of the mux, and
    every later mux that reads taint has a defined one-bit selector that does not select a tainted data input when the taint is real
    (`cb ≠ p`) — which is the case when its condition equals `c` and the taint sits at data input `p`, or its condition is the negation
    of `c` and the taint sits at the other data input -/
structure MaskEnv (env : Env) (old : List NetNode) (S : Nat → Bool) (k c d0 d1 w : Nat) (p cb : Bool) : Prop where
  cval : (evalNet env old).getD c none = some [B4.ofBool cb]
  awidth : ∃ va, (evalNet env old).getD (pick p d0 d1) none = some va ∧ va.length = w
  conds : cb ≠ p → ∀ j ty' w' c' e0 e1, k < j → old[j]? = some ⟨.node .mux ty', w', [some c', e0, e1]⟩ → S j = false →
    (∃ i, (e0 = some i ∨ e1 = some i) ∧ S i = true) →
    ∃ s : Bool, (evalNet env old).getD c' none = some [B4.ofBool s] ∧ ∀ i, pick s e0 e1 = some i → S i = false

theorem masked_rewire_defined {old new : List NetNode} {S : Nat → Bool} {k m c d0 d1 w : Nat} {ty : CType} {K : NetNode} {port : Nat} {p cb : Bool}
    (h : MaskedRewire old new S k m c d0 d1 w ty K port p) (env : Env) (he : MaskEnv env old S k c d0 d1 w p cb) :
    ∀ j, S j = false → (evalNet env new).getD j none = (evalNet env old).getD j none := by
  -- the value of the bypassed mux
  have hmv : (evalNet env old).getD m none =
      some (evalMux w [(evalNet env old).getD c none, (evalNet env old).getD d0 none, (evalNet env old).getD d1 none]) := by
    rw [evalNet_node env old h.topo m _ h.hm]
    simp [evalNetNode, evalNode, gather]
  obtain ⟨va, hva, hwa⟩ := he.awidth
  by_cases hcp : cb = p
  · -- the mux selects the input the consumer is rewired to: nothing changes at all
    have hma : (evalNet env old).getD m none = (evalNet env old).getD (pick p d0 d1) none := by
      rw [hmv, he.cval, evalMux_ofBool, hcp]
      have : pick p ((evalNet env old).getD d0 none) ((evalNet env old).getD d1 none) = (evalNet env old).getD (pick p d0 d1) none := by
        cases p <;> rfl
      rw [this, hva, copyIn_of_length hwa]
    intro j _
    apply agree_outside env old new h.len (fun _ => false) ?_ j rfl
    intro j n' hn' _ ih
    have hlt : j < new.length := (List.getElem?_eq_some_iff.mp hn').1
    have hread : ∀ i, i < j → (evalNet env (new.take j)).getD i none = (evalNet env old).getD i none := by
      intro i hij
      rw [evalNet_take_getD env new j i hij (by omega)]
      exact ih i hij rfl
    by_cases hjk : j = k
    · subst hjk
      rw [h.hK'] at hn'
      cases hn'
      rw [evalNet_node env old h.topo j K h.hK]
      refine evalNetNode_congr2 env _ _ K { K with ins := K.ins.set port (some (pick p d0 d1)) } rfl rfl ?_
      unfold gather
      simp only
      apply List.ext_getElem?
      intro q
      simp only [List.getElem?_map, List.getElem?_set]
      by_cases hq : port = q
      · subst hq
        have hpl : port < K.ins.length := (List.getElem?_eq_some_iff.mp h.hport).1
        simp only [hpl, if_true, h.hport, Option.map_some]
        have ha_lt : pick p d0 d1 < j := by
          have h0 := h.topo m _ h.hm d0 (by simp); have h1 := h.topo m _ h.hm d1 (by simp); have := h.hmk
          cases p <;> simp [pick] <;> omega
        rw [hread _ ha_lt, ← hma]
      · simp only [hq, if_false]
        cases hx : K.ins[q]? with
        | none => rfl
        | some o =>
          cases o with
          | none => rfl
          | some i =>
            simp only [Option.map_some]
            have : some i ∈ K.ins := List.mem_of_getElem? hx
            simpa using hread i (h.topo j K h.hK i this)
    · have hold : old[j]? = some n' := by rw [← h.same j hjk]; exact hn'
      rw [evalNet_node env old h.topo j n' hold]
      apply evalNetNode_congr; apply gather_congr
      intro i hi
      exact hread i (h.topo j n' hold i hi)
  · -- the taint is real; untainted nodes never look at it
    apply agree_outside env old new h.len S
    intro j n' hn' hs ih
    have hjk : j ≠ k := by intro e; rw [e, h.sk] at hs; cases hs
    have hold : old[j]? = some n' := by rw [← h.same j hjk]; exact hn'
    rw [evalNet_node env old h.topo j n' hold]
    have hlt : j < new.length := (List.getElem?_eq_some_iff.mp hn').1
    have hread : ∀ i, some i ∈ n'.ins → S i = false →
        (evalNet env (new.take j)).getD i none = (evalNet env old).getD i none := by
      intro i hi hsi
      have hij : i < j := h.topo j n' hold i hi
      rw [evalNet_take_getD env new j i hij (by omega)]
      exact ih i hij hsi
    by_cases hjlt : j < k
    · apply evalNetNode_congr; apply gather_congr
      intro i hi
      exact hread i hi (h.sbefore i (by have := h.topo j n' hold i hi; omega))
    · rcases h.after j n' (by omega) hold hs with hclean | ⟨ty', w', c', e0, e1, hn, hsc⟩
      · apply evalNetNode_congr; apply gather_congr
        intro i hi
        exact hread i hi (hclean i hi)
      · subst hn
        have rc := hread c' (by simp) hsc
        by_cases htaint : ∃ i, (e0 = some i ∨ e1 = some i) ∧ S i = true
        · obtain ⟨s, hcv, hsel⟩ := he.conds hcp j ty' w' c' e0 e1 (by omega) hold hs htaint
          -- both evaluations select data input `s`, which is untainted
          have hpick : pick s (lookV (evalNet env (new.take j)) e0) (lookV (evalNet env (new.take j)) e1) =
                       pick s (lookV (evalNet env old) e0) (lookV (evalNet env old) e1) := by
            cases s
            · simp only [pick, Bool.false_eq_true, if_false]
              exact lookV_congr _ _ e0 (fun i hi => hread i (by simp [hi]) (hsel i (by simp [pick, hi])))
            · simp only [pick, if_true]
              exact lookV_congr _ _ e1 (fun i hi => hread i (by simp [hi]) (hsel i (by simp [pick, hi])))
          have rc' : lookV (evalNet env (new.take j)) (some c') = some [B4.ofBool s] := by simp only [lookV]; rw [rc, hcv]
          have hcv' : lookV (evalNet env old) (some c') = some [B4.ofBool s] := by simp only [lookV]; exact hcv
          simp only [evalNetNode, evalNode, gather3, rc', hcv', evalMux_ofBool, hpick]
        · apply evalNetNode_congr; apply gather_congr
          intro i hi
          have : S i = false := by
            cases hsi : S i with
            | false => rfl
            | true =>
              simp only [List.mem_cons, List.mem_nil_iff, or_false, Option.some.injEq] at hi
              rcases hi with rfl | hi | hi
              · rw [hsc] at hsi; cases hsi
              · exact absurd ⟨i, Or.inl hi.symm, hsi⟩ htaint
              · exact absurd ⟨i, Or.inr hi.symm, hsi⟩ htaint
          exact hread i hi this

end Gatery.C01
