import GateryModel.C01.Rules2
/-!
# C01 — `removeIrrelevantMuxes`: rewiring past a mux whose other input is masked further on

`m = mux(c; a, b)`. A consumer `K` of `m` is rewired to read `a` directly.  This changes `K` (and everything computed from it, the
*tainted* set `S`) whenever `c` selects `b` — it is sound only if every way out of the tainted set passes through data input 0 of a
later mux whose condition has the value of `c`: that mux then selects its other input exactly when the taint is real.  (A tainted
*selector* input masks nothing: the defect repaired by ef1e091.)

`masked_rewire_defined`: for every environment in which the conditions are defined, every node outside the tainted set — in
particular every output pin — has the same value before and after the rewiring.  Netlists of any size, any shape of the tainted set.
-/
namespace Gatery.C01
open Gatery.Nodes BV4

theorem gather_congr (v v' : Vals) (ins : List (Option Nat)) (h : ∀ i, some i ∈ ins → v.getD i none = v'.getD i none) :
    gather v ins = gather v' ins := by
  unfold gather
  apply List.map_congr_left
  intro o ho
  cases o with
  | none => rfl
  | some i => exact h i ho

theorem evalNetNode_congr (env : Env) (v v' : Vals) (n : NetNode) (h : gather v n.ins = gather v' n.ins) :
    evalNetNode env v n = evalNetNode env v' n := by
  unfold evalNetNode
  cases n.kind <;> simp only [h]

theorem evalNetNode_congr2 (env : Env) (v v' : Vals) (n n' : NetNode) (hk : n'.kind = n.kind) (hw : n'.w = n.w)
    (h : gather v n'.ins = gather v' n.ins) : evalNetNode env v n' = evalNetNode env v' n := by
  unfold evalNetNode
  rw [hk, hw]
  cases n.kind <;> simp only [h]

theorem evalNet_length (env : Env) (net : List NetNode) : (evalNet env net).length = net.length := by
  unfold evalNet; rw [evalNetFrom_length]; simp

theorem getD_none_of_ge (v : Vals) (j : Nat) (h : v.length ≤ j) : v.getD j none = none := by
  simp [List.getD_eq_getElem?_getD, List.getElem?_eq_none h]

/-- every node reads only earlier nodes -/
@[reducible] def Topo (net : List NetNode) : Prop := ∀ (j : Nat) (n : NetNode), net[j]? = some n → ∀ i, some i ∈ n.ins → i < j

/-- the value of every node is its node function applied to the values of the whole evaluation -/
theorem evalNet_node (env : Env) (net : List NetNode) (ht : Topo net) (j : Nat) (n : NetNode) (hj : net[j]? = some n) :
    (evalNet env net).getD j none = evalNetNode env (evalNet env net) n := by
  rw [evalNet_getD env net j n hj]
  have hlt : j < net.length := (List.getElem?_eq_some_iff.mp hj).1
  apply evalNetNode_congr
  apply gather_congr
  intro i hi
  exact evalNet_take_getD env net j i (ht j n hj i hi) (by omega)

/-- **Generic simulation argument.** Two netlists of the same length; `S` marks nodes whose values may differ. If every unmarked
    node of `new`, evaluated on values that agree with `old` on the unmarked nodes before it, yields the value it has in `old`,
    then all unmarked nodes agree. -/
theorem agree_outside (env : Env) (old new : List NetNode) (hlen : new.length = old.length) (S : Nat → Bool)
    (hstep : ∀ j n', new[j]? = some n' → S j = false →
      (∀ i, i < j → S i = false → (evalNet env new).getD i none = (evalNet env old).getD i none) →
      evalNetNode env (evalNet env (new.take j)) n' = (evalNet env old).getD j none) :
    ∀ j, S j = false → (evalNet env new).getD j none = (evalNet env old).getD j none := by
  intro j
  induction j using Nat.strongRecOn with
  | _ j ih =>
    intro hs
    by_cases hj : j < new.length
    · have hn : new[j]? = some new[j] := List.getElem?_eq_getElem hj
      rw [evalNet_getD env new j _ hn]
      exact hstep j _ hn hs (fun i hi hsi => ih i hi hsi)
    · rw [getD_none_of_ge _ _ (by rw [evalNet_length]; omega), getD_none_of_ge _ _ (by rw [evalNet_length]; omega)]

/-- a mux whose one-bit selector is 1 ignores data input 0 -/
theorem evalMux_t_ignores (w : Nat) (A A' D : Option BV4) : evalMux w [some [B4.t], A, D] = evalMux w [some [B4.t], A', D] := by
  rw [evalMux_sel_t, evalMux_sel_t]

structure MaskedRewire (old new : List NetNode) (S : Nat → Bool) (k m c a b w : Nat) (ty : CType) (K : NetNode) (port : Nat) : Prop where
  len : new.length = old.length
  topo : Topo old
  same : ∀ j, j ≠ k → new[j]? = old[j]?
  hK : old[k]? = some K
  hK' : new[k]? = some { K with ins := K.ins.set port (some a) }
  hport : K.ins[port]? = some (some m)
  hm : old[m]? = some ⟨.node .mux ty, w, [some c, some a, some b]⟩
  hmk : m < k
  sk : S k = true
  sbefore : ∀ j, j < k → S j = false
  /-- every untainted node after `K` either reads no tainted node, or is a mux that reads taint only at data input 0 and whose
      selector has the value of `c` in every environment considered -/
  after : ∀ j n, k < j → old[j]? = some n → S j = false →
    (∀ i, some i ∈ n.ins → S i = false) ∨
    (∃ ty' w' c' d0 d1, n = ⟨.node .mux ty', w', [some c', d0, some d1]⟩ ∧ S c' = false ∧ S d1 = false ∧ c' ≠ k)

/-- what the environment has to satisfy: the mux condition is a defined bit, the masking muxes' selectors have its value, and the
    bypassed input has the width of the mux -/
structure MaskEnv (env : Env) (old : List NetNode) (S : Nat → Bool) (k c a w : Nat) : Prop where
  cdef : (evalNet env old).getD c none = some [B4.t] ∨ (evalNet env old).getD c none = some [B4.f]
  awidth : ∃ va, (evalNet env old).getD a none = some va ∧ va.length = w
  conds : ∀ j ty' w' c' d0 d1, k < j → old[j]? = some ⟨.node .mux ty', w', [some c', d0, some d1]⟩ → S j = false →
    (∃ i, d0 = some i ∧ S i = true) → (evalNet env old).getD c' none = (evalNet env old).getD c none

theorem masked_rewire_defined {old new : List NetNode} {S : Nat → Bool} {k m c a b w : Nat} {ty : CType} {K : NetNode} {port : Nat}
    (h : MaskedRewire old new S k m c a b w ty K port) (env : Env) (he : MaskEnv env old S k c a w) :
    ∀ j, S j = false → (evalNet env new).getD j none = (evalNet env old).getD j none := by
  -- the value of the bypassed mux
  have hmv : (evalNet env old).getD m none =
      some (evalMux w [(evalNet env old).getD c none, (evalNet env old).getD a none, (evalNet env old).getD b none]) := by
    rw [evalNet_node env old h.topo m _ h.hm]
    simp [evalNetNode, evalNode, gather]
  obtain ⟨va, hva, hwa⟩ := he.awidth
  rcases he.cdef with hct | hcf
  · -- c = 1: the taint is real; untainted nodes never look at it
    apply agree_outside env old new h.len S
    intro j n' hn' hs ih
    have hjk : j ≠ k := by intro e; rw [e, h.sk] at hs; cases hs
    have hold : old[j]? = some n' := by rw [← h.same j hjk]; exact hn'
    rw [evalNet_node env old h.topo j n' hold]
    have hlt : j < new.length := (List.getElem?_eq_some_iff.mp hn').1
    -- values the node reads in `new`
    have hread : ∀ i, some i ∈ n'.ins → S i = false →
        (evalNet env (new.take j)).getD i none = (evalNet env old).getD i none := by
      intro i hi hsi
      have hij : i < j := h.topo j n' hold i hi
      rw [evalNet_take_getD env new j i hij (by omega)]
      exact ih i hij hsi
    by_cases hjlt : j < k
    · apply evalNetNode_congr; apply gather_congr
      intro i hi
      exact hread i hi (h.sbefore i (by have := h.topo j n' hold i hi; omega))
    · rcases h.after j n' (by omega) hold hs with hclean | ⟨ty', w', c', d0, d1, hn, hsc, hsd, hck⟩
      · apply evalNetNode_congr; apply gather_congr
        intro i hi
        exact hread i hi (hclean i hi)
      · subst hn
        have rc := hread c' (by simp) hsc
        have rd := hread d1 (by simp) hsd
        by_cases htaint : ∃ i, d0 = some i ∧ S i = true
        · have hcv := he.conds j ty' w' c' d0 d1 (by omega) hold hs htaint
          rw [hct] at hcv
          simp only [evalNetNode, evalNode, gather, List.map_cons, List.map_nil, rc, rd, hcv]
          rw [evalMux_t_ignores]
        · -- data input 0 is not tainted after all
          apply evalNetNode_congr; apply gather_congr
          intro i hi
          simp only [List.mem_cons, List.mem_nil_iff, or_false, Option.some.injEq] at hi
          rcases hi with rfl | hi | rfl
          · exact rc
          · have : S i = false := by
              cases hsi : S i with
              | false => rfl
              | true => exact absurd ⟨i, hi.symm, hsi⟩ htaint
            exact hread i (by simp [hi]) this
          · exact rd
  · -- c = 0: the mux is its input `a`; nothing changes at all
    have hma : (evalNet env old).getD m none = (evalNet env old).getD a none := by
      rw [hmv, hcf, hva, evalMux_sel_f, copyIn_of_length hwa]
    intro j _
    apply agree_outside env old new h.len (fun _ => false) ?_ j rfl
    intro j n' hn' _ ih
    have hlt : j < new.length := (List.getElem?_eq_some_iff.mp hn').1
    have hread : ∀ i, i < j → (evalNet env (new.take j)).getD i none = (evalNet env old).getD i none := by
      intro i hij
      rw [evalNet_take_getD env new j i hij (by omega)]
      exact ih i hij rfl
    by_cases hjk : j = k
    · subst hjk
      rw [h.hK'] at hn'
      cases hn'
      rw [evalNet_node env old h.topo j K h.hK]
      refine evalNetNode_congr2 env _ _ K { K with ins := K.ins.set port (some a) } rfl rfl ?_
      -- the rewired port reads `a`, which has the value of `m`
      unfold gather
      simp only
      apply List.ext_getElem?
      intro q
      simp only [List.getElem?_map, List.getElem?_set]
      by_cases hq : port = q
      · subst hq
        have hpl : port < K.ins.length := (List.getElem?_eq_some_iff.mp h.hport).1
        simp only [hpl, if_true, h.hport, Option.map_some]
        have ha_lt : a < j := by
          have := h.topo m _ h.hm a (by simp); have := h.hmk; omega
        rw [hread a ha_lt, ← hma]
      · simp only [hq, if_false]
        cases hx : K.ins[q]? with
        | none => rfl
        | some o =>
          cases o with
          | none => rfl
          | some i =>
            simp only [Option.map_some]
            have : some i ∈ K.ins := List.mem_of_getElem? hx
            exact congrArg some (hread i (h.topo j K h.hK i this)) |> fun e => by simpa using hread i (h.topo j K h.hK i this)
    · have hold : old[j]? = some n' := by rw [← h.same j hjk]; exact hn'
      rw [evalNet_node env old h.topo j n' hold]
      apply evalNetNode_congr; apply gather_congr
      intro i hi
      exact hread i (h.topo j n' hold i hi)

end Gatery.C01
