import GateryModel.C01.Masking
import GateryModel.C03.LemmasArith
/-!
# C01 — `mergeBinaryMuxChain`: a chain of muxes that compare one selector with constants is one big mux

`out₀ = base`, `outᵢ₊₁ = mux(sel == kᵢ ; outᵢ, vᵢ)` is replaced by `mux(sel; t₀ … t_{2^sw − 1})` with `t_j` = the last `vᵢ` whose
constant `kᵢ` has the value `j`, and `base` where no constant matches.  For every chain length, selector width and output width:
with a defined selector both compute the same value.
-/
namespace Gatery.C01
open Gatery.Nodes BV4

/-- the chain as the nodes compute it -/
def chainEval (w : Nat) (sel : BV4) (base : Option BV4) (chain : List (BV4 × Option BV4)) : Option BV4 :=
  chain.foldl (fun acc kv => some (evalMux w [some (evalCompare .EQ [some sel, some kv.1]), acc, kv.2])) base

/-- entry `j` of the table the pass builds: later chain elements override earlier ones -/
def chainTable (base : Option BV4) (chain : List (BV4 × Option BV4)) (j : Nat) : Option BV4 :=
  chain.foldl (fun acc kv => if kv.1.toNat = j then kv.2 else acc) base

theorem chainEval_snoc (w : Nat) (sel : BV4) (base : Option BV4) (chain : List (BV4 × Option BV4)) (kv : BV4 × Option BV4) :
    chainEval w sel base (chain ++ [kv]) =
      some (evalMux w [some (evalCompare .EQ [some sel, some kv.1]), chainEval w sel base chain, kv.2]) := by
  simp [chainEval, List.foldl_append]

theorem chainTable_snoc (base : Option BV4) (chain : List (BV4 × Option BV4)) (kv : BV4 × Option BV4) (j : Nat) :
    chainTable base (chain ++ [kv]) j = if kv.1.toNat = j then kv.2 else chainTable base chain j := by
  simp [chainTable, List.foldl_append]

theorem copyIn_copyIn' (w : Nat) (X : Option BV4) : copyIn w (some (copyIn w X)) = copyIn w X :=
  copyIn_of_length (length_copyIn w X)

theorem chainEval_defined_rev (w : Nat) (sel : BV4) (hs : sel.allDef = true) (base : Option BV4) (l : List (BV4 × Option BV4))
    (hk : ∀ kv ∈ l, kv.1.allDef = true) :
    copyIn w (chainEval w sel base l.reverse) = copyIn w (chainTable base l.reverse sel.toNat) := by
  induction l with
  | nil => rfl
  | cons kv rest ih =>
    have hkv : kv.1.allDef = true := hk kv (by simp)
    have ih' := ih (fun x hx => hk x (by simp [hx]))
    rw [List.reverse_cons, chainEval_snoc, chainTable_snoc, evalCompare_defined _ _ _ hs hkv]
    simp only [cmpNat]
    rw [evalMux_ofBool, copyIn_copyIn']
    by_cases he : sel.toNat = kv.1.toNat
    · simp [pick, he]
    · have : ¬ kv.1.toNat = sel.toNat := fun h => he h.symm
      simp only [pick, beq_iff_eq, he, if_false, this]
      exact ih'

/-- with a defined selector the chain yields the table entry of the selector's value -/
theorem chainEval_defined (w : Nat) (sel : BV4) (hs : sel.allDef = true) (base : Option BV4) (chain : List (BV4 × Option BV4))
    (hk : ∀ kv ∈ chain, kv.1.allDef = true) :
    copyIn w (chainEval w sel base chain) = copyIn w (chainTable base chain sel.toNat) := by
  have := chainEval_defined_rev w sel hs base chain.reverse (fun kv h => hk kv (by simpa using h))
  simpa using this

/-- **mergeBinaryMuxChain.** For a non-empty chain and a defined selector of width `sw`, the big mux over the table computes exactly
    what the last mux of the chain computes. -/
theorem muxChain_sound (w : Nat) (sel : BV4) (hs : sel.allDef = true) (base : Option BV4) (chain : List (BV4 × Option BV4))
    (hne : chain ≠ []) (hk : ∀ kv ∈ chain, kv.1.allDef = true) :
    chainEval w sel base chain =
      some (evalMux w (some sel :: (List.range (2 ^ sel.length)).map (chainTable base chain))) := by
  have hlt := toNat_lt sel
  rw [constSelectMux_sound w sel _ hs (by simpa using hlt)]
  have hget : ((List.range (2 ^ sel.length)).map (chainTable base chain)).getD sel.toNat none = chainTable base chain sel.toNat := by
    simp [List.getD_eq_getElem?_getD, List.getElem?_map, List.getElem?_range hlt]
  rw [hget, ← chainEval_defined w sel hs base chain hk]
  -- a non-empty chain ends in a mux, whose output already has width `w`
  obtain ⟨init, kv, rfl⟩ : ∃ init kv, chain = init ++ [kv] := by
    cases h : chain.reverse with
    | nil => simp at h; exact absurd h hne
    | cons x xs => exact ⟨xs.reverse, x, by have := congrArg List.reverse h; simpa using this⟩
  rw [chainEval_snoc, copyIn_of_length (length_evalMux w _)]

end Gatery.C01
