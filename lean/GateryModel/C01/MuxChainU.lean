import GateryModel.C01.MuxChain
/-!
# C01 — `mergeBinaryMuxChain` under a selector that is not fully defined

With any undefined selector bit every comparison `sel == kᵢ` of the chain is undefined (`Node_Compare` is all-or-nothing), so each mux
of the chain merges its two data inputs: a bit of the chain's output is defined only if `base` and **all** `vᵢ` define it and agree.
The big mux merges the entries of the table, which are a selection of `base` and the `vᵢ` (`chainTable_mem`); hence the big mux
**refines** the chain: no defined bit changes, and bits may become defined (a shadowed `vᵢ` or an unused `base` no longer spoils them).
Together with `muxChain_sound` (defined selector: equality) this is the whole rule, for every chain length and all widths.
-/
namespace Gatery.C01
open Gatery.Nodes BV4

/-- the chain when every comparison is undefined -/
def chainU (w : Nat) (base : Option BV4) (chain : List (BV4 × Option BV4)) : Option BV4 :=
  chain.foldl (fun acc kv => some (tab w (mergeBit [acc, kv.2]))) base

theorem ne_nil_of_not_allDef {sel : BV4} (hs : sel.allDef = false) : sel.length ≠ 0 := by
  intro h
  have : sel = [] := List.eq_nil_of_length_eq_zero h
  subst this
  simp [allDef] at hs

theorem evalCompare_undef_left (k : BV4) {sel : BV4} (hs : sel.allDef = false) : evalCompare .EQ [some sel, some k] = [.x] := by
  unfold evalCompare
  have := ne_nil_of_not_allDef hs
  simp [hs, this]

theorem evalMux_x (w : Nat) (a b : Option BV4) : evalMux w [some [.x], a, b] = tab w (mergeBit [a, b]) := by
  simp [evalMux, allDef, B4.isDef, maxNat]

theorem chainEval_undef (w : Nat) {sel : BV4} (hs : sel.allDef = false) (base : Option BV4) (chain : List (BV4 × Option BV4)) :
    chainEval w sel base chain = chainU w base chain := by
  unfold chainEval chainU
  congr 1
  funext acc kv
  rw [evalCompare_undef_left kv.1 hs, evalMux_x]

theorem chainU_snoc (w : Nat) (base : Option BV4) (chain : List (BV4 × Option BV4)) (kv : BV4 × Option BV4) :
    chainU w base (chain ++ [kv]) = some (tab w (mergeBit [chainU w base chain, kv.2])) := by
  simp [chainU, List.foldl_append]

theorem mergeBit_pair_def {a b : Option BV4} {j : Nat} (h : (mergeBit [a, b] j).isDef = true) :
    optBit a j = mergeBit [a, b] j ∧ optBit b j = mergeBit [a, b] j := by
  simp only [mergeBit, List.all_cons, List.all_nil, Bool.and_true] at h ⊢
  generalize optBit a j = p at h ⊢
  generalize optBit b j = q at h ⊢
  cases p <;> cases q <;> simp_all [B4.isDef, B4.val]

/-- a defined bit of the undefined-selector chain is the bit of `base` and of every chain value -/
theorem chainU_bit_rev (w : Nat) (base : Option BV4) (l : List (BV4 × Option BV4)) (j : Nat)
    (hd : (optBit (chainU w base l.reverse) j).isDef = true) :
    optBit base j = optBit (chainU w base l.reverse) j ∧ ∀ kv ∈ l, optBit kv.2 j = optBit (chainU w base l.reverse) j := by
  induction l with
  | nil => exact ⟨rfl, by simp⟩
  | cons kv rest ih =>
    rw [List.reverse_cons, chainU_snoc] at hd ⊢
    simp only [optBit, bit_tab] at hd ⊢
    by_cases hj : j < w
    · simp only [hj, if_true] at hd ⊢
      obtain ⟨h1, h2⟩ := mergeBit_pair_def hd
      have hd' : (optBit (chainU w base rest.reverse) j).isDef = true := by rw [h1]; exact hd
      obtain ⟨i1, i2⟩ := ih hd'
      refine ⟨i1.trans h1, ?_⟩
      intro x hx
      rcases List.mem_cons.mp hx with rfl | hx
      · exact h2
      · exact (i2 x hx).trans h1
    · simp [hj, B4.isDef] at hd

theorem chainTable_mem (base : Option BV4) (chain : List (BV4 × Option BV4)) (j : Nat) :
    chainTable base chain j = base ∨ ∃ kv ∈ chain, chainTable base chain j = kv.2 := by
  have : ∀ l : List (BV4 × Option BV4), chainTable base l.reverse j = base ∨ ∃ kv ∈ l, chainTable base l.reverse j = kv.2 := by
    intro l
    induction l with
    | nil => exact Or.inl rfl
    | cons kv rest ih =>
      rw [List.reverse_cons, chainTable_snoc]
      by_cases h : kv.1.toNat = j
      · simp only [h, if_true]; exact Or.inr ⟨kv, by simp, rfl⟩
      · simp only [h, if_false]
        rcases ih with h1 | ⟨x, hx, h2⟩
        · exact Or.inl h1
        · exact Or.inr ⟨x, by simp [hx], h2⟩
  have h := this chain.reverse
  simp only [List.reverse_reverse, List.mem_reverse] at h
  exact h

/-- the merge of a non-empty list all of whose entries have the same defined bit is that bit -/
theorem mergeBit_const {data : Ins} {j : Nat} {c : B4} (hne : data ≠ []) (hc : c.isDef = true) (h : ∀ o ∈ data, optBit o j = c) :
    mergeBit data j = c := by
  cases data with
  | nil => exact absurd rfl hne
  | cons d0 rest =>
    simp only [mergeBit]
    have h0 := h d0 (by simp)
    have : rest.all (fun o => (optBit o j).isDef && (optBit o j).val == (optBit d0 j).val) = true := by
      rw [List.all_eq_true]
      intro o ho
      rw [h o (by simp [ho]), h0]
      simp [hc]
    rw [this, h0]; simp [hc]

theorem maxNat_lt (v : BV4) : v.maxNat < 2 ^ v.length := by
  induction v with
  | nil => simp [maxNat]
  | cons b bs ih =>
    simp only [maxNat, List.length_cons, Nat.pow_succ]
    split <;> omega

/-- **mergeBinaryMuxChain, selector not fully defined.** The big mux over the table refines the chain's output: equal length, every
    bit the chain defines keeps its value. For every non-empty chain of any length, all widths, all data values. -/
theorem muxChain_undef (w : Nat) (sel : BV4) (hs : sel.allDef = false) (base : Option BV4) (chain : List (BV4 × Option BV4))
    (hne : chain ≠ []) :
    ∃ v, chainEval w sel base chain = some v ∧
      v ⊑ evalMux w (some sel :: (List.range (2 ^ sel.length)).map (chainTable base chain)) := by
  rw [chainEval_undef w hs]
  obtain ⟨init, kv, rfl⟩ : ∃ init kv, chain = init ++ [kv] := by
    cases h : chain.reverse with
    | nil => simp at h; exact absurd h hne
    | cons x xs => exact ⟨xs.reverse, x, by have := congrArg List.reverse h; simpa using this⟩
  refine ⟨tab w (mergeBit [chainU w base init, kv.2]), chainU_snoc w base init kv, ?_⟩
  have hlen : ((List.range (2 ^ sel.length)).map (chainTable base (init ++ [kv]))).length = 2 ^ sel.length := by simp
  have hmux : evalMux w (some sel :: (List.range (2 ^ sel.length)).map (chainTable base (init ++ [kv]))) =
      tab w (mergeBit ((List.range (2 ^ sel.length)).map (chainTable base (init ++ [kv])))) := by
    have hlt := maxNat_lt sel
    simp only [evalMux, hs, Bool.not_false, if_true, hlen]
    have : ¬ sel.maxNat ≥ 2 ^ sel.length := by omega
    simp [this]
  rw [hmux]
  apply tab_le
  intro j hj
  by_cases hd : (mergeBit [chainU w base init, kv.2] j).isDef = true
  · -- the chain defines bit j: base and all values carry that bit, hence every table entry does
    right
    have hrev := chainU_bit_rev w base (init ++ [kv]).reverse j
    rw [List.reverse_reverse, chainU_snoc] at hrev
    have hbit : optBit (some (tab w (mergeBit [chainU w base init, kv.2]))) j = mergeBit [chainU w base init, kv.2] j := by
      simp [optBit, bit_tab, hj]
    rw [hbit] at hrev
    obtain ⟨hb, hv⟩ := hrev hd
    symm
    apply mergeBit_const
    · intro h
      have h1 := congrArg List.length h
      rw [hlen] at h1
      have h2 : 0 < 2 ^ sel.length := Nat.two_pow_pos _
      simp only [List.length_nil] at h1
      omega
    · exact hd
    · intro o ho
      rw [List.mem_map] at ho
      obtain ⟨i, _, rfl⟩ := ho
      rcases chainTable_mem base (init ++ [kv]) i with h | ⟨x, hx, h⟩
      · rw [h]; exact hb
      · rw [h]; exact hv x (by simp only [List.mem_reverse]; exact hx)
  · left
    cases hm : mergeBit [chainU w base init, kv.2] j <;> simp_all [B4.isDef]

end Gatery.C01
