import GateryModel.Nodes.Nodes
/-!
# C01 — `Node_Rewire::optimize` as a function (model; core Lean only, the driver links against it)

`Node_Rewire::optimize()` (`coreNodes/Node_Rewire.cpp:407-502`), statement by statement:
1. ranges of width zero are erased;
2. every range reading an input whose non-signal driver is a fully defined all-zero / all-one `Node_Constant` becomes a
   `CONST_ZERO` / `CONST_ONE` range (all-zero wins for the zero-width constant);
3. one left-to-right sweep merges neighbours that are both `CONST_ZERO`, both `CONST_ONE`, or read consecutive bits of the same
   input — the loop index advances past the merged range, so the merged range is **not** compared with its new right neighbour;
4. the inputs are renumbered in the order the ranges first use their *driver*; ranges whose inputs have the same driver share the
   new input, unused inputs disappear.

`drv[i]` identifies the driver of input `i` (`none`: unconnected), `cks[i]` is what step 2 finds out about it.
-/
namespace Gatery.C01
open Gatery.Nodes

/-- what step 2 sees behind an input -/
inductive CK | zero | one | other
  deriving DecidableEq, Repr, Inhabited

def dropEmpty (rs : List Range) : List Range := rs.filter fun r => r.subwidth != 0

def constify (cks : List CK) (r : Range) : Range :=
  match r.src with
  | .input idx _ =>
    match cks.getD idx .other with
    | .zero => ⟨r.subwidth, .zero⟩
    | .one => ⟨r.subwidth, .one⟩
    | .other => r
  | _ => r

def mergeable (a b : Range) : Bool :=
  match a.src, b.src with
  | .zero, .zero => true
  | .one, .one => true
  | .input i o, .input i' o' => i == i' && o' == o + a.subwidth
  | _, _ => false

def mergePass : List Range → List Range
  | a :: b :: rest =>
    if mergeable a b then ⟨a.subwidth + b.subwidth, a.src⟩ :: mergePass rest
    else a :: mergePass (b :: rest)
  | l => l

/-- step 4; `seen` = the new input list built so far -/
def remapGo (drv : List (Option Nat)) : List Range → List (Option Nat) → List Range × List (Option Nat)
  | [], seen => ([], seen)
  | r :: rs, seen =>
    match r.src with
    | .input idx off =>
      let d := drv.getD idx none
      let k := seen.idxOf d
      let seen' := if k < seen.length then seen else seen ++ [d]
      let (rs', fin) := remapGo drv rs seen'
      (⟨r.subwidth, .input k off⟩ :: rs', fin)
    | _ =>
      let (rs', fin) := remapGo drv rs seen
      (r :: rs', fin)

/-- the new rewire operation and the drivers of the new inputs -/
def rewireOptimize (cks : List CK) (drv : List (Option Nat)) (rs : List Range) : List Range × List (Option Nat) :=
  remapGo drv (mergePass ((dropEmpty rs).map (constify cks))) []

/-! ## `Node_Rewire::isNoOp()` (`Node_Rewire.cpp:278-298`), the test behind `removeNoOps` for rewire nodes -/

/-- the loop: every range reads input 0 at the running offset; result = final offset -/
def noOpGo : List Range → Nat → Option Nat
  | [], off => some off
  | r :: rs, off =>
    match r.src with
    | .input idx o => if idx == 0 && o == off then noOpGo rs (off + r.subwidth) else none
    | _ => none

/-- `nin` = number of input ports, `w0` = width of the driver of input 0 (`none`: unconnected), `sameKind` = output and driver are both
    BOOL or both BITVEC with the same interpretation (the width part of the `ConnectionType` comparison is `sum = w0`) -/
def rewireIsNoOp (nin : Nat) (w0 : Option Nat) (sameKind : Bool) (rs : List Range) : Bool :=
  nin != 0 && (match w0 with
    | none => false
    | some w => sameKind && (rs.map (·.subwidth)).sum == w && noOpGo rs 0 == some w)

/-! ## `Circuit::removeConstSelectMuxes` (`Circuit.cpp:1137-1162`): which data input a mux with a constant selector is bypassed to -/

/-- `sel` = value of the constant driving the selector, `ndata` = number of data inputs; `none`: the mux stays. A zero-width
    constant "defaults to zero" (bypass to data input 0); otherwise all bits must be defined and the value must address an input. -/
def constSelectBypass (sel : BV4) (ndata : Nat) : Option Nat :=
  if sel.length = 0 then some 0
  else if sel.allDef && decide (sel.toNat < ndata) then some sel.toNat else none

end Gatery.C01
