import GateryModel.C01.RewireOpt
import GateryModel.C01.RewireRules
/-!
# C01 — `Node_Rewire::optimize` computes the same value (refinement proof of the modelled function)

For every list of ranges, every wiring of the inputs to drivers and every four-state value of the drivers: the optimised operation
on the renumbered inputs evaluates to exactly the value of the original operation, provided what step 2 believes about constant
drivers is true at the bits the ranges read (`ConstOK`; `constOK_of_const` shows a fully defined all-zero / all-one constant that is
at least as wide as the ranges reading it satisfies it).
-/
namespace Gatery.C01
open Gatery.Nodes BV4

/-- what step 2 relies on: a range reading an input classified all-zero (all-one) reads only 0 (1) bits -/
def ConstOK (cks : List CK) (ins : Ins) (rs : List Range) : Prop :=
  ∀ r ∈ rs, ∀ idx off, r.src = .input idx off →
    (cks.getD idx .other = .zero → ∀ i, i < r.subwidth → inBit ins idx (off + i) = .f) ∧
    (cks.getD idx .other = .one → ∀ i, i < r.subwidth → inBit ins idx (off + i) = .t)

theorem evalRange_empty (ins : Ins) (r : Range) (h : r.subwidth = 0) : evalRange ins r = [] := by
  unfold evalRange
  cases r.src <;> simp [h, tab]

theorem evalRewire_cons (r : Range) (rs : List Range) (ins : Ins) : evalRewire (r :: rs) ins = evalRange ins r ++ evalRewire rs ins := by
  simp [evalRewire]

theorem dropEmpty_sound (rs : List Range) (ins : Ins) : evalRewire (dropEmpty rs) ins = evalRewire rs ins := by
  induction rs with
  | nil => rfl
  | cons r rs ih =>
    unfold dropEmpty at ih ⊢
    rw [List.filter_cons]
    by_cases h : r.subwidth = 0
    · simp only [h, bne_self_eq_false, Bool.false_eq_true, if_false]
      rw [ih, evalRewire_cons, evalRange_empty ins r h, List.nil_append]
    · have : (r.subwidth != 0) = true := by simp [h]
      simp only [this, if_true]
      rw [evalRewire_cons, evalRewire_cons, ih]

theorem tab_const (w : Nat) (f : Nat → B4) (c : B4) (h : ∀ i, i < w → f i = c) : tab w f = List.replicate w c := by
  apply ext_bit (by simp)
  intro i hi
  simp only [length_tab] at hi
  rw [bit_tab, bit_replicate]
  simp [hi, h i hi]

theorem constify_sound (cks : List CK) (ins : Ins) (r : Range)
    (h : ∀ idx off, r.src = .input idx off →
      (cks.getD idx .other = .zero → ∀ i, i < r.subwidth → inBit ins idx (off + i) = .f) ∧
      (cks.getD idx .other = .one → ∀ i, i < r.subwidth → inBit ins idx (off + i) = .t)) :
    evalRange ins (constify cks r) = evalRange ins r := by
  unfold constify
  cases hs : r.src with
  | input idx off =>
    obtain ⟨hz, ho⟩ := h idx off hs
    simp only
    cases hk : cks.getD idx .other with
    | zero =>
      simp only [evalRange, hs]
      exact (tab_const _ _ _ (hz hk)).symm
    | one =>
      simp only [evalRange, hs]
      exact (tab_const _ _ _ (ho hk)).symm
    | other => rfl
  | zero => simp
  | one => simp
  | undef => simp

theorem constify_map_sound (cks : List CK) (ins : Ins) (rs : List Range) (h : ConstOK cks ins rs) :
    evalRewire (rs.map (constify cks)) ins = evalRewire rs ins := by
  unfold evalRewire
  rw [List.flatMap_map]
  apply flatMap_congr'
  intro r hr
  exact constify_sound cks ins r (h r hr)

theorem merge_two (ins : Ins) (a b : Range) (h : mergeable a b = true) :
    evalRange ins ⟨a.subwidth + b.subwidth, a.src⟩ = evalRange ins a ++ evalRange ins b := by
  unfold mergeable at h
  cases ha : a.src with
  | zero =>
    cases hb : b.src <;> simp [ha, hb] at h
    simp [evalRange, ha, hb, List.replicate_append_replicate]
  | one =>
    cases hb : b.src <;> simp [ha, hb] at h
    simp [evalRange, ha, hb, List.replicate_append_replicate]
  | undef => simp [ha] at h
  | input i o =>
    cases hb : b.src with
    | input i' o' =>
      simp only [ha, hb, Bool.and_eq_true, beq_iff_eq] at h
      obtain ⟨rfl, rfl⟩ := h
      have := rewire_merge_adjacent [] [] i o a.subwidth b.subwidth ins
      simp only [evalRewire, List.nil_append, List.flatMap_cons, List.flatMap_nil, List.append_nil] at this
      simp only [evalRange, ha, hb]
      simp only [evalRange] at this
      exact this.symm
    | zero => simp [ha, hb] at h
    | one => simp [ha, hb] at h
    | undef => simp [ha, hb] at h

theorem mergePass_sound (ins : Ins) (rs : List Range) : evalRewire (mergePass rs) ins = evalRewire rs ins := by
  induction rs using mergePass.induct with
  | case1 a b rest hm ih =>
    rw [mergePass]
    simp only [hm, if_true]
    rw [evalRewire_cons, evalRewire_cons, evalRewire_cons, ih, merge_two ins a b hm, List.append_assoc]
  | case2 a b rest hm ih =>
    rw [mergePass]
    simp only [hm, Bool.false_eq_true, if_false]
    rw [evalRewire_cons, evalRewire_cons, ih]
  | case3 l hl =>
    rw [mergePass]
    intro a b rest h
    exact hl a b rest h

/-! ### step 4 -/

theorem getD_idxOf_step (seen : List (Option Nat)) (d : Option Nat) :
    let k := seen.idxOf d
    let seen' := if k < seen.length then seen else seen ++ [d]
    k < seen'.length ∧ seen'.getD k none = d := by
  intro k seen'
  by_cases hk : k < seen.length
  · have : seen' = seen := by simp [seen', hk]
    rw [this]
    refine ⟨hk, ?_⟩
    have hmem : d ∈ seen := List.idxOf_lt_length_iff.mp hk
    simp only [List.getD_eq_getElem?_getD, List.getElem?_eq_getElem hk, Option.getD_some]
    exact List.getElem_idxOf hk
  · have : seen' = seen ++ [d] := by simp [seen', hk]
    rw [this]
    have hle : seen.length ≤ k := Nat.le_of_not_lt hk
    have hke : k = seen.length := Nat.le_antisymm (List.idxOf_le_length) hle
    refine ⟨by simp [hke], ?_⟩
    simp [List.getD_eq_getElem?_getD, hke]

theorem inBit_map_val (val : Option Nat → Option BV4) (hval : val none = none) (l : List (Option Nat)) (k j : Nat) :
    inBit (l.map val) k j = optBit (val (l.getD k none)) j := by
  unfold inBit optBit
  by_cases hk : k < l.length
  · simp [List.getD_eq_getElem?_getD, hk]
  · have : l.length ≤ k := Nat.le_of_not_lt hk
    simp [List.getD_eq_getElem?_getD, List.getElem?_eq_none this, hval]

theorem getD_append_left (a t : List (Option Nat)) (k : Nat) (hk : k < a.length) : (a ++ t).getD k none = a.getD k none := by
  simp [List.getD_eq_getElem?_getD, List.getElem?_append_left hk]

theorem remapGo_sound (val : Option Nat → Option BV4) (hval : val none = none) (drv : List (Option Nat)) (rs : List Range)
    (seen : List (Option Nat)) :
    (∃ t, (remapGo drv rs seen).2 = seen ++ t) ∧
    ∀ t', evalRewire (remapGo drv rs seen).1 (((remapGo drv rs seen).2 ++ t').map val) = evalRewire rs (drv.map val) := by
  induction rs generalizing seen with
  | nil => exact ⟨⟨[], by simp [remapGo]⟩, fun _ => rfl⟩
  | cons r rs ih =>
    cases hs : r.src with
    | input idx off =>
      have hstep := getD_idxOf_step seen (drv.getD idx none)
      simp only at hstep
      generalize hseen' : (if seen.idxOf (drv.getD idx none) < seen.length then seen else seen ++ [drv.getD idx none]) = seen' at hstep
      obtain ⟨⟨t, ht⟩, ihv⟩ := ih seen'
      have hext : ∃ u, seen' = seen ++ u := by
        rw [← hseen']; split
        · exact ⟨[], by simp⟩
        · exact ⟨_, rfl⟩
      obtain ⟨u, hu⟩ := hext
      have hfst : (remapGo drv (r :: rs) seen).1 = ⟨r.subwidth, .input (seen.idxOf (drv.getD idx none)) off⟩ :: (remapGo drv rs seen').1 := by
        rw [remapGo]; simp only [hs]; rw [hseen']
      have hsnd : (remapGo drv (r :: rs) seen).2 = (remapGo drv rs seen').2 := by
        rw [remapGo]; simp only [hs]; rw [hseen']
      refine ⟨⟨u ++ t, by rw [hsnd, ht, hu, List.append_assoc]⟩, ?_⟩
      intro t'
      rw [hfst, hsnd, evalRewire_cons, evalRewire_cons, ihv t']
      congr 1
      -- the head range reads the same bits through the new index
      have hr : evalRange (drv.map val) r = tab r.subwidth fun i => inBit (drv.map val) idx (off + i) := by
        simp [evalRange, hs]
      rw [hr]
      simp only [evalRange]
      congr 1
      funext i
      rw [inBit_map_val val hval, inBit_map_val val hval, ht, List.append_assoc, getD_append_left _ _ _ hstep.1, hstep.2]
    | zero =>
      obtain ⟨⟨t, ht⟩, ihv⟩ := ih seen
      have hfst : (remapGo drv (r :: rs) seen).1 = r :: (remapGo drv rs seen).1 := by rw [remapGo]; simp only [hs]
      have hsnd : (remapGo drv (r :: rs) seen).2 = (remapGo drv rs seen).2 := by rw [remapGo]; simp only [hs]
      refine ⟨⟨t, by rw [hsnd, ht]⟩, fun t' => ?_⟩
      rw [hfst, hsnd, evalRewire_cons, evalRewire_cons, ihv t']
      simp [evalRange, hs]
    | one =>
      obtain ⟨⟨t, ht⟩, ihv⟩ := ih seen
      have hfst : (remapGo drv (r :: rs) seen).1 = r :: (remapGo drv rs seen).1 := by rw [remapGo]; simp only [hs]
      have hsnd : (remapGo drv (r :: rs) seen).2 = (remapGo drv rs seen).2 := by rw [remapGo]; simp only [hs]
      refine ⟨⟨t, by rw [hsnd, ht]⟩, fun t' => ?_⟩
      rw [hfst, hsnd, evalRewire_cons, evalRewire_cons, ihv t']
      simp [evalRange, hs]
    | undef =>
      obtain ⟨⟨t, ht⟩, ihv⟩ := ih seen
      have hfst : (remapGo drv (r :: rs) seen).1 = r :: (remapGo drv rs seen).1 := by rw [remapGo]; simp only [hs]
      have hsnd : (remapGo drv (r :: rs) seen).2 = (remapGo drv rs seen).2 := by rw [remapGo]; simp only [hs]
      refine ⟨⟨t, by rw [hsnd, ht]⟩, fun t' => ?_⟩
      rw [hfst, hsnd, evalRewire_cons, evalRewire_cons, ihv t']
      simp [evalRange, hs]

theorem constOK_dropEmpty {cks : List CK} {ins : Ins} {rs : List Range} (h : ConstOK cks ins rs) : ConstOK cks ins (dropEmpty rs) :=
  fun r hr => h r (List.mem_filter.mp hr).1

/-- **`Node_Rewire::optimize` preserves the value**, for every operation, wiring and four-state driver values. -/
theorem rewireOptimize_sound (cks : List CK) (drv : List (Option Nat)) (rs : List Range) (val : Option Nat → Option BV4)
    (hval : val none = none) (hc : ConstOK cks (drv.map val) rs) :
    evalRewire (rewireOptimize cks drv rs).1 ((rewireOptimize cks drv rs).2.map val) = evalRewire rs (drv.map val) := by
  unfold rewireOptimize
  have h := (remapGo_sound val hval drv (mergePass ((dropEmpty rs).map (constify cks))) []).2 []
  rw [List.append_nil] at h
  rw [h, mergePass_sound, constify_map_sound cks _ _ (constOK_dropEmpty hc), dropEmpty_sound]

/-- a fully defined all-zero / all-one constant at least as wide as every range that reads it satisfies what step 2 relies on -/
theorem constOK_of_const (cks : List CK) (ins : Ins) (rs : List Range)
    (h : ∀ r ∈ rs, ∀ idx off, r.src = .input idx off →
      (cks.getD idx .other = .zero → ∃ w, ins.getD idx none = some (List.replicate w .f) ∧ off + r.subwidth ≤ w) ∧
      (cks.getD idx .other = .one → ∃ w, ins.getD idx none = some (List.replicate w .t) ∧ off + r.subwidth ≤ w)) :
    ConstOK cks ins rs := by
  intro r hr idx off hs
  obtain ⟨hz, ho⟩ := h r hr idx off hs
  constructor
  · intro hk i hi
    obtain ⟨w, hv, hw⟩ := hz hk
    simp only [inBit, hv, bit_replicate]
    have : off + i < w := by omega
    simp [this]
  · intro hk i hi
    obtain ⟨w, hv, hw⟩ := ho hk
    simp only [inBit, hv, bit_replicate]
    have : off + i < w := by omega
    simp [this]

/-! ### isNoOp -/

theorem noOpGo_tiles (rs : List Range) (off fin : Nat) (h : noOpGo rs off = some fin) :
    tiles rs off = true ∧ fin = off + (rs.map (·.subwidth)).sum := by
  induction rs generalizing off with
  | nil => simp [noOpGo] at h; simp [tiles, h]
  | cons r rs ih =>
    unfold noOpGo at h
    cases hs : r.src with
    | input idx o =>
      simp only [hs] at h
      by_cases hc : (idx == 0 && o == off) = true
      · simp only [hc, if_true] at h
        simp only [Bool.and_eq_true, beq_iff_eq] at hc
        obtain ⟨h1, h2⟩ := ih _ h
        obtain ⟨rfl, rfl⟩ := hc
        refine ⟨by simp [tiles, hs, h1], ?_⟩
        simp only [List.map_cons, List.sum_cons]; omega
      · simp [hc] at h
    | zero => simp [hs] at h
    | one => simp [hs] at h
    | undef => simp [hs] at h

theorem evalRewire_tiles_rest (rs : List Range) (v : BV4) (rest : Ins) (off : Nat) (ht : tiles rs off = true) :
    evalRewire rs (some v :: rest) = evalRewire rs [some v] := by
  induction rs generalizing off with
  | nil => rfl
  | cons r rs ih =>
    simp only [tiles, Bool.and_eq_true, beq_iff_eq] at ht
    rw [evalRewire_cons, evalRewire_cons, ih _ ht.2]
    congr 1
    simp [evalRange, ht.1, inBit]

/-- **`removeNoOps` for rewire nodes**: when `isNoOp()` answers true, the node's value is the value at its input 0 (of the driver's
    width `w`), so bypassing it changes nothing — for every operation, all four-state values, any further inputs. -/
theorem rewireIsNoOp_sound (nin w : Nat) (sameKind : Bool) (rs : List Range) (v : BV4) (rest : Ins) (hv : v.length = w)
    (h : rewireIsNoOp nin (some w) sameKind rs = true) : evalRewire rs (some v :: rest) = v := by
  simp only [rewireIsNoOp, Bool.and_eq_true, beq_iff_eq] at h
  obtain ⟨_, ⟨_, hsum⟩, hgo⟩ := h
  obtain ⟨ht, _⟩ := noOpGo_tiles rs 0 w hgo
  rw [evalRewire_tiles_rest rs v rest 0 ht]
  exact noopRewire_sound rs v ht (by rw [hsum, hv])

/-! ### removeConstSelectMuxes -/

/-- **`removeConstSelectMuxes`, the decision**: whenever the pass bypasses the mux to data input `k`, the mux computes exactly the
    (width-adjusted) value at that input — for every selector constant, any number of data inputs (at least one), all values. -/
theorem constSelectBypass_sound (w : Nat) (sel : BV4) (data : Ins) (k : Nat) (hne : data ≠ [])
    (h : constSelectBypass sel data.length = some k) : evalMux w (some sel :: data) = copyIn w (data.getD k none) := by
  unfold constSelectBypass at h
  by_cases h0 : sel.length = 0
  · simp only [h0, if_true, Option.some.injEq] at h
    subst h
    have : sel = [] := List.eq_nil_of_length_eq_zero h0
    subst this
    have hpos : 0 < data.length := List.length_pos_iff.mpr hne
    exact constSelectMux_sound w [] data rfl (by simpa [BV4.toNat] using hpos)
  · simp only [h0, if_false] at h
    split at h
    · rename_i hc
      simp only [Bool.and_eq_true, decide_eq_true_eq] at hc
      simp only [Option.some.injEq] at h
      subst h
      exact constSelectMux_sound w sel data hc.1 hc.2
    · cases h

end Gatery.C01
