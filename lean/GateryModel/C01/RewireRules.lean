import GateryModel.C01.Rules2
/-!
# C01 — `mergeRewires` and `Node_Rewire::optimize` (zero-width ranges, adjacent ranges)

`mergeRewires`: an input of a rewire node that is driven by a single-range rewire (a slice `[pOff, pOff+pw)` of `X`) is connected to
`X` directly and the offsets of the ranges reading that input are shifted by `pOff`.  Exact for all four-state values whenever the
ranges stay inside the slice.  `optimize`: ranges of width 0 are dropped, adjacent ranges reading consecutive bits of one input are merged.
-/
namespace Gatery.C01
open Gatery.Nodes BV4

/-- the offset shift `mergeRewires` applies to the ranges reading input `k` -/
def shiftRange (k pOff : Nat) (r : Range) : Range :=
  match r.src with
  | .input idx off => if idx = k then { r with src := .input idx (off + pOff) } else r
  | _ => r

theorem inBit_set_same (ins : Ins) (k : Nat) (X : Option BV4) (i : Nat) (hk : k < ins.length) :
    inBit (ins.set k X) k i = optBit X i := by
  simp [inBit, optBit, List.getD_eq_getElem?_getD, hk]

theorem inBit_set_other (ins : Ins) (k idx : Nat) (X : Option BV4) (i : Nat) (h : idx ≠ k) :
    inBit (ins.set k X) idx i = inBit ins idx i := by
  simp [inBit, List.getD_eq_getElem?_getD, Ne.symm h]

theorem flatMap_congr' {α β : Type} (l : List α) (f g : α → List β) (h : ∀ x ∈ l, f x = g x) : l.flatMap f = l.flatMap g := by
  induction l with
  | nil => rfl
  | cons x xs ih => simp only [List.flatMap_cons, h x (by simp), ih (fun y hy => h y (by simp [hy]))]

/-- **mergeRewires.** -/
theorem mergeRewires_sound (ranges : List Range) (ins : Ins) (k pw pOff : Nat) (X : Option BV4)
    (hk : ins[k]? = some (some (tab pw fun i => optBit X (pOff + i))))
    (hwf : ∀ r ∈ ranges, ∀ off, r.src = .input k off → off + r.subwidth ≤ pw) :
    evalRewire (ranges.map (shiftRange k pOff)) (ins.set k X) = evalRewire ranges ins := by
  have hkl : k < ins.length := (List.getElem?_eq_some_iff.mp hk).1
  unfold evalRewire
  rw [List.flatMap_map]
  apply flatMap_congr'
  intro r hr
  unfold shiftRange evalRange
  cases hsrc : r.src with
  | input idx off =>
    by_cases hidx : idx = k
    · subst hidx
      simp only [if_true]
      have hin := hwf r hr off hsrc
      apply ext_bit (by simp)
      intro i hi
      simp only [length_tab] at hi
      rw [bit_tab, bit_tab]
      simp only [hi, if_true]
      rw [inBit_set_same _ _ _ _ hkl]
      have : inBit ins idx (off + i) = (tab pw fun i => optBit X (pOff + i)).bit (off + i) := by
        simp [inBit, List.getD_eq_getElem?_getD, hk]
      rw [this, bit_tab]
      have : off + i < pw := by omega
      simp only [this, if_true]
      congr 1; omega
    · simp only [hidx, if_false, hsrc]
      apply ext_bit (by simp)
      intro i hi
      simp only [length_tab] at hi
      rw [bit_tab, bit_tab]
      simp only [hi, if_true]
      exact inBit_set_other _ _ _ _ _ hidx
  | zero => simp [hsrc]
  | one => simp [hsrc]
  | undef => simp [hsrc]

/-- `optimize`: a range of width zero contributes nothing -/
theorem rewire_drop_empty (pre post : List Range) (r : Range) (ins : Ins) (h : r.subwidth = 0) :
    evalRewire (pre ++ r :: post) ins = evalRewire (pre ++ post) ins := by
  unfold evalRewire
  have : evalRange ins r = [] := by
    unfold evalRange
    cases r.src <;> simp [h, tab]
  simp [List.flatMap_append, List.flatMap_cons, this]

/-- `optimize`: two adjacent ranges reading consecutive bits of the same input are one range -/
theorem rewire_merge_adjacent (pre post : List Range) (idx off a b : Nat) (ins : Ins) :
    evalRewire (pre ++ ⟨a, .input idx off⟩ :: ⟨b, .input idx (off + a)⟩ :: post) ins =
    evalRewire (pre ++ ⟨a + b, .input idx off⟩ :: post) ins := by
  unfold evalRewire
  simp only [List.flatMap_append, List.flatMap_cons]
  congr 1
  rw [← List.append_assoc]
  congr 1
  unfold evalRange
  simp only
  apply ext_bit (by simp)
  intro i hi
  simp only [List.length_append, length_tab] at hi
  rw [bit_tab]
  simp only [hi, if_true]
  unfold BV4.bit
  rw [List.getD_eq_getElem?_getD]
  by_cases hia : i < a
  · rw [List.getElem?_append_left (by simpa using hia)]
    simp [tab, hia]
  · rw [List.getElem?_append_right (by simpa using Nat.le_of_not_lt hia)]
    have hib : i - a < b := by omega
    simp only [length_tab]
    have e : off + a + (i - a) = off + i := by omega
    simp [tab, hib, e]

end Gatery.C01
