import GateryModel.C01.Congr
/-!
# C01, layer A — soundness of individual optimisation rules (node semantics level)

Each lemma relates the value of a node before a rewrite with its value after, for all four-state input values:
`RuleSound old new` = the two values never contradict each other and are identical when `old` is fully defined.
The rules are those of `hlim/Circuit.cpp`: `cullMuxConditionNegations`, `removeConstSelectMuxes`, `mergeMuxes`,
`removeNoOps` (identity rewire), `removeIrrelevantComparisons` (Bit compared with a constant), `propagateConstants`.
-/
namespace Gatery.C01
open Gatery.Nodes BV4

/-- what a value-level rewrite must satisfy -/
def RuleSound (old new : BV4) : Prop := BV4.compat old new ∧ (old.allDef = true → new = old)

theorem RuleSound.of_eq {a b : BV4} (h : b = a) : RuleSound a b := by subst h; exact ⟨BV4.compat_refl _, fun _ => rfl⟩

theorem ruleSound_of_le {a b : BV4} (h : a ⊑ b) : RuleSound a b :=
  ⟨BV4.compat_of_le h, fun hd => (BV4.eq_of_le_of_allDef h hd).symm⟩

/-! ## mergeBit is symmetric in two data inputs -/

theorem mergeBit_swap (A B : Option BV4) (i : Nat) : mergeBit [A, B] i = mergeBit [B, A] i := by
  unfold mergeBit
  simp only [List.all_cons, List.all_nil, Bool.and_true]
  cases ha : optBit A i <;> cases hb : optBit B i <;> simp [B4.isDef, B4.val]

/-! ## cullMuxConditionNegations: mux(¬c; a, b) = mux(c; b, a) -/

/-- value of the NOT node feeding the selector -/
def notVal (sc : Option BV4) : BV4 := evalLogic .NOT 1 [sc]

theorem notVal_some_bit (b : B4) : notVal (some [b]) = [match b with | .f => .t | .t => .f | .x => .x] := by
  cases b <;> simp [notVal, evalLogic, tab, inBit, logicBit, B4.mk, B4.val, B4.isDef, B4.ofBool, BV4.bit]

/-- the rewrite for a 1-bit selector value `[b]` (a BOOL signal always has width 1) -/
theorem negMux_sound (w : Nat) (b : B4) (A B : Option BV4) :
    RuleSound (evalMux w [some (notVal (some [b])), A, B]) (evalMux w [some [b], B, A]) := by
  rw [notVal_some_bit]
  cases b with
  | x =>
    apply RuleSound.of_eq
    -- a 1-bit selector may stand for at most 1 < 2 data inputs: the range test of the undefined-selector branch passes
    have hr : ¬ (BV4.maxNat [B4.x] ≥ 2) := by decide
    simp only [evalMux, BV4.allDef, List.all_cons, B4.isDef, List.all_nil, Bool.and_true, Bool.not_false, if_true,
      List.length_cons, List.length_nil, hr, if_false]
    apply BV4.ext_bit (by simp)
    intro i hi
    rw [bit_tab, bit_tab, mergeBit_swap]
  | f =>
    apply RuleSound.of_eq
    simp [evalMux, BV4.allDef, B4.isDef, BV4.toNat]
  | t =>
    apply RuleSound.of_eq
    simp [evalMux, BV4.allDef, B4.isDef, BV4.toNat]

/-! ## removeConstSelectMuxes: a mux with a defined constant selector in range is its selected input -/

theorem constSelectMux_sound (w : Nat) (sel : BV4) (data : Ins) (hd : sel.allDef = true) (hr : sel.toNat < data.length) :
    evalMux w (some sel :: data) = copyIn w (data.getD sel.toNat none) := by
  simp only [evalMux, hd, Bool.not_true, Bool.false_eq_true, if_false]
  have : ¬ sel.toNat ≥ data.length := by omega
  simp [this]

/-- the bypass is exact when the selected input has the mux's width -/
theorem copyIn_self (v : BV4) : copyIn v.length (some v) = v := by
  simp only [copyIn]; exact BV4.tab_bit_self v

/-! ## mergeMuxes: mux(c; x, mux(c'; p, q)) with c ≈ c' becomes mux(c; x, q)  (and the three symmetric variants)

`c` and `c'` are different nodes that the condition analysis (C14) proved equivalent on all valuations; as four-state values
they can therefore never contradict each other (C08: both are compatible with every concretisation): hypothesis `hc`. -/

theorem mergeBit_le_of_mem {data : Ins} {i : Nat} {o : Option BV4} (ho : o ∈ data) : B4.le (mergeBit data i) (optBit o i) := by
  by_cases hd : (mergeBit data i).isDef = true
  · exact Or.inr (mergeBit_def' hd o ho).symm
  · left; cases h : mergeBit data i <;> simp_all [B4.isDef]

theorem tab_compat_of_le_le {w : Nat} {f g m : Nat → B4} (h1 : ∀ i, i < w → B4.le (f i) (m i)) (h2 : ∀ i, i < w → B4.le (g i) (m i)) :
    BV4.compat (tab w f) (tab w g) :=
  BV4.compat_of_le_le (m := tab w m) (BV4.tab_le h1) (BV4.tab_le h2)

theorem evalMux_sel_t (w : Nat) (A D : Option BV4) : evalMux w [some [B4.t], A, D] = copyIn w D := by
  simp [evalMux, BV4.allDef, B4.isDef, BV4.toNat]

theorem evalMux_sel_f (w : Nat) (A D : Option BV4) : evalMux w [some [B4.f], A, D] = copyIn w A := by
  simp [evalMux, BV4.allDef, B4.isDef, BV4.toNat]

theorem evalMux_sel_x (w : Nat) (A D : Option BV4) : evalMux w [some [B4.x], A, D] = tab w (mergeBit [A, D]) := by
  simp [evalMux, BV4.allDef, B4.isDef, BV4.maxNat]

theorem copyIn_of_length {w : Nat} {v : BV4} (h : v.length = w) : copyIn w (some v) = v := by subst h; exact copyIn_self v

/-- `mergeMuxes`, inner mux in the `1` branch with an equivalent condition: mux(c; X, mux(c'; P, Q)) → mux(c; X, Q).
    Never contradicts (for all four-state values with compatible conditions) and is exact when both conditions are defined. -/
theorem mergeMux_sound_1 (w : Nat) (c c' : B4) (hc : B4.compat c c') (X P Q : BV4)
    (hP : P.length = w) (hQ : Q.length = w) :
    BV4.compat (evalMux w [some [c], some X, some (evalMux w [some [c'], some P, some Q])])
               (evalMux w [some [c], some X, some Q]) ∧
    (c.isDef = true → c'.isDef = true →
      evalMux w [some [c], some X, some Q] = evalMux w [some [c], some X, some (evalMux w [some [c'], some P, some Q])]) := by
  have hinnerlen := length_evalMux w [some [c'], some P, some Q]
  cases c with
  | f =>
    simp only [evalMux_sel_f]
    exact ⟨BV4.compat_refl _, fun _ _ => trivial⟩
  | t =>
    simp only [evalMux_sel_t (A := some X), copyIn_of_length hinnerlen, copyIn_of_length hQ]
    cases c' with
    | f => simp [B4.compat] at hc
    | t => simp only [evalMux_sel_t, copyIn_of_length hQ]; exact ⟨BV4.compat_refl _, fun _ _ => trivial⟩
    | x =>
      refine ⟨?_, fun _ h => by simp [B4.isDef] at h⟩
      rw [evalMux_sel_x]
      apply BV4.compat_of_le
      refine ⟨by simp [hQ], fun i => ?_⟩
      rw [bit_tab]
      split
      · have := mergeBit_le_of_mem (data := [some P, some Q]) (i := i) (o := some Q) (by simp)
        simpa [optBit] using this
      · exact B4.x_le _
  | x =>
    refine ⟨?_, fun h => by simp [B4.isDef] at h⟩
    simp only [evalMux_sel_x (A := some X)]
    apply tab_compat_of_le_le (m := X.bit)
    · intro i _
      have := mergeBit_le_of_mem (data := [some X, some (evalMux w [some [c'], some P, some Q])]) (i := i) (o := some X) (by simp)
      simpa [optBit] using this
    · intro i _
      have := mergeBit_le_of_mem (data := [some X, some Q]) (i := i) (o := some X) (by simp)
      simpa [optBit] using this

/-- `mergeMuxes`, inner mux in the `0` branch: mux(c; mux(c'; P, Q), Y) → mux(c; P, Y). -/
theorem mergeMux_sound_0 (w : Nat) (c c' : B4) (hc : B4.compat c c') (Y P Q : BV4)
    (hP : P.length = w) (hQ : Q.length = w) :
    BV4.compat (evalMux w [some [c], some (evalMux w [some [c'], some P, some Q]), some Y])
               (evalMux w [some [c], some P, some Y]) ∧
    (c.isDef = true → c'.isDef = true →
      evalMux w [some [c], some P, some Y] = evalMux w [some [c], some (evalMux w [some [c'], some P, some Q]), some Y]) := by
  have hinnerlen := length_evalMux w [some [c'], some P, some Q]
  cases c with
  | t =>
    simp only [evalMux_sel_t]
    exact ⟨BV4.compat_refl _, fun _ _ => trivial⟩
  | f =>
    simp only [evalMux_sel_f (D := some Y), copyIn_of_length hinnerlen, copyIn_of_length hP]
    cases c' with
    | t => simp [B4.compat] at hc
    | f => simp only [evalMux_sel_f, copyIn_of_length hP]; exact ⟨BV4.compat_refl _, fun _ _ => trivial⟩
    | x =>
      refine ⟨?_, fun _ h => by simp [B4.isDef] at h⟩
      rw [evalMux_sel_x]
      apply BV4.compat_of_le
      refine ⟨by simp [hP], fun i => ?_⟩
      rw [bit_tab]
      split
      · have := mergeBit_le_of_mem (data := [some P, some Q]) (i := i) (o := some P) (by simp)
        simpa [optBit] using this
      · exact B4.x_le _
  | x =>
    refine ⟨?_, fun h => by simp [B4.isDef] at h⟩
    simp only [evalMux_sel_x (D := some Y)]
    apply tab_compat_of_le_le (m := Y.bit)
    · intro i _
      have := mergeBit_le_of_mem (data := [some (evalMux w [some [c'], some P, some Q]), some Y]) (i := i) (o := some Y) (by simp)
      simpa [optBit] using this
    · intro i _
      have := mergeBit_le_of_mem (data := [some P, some Y]) (i := i) (o := some Y) (by simp)
      simpa [optBit] using this

end Gatery.C01
