import GateryModel.C01.Rules
/-! More rule lemmas and their lift to `LocalSound` (netlist level). -/
namespace Gatery.C01
open Gatery.Nodes BV4

/-! ## removeIrrelevantComparisons: a BOOL compared (EQ / NEQ) with a defined constant is the signal or its negation -/

def notBit : B4 → B4 | .f => .t | .t => .f | .x => .x

theorem compare_const_right (op : CmpOp) (hop : op = .EQ ∨ op = .NEQ) (a : B4) (k : Bool) :
    evalCompare op [some [a], some [B4.ofBool k]] =
      [if (k != (op == .EQ)) then notBit a else a] := by
  rcases hop with rfl | rfl <;> cases a <;> cases k <;>
    simp [evalCompare, BV4.allDef, B4.isDef, B4.ofBool, BV4.toNat, cmpNat, notBit]

theorem compare_const_left (op : CmpOp) (hop : op = .EQ ∨ op = .NEQ) (a : B4) (k : Bool) :
    evalCompare op [some [B4.ofBool k], some [a]] =
      [if (k != (op == .EQ)) then notBit a else a] := by
  rcases hop with rfl | rfl <;> cases a <;> cases k <;>
    simp [evalCompare, BV4.allDef, B4.isDef, B4.ofBool, BV4.toNat, cmpNat, notBit]

/-- the inverter the pass inserts computes `notBit` -/
theorem not_is_notBit (a : B4) : evalLogic .NOT 1 [some [a]] = [notBit a] := by
  cases a <;> simp [evalLogic, tab, inBit, logicBit, B4.mk, B4.val, B4.isDef, B4.ofBool, BV4.bit, notBit]

/-- comparing with an undefined constant yields that undefined constant -/
theorem compare_undef_const (op : CmpOp) (a : B4) : evalCompare op [some [a], some [B4.x]] = [B4.x] := by
  cases a <;> simp [evalCompare, BV4.allDef, B4.isDef]

/-! ## removeNoOps: a rewire whose ranges tile input 0 from offset 0 is the identity -/

/-- ranges are INPUT 0 at consecutive offsets starting at `off` -/
def tiles : List Range → Nat → Bool
  | [], _ => true
  | r :: rs, off => (r.src == .input 0 off) && tiles rs (off + r.subwidth)

theorem evalRewire_tiles (rs : List Range) (v : BV4) (off : Nat) (h : tiles rs off = true) :
    evalRewire rs [some v] = tab (rs.map (·.subwidth)).sum (fun i => v.bit (off + i)) := by
  induction rs generalizing off with
  | nil => simp [evalRewire, tab]
  | cons r rs ih =>
    simp only [tiles, Bool.and_eq_true, beq_iff_eq] at h
    simp only [evalRewire, List.flatMap_cons, List.map_cons, List.sum_cons] at ih ⊢
    rw [ih _ h.2]
    apply BV4.ext_bit (by simp [evalRange, h.1])
    intro i hi
    rw [bit_append, bit_tab]
    simp only [evalRange, h.1, length_tab, bit_tab, inBit, List.getD_cons_zero]
    by_cases h1 : i < r.subwidth
    · have : i < r.subwidth + (rs.map (·.subwidth)).sum := by omega
      simp [h1, this]
    · simp only [h1, if_false]
      simp only [List.length_append, length_tab, evalRange, h.1] at hi
      have h2 : i - r.subwidth < (rs.map (·.subwidth)).sum := by omega
      have h3 : i < r.subwidth + (rs.map (·.subwidth)).sum := by omega
      simp only [h2, h3, if_true]
      congr 1; omega

/-- `Node_Rewire::isNoOp`: tiling from 0 with total width = input width ⇒ output = input -/
theorem noopRewire_sound (rs : List Range) (v : BV4) (h : tiles rs 0 = true) (hw : (rs.map (·.subwidth)).sum = v.length) :
    evalRewire rs [some v] = v := by
  rw [evalRewire_tiles rs v 0 h, hw]
  have : (fun i => v.bit (0 + i)) = v.bit := by funext i; simp
  rw [this]; exact BV4.tab_bit_self v

/-! ## propagateConstants: a node whose output is fully defined when all non-constant inputs are undefined is that constant -/

theorem constFold_sound (k : NodeKind) (w : Nat) (insU ins : Ins) (h : InsCompat insU ins)
    (hd : (evalNode k w insU).allDef = true) :
    RuleSound (evalNode k w ins) (evalNode k w insU) := by
  have hc := BV4.compat_symm (evalNode_compat k w h)
  exact ⟨hc, fun hdef => (eq_of_compat_of_allDef hc hdef hd).symm⟩

/-! ## lifting to netlists -/

theorem evalNetFrom_length (env : Env) (net : List NetNode) (v : Vals) : (evalNetFrom env net v).length = v.length + net.length := by
  induction net generalizing v with
  | nil => simp [evalNetFrom]
  | cons n ns ih => simp only [evalNetFrom, ih, List.length_append, List.length_cons, List.length_nil]; omega

/-- the value of node `j` of a netlist is that node evaluated on the values of the nodes before it -/
theorem evalNet_getD (env : Env) (pre : List NetNode) (j : Nat) (n : NetNode) (hj : pre[j]? = some n) :
    (evalNet env pre).getD j none = evalNetNode env (evalNet env (pre.take j)) n := by
  have hlt : j < pre.length := by
    cases h : pre[j]? with
    | none => rw [h] at hj; cases hj
    | some _ => exact (List.getElem?_eq_some_iff.mp h).1
  have hsplit : pre = pre.take j ++ n :: pre.drop (j + 1) := by
    have hn : pre[j] = n := by
      have := List.getElem?_eq_getElem hlt
      rw [this] at hj; exact Option.some.inj hj
    rw [← hn]
    have h1 := (List.take_append_drop j pre).symm
    rw [List.drop_eq_getElem_cons hlt] at h1
    exact h1
  unfold evalNet
  conv => lhs; rw [hsplit, evalNetFrom_append]
  simp only [evalNetFrom]
  obtain ⟨t, ht⟩ := evalNetFrom_prefix env (pre.drop (j + 1)) (evalNetFrom env (pre.take j) [] ++ [evalNetNode env (evalNetFrom env (pre.take j) []) n])
  rw [ht]
  have hl : (evalNetFrom env (pre.take j) []).length = j := by
    rw [evalNetFrom_length]; simp; omega
  rw [List.getD_eq_getElem?_getD, List.append_assoc, List.getElem?_append_right (by omega)]
  simp [hl]

/-- values of earlier nodes do not depend on later nodes -/
theorem evalNet_take_getD (env : Env) (pre : List NetNode) (j c : Nat) (hc : c < j) (hj : j ≤ pre.length) :
    (evalNet env (pre.take j)).getD c none = (evalNet env pre).getD c none := by
  unfold evalNet
  conv => rhs; rw [← List.take_append_drop j pre, evalNetFrom_append]
  obtain ⟨t, ht⟩ := evalNetFrom_prefix env (pre.drop j) (evalNetFrom env (pre.take j) [])
  rw [ht]
  have hl : (evalNetFrom env (pre.take j) []).length = j := by
    rw [evalNetFrom_length]; simp; omega
  rw [List.getD_eq_getElem?_getD, List.getD_eq_getElem?_getD, List.getElem?_append_left (by omega)]

/-- a value-level rule gives `LocalSound` -/
theorem localSound_of_values {ok : Env → Prop} (pre : List NetNode) (n n' : NetNode)
    (h : ∀ env, ok env → ∃ old new, evalNetNode env (evalNet env pre) n = some old ∧ evalNetNode env (evalNet env pre) n' = some new ∧
      BV4.compat old new ∧ (ValsDef (evalNet env pre) → old.allDef = true → new = old)) :
    LocalSound ok pre n n' where
  compat := fun env hok => by
    obtain ⟨old, new, h1, h2, h3, _⟩ := h env hok
    rw [h1, h2]; exact h3
  eqdef := fun env hok hd hn => by
    obtain ⟨old, new, h1, h2, _, h4⟩ := h env hok
    obtain ⟨v, hv, hvd⟩ := hn
    rw [h1] at hv; cases hv
    rw [h1, h2, h4 hd hvd]

/-- **cullMuxConditionNegations as a netlist rewrite.** Node `j` is a NOT of the BOOL node `c`; a two-input mux selecting by `j`
    is replaced by the mux selecting by `c` with swapped data inputs. Sound in every netlist context. -/
theorem negMux_localSound {ok : Env → Prop} (pre : List NetNode) (j c a b w : Nat) (ty tyn : CType)
    (hj : pre[j]? = some ⟨.node (.logic .NOT) tyn, 1, [some c]⟩) (hc : c < j)
    (hbool : ∀ env, ok env → ∃ bit, (evalNet env pre).getD c none = some [bit]) :
    LocalSound ok pre ⟨.node .mux ty, w, [some j, some a, some b]⟩ ⟨.node .mux ty, w, [some c, some b, some a]⟩ := by
  apply localSound_of_values
  intro env hok
  obtain ⟨bit, hbit⟩ := hbool env hok
  have hjl : j < pre.length := by
    cases h : pre[j]? with
    | none => rw [h] at hj; cases hj
    | some _ => exact (List.getElem?_eq_some_iff.mp h).1
  have hjv : (evalNet env pre).getD j none = some (notVal (some [bit])) := by
    rw [evalNet_getD env pre j _ hj]
    simp only [evalNetNode, evalNode, gather, List.map_cons, List.map_nil]
    rw [evalNet_take_getD env pre j c hc (by omega), hbit]
    rfl
  refine ⟨_, _, rfl, rfl, ?_⟩
  simp only [evalNode, gather, List.map_cons, List.map_nil, hjv, hbit]
  have := negMux_sound w bit ((evalNet env pre).getD a none) ((evalNet env pre).getD b none)
  exact ⟨this.1, fun _ hd => this.2 hd⟩

end Gatery.C01
