import GateryModel.C01.Rules2
import GateryModel.Nodes.Seq
/-!
# C01 — from combinational rewrites to clocked circuits, for stimuli of any length

`seqRun` (Nodes/Seq.lean) is the run of a clocked netlist: all node values at every sample point.  The theorems lift the
congruence results of `Congr.lean` over time by induction on the stimulus: any sequence of locally sound node replacements,
together with a change of the register declarations that computes the same next state on defined evaluations
(`foldRegisterMuxEnableLoops`), leaves every value of a fully defined run unchanged at every cycle, and never contradicts the
original run when the stimulus is partially undefined but has a defined concretisation.
-/
namespace Gatery.C01
open Gatery.Nodes BV4

/-- the run of `c` is admissible and free of undefined values at every cycle -/
def RunDef (ok : Env → Prop) (c : SeqNet) : List Cycle → List BV4 → Prop
  | [], _ => True
  | (pins, rs) :: rest, st =>
    ok (pins ++ st) ∧ ValsDef (evalNet (pins ++ st) c.nodes) ∧
      RunDef ok c rest (nextState c.regs (evalNet (pins ++ st) c.nodes) rs st)

/-- the register declarations `bregs` compute the same next state as those of `a` on every admissible, defined evaluation of `a` -/
def RegsAgree (ok : Env → Prop) (a : SeqNet) (bregs : List RegDecl) : Prop :=
  ∀ pins st rs, ok (pins ++ st) → ValsDef (evalNet (pins ++ st) a.nodes) →
    nextState bregs (evalNet (pins ++ st) a.nodes) rs st = nextState a.regs (evalNet (pins ++ st) a.nodes) rs st

theorem RegsAgree.refl (ok : Env → Prop) (a : SeqNet) : RegsAgree ok a a.regs := fun _ _ _ _ _ => rfl

/-- **Defined runs, any number of cycles.** -/
theorem seq_rewrites_defined {ok : Env → Prop} (a b : SeqNet) (hn : Rewrites ok a.nodes b.nodes) (hr : RegsAgree ok a b.regs)
    (stim : List Cycle) (st : List BV4) (hd : RunDef ok a stim st) :
    seqRun b stim st = seqRun a stim st ∧ seqState b stim st = seqState a stim st := by
  induction stim generalizing st with
  | nil => exact ⟨rfl, rfl⟩
  | cons cyc rest ih =>
    obtain ⟨pins, rs⟩ := cyc
    obtain ⟨hok, hvd, hrest⟩ := hd
    have e := rewrites_defined a.nodes b.nodes hn (pins ++ st) hok hvd
    have e2 := hr pins st rs hok hvd
    obtain ⟨i1, i2⟩ := ih _ hrest
    simp only [seqRun, seqState, e, e2, i1, i2, and_self]

/-! ## partially undefined stimuli -/

/-- every register value has the width of its register -/
def StateWF (regs : List RegDecl) (st : List BV4) : Prop := Forall2 (fun r v => v.length = r.w) regs st

theorem length_regNext (w : Nat) (d en : Option BV4) (old : BV4) (ho : old.length = w) : (regNext w d en old).length = w := by
  unfold regNext
  split
  · exact length_copyIn w d
  · split
    · exact length_undef w
    · exact length_copyIn w d
    · exact ho

theorem length_regEdge (w : Nat) (d rst en : Option BV4) (r : Bool) (old : BV4) (ho : old.length = w) :
    (regEdge w d rst en r old).length = w := by
  unfold regEdge
  split
  · exact length_copyIn w _
  · exact length_regNext w d en old ho

theorem nextState_wf (regs : List RegDecl) (vals : Vals) (rs : Bool) (st : List BV4) (h : StateWF regs st) :
    StateWF regs (nextState regs vals rs st) := by
  unfold nextState
  induction h with
  | nil => exact .nil
  | cons hab _ ih => exact .cons (length_regEdge _ _ _ _ _ _ hab) ih

theorem bit_compat_of_compat {u v : BV4} (h : BV4.compat u v) (i : Nat) : B4.compat (u.bit i) (v.bit i) := h.2 i

theorem regNext_compat (w : Nat) {d d' en en' : Option BV4} {old old' : BV4} (hd : optCompat d d') (he : optCompat en en')
    (ho : BV4.compat old old') (hl : old.length = w) : BV4.compat (regNext w d en old) (regNext w d' en' old') := by
  have hl' : old'.length = w := ho.1 ▸ hl
  have hcd := copyIn_compat w hd
  cases en with
  | none =>
    cases en' with
    | none => exact hcd
    | some e' => simp [optCompat] at he
  | some e =>
    cases en' with
    | none => simp [optCompat] at he
    | some e' =>
      have hb : B4.compat (e.bit 0) (e'.bit 0) := he.2 0
      simp only [regNext]
      cases h1 : e.bit 0 <;> cases h2 : e'.bit 0 <;> simp only [h1, h2, B4.compat] at hb ⊢
      all_goals first
        | exact hcd
        | exact ho
        | exact compat_undef_left (by first | exact length_copyIn _ _ | exact hl' | exact length_undef _)
        | exact compat_undef_right (by first | exact length_copyIn _ _ | exact hl | exact length_undef _)
        | (simp at hb)

theorem regEdge_compat (w : Nat) {d d' rst rst' en en' : Option BV4} {old old' : BV4} (r : Bool) (hd : optCompat d d')
    (hr : optCompat rst rst') (he : optCompat en en') (ho : BV4.compat old old') (hl : old.length = w) :
    BV4.compat (regEdge w d rst en r old) (regEdge w d' rst' en' r old') := by
  cases r with
  | false => simpa [regEdge] using regNext_compat w hd he ho hl
  | true =>
    cases rst with
    | none =>
      cases rst' with
      | none => simpa [regEdge] using regNext_compat w hd he ho hl
      | some _ => simp [optCompat] at hr
    | some a =>
      cases rst' with
      | none => simp [optCompat] at hr
      | some b => simpa [regEdge] using copyIn_compat w hr

theorem look_compat {v v' : Vals} (h : ValsCompat v v') (o : Option Nat) : optCompat (look v o) (look v' o) := by
  cases o with
  | none => simp [look, optCompat]
  | some j => exact forall₂_getD h none none (by simp [optCompat]) j

theorem nextState_compat (regs : List RegDecl) {vals vals' : Vals} (hv : ValsCompat vals vals') (rs : Bool) {st st' : List BV4}
    (hs : EnvCompat st st') (hw : StateWF regs st) : EnvCompat (nextState regs vals rs st) (nextState regs vals' rs st') := by
  unfold nextState
  induction hw generalizing st' with
  | nil => cases hs; exact .nil
  | @cons r v regs sts hab _ ih =>
    cases hs with
    | cons hvv hrest =>
      exact .cons (regEdge_compat r.w rs (look_compat hv _) (look_compat hv _) (look_compat hv _) hvv hab) (ih hrest)

/-- two value lists that are compatible with one fully defined list are compatible with each other -/
theorem valsCompat_of_mid {x z m : Vals} (c1 : ValsCompat x m) (c2 : ValsCompat m z) (hd : ValsDef m) : ValsCompat x z := by
  induction c1 generalizing z with
  | nil => cases c2; exact .nil
  | @cons p q l l' hpq _ ih =>
    cases c2 with
    | @cons _ r _ l'' hqr hrest =>
      refine .cons ?_ (ih hrest (fun o ho => hd o (List.mem_cons_of_mem _ ho)))
      obtain ⟨mv, hq, hmd⟩ := hd q (by simp)
      subst hq
      cases p with
      | none => simp [optCompat] at hpq
      | some u =>
        cases r with
        | none => simp [optCompat] at hqr
        | some v => exact compat_of_compat_def hpq hqr hmd

theorem envCompat_symm {a b : Env} (h : EnvCompat a b) : EnvCompat b a := by
  induction h with
  | nil => exact .nil
  | cons hab _ ih => exact .cons (BV4.compat_symm hab) ih

theorem valsCompat_symm {a b : Vals} (h : ValsCompat a b) : ValsCompat b a := by
  induction h with
  | nil => exact .nil
  | cons hab _ ih => exact .cons (optCompat_symm hab) ih

/-- stimuli that agree up to undefined bits (same reset pattern) -/
def StimCompat : List Cycle → List Cycle → Prop := Forall2 fun c c' => EnvCompat c.1 c'.1 ∧ c.2 = c'.2

/-- **Partially undefined stimulus, any number of cycles.** If some concretisation (`stim'`, `st'`) of the stimulus and of the
    initial register state makes the original run fully defined, then under the stimulus itself no defined bit of the rewritten
    circuit ever contradicts the original circuit, at any node, at any cycle. -/
theorem seq_rewrites_compat {ok : Env → Prop} (a b : SeqNet) (hn : Rewrites ok a.nodes b.nodes) (hr : RegsAgree ok a b.regs)
    (stim stim' : List Cycle) (hs : StimCompat stim stim')
    (sa sb st' : List BV4) (ha : EnvCompat sa st') (hb : EnvCompat sb st')
    (hwa : StateWF a.regs sa) (hwb : StateWF b.regs sb)
    (hd : RunDef ok a stim' st') :
    Forall2 ValsCompat (seqRun a stim sa) (seqRun b stim sb) := by
  induction hs generalizing sa sb st' with
  | nil => exact .nil
  | @cons c c' rest rest' hcc _ ih =>
    obtain ⟨pins, rs⟩ := c
    obtain ⟨pins', rs'⟩ := c'
    obtain ⟨hp, hrs⟩ := hcc
    simp only at hp hrs
    subst hrs
    obtain ⟨hok, hvd, hrest⟩ := hd
    have e := rewrites_defined a.nodes b.nodes hn (pins' ++ st') hok hvd
    have e2 := hr pins' st' rs hok hvd
    have ca : ValsCompat (evalNet (pins ++ sa) a.nodes) (evalNet (pins' ++ st') a.nodes) :=
      evalNetFrom_compat (forall₂_append hp ha) a.nodes .nil
    have cb : ValsCompat (evalNet (pins ++ sb) b.nodes) (evalNet (pins' ++ st') a.nodes) := by
      rw [← e]; exact evalNetFrom_compat (forall₂_append hp hb) b.nodes .nil
    simp only [seqRun]
    refine .cons (valsCompat_of_mid ca (valsCompat_symm cb) hvd) ?_
    apply ih _ _ _ _ _ (nextState_wf _ _ _ _ hwa) (nextState_wf _ _ _ _ hwb) hrest
    · exact nextState_compat a.regs ca rs ha hwa
    · rw [← e2]; exact nextState_compat b.regs cb rs hb hwb

/-! ## foldRegisterMuxEnableLoops (`Circuit.cpp`): a register fed back through a two-input mux becomes a register with enable -/

def andVal (a b : Option BV4) : BV4 := evalLogic .AND 1 [a, b]

theorem andVal_bits (e c : B4) : andVal (some [e]) (some [c]) =
    [match e, c with | .f, _ => .f | _, .f => .f | .t, .t => .t | _, _ => .x] := by
  cases e <;> cases c <;> simp [andVal, evalLogic, tab, inBit, logicBit, B4.mk, B4.val, B4.isDef, B4.ofBool, BV4.bit]

theorem copyIn_copyIn (w : Nat) (X : Option BV4) : copyIn w (some (copyIn w X)) = copyIn w X :=
  copyIn_of_length (length_copyIn w X)

theorem bit0_single (b : B4) : BV4.bit [b] 0 = b := by simp [BV4.bit]

/-- compat ∧ equal when the conditions are defined -/
def FoldSound (cdef : Bool) (old new : BV4) : Prop := BV4.compat old new ∧ (cdef = true → new = old)

/-- `foldRegisterMuxEnableLoops`, register fed back through mux input 0, no previous enable:
    reg(d = mux(c; q, X)) becomes reg(d = X, en = c) -/
theorem foldEnable_sound_0 (w : Nat) (c : B4) (q : BV4) (X : Option BV4) (hq : q.length = w) :
    FoldSound c.isDef (regNext w (some (evalMux w [some [c], some q, X])) none q) (regNext w X (some [c]) q) := by
  cases c with
  | f => simp [FoldSound, regNext, bit0_single, evalMux_sel_f, copyIn_copyIn, copyIn_of_length hq, BV4.compat_refl]
  | t => simp [FoldSound, regNext, bit0_single, evalMux_sel_t, copyIn_copyIn, BV4.compat_refl]
  | x =>
    refine ⟨?_, by simp [B4.isDef]⟩
    simp only [regNext, bit0_single]
    exact compat_undef_right (length_copyIn _ _)

/-- … fed back through mux input 1: reg(d = mux(c; X, q)) becomes reg(d = X, en = ¬c) -/
theorem foldEnable_sound_1 (w : Nat) (c : B4) (q : BV4) (X : Option BV4) (hq : q.length = w) :
    FoldSound c.isDef (regNext w (some (evalMux w [some [c], X, some q])) none q) (regNext w X (some (notVal (some [c]))) q) := by
  rw [notVal_some_bit]
  cases c with
  | f => simp [FoldSound, regNext, bit0_single, evalMux_sel_f, copyIn_copyIn, BV4.compat_refl]
  | t => simp [FoldSound, regNext, bit0_single, evalMux_sel_t, copyIn_copyIn, copyIn_of_length hq, BV4.compat_refl]
  | x =>
    refine ⟨?_, by simp [B4.isDef]⟩
    simp only [regNext, bit0_single]
    exact compat_undef_right (length_copyIn _ _)

/-- … with a previous enable `e`: the new enable is `e ∧ c` -/
theorem foldEnable_sound_0_en (w : Nat) (e c : B4) (q : BV4) (X : Option BV4) (hq : q.length = w) :
    FoldSound (e.isDef && c.isDef) (regNext w (some (evalMux w [some [c], some q, X])) (some [e]) q)
      (regNext w X (some (andVal (some [e]) (some [c]))) q) := by
  rw [andVal_bits]
  cases e <;> cases c <;>
    simp [FoldSound, regNext, bit0_single, evalMux_sel_f, evalMux_sel_t, copyIn_copyIn, copyIn_of_length hq, BV4.compat_refl, B4.isDef,
      compat_undef_right, compat_undef_left, length_copyIn, hq]

theorem foldEnable_sound_1_en (w : Nat) (e c : B4) (q : BV4) (X : Option BV4) (hq : q.length = w) :
    FoldSound (e.isDef && c.isDef) (regNext w (some (evalMux w [some [c], X, some q])) (some [e]) q)
      (regNext w X (some (andVal (some [e]) (some (notVal (some [c]))))) q) := by
  rw [notVal_some_bit]
  cases e <;> cases c <;> simp only [andVal_bits] <;>
    simp [FoldSound, regNext, bit0_single, evalMux_sel_f, evalMux_sel_t, copyIn_copyIn, copyIn_of_length hq, BV4.compat_refl, B4.isDef,
      compat_undef_right, compat_undef_left, length_copyIn, hq]


end Gatery.C01
