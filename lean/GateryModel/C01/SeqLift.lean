import GateryModel.C01.Rules2
import GateryModel.C08.SeqCompat
/-!
# C01 — from combinational rewrites to clocked circuits, for stimuli of any length

`seqRun` (Nodes/Seq.lean) is the run of a clocked netlist: all node values at every sample point.  The theorems lift the
congruence results of `Congr.lean` over time by induction on the stimulus: any sequence of locally sound node replacements,
together with a change of the register declarations that computes the same next state on defined evaluations
(`foldRegisterMuxEnableLoops`), leaves every value of a fully defined run unchanged at every cycle, and never contradicts the
original run when the stimulus is partially undefined but has a defined concretisation.
-/
namespace Gatery.C01
open Gatery.Nodes BV4

/-- the run of `c` is admissible and free of undefined values at every cycle -/
def RunDef (ok : Env → Prop) (c : SeqNet) : List Cycle → List BV4 → Prop
  | [], _ => True
  | (pins, rs) :: rest, st =>
    ok (pins ++ st) ∧ ValsDef (evalNet (pins ++ st) c.nodes) ∧
      RunDef ok c rest (nextState c.regs (evalNet (pins ++ st) c.nodes) rs st)

/-- the register declarations `bregs` compute the same next state as those of `a` on every admissible, defined evaluation of `a` -/
def RegsAgree (ok : Env → Prop) (a : SeqNet) (bregs : List RegDecl) : Prop :=
  ∀ pins st rs, ok (pins ++ st) → ValsDef (evalNet (pins ++ st) a.nodes) →
    nextState bregs (evalNet (pins ++ st) a.nodes) rs st = nextState a.regs (evalNet (pins ++ st) a.nodes) rs st

theorem RegsAgree.refl (ok : Env → Prop) (a : SeqNet) : RegsAgree ok a a.regs := fun _ _ _ _ _ => rfl

/-- **Defined runs, any number of cycles.** -/
theorem seq_rewrites_defined {ok : Env → Prop} (a b : SeqNet) (hn : Rewrites ok a.nodes b.nodes) (hr : RegsAgree ok a b.regs)
    (stim : List Cycle) (st : List BV4) (hd : RunDef ok a stim st) :
    seqRun b stim st = seqRun a stim st ∧ seqState b stim st = seqState a stim st := by
  induction stim generalizing st with
  | nil => exact ⟨rfl, rfl⟩
  | cons cyc rest ih =>
    obtain ⟨pins, rs⟩ := cyc
    obtain ⟨hok, hvd, hrest⟩ := hd
    have e := rewrites_defined a.nodes b.nodes hn (pins ++ st) hok hvd
    have e2 := hr pins st rs hok hvd
    obtain ⟨i1, i2⟩ := ih _ hrest
    simp only [seqRun, seqState, e, e2, i1, i2, and_self]

/-! ## partially undefined stimuli (register lemmas: C08/SeqCompat.lean) -/

/-- two value lists that are compatible with one fully defined list are compatible with each other -/
theorem valsCompat_of_mid {x z m : Vals} (c1 : ValsCompat x m) (c2 : ValsCompat m z) (hd : ValsDef m) : ValsCompat x z := by
  induction c1 generalizing z with
  | nil => cases c2; exact .nil
  | @cons p q l l' hpq _ ih =>
    cases c2 with
    | @cons _ r _ l'' hqr hrest =>
      refine .cons ?_ (ih hrest (fun o ho => hd o (List.mem_cons_of_mem _ ho)))
      obtain ⟨mv, hq, hmd⟩ := hd q (by simp)
      subst hq
      cases p with
      | none => simp [optCompat] at hpq
      | some u =>
        cases r with
        | none => simp [optCompat] at hqr
        | some v => exact compat_of_compat_def hpq hqr hmd

/-- **Partially undefined stimulus, any number of cycles.** If some concretisation (`stim'`, `st'`) of the stimulus and of the
    initial register state makes the original run fully defined, then under the stimulus itself no defined bit of the rewritten
    circuit ever contradicts the original circuit, at any node, at any cycle. -/
theorem seq_rewrites_compat {ok : Env → Prop} (a b : SeqNet) (hn : Rewrites ok a.nodes b.nodes) (hr : RegsAgree ok a b.regs)
    (stim stim' : List Cycle) (hs : StimCompat stim stim')
    (sa sb st' : List BV4) (ha : EnvCompat sa st') (hb : EnvCompat sb st')
    (hwa : StateWF a.regs sa) (hwb : StateWF b.regs sb)
    (hd : RunDef ok a stim' st') :
    Forall2 ValsCompat (seqRun a stim sa) (seqRun b stim sb) := by
  induction hs generalizing sa sb st' with
  | nil => exact .nil
  | @cons c c' rest rest' hcc _ ih =>
    obtain ⟨pins, rs⟩ := c
    obtain ⟨pins', rs'⟩ := c'
    obtain ⟨hp, hrs⟩ := hcc
    simp only at hp hrs
    subst hrs
    obtain ⟨hok, hvd, hrest⟩ := hd
    have e := rewrites_defined a.nodes b.nodes hn (pins' ++ st') hok hvd
    have e2 := hr pins' st' rs hok hvd
    have ca : ValsCompat (evalNet (pins ++ sa) a.nodes) (evalNet (pins' ++ st') a.nodes) :=
      evalNetFrom_compat (forall₂_append hp ha) a.nodes .nil
    have cb : ValsCompat (evalNet (pins ++ sb) b.nodes) (evalNet (pins' ++ st') a.nodes) := by
      rw [← e]; exact evalNetFrom_compat (forall₂_append hp hb) b.nodes .nil
    simp only [seqRun]
    refine .cons (valsCompat_of_mid ca (valsCompat_symm cb) hvd) ?_
    apply ih _ _ _ _ _ (nextState_wf _ _ _ _ hwa) (nextState_wf _ _ _ _ hwb) hrest
    · exact nextState_compat a.regs ca rs ha hwa
    · rw [← e2]; exact nextState_compat b.regs cb rs hb hwb

/-! ## foldRegisterMuxEnableLoops (`Circuit.cpp`): a register fed back through a two-input mux becomes a register with enable -/

def andVal (a b : Option BV4) : BV4 := evalLogic .AND 1 [a, b]

theorem andVal_bits (e c : B4) : andVal (some [e]) (some [c]) =
    [match e, c with | .f, _ => .f | _, .f => .f | .t, .t => .t | _, _ => .x] := by
  cases e <;> cases c <;> simp [andVal, evalLogic, tab, inBit, logicBit, B4.mk, B4.val, B4.isDef, B4.ofBool, BV4.bit]

theorem copyIn_copyIn (w : Nat) (X : Option BV4) : copyIn w (some (copyIn w X)) = copyIn w X :=
  copyIn_of_length (length_copyIn w X)

theorem bit0_single (b : B4) : BV4.bit [b] 0 = b := by simp [BV4.bit]

/-- compat ∧ equal when the conditions are defined -/
def FoldSound (cdef : Bool) (old new : BV4) : Prop := BV4.compat old new ∧ (cdef = true → new = old)

/-- `foldRegisterMuxEnableLoops`, register fed back through mux input 0, no previous enable:
    reg(d = mux(c; q, X)) becomes reg(d = X, en = c) -/
theorem foldEnable_sound_0 (w : Nat) (c : B4) (q : BV4) (X : Option BV4) (hq : q.length = w) :
    FoldSound c.isDef (regNext w (some (evalMux w [some [c], some q, X])) none q) (regNext w X (some [c]) q) := by
  cases c with
  | f => simp [FoldSound, regNext, bit0_single, evalMux_sel_f, copyIn_copyIn, copyIn_of_length hq, BV4.compat_refl]
  | t => simp [FoldSound, regNext, bit0_single, evalMux_sel_t, copyIn_copyIn, BV4.compat_refl]
  | x =>
    refine ⟨?_, by simp [B4.isDef]⟩
    simp only [regNext, bit0_single]
    exact compat_undef_right (length_copyIn _ _)

/-- … fed back through mux input 1: reg(d = mux(c; X, q)) becomes reg(d = X, en = ¬c) -/
theorem foldEnable_sound_1 (w : Nat) (c : B4) (q : BV4) (X : Option BV4) (hq : q.length = w) :
    FoldSound c.isDef (regNext w (some (evalMux w [some [c], X, some q])) none q) (regNext w X (some (notVal (some [c]))) q) := by
  rw [notVal_some_bit]
  cases c with
  | f => simp [FoldSound, regNext, bit0_single, evalMux_sel_f, copyIn_copyIn, BV4.compat_refl]
  | t => simp [FoldSound, regNext, bit0_single, evalMux_sel_t, copyIn_copyIn, copyIn_of_length hq, BV4.compat_refl]
  | x =>
    refine ⟨?_, by simp [B4.isDef]⟩
    simp only [regNext, bit0_single]
    exact compat_undef_right (length_copyIn _ _)

/-- … with a previous enable `e`: the new enable is `e ∧ c` -/
theorem foldEnable_sound_0_en (w : Nat) (e c : B4) (q : BV4) (X : Option BV4) (hq : q.length = w) :
    FoldSound (e.isDef && c.isDef) (regNext w (some (evalMux w [some [c], some q, X])) (some [e]) q)
      (regNext w X (some (andVal (some [e]) (some [c]))) q) := by
  rw [andVal_bits]
  cases e <;> cases c <;>
    simp [FoldSound, regNext, bit0_single, evalMux_sel_f, evalMux_sel_t, copyIn_copyIn, copyIn_of_length hq, BV4.compat_refl, B4.isDef,
      compat_undef_right, compat_undef_left, length_copyIn, hq]

theorem foldEnable_sound_1_en (w : Nat) (e c : B4) (q : BV4) (X : Option BV4) (hq : q.length = w) :
    FoldSound (e.isDef && c.isDef) (regNext w (some (evalMux w [some [c], X, some q])) (some [e]) q)
      (regNext w X (some (andVal (some [e]) (some (notVal (some [c]))))) q) := by
  rw [notVal_some_bit]
  cases e <;> cases c <;> simp only [andVal_bits] <;>
    simp [FoldSound, regNext, bit0_single, evalMux_sel_f, evalMux_sel_t, copyIn_copyIn, copyIn_of_length hq, BV4.compat_refl, B4.isDef,
      compat_undef_right, compat_undef_left, length_copyIn, hq]


end Gatery.C01
