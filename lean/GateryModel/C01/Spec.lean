/-!
# C01 — the observable-behaviour relation between the circuit as constructed (A) and the post-processed circuit (B)

A trace is, per sample point (cycle), the list of output-pin values printed MSB first over `0`,`1`,`x`.
`F A B adef`: (1) no bit that both define differs, at every cycle and pin; (2) if the run of A is free of undefined
values (`adef`: stimulus, every node output at every cycle), B is bit-identical (hence fully defined).
-/
namespace Gatery.C01

abbrev Value := List Char          -- MSB first, characters 0 / 1 / x
abbrev Trace := List (List Value)   -- [cycle][pin]

def bitCompat (a b : Char) : Bool := a == 'x' || b == 'x' || a == b

def valueCompat (a b : Value) : Bool := a.length == b.length && (List.zipWith bitCompat a b).all id

def rowCompat (a b : List Value) : Bool := a.length == b.length && (List.zipWith valueCompat a b).all id

def traceCompat (a b : Trace) : Bool := a.length == b.length && (List.zipWith rowCompat a b).all id

def valueDefined (a : Value) : Bool := a.all (· != 'x')
def traceDefined (a : Trace) : Bool := a.all fun row => row.all valueDefined

/-- the relation the property demands between the pin traces of A and B -/
def F (a b : Trace) (adef : Bool) : Bool := traceCompat a b && (!adef || a == b)

/-- index of the first cycle at which the relation fails (for the replay) -/
def firstBad (a b : Trace) (adef : Bool) : Option Nat :=
  (List.range (max a.length b.length)).find? fun t =>
    match a[t]?, b[t]? with
    | some ra, some rb => !(rowCompat ra rb && (!adef || ra == rb))
    | _, _ => true

end Gatery.C01
