import GateryModel.C01.Congr
/-!
# C01 — `insertConstUndefinedNodes` and `disconnectZeroBitConnections`: giving an input without state an all-undefined driver

`Circuit::insertConstUndefinedNodes` (`Circuit.cpp:319-356`) drives every undriven signal node (and every signal loop) by a
`Node_Constant` whose bits are all undefined; `Circuit::disconnectZeroBitConnections` (`Circuit.cpp:270-291`) re-drives every
zero-width input by a zero-width constant.  For the consumer the input port changes from "no state" (`inputOffsets[i] == ~0ull`,
`none` in the model) to a state whose bits are all undefined (`some (undef wi)`, `wi = 0` for the zero-width constant).

`OptU a b`: `b` is `a`, or `a` has no state and `b` is an all-undefined vector of any width.  For inputs related like this at any
number of ports every core node computes a value that **refines** the old one: equal for every node kind and port except where the
real code tests `inputOffsets[i] == ~0ull` before looking at the value and gives up (arithmetic, compare, shift amount, multiplexer
selector, priority-conditional condition) — there the old value is all-undefined, which everything of the same width refines.
-/
namespace Gatery.C01
open Gatery.Nodes BV4

def OptU (a b : Option BV4) : Prop := a = b ∨ (a = none ∧ ∃ wi, b = some (undef wi))

abbrev InsU (a b : Ins) : Prop := Forall2 OptU a b

theorem optU_refl (a : Option BV4) : OptU a a := Or.inl rfl

theorem optU_some_inv {u : BV4} {b : Option BV4} (h : OptU (some u) b) : b = some u := by
  rcases h with h | ⟨h, _⟩
  · exact h.symm
  · cases h

theorem optBit_optU {a b : Option BV4} (h : OptU a b) (j : Nat) : optBit a j = optBit b j := by
  rcases h with h | ⟨h, wi, hb⟩
  · rw [h]
  · subst h; subst hb; simp [optBit]

theorem copyIn_optU (w : Nat) {a b : Option BV4} (h : OptU a b) : copyIn w a = copyIn w b := by
  rcases h with h | ⟨h, wi, hb⟩
  · rw [h]
  · subst h; subst hb
    apply ext_bit (by simp [copyIn])
    intro i _
    simp [copyIn, bit_tab]

theorem inBit_optU {a b : Ins} (h : InsU a b) (k j : Nat) : inBit a k j = inBit b k j := by
  have := forall₂_getD h none none (optU_refl none) k
  have e := optBit_optU this j
  simpa [inBit, optBit] using e

theorem insU_eq_of_all_defined {a b : Ins} (h : InsU a b) (hd : a.all inDefined = true) : a = b := by
  induction h with
  | nil => rfl
  | @cons x y l l' hxy _ ih =>
    simp only [List.all_cons, Bool.and_eq_true] at hd
    rcases hxy with e | ⟨e, _⟩
    · rw [e, ih hd.2]
    · subst e; simp [inDefined] at hd

theorem mergeBit_insU {a b : Ins} (h : InsU a b) (j : Nat) : mergeBit a j = mergeBit b j := by
  cases h with
  | nil => rfl
  | @cons x y l l' hxy hrest =>
    simp only [mergeBit]
    rw [optBit_optU hxy j]
    have : l.all (fun o => (optBit o j).isDef && (optBit o j).val == (optBit y j).val)
         = l'.all (fun o => (optBit o j).isDef && (optBit o j).val == (optBit y j).val) := by
      clear hxy
      induction hrest with
      | nil => rfl
      | cons hab _ ih => simp only [List.all_cons, ih, optBit_optU hab j]
    rw [this]

theorem prioGo_insU (w : Nat) {d d' : Option BV4} (hd : OptU d d') {a b : Ins} (h : InsU a b) :
    prioGo w d a ⊑ prioGo w d' b := by
  induction a using prioGo.induct generalizing b with
  | case1 v rest =>       -- condition without state
    simp only [prioGo]; exact undef_le (length_prioGo _ _ _)
  | case2 v rest cb hx =>
    simp only [prioGo, hx]; exact undef_le (length_prioGo _ _ _)
  | case3 v rest cb ht =>
    cases h with
    | cons h1 h2 => cases h2 with
      | cons hv hr =>
        rw [optU_some_inv h1]
        simp only [prioGo, ht]; rw [copyIn_optU w hv]; exact BV4.le_refl _
  | case4 v rest cb hf ih =>
    cases h with
    | cons h1 h2 => cases h2 with
      | cons hv hr =>
        rw [optU_some_inv h1]
        simp only [prioGo, hf]; exact ih hr
  | case5 l hl =>
    -- fewer than two entries left: the default is copied
    have : prioGo w d l = copyIn w d := by
      unfold prioGo
      split
      · rename_i c v rest; exact absurd rfl (hl c v rest)
      · rfl
    rw [this]
    have hb : prioGo w d' b = copyIn w d' := by
      unfold prioGo
      split
      · cases h with
        | cons h1 h2 =>
          cases h2 with
          | cons h3 h4 => exact absurd rfl (hl _ _ _)
      · rfl
    rw [hb, copyIn_optU w hd]; exact BV4.le_refl _

/-- **Every core node, any number of ports at once.** -/
theorem evalNode_insU (k : NodeKind) (w : Nat) {a b : Ins} (h : InsU a b) : evalNode k w a ⊑ evalNode k w b := by
  cases k with
  | logic op =>
    have : evalLogic op w a = evalLogic op w b := by
      unfold evalLogic; simp only [inBit_optU h]
    simp only [evalNode, this]; exact BV4.le_refl _
  | arith op =>
    simp only [evalNode]
    by_cases hd : a.all inDefined = true
    · rw [insU_eq_of_all_defined h hd]; exact BV4.le_refl _
    · have : evalArith op w a = undef w := by unfold evalArith; simp [hd]
      rw [this]; exact undef_le (length_evalArith _ _ _)
  | compare op ty =>
    simp only [evalNode]
    by_cases hd : ∃ x y, a = [some x, some y]
    · obtain ⟨x, y, rfl⟩ := hd
      cases h with
      | cons h1 h2 => cases h2 with
        | cons h3 h4 => cases h4; rw [optU_some_inv h1, optU_some_inv h3]; exact BV4.le_refl _
    · have : evalCompare op a = [.x] := by
        unfold evalCompare
        split
        · exact absurd ⟨_, _, rfl⟩ hd
        · rfl
      rw [this]
      exact (undef_le (length_evalCompare op b) : undef 1 ⊑ _)
  | shift d fl =>
    simp only [evalNode]
    have h1 := forall₂_getD h none none (optU_refl none) 1
    cases ha : a.getD 1 none with
    | none =>
      have : evalShift d fl w a = undef w := by unfold evalShift; rw [ha]
      rw [this]; exact undef_le (length_evalShift _ _ _ _)
    | some amount =>
      rw [ha] at h1
      have hb := optU_some_inv h1
      have : evalShift d fl w a = evalShift d fl w b := by
        unfold evalShift shiftFill
        rw [ha, hb]
        simp only [inBit_optU h]
      rw [this]; exact BV4.le_refl _
  | rewire rs =>
    have : evalRewire rs a = evalRewire rs b := by
      unfold evalRewire
      congr 1
      funext r
      unfold evalRange
      simp only [inBit_optU h]
    simp only [evalNode, this]; exact BV4.le_refl _
  | mux =>
    simp only [evalNode]
    cases h with
    | nil => exact BV4.le_refl _
    | @cons x y l l' hxy hrest =>
      cases x with
      | none => exact (undef_le (length_evalMux w _) : undef w ⊑ _)
      | some sel =>
        rw [optU_some_inv hxy]
        have hl := forall₂_length hrest
        have hm : (fun j => mergeBit l j) = (fun j => mergeBit l' j) := funext (mergeBit_insU hrest)
        have hc : ∀ s, copyIn w (l.getD s none) = copyIn w (l'.getD s none) := fun s =>
          copyIn_optU w (forall₂_getD hrest none none (optU_refl none) s)
        have : evalMux w (some sel :: l) = evalMux w (some sel :: l') := by
          simp only [evalMux, hl, hc]
          have hm' : tab w (mergeBit l) = tab w (mergeBit l') := by
            have := congrArg (tab w) hm; simpa using this
          rw [hm']
        rw [this]; exact BV4.le_refl _
  | prio =>
    simp only [evalNode]
    cases h with
    | nil => exact BV4.le_refl _
    | cons hd hrest => exact prioGo_insU w hd hrest
  | const v => exact BV4.le_refl _

/-- the relation holds when one port goes from "no state" to an all-undefined vector -/
theorem insU_set (ins : Ins) (i wi : Nat) : InsU (ins.set i none) (ins.set i (some (undef wi))) := by
  induction ins generalizing i with
  | nil => exact .nil
  | cons x xs ih =>
    cases i with
    | zero => exact .cons (Or.inr ⟨rfl, wi, rfl⟩) (forall₂_refl optU_refl _)
    | succ j => exact .cons (optU_refl _) (ih j)

theorem gather_set (vals : Vals) (ins : List (Option Nat)) (i : Nat) (o : Option Nat) :
    gather vals (ins.set i o) = (gather vals ins).set i (match o with | none => none | some j => vals.getD j none) := by
  unfold gather
  rw [List.map_set]
  cases o <;> rfl

/-- **Netlist form.** A node one of whose input ports is unconnected (`ins[i] = none`) is re-wired at that port to an earlier node
    `c` that evaluates to an all-undefined constant of any width: a locally sound replacement in the sense of `Congr.lean`, hence
    (by `replace_sound` / `Rewrites`) behaviour preserving for the whole netlist, any number of times. -/
theorem insertConstUndef_localSound {ok : Env → Prop} (pre : List NetNode) (k : NodeKind) (ty : CType) (w : Nat) (ins : List (Option Nat))
    (i c wi : Nat) (hi : ins.getD i none = none)
    (hc : ∀ env, ok env → (evalNet env pre).getD c none = some (undef wi)) :
    LocalSound ok pre ⟨.node k ty, w, ins⟩ ⟨.node k ty, w, ins.set i (some c)⟩ := by
  have key : ∀ env, ok env → evalNode k w (gather (evalNet env pre) ins) ⊑ evalNode k w (gather (evalNet env pre) (ins.set i (some c))) := by
    intro env hok
    have h0 : gather (evalNet env pre) ins = (gather (evalNet env pre) ins).set i none := by
      have : ins = ins.set i none := by
        apply List.ext_getElem? ; intro j
        rw [List.getElem?_set]
        by_cases hj : i = j
        · subst hj
          by_cases hl : i < ins.length
          · simp only [hl, if_true]
            have : ins.getD i none = ins[i] := by simp [List.getD_eq_getElem?_getD, hl]
            rw [List.getElem?_eq_getElem hl, ← this, hi]
          · simp [hl]
        · simp [hj]
      conv => lhs; rw [this]
      rw [gather_set]
    rw [gather_set, h0]
    simp only [hc env hok, List.set_set]
    exact evalNode_insU k w (insU_set _ i wi)
  constructor
  · intro env hok
    simp only [evalNetNode, optCompat]
    exact compat_of_le (key env hok)
  · intro env hok _ ⟨v, hv, hd⟩
    simp only [evalNetNode] at hv ⊢
    injection hv with hv
    rw [← eq_of_le_of_allDef (key env hok) (by rw [hv]; exact hd)]

end Gatery.C01
