import GateryModel.C01.Masking
/-!
# C01 — `cullUnusedNodes` / `cullOrphanedSignalNodes`: a node nobody reads does not matter

Removing a node is modelled as replacing it by an arbitrary node (indices stay put): if no node reads it, every other value is unchanged,
for every environment, undefined bits included.  (Generalises to any set of mutually unread nodes: `unread_set_irrelevant`.)
-/
namespace Gatery.C01
open Gatery.Nodes BV4

/-- **Unread nodes are irrelevant.** `S` marks nodes that may be changed arbitrarily; if no unmarked node reads a marked one, all unmarked
    nodes keep their values. -/
theorem unread_set_irrelevant (env : Env) (old new : List NetNode) (hlen : new.length = old.length) (S : Nat → Bool)
    (htopo : Topo old)
    (hsame : ∀ j, S j = false → new[j]? = old[j]?)
    (hunread : ∀ j n, old[j]? = some n → S j = false → ∀ i, some i ∈ n.ins → S i = false) :
    ∀ j, S j = false → (evalNet env new).getD j none = (evalNet env old).getD j none := by
  apply agree_outside env old new hlen S
  intro j n' hn' hs ih
  have hold : old[j]? = some n' := by rw [← hsame j hs]; exact hn'
  rw [evalNet_node env old htopo j n' hold]
  have hlt : j < new.length := (List.getElem?_eq_some_iff.mp hn').1
  apply evalNetNode_congr; apply gather_congr
  intro i hi
  have hij : i < j := htopo j n' hold i hi
  rw [evalNet_take_getD env new j i hij (by omega)]
  exact ih i hij (hunread j n' hold hs i hi)

/-- one unread node -/
theorem unread_node_irrelevant (env : Env) (old new : List NetNode) (k : Nat) (hlen : new.length = old.length) (htopo : Topo old)
    (hsame : ∀ j, j ≠ k → new[j]? = old[j]?)
    (hunread : ∀ j n, old[j]? = some n → j ≠ k → some k ∉ n.ins) :
    ∀ j, j ≠ k → (evalNet env new).getD j none = (evalNet env old).getD j none := by
  intro j hj
  have := unread_set_irrelevant env old new hlen (fun i => i == k) htopo
    (fun j hs => hsame j (by simpa using hs))
    (fun j n hn hs i hi => by
      have hjk : j ≠ k := by simpa using hs
      have := hunread j n hn hjk
      by_cases hik : i = k
      · subst hik; exact absurd hi this
      · simpa using hik)
    j (by simpa using hj)
  exact this

end Gatery.C01
