import GateryModel.C02.Vhdl.Sem
/-!
# C02 — model of the exporter: expression formatting, statement construction, list scheduler, register process

Everything here produces `Vhdl.Expr` / `Vhdl.Stmt` *syntax* exactly as `/repo/source/gatery/export/vhdl/Process.cpp` prints it
(parentheses are `Expr.paren` nodes, so the parsed text of an exported file can be compared with the model output).

* `fmt…`        — the per-node-kind cases of `CombinatoryProcess::formatExpression` (`Process.cpp:262-655`)
* `muxStmt…`    — statement construction for multiplexers / priority conditionals / tristate pins (`Process.cpp:657-900`)
* `schedule`    — the readiness list scheduler at the end of `CombinatoryProcess::writeVHDL` (`Process.cpp:990-1046`)
* `regProcess`  — `RegisterProcess::writeVHDL` (`Process.cpp:1092-1243`)
-/
namespace Gatery.C02
open Vhdl

/-- `VHDLDataType` as far as `formatExpression` distinguishes contexts -/
inductive Ctx | bool | sl | slv | uns
  deriving DecidableEq, Repr, Inhabited

def Ctx.conv : Ctx → Option Fn1
  | .slv => some .toSlv | .uns => some .toUnsigned | _ => none

/-! ## expressions: one function per node kind -/

/-- reference to a declared object (`m_inputs ∪ m_outputs ∪ m_localSignals ∪ m_constants ∪ m_nonVariableSignals`, or an io pin)
in a context (`Process.cpp:275-301`, `343-369`): `declTy` is the declared VHDL type, `isBVec` whether the hlim output is a bit vector -/
def fmtRef (ctx : Ctx) (name : String) (declTy : Ctx) (isBVec : Bool) : Expr :=
  match ctx with
  | .bool => .bin .eq (.name name) (.chr .I)                    -- name = '1'
  | .sl => if isBVec then .index name (.int 0) else .name name  -- name(0) | name
  | .slv => if declTy == .slv then .name name else .call1 .toSlv (.name name)
  | .uns => if declTy == .uns then .name name else .call1 .toUnsigned (.name name)

/-- `Node_Logic` (`Process.cpp:428-451`): operands are formatted in the SAME context -/
def fmtLogic2 (op : BinOp) (a b : Expr) : Expr := .paren (.bin op a b)
def fmtNot (a : Expr) : Expr := .paren (.not a)

inductive ArithOp | add | sub | mul
  deriving DecidableEq, Repr, Inhabited

def ArithOp.bin : ArithOp → BinOp
  | .add => .add | .sub => .sub | .mul => .mul

/-- the width VHDL gives to the result (`Process.cpp:380-402`) -/
def vhdlArithWidth (op : ArithOp) (wa wb : Nat) : Nat :=
  match op with
  | .mul => wa + wb
  | _ => wa

/-- `Node_Arithmetic` with two operands (`Process.cpp:372-425`); operands are formatted in context UNSIGNED -/
def fmtArith (ctx : Ctx) (op : ArithOp) (a b : Expr) (wa wb outW : Nat) : Expr :=
  let body := Expr.bin op.bin a b
  let body := if outW < vhdlArithWidth op wa wb then Expr.call2 .resize body (.int outW) else body
  if ctx == .slv then .call1 .toSlv body else .paren body

/-- `Node_Compare` (`Process.cpp:454-479`); operands in context UNSIGNED (bit vectors) or STD_LOGIC (bits) -/
def fmtCompare (ctx : Ctx) (op : BinOp) (a b : Expr) : Expr :=
  if ctx == .sl then .call1 .bool2sl (.bin op a b) else .paren (.bin op a b)

/-- `BaseGrouping::formatConstant` (`BaseGrouping.cpp:163-183`); `bits`: value with undefined elements as 'X', index 0 first -/
def fmtConst (ctx : Ctx) (bits : Bits) : Expr :=
  match ctx with
  | .bool => .boolLit (bits == [.I])
  | .sl => .chr (bits.headD .X)
  | _ => .str bits

/-- one output range of a `Node_Rewire`, already resolved against its driver -/
inductive RPart
  | whole (e : Expr)                       -- the complete driver (formatted in context UNSIGNED or STD_LOGIC)
  | slice (name : String) (hi lo : Nat)    -- driver(hi downto lo); the driver is a declared UNSIGNED object
  | const (c : SL) (w : Nat)               -- CONST_ZERO / CONST_ONE (/ CONST_UNDEFINED printed as lower-case x: not VHDL)
  deriving Repr, Inhabited

def RPart.expr (singleBit : Bool) : RPart → Expr
  | .whole e => e
  | .slice n hi lo => .slice n hi lo
  | .const c w => if singleBit then .chr c else .str (List.replicate w c)

/-- general `Node_Rewire` (`Process.cpp:536-622`): concatenation in REVERSE range order (most significant range first).
`parts` is in hlim order (least significant first); `mustCast`: some input is a bit vector -/
def fmtRewireCat (ctx : Ctx) (parts : List RPart) (mustCast : Bool) : Expr :=
  let single := ctx == .sl || ctx == .bool
  match parts.reverse.map (RPart.expr single) with
  | [] => .str []
  | e :: rest =>
    let body := rest.foldl (fun acc x => Expr.bin .cat acc x) e
    if ctx == .slv && mustCast then .call1 .toSlv body
    else if parts.length > 1 then .paren body
    else body

/-- bit extraction rewire from a bit-vector driver that is a declared UNSIGNED object (`Process.cpp:495-521`) -/
def fmtBitExtract (ctx : Ctx) (name : String) (idx : Nat) : Expr :=
  match ctx with
  | .bool => .bin .eq (.index name (.int idx)) (.chr .I)
  | .sl => .index name (.int idx)
  | .uns => .slice name idx idx
  | .slv => .call1 .toSlv (.slice name idx idx)

/-- bool → 1-bit vector cast rewire (`Process.cpp:522-527`) -/
def fmtBoolToVec (a : Expr) : Expr := .agg0 a

/-- `Node_Shift` (`Process.cpp:639-652`) -/
def fmtShift (left : Bool) (a amount : Expr) : Expr :=
  .call2 (if left then .shiftLeft else .shiftRight) a (.call1 .toInteger amount)

/-! ## statements -/

/-- assignment to a local (variable `:=`) or anything else (signal `<=`) (`Process.cpp:716-719`) -/
def assignStmt (isLocal : Bool) (target : String) (e : Expr) : Stmt :=
  if isLocal then .varAssign target e else .sigAssign (.name target) e

/-- binary multiplexer with BOOL selector (`Process.cpp:776-797`): `IF sel THEN t := in1 ELSE t := in0` -/
def muxIfStmt (isLocal : Bool) (target : String) (selBool in0 in1 : Expr) : Stmt :=
  .ite selBool (.cons (assignStmt isLocal target in1) .nil) (.cons (assignStmt isLocal target in0) .nil)

/-- little-endian bits of `n`, `w` of them -/
def bitsOfNat : Nat → Nat → List Bool
  | 0, _ => []
  | w + 1, n => (n % 2 == 1) :: bitsOfNat w (n / 2)

/-- selector literal of input `i` for a selector of width `w`, index 0 first (`Process.cpp:808-814` prints bit `w-1-k` of
`inputIdx` at position `k`, i.e. MSB first) -/
def selBits (w i : Nat) : Bits := ofBools (bitsOfNat w i)

/-- the `WHEN OTHERS` value (`Process.cpp:822-834`): `"X…X"` for vector targets, `'X'` for a STD_LOGIC target -/
def muxOthers (ctx : Ctx) (width : Nat) : Expr :=
  if ctx == .slv || ctx == .uns then .str (List.replicate width .X) else .chr .X

def caseAlts (isLocal : Bool) (target : String) (w : Nat) (xE : Expr) : Nat → List Expr → Alts
  | _, [] => .cons none (.cons (assignStmt isLocal target xE) .nil) .nil
  | i, e :: rest => .cons (some (selBits w i)) (.cons (assignStmt isLocal target e) .nil) (caseAlts isLocal target w xE (i + 1) rest)

/-- n-ary multiplexer (`Process.cpp:798-838`): `CASE sel IS WHEN "…" => t := in_i; … WHEN OTHERS => t := "X…X"; END CASE` -/
def muxCaseStmt (isLocal : Bool) (target : String) (selUns : Expr) (selWidth : Nat) (xE : Expr) (ins : List Expr) : Stmt :=
  .case selUns (caseAlts isLocal target selWidth xE 0 ins)

/-- priority conditional (`Process.cpp:844-880`): `IF c0 THEN t := v0 ELSIF c1 … ELSE t := default` -/
def prioStmt (isLocal : Bool) (target : String) (dflt : Expr) : List (Expr × Expr) → Stmt
  | [] => assignStmt isLocal target dflt
  | (c, v) :: rest => .ite c (.cons (assignStmt isLocal target v) .nil) (.cons (prioStmt isLocal target dflt rest) .nil)

/-- tristate output pin (`Process.cpp:745-765`) -/
def tristateStmt (target : String) (enableBool value : Expr) (isBool : Bool) : Stmt :=
  .ite enableBool (.cons (.sigAssign (.name target) value) .nil)
    (.cons (.sigAssign (.name target) (if isBool then .chr .Z else .others .Z)) .nil)

/-! ## the list scheduler (`Process.cpp:990-1046`) -/

/-- a statement as the scheduler sees it: what it reads, what it produces, its tie-break index (`weakOrderIdx` = node id) -/
structure SStmt (α : Type) where
  inputs : List α
  outputs : List α
  weak : Nat
  tag : Nat := 0          -- identity of the statement (position in the construction order), not used by the algorithm
  deriving Repr, Inhabited

def SStmt.ready [DecidableEq α] (s : SStmt α) (rdy : List α) : Bool := s.inputs.all (rdy.contains ·)

/-- index of the ready statement with the smallest `weak` (the first such in array order on ties) — the `for` loop -/
def pickBest [DecidableEq α] (stmts : List (SStmt α)) (rdy : List α) : Option Nat :=
  let rec go (l : List (SStmt α)) (i : Nat) (best : Option (Nat × Nat)) : Option (Nat × Nat) :=
    match l with
    | [] => best
    | s :: r =>
      if s.ready rdy then
        match best with
        | none => go r (i + 1) (some (i, s.weak))
        | some (_, w) => if s.weak < w then go r (i + 1) (some (i, s.weak)) else go r (i + 1) best
      else go r (i + 1) best
  (go stmts 0 none).map (·.1)

/-- `statements[best] = std::move(statements.back()); statements.pop_back()` -/
def swapRemove (l : List α) (i : Nat) : List α :=
  match l.getLast? with
  | none => []
  | some lastElem => if i + 1 == l.length then l.dropLast else (l.set i lastElem).dropLast

/-- the `while (!statements.empty())` loop; `none` = the `HCL_ASSERT_HINT(… "Cyclic dependency of signals detected!")` -/
def scheduleLoop [DecidableEq α] : Nat → List (SStmt α) → List α → List (SStmt α) → Option (List (SStmt α))
  | 0, stmts, _, acc => if stmts.isEmpty then some acc.reverse else none
  | fuel + 1, stmts, rdy, acc =>
    if stmts.isEmpty then some acc.reverse else
    match pickBest stmts rdy with
    | none => none
    | some i =>
      match stmts[i]? with
      | none => none
      | some s => scheduleLoop fuel (swapRemove stmts i) (rdy ++ s.outputs) (s :: acc)

def schedule [DecidableEq α] (stmts : List (SStmt α)) (initiallyReady : List α) : Option (List (SStmt α)) :=
  scheduleLoop stmts.length stmts initiallyReady []

/-! ## register process (`Process.cpp:1092-1243`) -/

inductive ResetKind | none | sync | async
  deriving DecidableEq, Repr, Inhabited

inductive Trigger | rising | falling | both
  deriving DecidableEq, Repr, Inhabited

structure RegCfg where
  clock : String
  reset : String := ""
  kind : ResetKind := .none
  resetHigh : Bool := true
  trigger : Trigger := .rising
  deriving Repr, Inhabited

/-- one `Node_Register` of the process -/
structure RegNode where
  out : String                 -- declared name of the register output
  outTy : Ty                   -- its declared type (STD_LOGIC / UNSIGNED(w) / STD_LOGIC_VECTOR(w))
  data : Option (String × Ty)  -- declared name and type of the data input; none: unconnected
  enable : Option String
  resetValue : Bits := []      -- the constant reset value (used when the configuration has a reset)
  deriving Repr, Inhabited

def tyCtx : Ty → Ctx
  | .stdLogic => .sl | .slv _ => .slv | .uns _ => .uns | _ => .bool

def clockCond (cfg : RegCfg) : Expr :=
  match cfg.trigger with
  | .rising => .paren (.edge true cfg.clock)
  | .falling => .paren (.edge false cfg.clock)
  | .both => .paren (.event cfg.clock)

def resetCond (cfg : RegCfg) : Expr :=
  .paren (.bin .eq (.name cfg.reset) (.chr (if cfg.resetHigh then .I else .O)))

def resetAssigns : List RegNode → Stmts
  | [] => .nil
  | r :: rest => .cons (.sigAssign (.name r.out) (fmtConst (tyCtx r.outTy) r.resetValue)) (resetAssigns rest)

/-- `out <= [TYPE(]in[)]` — the conversion is written iff the declared data types differ (`Process.cpp:1206-1210`) -/
def dataExpr (r : RegNode) : Expr :=
  match r.data with
  | none => .others .X
  | some (n, ty) =>
    if tyCtx ty == tyCtx r.outTy then .name n
    else match (tyCtx r.outTy).conv with
      | some f => .call1 f (.name n)
      | none => .name n

def regAssign (r : RegNode) : Stmt :=
  match r.data, r.enable with
  | some _, some en => .ite (.paren (.bin .eq (.name en) (.chr .I))) (.cons (.sigAssign (.name r.out) (dataExpr r)) .nil) .nil
  | _, _ => .sigAssign (.name r.out) (dataExpr r)

def regAssigns : List RegNode → Stmts
  | [] => .nil
  | r :: rest => .cons (regAssign r) (regAssigns rest)

/-- body of the emitted clocked process -/
def regProcessBody (cfg : RegCfg) (regs : List RegNode) : Stmts :=
  match cfg.kind with
  | .async =>
    .cons (.ite (resetCond cfg) (resetAssigns regs)
      (.cons (.ite (clockCond cfg) (regAssigns regs) .nil) .nil)) .nil
  | .sync =>
    .cons (.ite (clockCond cfg) (.cons (.ite (resetCond cfg) (resetAssigns regs) (regAssigns regs)) .nil) .nil) .nil
  | .none =>
    .cons (.ite (clockCond cfg) (regAssigns regs) .nil) .nil

def regProcessSens (cfg : RegCfg) : List String :=
  if cfg.kind == .async then [cfg.clock, cfg.reset] else [cfg.clock]

end Gatery.C02
