import Std
import GateryModel.C02.Export
/-!
# C02 — the exporter model run on a dumped netlist: `formatExpression`'s recursion, statement construction, scheduling

`Export.lean` has one function per node kind; this file composes them exactly like `CombinatoryProcess::formatExpression`
(`Process.cpp:262-655`) recurses through the netlist until it reaches a declared object, and like `writeVHDL`
(`Process.cpp:657-1054`) constructs one statement per output / local / non-variable signal / output pin and schedules them.
The driver feeds it the exporter's view of a process (`harness/c02.cpp: dumpExporterView`) and compares the resulting statement
list with the parsed text of the really exported process.
-/
namespace Gatery.C02
open Vhdl Std

abbrev NP := Nat × Nat          -- (node id, output port)

inductive RangeSrc | input (idx off : Nat) | zero | one | undef
  deriving Repr, Inhabited

structure XNode where
  id : Nat
  kind : String
  outs : List (Char × Nat) := []          -- ('B' | 'V' | 'O', width) per output port
  ins : List (Option NP) := []
  op : String := ""
  ranges : List (Nat × RangeSrc) := []    -- hlim order: least significant first
  constVal : Bits := []                   -- index 0 first, undefined = 'X'
  pinDir : String := ""
  deriving Repr, Inhabited

structure XDecl where
  name : String
  ty : Ctx
  cls : String                            -- in | out | local | const | nonvar
  deriving Repr, Inhabited

structure XProc where
  entity : String := ""
  name : String := ""
  isReg : Bool := false
  decls : List (NP × XDecl) := []
  pins : List (Nat × String × Ctx) := []
  nodes : HashMap Nat XNode := {}
  order : List Nat := []                  -- m_nodes
  resetVals : List (Nat × Nat) := []      -- register id ↦ constant node id
  regCfg : Option RegCfg := none
  regClks : List (Nat × Trigger × ResetKind × Bool × Bool) := []   -- register ↦ its clock's trigger, reset type, reset active high, register has a reset value
  deriving Inhabited

def XProc.outType (p : XProc) (np : NP) : Option (Char × Nat) := do
  let n ← p.nodes.get? np.1
  n.outs[np.2]?

def XProc.isBVec (p : XProc) (np : NP) : Bool := match p.outType np with | some ('V', _) => true | _ => false
def XProc.isBool (p : XProc) (np : NP) : Bool := match p.outType np with | some ('B', _) => true | _ => false
def XProc.width (p : XProc) (np : NP) : Nat := match p.outType np with | some (_, w) => w | none => 0

abbrev FM := Except String

/-- result of formatting: the expression and the declared objects it refers to (`dependentInputs`) -/
abbrev Fmt := Expr × List NP

def logicBin (op : String) : Option BinOp :=
  match op with
  | "AND" => some .and | "NAND" => some .nand | "OR" => some .or | "NOR" => some .nor | "XOR" => some .xor | "EQ" => some .xnor | _ => none

def compareBin (op : String) : Option BinOp :=
  match op with
  | "EQ" => some .eq | "NEQ" => some .ne | "LT" => some .lt | "GT" => some .gt | "LEQ" => some .le | "GEQ" => some .ge | _ => none

def arithOp (op : String) : Option ArithOp :=
  match op with
  | "ADD" => some .add | "SUB" => some .sub | "MUL" => some .mul | _ => none

/-- `Node_Rewire::RewireOperation::isBitExtract` (`Node_Rewire.cpp:28-40`) -/
def isBitExtract (ranges : List (Nat × RangeSrc)) : Option Nat :=
  match ranges with
  | [(1, .input 0 off)] => some off
  | _ => none

/-- `Node_Rewire::isNoOp` (`Node_Rewire.cpp:278-296`) -/
def isNoOp (p : XProc) (n : XNode) : Bool :=
  match n.ins with
  | some d :: _ =>
    (p.outType d == n.outs[0]?) &&
    (n.ranges.foldl (fun (acc : Option Nat) r => match acc, r with
      | some off, (w, .input 0 o) => if o == off then some (off + w) else none
      | _, _ => none) (some 0)).isSome
  | _ => false

def pinRef (ctx : Ctx) (name : String) (declTy : Ctx) (isBVec : Bool) : Expr :=
  match ctx with
  | .bool => .bin .eq (.name name) (.chr .I)
  | .sl => if isBVec then .index name (.int 0) else .name name
  | _ => if declTy != ctx then (match ctx.conv with | some f => .call1 f (.name name) | none => .name name) else .name name

/-- `CombinatoryProcess::formatExpression` -/
def formatExpr (p : XProc) : Nat → Option NP → Ctx → Bool → FM Fmt
  | 0, _, _, _ => .error "formatExpression: recursion too deep (cyclic netlist?)"
  | _, none, _, _ => .ok (.others .X, [])
  | fuel + 1, some np, ctx, forceUnfold => do
    let named := if forceUnfold then none else p.decls.lookup np
    match named with
    | some d => .ok (fmtRef ctx d.name d.ty (p.isBVec np), [np])
    | none =>
      let some n := p.nodes.get? np.1 | .error s!"node {np.1} not in the dump"
      let inp := fun (i : Nat) => (n.ins[i]?).join
      match n.kind with
      | "reg" => .error "register reached by formatExpression (HCL_ASSERT)"
      | "mux" => .error "multiplexer reached by formatExpression (HCL_ASSERT)"
      | "signal" | "attribs" => formatExpr p fuel (inp 0) ctx false
      | "expoverride" => formatExpr p fuel (inp 1) ctx false
      | "pin" =>
        match p.pins.find? (·.1 == n.id) with
        | some (_, name, ty) => .ok (pinRef ctx name ty (p.isBVec np), [])
        | none => .error s!"pin {n.id} without declaration"
      | "arith" =>
        let some op := arithOp n.op | .error s!"arithmetic op {n.op} is not exportable"
        match n.ins with
        | [a, b] =>
          let (ea, da) ← formatExpr p fuel a .uns false
          let (eb, db) ← formatExpr p fuel b .uns false
          let wa := (a.map p.width).getD 0
          let wb := (b.map p.width).getD 0
          .ok (fmtArith ctx op ea eb wa wb (p.width np), da ++ db)
        | _ => .error "arithmetic node with other than two operands is not modelled"
      | "logic" =>
        if n.op == "NOT" then do
          let (ea, da) ← formatExpr p fuel (inp 0) ctx false
          .ok (fmtNot ea, da)
        else
          let some op := logicBin n.op | .error s!"logic op {n.op}"
          let (ea, da) ← formatExpr p fuel (inp 0) ctx false
          let (eb, db) ← formatExpr p fuel (inp 1) ctx false
          .ok (fmtLogic2 op ea eb, da ++ db)
      | "compare" =>
        let some op := compareBin n.op | .error s!"compare op {n.op}"
        let sub : Ctx := if ((inp 0).map p.isBool).getD false then .sl else .uns
        let (ea, da) ← formatExpr p fuel (inp 0) sub false
        let (eb, db) ← formatExpr p fuel (inp 1) sub false
        .ok (fmtCompare ctx op ea eb, da ++ db)
      | "const" => .ok (fmtConst ctx n.constVal, [])
      | "rewire" =>
        if isNoOp p n then formatExpr p fuel (inp 0) ctx false
        else match isBitExtract n.ranges with
        | some idx =>
          if ((inp 0).map p.isBVec).getD false then do
            let (ed, dd) ← formatExpr p fuel (inp 0) .uns false
            match ed with
            | .name nm => .ok (fmtBitExtract ctx nm idx, dd)
            | _ => .error "bit extraction from an expression that is not a plain UNSIGNED name (not legal VHDL)"
          else do
            let (ed, dd) ← formatExpr p fuel (inp 0) .sl false
            .ok (fmtBoolToVec ed, dd)
        | none =>
          if ctx == .bool then
            match n.ranges with
            | [(1, .one)] => .ok (.boolLit true, [])
            | [(1, .zero)] | [(1, .undef)] => .ok (.boolLit false, [])
            | _ => .error "rewire in BOOL context (HCL_ASSERT)"
          else do
            let mut parts : List RPart := []
            let mut deps : List NP := []
            let mut mustCast := false
            -- the C++ loop runs over the ranges in reverse (most significant first) and formats in that order: the order of the
            -- dependency list does not matter (it is a set)
            for (w, src) in n.ranges do
              match src with
              | .zero => parts := parts ++ [.const .O w]
              | .one => parts := parts ++ [.const .I w]
              | .undef => return ← .error "CONST_UNDEFINED range: the exporter prints lower-case x (not a std_logic literal)"
              | .input idx off =>
                let d := inp idx
                let isV := (d.map p.isBVec).getD false
                if isV then mustCast := true
                let (ed, dd) ← formatExpr p fuel d (if isV then .uns else .sl) false
                deps := deps ++ dd
                let dw := (d.map p.width).getD 0
                if d.isSome && (off != 0 || w != dw) then
                  match ed with
                  | .name nm => parts := parts ++ [.slice nm (off + w - 1) off]
                  | _ => return ← .error "slice of an expression that is not a plain name (not legal VHDL)"
                else parts := parts ++ [.whole ed]
            .ok (fmtRewireCat ctx parts mustCast, deps)
      | k => .error s!"node kind '{k}' is not modelled"

/-- one constructed statement with its scheduling data -/
structure CStmt where
  stmt : Stmt
  inputs : List NP
  output : NP
  weak : Nat
  deriving Inhabited

def fuelFor (p : XProc) : Nat := p.nodes.size + 8

/-- `constructStatementsFor` (`Process.cpp:680-905`) -/
def constructStatement (p : XProc) (np : NP) : FM CStmt := do
  let some n := p.nodes.get? np.1 | .error s!"node {np.1} not in the dump"
  let fuel := fuelFor p
  let isLocal := match p.decls.lookup np with | some d => d.cls == "local" | none => false
  if n.kind == "pin" && (n.pinDir == "out" || n.pinDir == "inout") then
    let some (_, name, ty) := p.pins.find? (·.1 == n.id) | .error s!"pin {n.id} without declaration"
    let src := (n.ins[0]?).join
    let enable := (n.ins[1]?).join
    if n.pinDir == "inout" && enable.isSome then
      let (ee, de) ← formatExpr p fuel enable .bool false
      let (ev, dv) ← formatExpr p fuel src ty false
      let isBool := (src.map p.isBool).getD false
      return { stmt := tristateStmt name ee ev isBool, inputs := de ++ dv, output := np, weak := n.id }
    else
      let (ev, dv) ← formatExpr p fuel src ty false
      return { stmt := assignStmt isLocal name ev, inputs := dv, output := np, weak := n.id }
  else
    let some d := p.decls.lookup np | .error s!"statement target {np.1}:{np.2} has no declaration"
    if n.kind == "mux" then
      let sel := (n.ins[0]?).join
      let selW := (sel.map p.width).getD 0
      if selW == 0 then
        let (e, de) ← formatExpr p fuel ((n.ins[1]?).join) d.ty false
        return { stmt := assignStmt isLocal d.name e, inputs := de, output := np, weak := n.id }
      else if n.ins.length == 3 && (sel.map p.isBool).getD false then
        let (es, ds) ← formatExpr p fuel sel .bool false
        let (e1, d1) ← formatExpr p fuel ((n.ins[2]?).join) d.ty false
        let (e0, d0) ← formatExpr p fuel ((n.ins[1]?).join) d.ty false
        return { stmt := muxIfStmt isLocal d.name es e0 e1, inputs := ds ++ d1 ++ d0, output := np, weak := n.id }
      else
        let (es, ds) ← formatExpr p fuel sel .uns false
        let mut ins : List Expr := []
        let mut deps := ds
        for i in n.ins.drop 1 do
          let (e, de) ← formatExpr p fuel i d.ty false
          ins := ins ++ [e]
          deps := deps ++ de
        let w1 := (((n.ins[1]?).join).map p.width).getD 0
        return { stmt := muxCaseStmt isLocal d.name es selW (muxOthers d.ty w1) ins, inputs := deps, output := np, weak := n.id }
    else if n.kind == "prio" then
      let nChoices := (n.ins.length - 1) / 2
      let mut choices : List (Expr × Expr) := []
      let mut deps : List NP := []
      for c in [0:nChoices] do
        let (ec, dc) ← formatExpr p fuel ((n.ins[1 + c * 2]?).join) .bool false
        let (ev, dv) ← formatExpr p fuel ((n.ins[1 + c * 2 + 1]?).join) d.ty false
        choices := choices ++ [(ec, ev)]
        deps := deps ++ dc ++ dv
      let (ed, dd) ← formatExpr p fuel ((n.ins[0]?).join) d.ty false
      return { stmt := prioStmt isLocal d.name ed choices, inputs := deps ++ dd, output := np, weak := n.id }
    else
      let (e, de) ← formatExpr p fuel (some np) d.ty true
      return { stmt := assignStmt isLocal d.name e, inputs := de, output := np, weak := n.id }

/-- the statements of a combinatory process in emitted order -/
def combProcessBody (p : XProc) : FM (List Stmt) := do
  let targets := (p.decls.filter (·.2.cls == "out")).map (·.1) ++ (p.decls.filter (·.2.cls == "local")).map (·.1) ++
                 (p.decls.filter (·.2.cls == "nonvar")).map (·.1)
  let mut cs : List CStmt := []
  for t in targets do cs := cs ++ [← constructStatement p t]
  let procPins := p.order.filterMap fun id => match p.nodes.get? id with
    | some n => if n.kind == "pin" then some n else none
    | none => none
  -- `for (auto s : m_ioPins)`: StableSet = ascending node id
  let procPins := procPins.toArray.qsort (fun a b => a.id < b.id) |>.toList
  let mut ready : List NP := (p.decls.filter (fun d => d.2.cls == "in" || d.2.cls == "const")).map (·.1)
  for n in procPins do
    if n.pinDir == "in" || n.pinDir == "inout" then ready := ready ++ [(n.id, 0)]
    if (n.pinDir == "out" || n.pinDir == "inout") && ((n.ins[0]?).join).isSome && !(targets.contains (n.id, 0)) then
      cs := cs ++ [← constructStatement p (n.id, 0)]
  let sstmts : List (SStmt NP) := cs.zipIdx.map fun (c, i) => { inputs := c.inputs, outputs := [c.output], weak := c.weak, tag := i }
  match schedule sstmts ready with
  | none => .error "scheduler: cyclic dependency (HCL_ASSERT)"
  | some order => .ok (order.filterMap fun s => (cs[s.tag]?).map (·.stmt))

/-- `RegisterConfig::fromClock` (`Process.cpp:57-66`) as far as the emitted text depends on it: trigger event, reset type and
polarity come from the register's OWN clock (a derived clock may override them while sharing its parent's pin) -/
def regConfigFromClock (trig : Trigger) (rtype : ResetKind) (high hasResetValue : Bool) : Trigger × ResetKind × Bool :=
  let hasReset := hasResetValue && rtype != .none
  (trig, if hasReset then rtype else .none, if hasReset then high else true)

/-- every register of a process must have the configuration the process was emitted with (registers are grouped by it, `BasicBlock.cpp:455`) -/
def regConfigsAgree (p : XProc) : FM Unit := do
  let some cfg := p.regCfg | .error "register process without configuration"
  for id in p.order do
    match p.regClks.lookup id with
    | none => .error s!"register {id} without clock dump"
    | some (t, k, h, rv) =>
      let (t', k', h') := regConfigFromClock t k h rv
      if t' != cfg.trigger then .error s!"register {id}: its clock triggers on {repr t'} but the process is emitted for {repr cfg.trigger}"
      if k' != cfg.kind then .error s!"register {id}: reset kind {repr k'} vs process {repr cfg.kind}"
      if k' != .none && h' != cfg.resetHigh then .error s!"register {id}: reset polarity differs from the process"
  return ()

/-- the body of a register process (`RegisterProcess::writeVHDL`) from the dump -/
def regProcessFromDump (p : XProc) : FM (RegCfg × Stmts) := do
  let some cfg := p.regCfg | .error "register process without configuration"
  let mut regs : List RegNode := []
  for id in p.order do
    let some n := p.nodes.get? id | .error s!"node {id} not in the dump"
    if n.kind != "reg" then .error "non-register node in a register process"
    let some d := p.decls.lookup (id, 0) | .error s!"register {id} without declaration"
    let w := p.width (id, 0)
    let tyOf := fun (c : Ctx) (w : Nat) => match c with | .sl => Ty.stdLogic | .slv => Ty.slv w | .uns => Ty.uns w | .bool => Ty.boolean
    let data ← (match (n.ins[0]?).join with
      | none => pure none
      | some dnp => match p.decls.lookup dnp with
        | some dd => pure (some (dd.name, tyOf dd.ty (p.width dnp)))
        | none => .error s!"register data input {dnp.1}:{dnp.2} has no declaration")
    let enable ← (match (n.ins[2]?).join with
      | none => pure none
      | some enp => match p.decls.lookup enp with
        | some de => pure (some de.name)
        | none => .error "register enable has no declaration")
    let resetValue := match p.resetVals.lookup id with
      | some cid => match p.nodes.get? cid with | some c => c.constVal | none => []
      | none => []
    regs := regs ++ [{ out := d.name, outTy := tyOf d.ty w, data, enable, resetValue }]
  return (cfg, regProcessBody cfg regs)

end Gatery.C02
