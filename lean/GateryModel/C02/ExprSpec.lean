import GateryModel.C02.Export
/-!
# C02 — reference semantics of the exported node kinds on fully defined values, and the encoding of values in VHDL contexts

A fully defined hlim value is a `List Bool`, index 0 = least significant bit (what `sim::DefaultBitVectorState` holds when every
DEFINED bit is set).  The operator semantics below is the mathematical one (that gatery's nodes compute it is property C03).
-/
namespace Gatery.C02
open Vhdl

abbrev BV := List Bool

/-- reference: bitwise logic -/
def refLogic (op : BinOp) (a b : BV) : BV := List.zipWith (boolOp op) a b
def refNot (a : BV) : BV := a.map (!·)

/-- reference: ADD / SUB at the width of the operands, MUL truncated to `outW` bits -/
def refArith (op : ArithOp) (a b : BV) (outW : Nat) : BV :=
  match op with
  | .add => bitsOfNat outW (natOfBools a + natOfBools b)
  | .sub => bitsOfNat outW (natOfBools a + 2 ^ outW - natOfBools b)
  | .mul => bitsOfNat outW (natOfBools a * natOfBools b)

/-- reference: comparisons are the order of the unsigned values -/
def refCompare (op : BinOp) (a b : BV) : Bool :=
  match op with
  | .eq => natOfBools a == natOfBools b
  | .ne => natOfBools a != natOfBools b
  | .lt => natOfBools a < natOfBools b
  | .gt => natOfBools a > natOfBools b
  | .le => natOfBools a ≤ natOfBools b
  | .ge => natOfBools a ≥ natOfBools b
  | _ => false

/-- reference: multiplexer — the selected input, undefined (`none`) if the selector is out of range -/
def refMux (sel : BV) (ins : List α) : Option α := ins[natOfBools sel]?

/-- a vector value in a vector context: typed (`tag` 1 = STD_LOGIC_VECTOR, 2 = UNSIGNED) or an untyped literal -/
def VecIn (tag : Nat) (a : BV) (v : Val) : Prop := v = mkVec tag (ofBools a) ∨ v = .lit (ofBools a)

def isLit : Val → Bool
  | .lit _ => true
  | _ => false

/-- operands of `&`: a std_logic, an UNSIGNED or a literal -/
def Catable : Val → Prop
  | .sl _ => True | .uns _ => True | .lit _ => True | _ => False

def bitsOfVal : Val → Bits
  | .sl x => [x] | .uns b => b | .lit b => b | .slv b => b | _ => []

end Gatery.C02
