import GateryModel.C02.LemmasExpr
/-!
# C02 — numeric_std arithmetic on fully defined operands: the ripple-carry adder, the subtractor and the shift-and-add
multiplier of `numeric_std` compute the unsigned sum / difference / product modulo 2^n
-/
namespace Gatery.C02
open Vhdl

theorem addBools_length : ∀ (a b : BV) (c : Bool), a.length = b.length → (addBools a b c).length = a.length := by
  intro a
  induction a with
  | nil => intro b c _; simp [addBools]
  | cons x xs ih =>
    intro b c h
    cases b with
    | nil => simp at h
    | cons y ys => simp at h; simp [addBools, ih ys _ h]

/-- the ripple-carry loop adds: value = (a + b + carry) mod 2^n -/
theorem natOfBools_addBools : ∀ (a b : BV) (c : Bool), a.length = b.length →
    natOfBools (addBools a b c) = (natOfBools a + natOfBools b + (if c then 1 else 0)) % 2 ^ a.length := by
  intro a
  induction a with
  | nil => intro b c _; simp [addBools, natOfBools, Nat.mod_one]
  | cons x xs ih =>
    intro b c h
    cases b with
    | nil => simp at h
    | cons y ys =>
      simp at h
      simp only [addBools, natOfBools, ih ys _ h, List.length_cons, Nat.pow_succ]
      generalize hA : natOfBools xs = A
      generalize hB : natOfBools ys = B
      generalize hP : 2 ^ xs.length = P
      have hPpos : 0 < P := by rw [← hP]; exact Nat.two_pow_pos _
      have key : ∀ (s k t : Nat), s < 2 → t = s + 2 * k → t % (P * 2) = s + 2 * (k % P) := by
        intro s k t hs ht
        rw [Nat.mul_comm P 2, Nat.mod_mul]
        have h1 : t % 2 = s := by omega
        have h2 : t / 2 = k := by omega
        rw [h1, h2]
      have hsum : ((if x then 1 else 0) + 2 * A + ((if y then 1 else 0) + 2 * B) + (if c then 1 else 0)) =
          (if ((c != x) != y) then 1 else 0) + 2 * (A + B + (if ((c && x) || (c && y) || (x && y)) then 1 else 0)) := by
        cases x <;> cases y <;> cases c <;> simp <;> omega
      rw [key _ _ _ (by split <;> omega) hsum]

theorem eq_bitsOfNat (l : BV) (n : Nat) (h : natOfBools l = n % 2 ^ l.length) : l = bitsOfNat l.length n := by
  apply natOfBools_inj (by simp [bitsOfNat_length])
  rw [natOfBools_bitsOfNat, h]

theorem numAdd_ofBools (a b : BV) (h : a.length = b.length) :
    numAdd (ofBools a) (ofBools b) = ofBools (bitsOfNat a.length (natOfBools a + natOfBools b)) := by
  have hmax : max a.length b.length = a.length := by rw [h]; exact Nat.max_self _
  unfold numAdd
  simp only [ofBools_length, hmax, to01_ofBools]
  by_cases h0 : a.length < 1
  · have : a.length = 0 := by omega
    simp [h0, this, bitsOfNat, ofBools]
  · simp only [h0, if_false]
    have hrb : resizeBools b a.length = b := by rw [h]; exact resizeBools_self b
    rw [resizeBools_self, hrb]
    congr 1
    have hl := addBools_length a b false h
    have := eq_bitsOfNat (addBools a b false) (natOfBools a + natOfBools b)
      (by rw [natOfBools_addBools a b false h, hl]; simp)
    rw [hl] at this
    exact this

theorem natOfBools_map_not (l : BV) : natOfBools (l.map (!·)) + natOfBools l + 1 = 2 ^ l.length := by
  induction l with
  | nil => simp [natOfBools]
  | cons x xs ih =>
    simp only [List.map, natOfBools, List.length_cons, Nat.pow_succ]
    cases x <;> simp <;> omega

theorem numSub_ofBools (a b : BV) (h : a.length = b.length) :
    numSub (ofBools a) (ofBools b) = ofBools (bitsOfNat a.length (natOfBools a + 2 ^ a.length - natOfBools b)) := by
  have hmax : max a.length b.length = a.length := by rw [h]; exact Nat.max_self _
  unfold numSub
  simp only [ofBools_length, hmax, to01_ofBools]
  by_cases h0 : a.length < 1
  · have : a.length = 0 := by omega
    simp [h0, this, bitsOfNat, ofBools]
  · simp only [h0, if_false]
    have hrb : resizeBools b a.length = b := by rw [h]; exact resizeBools_self b
    rw [resizeBools_self, hrb]
    congr 1
    have hlen : a.length = (b.map (!·)).length := by simp [h]
    have hl := addBools_length a (b.map (!·)) true hlen
    have hnot := natOfBools_map_not b
    have hb := natOfBools_lt b
    have := eq_bitsOfNat (addBools a (b.map (!·)) true) (natOfBools a + 2 ^ a.length - natOfBools b)
      (by
        rw [natOfBools_addBools a _ true hlen, hl]
        rw [← h] at hnot hb
        congr 1
        simp only [if_true]
        omega)
    rw [hl] at this
    exact this

/-! ### multiplication: shift-and-add -/

theorem shl1_length (l : BV) : (shl1 l).length = l.length := by
  simp [shl1]

theorem take_cons_natOfBools : ∀ (l : BV) (n : Nat), natOfBools (l.take n) = natOfBools l % 2 ^ n := by
  intro l
  induction l with
  | nil => intro n; simp [natOfBools]
  | cons x xs ih =>
    intro n
    cases n with
    | zero => simp [natOfBools, Nat.mod_one]
    | succ m =>
      simp only [List.take_succ_cons, natOfBools, ih m, Nat.pow_succ]
      rw [Nat.mul_comm (2 ^ m) 2, Nat.mod_mul]
      have h1 : ((if x = true then 1 else 0) + 2 * natOfBools xs) % 2 = (if x = true then 1 else 0) := by
        cases x <;> simp <;> omega
      have h2 : ((if x = true then 1 else 0) + 2 * natOfBools xs) / 2 = natOfBools xs := by
        cases x <;> simp <;> omega
      rw [h1, h2]

theorem natOfBools_shl1 (l : BV) : natOfBools (shl1 l) = (2 * natOfBools l) % 2 ^ l.length := by
  unfold shl1
  rw [take_cons_natOfBools]
  simp [natOfBools]

theorem mod_help1 (a b c P : Nat) : (a + b * (c % P)) % P = (a + b * c) % P := by
  rw [Nat.add_mod a, Nat.mul_mod, Nat.mod_mod, ← Nat.mul_mod, ← Nat.add_mod]

theorem mod_help2 (a b c P : Nat) : (a % P + b * (c % P)) % P = (a + b * c) % P := by
  rw [Nat.add_mod, Nat.mod_mod, Nat.mul_mod b, Nat.mod_mod, ← Nat.mul_mod, ← Nat.add_mod]

/-- loop invariant of the multiplier: result ≡ r + xl * adv (mod 2^n) -/
theorem natOfBools_mulLoop : ∀ (xl adv r : BV), adv.length = r.length →
    (mulLoop xl adv r).length = r.length ∧
    natOfBools (mulLoop xl adv r) = (natOfBools r + natOfBools xl * natOfBools adv) % 2 ^ r.length := by
  intro xl
  induction xl with
  | nil =>
    intro adv r _
    simp [mulLoop, natOfBools, Nat.mod_eq_of_lt (natOfBools_lt r)]
  | cons x xs ih =>
    intro adv r h
    simp only [mulLoop]
    have hshl : (shl1 adv).length = r.length := by rw [shl1_length, h]
    cases x with
    | false =>
      obtain ⟨hlen, hval⟩ := ih (shl1 adv) r hshl
      simp only [Bool.false_eq_true, if_false] at hlen hval ⊢
      refine ⟨hlen, ?_⟩
      rw [hval, natOfBools_shl1, h, mod_help1]
      simp only [natOfBools, Bool.false_eq_true, if_false, Nat.zero_add]
      congr 2
      rw [Nat.mul_left_comm, Nat.mul_assoc]
    | true =>
      have hr' : (addBools r adv false).length = r.length := addBools_length r adv false h.symm
      obtain ⟨hlen, hval⟩ := ih (shl1 adv) (addBools r adv false) (by rw [hshl, hr'])
      simp only [if_true] at hlen hval ⊢
      refine ⟨by rw [hlen, hr'], ?_⟩
      rw [hval, natOfBools_shl1, h, hr', natOfBools_addBools r adv false h.symm, mod_help2]
      simp only [natOfBools, if_true, Bool.false_eq_true, if_false, Nat.add_zero]
      congr 1
      rw [Nat.add_mul, Nat.one_mul, Nat.mul_left_comm, Nat.mul_assoc, Nat.add_assoc]

theorem natOfBools_replicate_false (n : Nat) : natOfBools (List.replicate n false) = 0 := by
  induction n with
  | zero => rfl
  | succ n ih => simp [List.replicate, natOfBools, ih]

theorem natOfBools_append (a b : BV) : natOfBools (a ++ b) = natOfBools a + 2 ^ a.length * natOfBools b := by
  induction a with
  | nil => simp [natOfBools]
  | cons x xs ih =>
    simp only [List.cons_append, natOfBools, ih, List.length_cons, Nat.pow_succ]
    rw [Nat.mul_add, Nat.mul_comm (2 ^ xs.length) 2, Nat.mul_assoc, Nat.add_assoc]

theorem natOfBools_resize_ge (b : BV) (n : Nat) (h : b.length ≤ n) : natOfBools (resizeBools b n) = natOfBools b := by
  unfold resizeBools
  rw [List.take_of_length_le (by simp; omega), natOfBools_append, natOfBools_replicate_false]
  simp

theorem resizeBools_length (b : BV) (n : Nat) (h : b.length ≤ n) : (resizeBools b n).length = n := by
  unfold resizeBools
  simp; omega

theorem take_bitsOfNat : ∀ (n k v : Nat), k ≤ n → (bitsOfNat n v).take k = bitsOfNat k v := by
  intro n
  induction n with
  | zero => intro k v h; have : k = 0 := by omega
            subst this; simp [bitsOfNat]
  | succ n ih =>
    intro k v h
    cases k with
    | zero => simp [bitsOfNat]
    | succ k => simp [bitsOfNat, ih k (v / 2) (by omega)]

theorem numMul_ofBools (a b : BV) (ha : 0 < a.length) (hb : 0 < b.length) :
    numMul (ofBools a) (ofBools b) = ofBools (bitsOfNat (a.length + b.length) (natOfBools a * natOfBools b)) := by
  unfold numMul
  have hc : (decide (a.length < 1) || decide (b.length < 1)) = false := by
    simp only [Bool.or_eq_false_iff, decide_eq_false_iff_not]; omega
  simp only [ofBools_length, hc, Bool.false_eq_true, if_false, to01_ofBools]
  congr 1
  have hrl : (resizeBools b (a.length + b.length)).length = (List.replicate (a.length + b.length) false).length := by
    rw [resizeBools_length b _ (by omega)]; simp
  obtain ⟨hlen, hval⟩ := natOfBools_mulLoop a (resizeBools b (a.length + b.length)) (List.replicate (a.length + b.length) false) hrl
  simp only [List.length_replicate] at hlen hval
  rw [natOfBools_replicate_false, natOfBools_resize_ge b _ (by omega), Nat.zero_add] at hval
  have := eq_bitsOfNat _ (natOfBools a * natOfBools b) (by rw [hval, hlen])
  rw [hlen] at this
  exact this

theorem numResize_ofBools_take (l : BV) (k : Nat) (h : k ≤ l.length) : numResize (ofBools l) k = ofBools (l.take k) := by
  unfold numResize
  by_cases hk : k < 1
  · have : k = 0 := by omega
    simp [this, ofBools]
  · simp only [hk, if_false, ofBools_length]
    have : k - l.length = 0 := by omega
    simp [this, ofBools, List.map_take]

/-- `Node_Arithmetic` (`Process.cpp:372-425`): for fully defined operands the emitted expression evaluates to the unsigned
sum / difference (at the operand width) or the product truncated to the node's output width -/
theorem arith_sound (rd : Rd) (ctx : Ctx) (op : ArithOp) (ea eb : Expr) (a b : BV) (va vb : Val) (outW : Nat)
    (ha : evalExpr rd ea = .ok va) (hb : evalExpr rd eb = .ok vb) (hva : VecIn 2 a va) (hvb : VecIn 2 b vb)
    (hnl : ¬ (isLit va = true ∧ isLit vb = true))
    (hw : match op with
      | .mul => 0 < a.length ∧ 0 < b.length ∧ outW ≤ a.length + b.length
      | _ => a.length = b.length ∧ outW = a.length) :
    evalExpr rd (fmtArith ctx op ea eb a.length b.length outW) =
      .ok (if ctx = .slv then .slv (ofBools (refArith op a b outW)) else .uns (ofBools (refArith op a b outW))) := by
  have hbin : ∀ o : BinOp, (o = .add ∨ o = .sub ∨ o = .mul) → evalBin o va vb =
      .ok (.uns (match o with | .add => numAdd (ofBools a) (ofBools b) | .sub => numSub (ofBools a) (ofBools b) | _ => numMul (ofBools a) (ofBools b))) := by
    intro o ho
    rcases hva with rfl | rfl <;> rcases hvb with rfl | rfl <;> simp [isLit, mkVec] at hnl ⊢ <;>
      rcases ho with rfl | rfl | rfl <;> simp [evalBin, BinOp.isLogical, BinOp.isRelational, Val.vec?, joinTag]
  cases op with
  | add =>
    obtain ⟨hl, rfl⟩ := hw
    have : ¬ (a.length < a.length) := by omega
    simp only [fmtArith, ArithOp.bin, vhdlArithWidth, this, if_false]
    by_cases hc : ctx = .slv
    · subst hc
      simp [evalExpr, ha, hb, bind, Except.bind, hbin .add (Or.inl rfl), numAdd_ofBools a b hl, evalCall1, refArith]
    · simp [hc, evalExpr, ha, hb, bind, Except.bind, hbin .add (Or.inl rfl), numAdd_ofBools a b hl, refArith]
  | sub =>
    obtain ⟨hl, rfl⟩ := hw
    have : ¬ (a.length < a.length) := by omega
    simp only [fmtArith, ArithOp.bin, vhdlArithWidth, this, if_false]
    by_cases hc : ctx = .slv
    · subst hc
      simp [evalExpr, ha, hb, bind, Except.bind, hbin .sub (Or.inr (Or.inl rfl)), numSub_ofBools a b hl, evalCall1, refArith]
    · simp [hc, evalExpr, ha, hb, bind, Except.bind, hbin .sub (Or.inr (Or.inl rfl)), numSub_ofBools a b hl, refArith]
  | mul =>
    obtain ⟨hpa, hpb, hout⟩ := hw
    have hm := numMul_ofBools a b hpa hpb
    have hbl : (bitsOfNat (a.length + b.length) (natOfBools a * natOfBools b)).length = a.length + b.length := bitsOfNat_length _ _
    simp only [fmtArith, ArithOp.bin, vhdlArithWidth]
    by_cases htr : outW < a.length + b.length
    · simp only [htr, if_true]
      have hres : numResize (ofBools (bitsOfNat (a.length + b.length) (natOfBools a * natOfBools b))) outW =
          ofBools (bitsOfNat outW (natOfBools a * natOfBools b)) := by
        rw [numResize_ofBools_take _ _ (by rw [hbl]; exact hout), take_bitsOfNat _ _ _ hout]
      by_cases hc : ctx = .slv
      · subst hc
        simp [evalExpr, ha, hb, bind, Except.bind, hbin .mul (Or.inr (Or.inr rfl)), hm, evalCall1, evalCall2, hres, refArith]
      · simp [hc, evalExpr, ha, hb, bind, Except.bind, hbin .mul (Or.inr (Or.inr rfl)), hm, evalCall2, hres, refArith]
    · have : outW = a.length + b.length := by omega
      subst this
      simp only [htr, if_false]
      by_cases hc : ctx = .slv
      · subst hc
        simp [evalExpr, ha, hb, bind, Except.bind, hbin .mul (Or.inr (Or.inr rfl)), hm, evalCall1, refArith]
      · simp [hc, evalExpr, ha, hb, bind, Except.bind, hbin .mul (Or.inr (Or.inr rfl)), hm, refArith]

end Gatery.C02
