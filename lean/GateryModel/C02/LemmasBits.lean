import GateryModel.C02.ExprSpec
/-!
# C02 — bit-level lemmas: `std_logic` tables on '0'/'1', `TO_01`, `RESIZE`, unsigned order
-/
namespace Gatery.C02
open Vhdl

theorem ofBools_length (a : BV) : (ofBools a).length = a.length := by simp [ofBools]

theorem to01_ofBool (b : Bool) : (SL.ofBool b).to01? = some b := by
  cases b <;> rfl

theorem to01_ofBools (a : BV) : to01? (ofBools a) = some a := by
  induction a with
  | nil => rfl
  | cons x xs ih =>
    simp only [ofBools, List.map] at ih ⊢
    simp [to01?, to01_ofBool, ih]

theorem logicOp_ofBool (op : BinOp) (h : op.isLogical = true) (a b : Bool) :
    logicOp op (SL.ofBool a) (SL.ofBool b) = SL.ofBool (boolOp op a b) := by
  cases op <;> simp [BinOp.isLogical] at h <;> cases a <;> cases b <;> rfl

theorem not_ofBool (a : Bool) : (SL.ofBool a).not = SL.ofBool (!a) := by
  cases a <;> rfl

theorem zipWith_logicOp_ofBools (op : BinOp) (h : op.isLogical = true) (a b : BV) :
    List.zipWith (logicOp op) (ofBools a) (ofBools b) = ofBools (List.zipWith (boolOp op) a b) := by
  induction a generalizing b with
  | nil => simp [ofBools]
  | cons x xs ih =>
    cases b with
    | nil => simp [ofBools]
    | cons y ys =>
      have := ih ys
      simp only [ofBools, List.map, List.zipWith] at this ⊢
      rw [this, logicOp_ofBool op h]

theorem map_not_ofBools (a : BV) : (ofBools a).map SL.not = ofBools (a.map (!·)) := by
  induction a with
  | nil => rfl
  | cons x xs ih =>
    simp only [ofBools, List.map] at ih ⊢
    rw [ih, not_ofBool]

theorem ofBools_inj {a b : BV} (h : ofBools a = ofBools b) : a = b := by
  induction a generalizing b with
  | nil => cases b <;> simp [ofBools] at h ⊢
  | cons x xs ih =>
    cases b with
    | nil => simp [ofBools] at h
    | cons y ys =>
      simp only [ofBools, List.map, List.cons.injEq] at h
      have hxy : x = y := by
        cases x <;> cases y <;> simp [SL.ofBool] at h ⊢
      rw [hxy, ih (by simpa [ofBools] using h.2)]

theorem resizeBools_self (a : BV) : resizeBools a a.length = a := by
  simp [resizeBools]

/-! ### unsigned order: MSB-first lexicographic order = order of the values -/

/-- value of an MSB-first list -/
def natMsb : BV → Nat
  | [] => 0
  | b :: r => (if b then 1 else 0) * 2 ^ r.length + natMsb r

theorem natMsb_lt (l : BV) : natMsb l < 2 ^ l.length := by
  induction l with
  | nil => simp [natMsb]
  | cons b r ih =>
    simp only [natMsb, List.length_cons, Nat.pow_succ]
    cases b <;> simp <;> omega

theorem lexLt_eq (a b : BV) (h : a.length = b.length) : lexLt a b = decide (natMsb a < natMsb b) := by
  induction a generalizing b with
  | nil => cases b <;> simp [lexLt, natMsb] at h ⊢
  | cons x xs ih =>
    cases b with
    | nil => simp at h
    | cons y ys =>
      simp only [List.length_cons, Nat.add_right_cancel_iff] at h
      have hx := natMsb_lt xs
      have hy := natMsb_lt ys
      rw [h] at hx
      simp only [lexLt, natMsb, h]
      generalize 2 ^ ys.length = P at hx hy
      cases x <;> cases y <;> simp [ih ys h] <;> omega

theorem natMsb_append_single (l : BV) (b : Bool) : natMsb (l ++ [b]) = 2 * natMsb l + (if b then 1 else 0) := by
  induction l with
  | nil => simp [natMsb]
  | cons x xs ih =>
    simp only [List.cons_append, natMsb, List.length_append, List.length_cons, List.length_nil, ih, Nat.pow_succ]
    cases x <;> simp <;> omega

theorem natMsb_reverse (l : BV) : natMsb l.reverse = natOfBools l := by
  induction l with
  | nil => rfl
  | cons x xs ih =>
    simp only [List.reverse_cons, natMsb_append_single, ih, natOfBools]
    omega

theorem unsLess_eq (a b : BV) (h : a.length = b.length) : unsLess a b = decide (natOfBools a < natOfBools b) := by
  unfold unsLess
  rw [lexLt_eq _ _ (by simp [h]), natMsb_reverse, natMsb_reverse]

theorem natOfBools_lt (l : BV) : natOfBools l < 2 ^ l.length := by
  induction l with
  | nil => simp [natOfBools]
  | cons b r ih =>
    simp only [natOfBools, List.length_cons, Nat.pow_succ]
    cases b <;> simp <;> omega

theorem natOfBools_inj {a b : BV} (hl : a.length = b.length) (h : natOfBools a = natOfBools b) : a = b := by
  induction a generalizing b with
  | nil => cases b <;> simp at hl ⊢
  | cons x xs ih =>
    cases b with
    | nil => simp at hl
    | cons y ys =>
      simp only [List.length_cons, Nat.add_right_cancel_iff] at hl
      simp only [natOfBools] at h
      have hxy : x = y := by cases x <;> cases y <;> simp at h ⊢ <;> omega
      subst hxy
      have : natOfBools xs = natOfBools ys := by omega
      rw [ih hl this]

theorem bitsOfNat_length (w n : Nat) : (bitsOfNat w n).length = w := by
  induction w generalizing n with
  | zero => rfl
  | succ w ih => simp [bitsOfNat, ih]

theorem natOfBools_bitsOfNat (w n : Nat) : natOfBools (bitsOfNat w n) = n % 2 ^ w := by
  induction w generalizing n with
  | zero => simp [bitsOfNat, natOfBools, Nat.mod_one]
  | succ w ih =>
    simp only [bitsOfNat, natOfBools, ih, Nat.pow_succ]
    have h2 : n % (2 ^ w * 2) = n % 2 + 2 * (n / 2 % 2 ^ w) := by
      rw [Nat.mul_comm, Nat.mod_mul]
    rw [h2]
    rcases Nat.mod_two_eq_zero_or_one n with h | h <;> simp [h]

theorem bitsOfNat_natOfBools (l : BV) : bitsOfNat l.length (natOfBools l) = l := by
  apply natOfBools_inj (by simp [bitsOfNat_length])
  rw [natOfBools_bitsOfNat, Nat.mod_eq_of_lt (natOfBools_lt l)]

end Gatery.C02
