import GateryModel.C02.LemmasBits
import GateryModel.C02.LemmasReg
/-!
# C02 — soundness of the formatted expressions / statements, per node kind (logic, compare, mux, rewire, constants)
-/
namespace Gatery.C02
open Vhdl

theorem isLogical_not_relational (op : BinOp) (h : op.isLogical = true) : op.isRelational = false := by
  cases op <;> simp [BinOp.isLogical, BinOp.isRelational] at h ⊢

/-! ### Node_Logic -/

/-- vector context: `(a op b)` -/
theorem logic_vec_sound (rd : Rd) (op : BinOp) (hop : op.isLogical = true) (tag : Nat) (htag : tag = 1 ∨ tag = 2)
    (ea eb : Expr) (a b : BV) (va vb : Val) (hlen : a.length = b.length)
    (ha : evalExpr rd ea = .ok va) (hb : evalExpr rd eb = .ok vb) (hva : VecIn tag a va) (hvb : VecIn tag b vb) :
    ∃ v, evalExpr rd (fmtLogic2 op ea eb) = .ok v ∧ VecIn tag (refLogic op a b) v := by
  have hl : (ofBools a).length = (ofBools b).length := by simp [ofBools_length, hlen]
  simp only [fmtLogic2, evalExpr, ha, hb, bind, Except.bind, evalBin, hop, if_true]
  rcases htag with rfl | rfl <;> rcases hva with rfl | rfl <;> rcases hvb with rfl | rfl <;>
    simp [mkVec, Val.vec?, joinTag, hl, zipWith_logicOp_ofBools op hop, VecIn, refLogic]

/-- STD_LOGIC context -/
theorem logic_sl_sound (rd : Rd) (op : BinOp) (hop : op.isLogical = true) (ea eb : Expr) (a b : Bool)
    (ha : evalExpr rd ea = .ok (.sl (SL.ofBool a))) (hb : evalExpr rd eb = .ok (.sl (SL.ofBool b))) :
    evalExpr rd (fmtLogic2 op ea eb) = .ok (.sl (SL.ofBool (boolOp op a b))) := by
  simp [fmtLogic2, evalExpr, ha, hb, bind, Except.bind, evalBin, hop, logicOp_ofBool op hop]

/-- BOOLEAN context -/
theorem logic_bool_sound (rd : Rd) (op : BinOp) (hop : op.isLogical = true) (ea eb : Expr) (a b : Bool)
    (ha : evalExpr rd ea = .ok (.bool a)) (hb : evalExpr rd eb = .ok (.bool b)) :
    evalExpr rd (fmtLogic2 op ea eb) = .ok (.bool (boolOp op a b)) := by
  simp [fmtLogic2, evalExpr, ha, hb, bind, Except.bind, evalBin, hop]

theorem not_vec_sound (rd : Rd) (tag : Nat) (htag : tag = 1 ∨ tag = 2) (ea : Expr) (a : BV) (va : Val)
    (ha : evalExpr rd ea = .ok va) (hva : VecIn tag a va) :
    ∃ v, evalExpr rd (fmtNot ea) = .ok v ∧ VecIn tag (refNot a) v := by
  simp only [fmtNot, evalExpr, ha, bind, Except.bind]
  rcases htag with rfl | rfl <;> rcases hva with rfl | rfl <;>
    simp [mkVec, Val.vec?, map_not_ofBools, VecIn, refNot]

theorem not_sl_sound (rd : Rd) (ea : Expr) (a : Bool) (ha : evalExpr rd ea = .ok (.sl (SL.ofBool a))) :
    evalExpr rd (fmtNot ea) = .ok (.sl (SL.ofBool (!a))) := by
  simp [fmtNot, evalExpr, ha, bind, Except.bind, not_ofBool]

theorem not_bool_sound (rd : Rd) (ea : Expr) (a : Bool) (ha : evalExpr rd ea = .ok (.bool a)) :
    evalExpr rd (fmtNot ea) = .ok (.bool (!a)) := by
  simp [fmtNot, evalExpr, ha, bind, Except.bind]

/-! ### Node_Compare -/

theorem numRel_ofBools (op : BinOp) (hop : op.isRelational = true) (a b : BV) (hlen : a.length = b.length) (hpos : 0 < a.length) :
    numRel op (ofBools a) (ofBools b) = refCompare op a b := by
  have hb : 0 < b.length := hlen ▸ hpos
  have h1 : ¬ (a.length < 1) := by omega
  have h2 : ¬ (b.length < 1) := by omega
  have hmax : max a.length b.length = a.length := by rw [hlen]; exact Nat.max_self _
  have hra : resizeBools a a.length = a := resizeBools_self a
  have hrb : resizeBools b a.length = b := by rw [hlen]; exact resizeBools_self b
  have hlt := unsLess_eq a b hlen
  have hgt := unsLess_eq b a hlen.symm
  have heq : (a == b) = (natOfBools a == natOfBools b) := by
    by_cases h : a = b
    · subst h; simp
    · have : natOfBools a ≠ natOfBools b := fun hn => h (natOfBools_inj hlen hn)
      rw [beq_eq_false_iff_ne.mpr h, beq_eq_false_iff_ne.mpr this]
  have hc : (decide (a.length < 1) || decide (b.length < 1)) = false := by
    simp only [Bool.or_eq_false_iff, decide_eq_false_iff_not]; omega
  unfold numRel
  simp only [ofBools_length, to01_ofBools, hmax, hra, hrb, hc, Bool.false_eq_true, if_false]
  cases op <;> simp [BinOp.isRelational] at hop <;> simp [refCompare, hlt, hgt, heq]
  · simp [bne]
  · rw [Bool.eq_iff_iff]; simp
  · rw [Bool.eq_iff_iff]; simp

/-- bit-vector operands (formatted in context UNSIGNED): `(a op b)` resp. `bool2stdlogic(a op b)` -/
theorem compare_vec_sound (rd : Rd) (ctx : Ctx) (op : BinOp) (hop : op.isRelational = true)
    (ea eb : Expr) (a b : BV) (va vb : Val) (hlen : a.length = b.length) (hpos : 0 < a.length)
    (ha : evalExpr rd ea = .ok va) (hb : evalExpr rd eb = .ok vb) (hva : VecIn 2 a va) (hvb : VecIn 2 b vb)
    (hnl : ¬ (isLit va = true ∧ isLit vb = true)) :
    evalExpr rd (fmtCompare ctx op ea eb) =
      .ok (if ctx = .sl then .sl (SL.ofBool (refCompare op a b)) else .bool (refCompare op a b)) := by
  have hnlog : op.isLogical = false := by cases op <;> simp [BinOp.isRelational, BinOp.isLogical] at hop ⊢
  have key : evalBin op va vb = .ok (.bool (refCompare op a b)) := by
    rcases hva with rfl | rfl <;> rcases hvb with rfl | rfl <;>
      simp [isLit, mkVec] at hnl ⊢ <;>
      simp [evalBin, hnlog, hop, Val.vec?, joinTag, numRel_ofBools op hop a b hlen hpos]
  by_cases hc : ctx = .sl
  · subst hc
    simp [fmtCompare, evalExpr, ha, hb, bind, Except.bind, key, evalCall1]
  · simp [fmtCompare, hc, evalExpr, ha, hb, bind, Except.bind, key]

/-- bit operands (formatted in context STD_LOGIC): equality / inequality of '0'/'1' values -/
theorem compare_bit_sound (rd : Rd) (ctx : Ctx) (op : BinOp) (hop : op = .eq ∨ op = .ne) (ea eb : Expr) (a b : Bool)
    (ha : evalExpr rd ea = .ok (.sl (SL.ofBool a))) (hb : evalExpr rd eb = .ok (.sl (SL.ofBool b))) :
    evalExpr rd (fmtCompare ctx op ea eb) =
      .ok (if ctx = .sl then .sl (SL.ofBool (if op = .eq then a == b else a != b)) else .bool (if op = .eq then a == b else a != b)) := by
  have key : evalBin op (.sl (SL.ofBool a)) (.sl (SL.ofBool b)) = .ok (.bool (if op = .eq then a == b else a != b)) := by
    rcases hop with rfl | rfl <;> cases a <;> cases b <;> simp [evalBin, BinOp.isLogical, BinOp.isRelational, SL.ofBool]
  by_cases hc : ctx = .sl
  · subst hc
    simp [fmtCompare, evalExpr, ha, hb, bind, Except.bind, key, evalCall1]
  · simp [fmtCompare, hc, evalExpr, ha, hb, bind, Except.bind, key]

/-! ### constants -/

theorem const_vec_sound (rd : Rd) (ctx : Ctx) (hctx : ctx = .slv ∨ ctx = .uns) (a : BV) :
    evalExpr rd (fmtConst ctx (ofBools a)) = .ok (.lit (ofBools a)) := by
  rcases hctx with rfl | rfl <;> simp [fmtConst, evalExpr]

theorem const_sl_sound (rd : Rd) (a : Bool) : evalExpr rd (fmtConst .sl [SL.ofBool a]) = .ok (.sl (SL.ofBool a)) := by
  simp [fmtConst, evalExpr]

theorem const_bool_sound (rd : Rd) (a : Bool) : evalExpr rd (fmtConst .bool [SL.ofBool a]) = .ok (.bool a) := by
  cases a <;> simp [fmtConst, evalExpr, SL.ofBool]

/-! ### references to declared objects -/

theorem ref_bool_sound (rd : Rd) (n : String) (dt : Ctx) (a : Bool) (h : rd.obj n = some (.sl (SL.ofBool a))) :
    evalExpr rd (fmtRef .bool n dt false) = .ok (.bool a) := by
  cases a <;> simp [fmtRef, evalExpr, h, evalBin, BinOp.isLogical, BinOp.isRelational, SL.ofBool, bind, Except.bind]

theorem ref_vec_sound (rd : Rd) (ctx : Ctx) (n : String) (dt : Ctx) (a : BV)
    (hctx : ctx = .slv ∨ ctx = .uns) (hdt : dt = .slv ∨ dt = .uns)
    (h : rd.obj n = some (mkVec (if dt = .slv then 1 else 2) (ofBools a))) :
    evalExpr rd (fmtRef ctx n dt true) = .ok (mkVec (if ctx = .slv then 1 else 2) (ofBools a)) := by
  rcases hctx with rfl | rfl <;> rcases hdt with rfl | rfl <;>
    simp [fmtRef, evalExpr, h, mkVec, evalCall1, bind, Except.bind] at h ⊢

end Gatery.C02
