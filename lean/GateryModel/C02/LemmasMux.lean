import GateryModel.C02.LemmasExpr
/-!
# C02 — multiplexer statements (IF / CASE), priority conditional, rewire concatenation
-/
namespace Gatery.C02
open Vhdl

/-- effect of an assignment statement of the exporter: variable (`:=`, immediately visible) or signal (`<=`, scheduled) -/
def assignTo (isLocal : Bool) (st : PSt) (t : String) (v : Val) : PSt :=
  if isLocal then { st with vars := setVar st.vars t v }
  else { st with writes := st.writes ++ [{ sig := t, idx := none, val := v }] }

theorem execStmt_varAssign (rd : Rd) (st : PSt) (n : String) (e : Expr) (ty : Ty) (v : Val)
    (hty : rd.ty n = some ty) (hv : evalRhs (rd.withVars st.vars) ty e = .ok v) :
    execStmt rd st (.varAssign n e) = .ok { st with vars := setVar st.vars n v } := by
  rw [execStmt]
  simp [hty, hv, bind, Except.bind]

theorem exec_assignStmt (rd : Rd) (st : PSt) (isLocal : Bool) (t : String) (e : Expr) (ty : Ty) (v : Val)
    (hty : rd.ty t = some ty) (hv : evalRhs (rd.withVars st.vars) ty e = .ok v) :
    execStmt rd st (assignStmt isLocal t e) = .ok (assignTo isLocal st t v) := by
  cases isLocal
  · simp [assignStmt, assignTo, execStmt_sigAssign rd st t e ty v hty hv]
  · simp [assignStmt, assignTo, execStmt_varAssign rd st t e ty v hty hv]

/-- binary multiplexer emitted as IF/ELSE (`Process.cpp:776-797`): the target gets input 1 if the selector is true, else input 0 -/
theorem mux_if_sound (rd : Rd) (st : PSt) (isLocal : Bool) (t : String) (sel in0 in1 : Expr) (s : Bool) (ty : Ty) (v0 v1 : Val)
    (hty : rd.ty t = some ty)
    (hs : evalExpr (rd.withVars st.vars) sel = .ok (.bool s))
    (h0 : evalRhs (rd.withVars st.vars) ty in0 = .ok v0) (h1 : evalRhs (rd.withVars st.vars) ty in1 = .ok v1) :
    execStmt rd st (muxIfStmt isLocal t sel in0 in1) = .ok (assignTo isLocal st t (if s then v1 else v0)) := by
  cases s
  · rw [muxIfStmt, execStmt_ite_false _ _ _ _ _ hs, execStmts_single, exec_assignStmt rd st isLocal t in0 ty v0 hty h0]; simp
  · rw [muxIfStmt, execStmt_ite_true _ _ _ _ _ hs, execStmts_single, exec_assignStmt rd st isLocal t in1 ty v1 hty h1]; simp

/-! ### CASE -/

theorem selBits_eq_iff (w i : Nat) (sel : BV) (hw : sel.length = w) (hi : i < 2 ^ w) :
    selBits w i = ofBools sel ↔ i = natOfBools sel := by
  constructor
  · intro h
    have h' : bitsOfNat w i = sel := ofBools_inj (by simpa [selBits] using h)
    rw [← h', natOfBools_bitsOfNat, Nat.mod_eq_of_lt hi]
  · intro h
    subst h
    rw [selBits, ← hw, bitsOfNat_natOfBools]

theorem exec_caseAlts (rd : Rd) (st : PSt) (isLocal : Bool) (t : String) (ty : Ty) (w : Nat) (xE : Expr) (sel : BV)
    (hw : sel.length = w) (hty : rd.ty t = some ty) (vX : Val)
    (hX : evalRhs (rd.withVars st.vars) ty xE = .ok vX) :
    ∀ (ins : List (Expr × Val)) (i : Nat), i ≤ natOfBools sel → i + ins.length ≤ 2 ^ w →
      (∀ p ∈ ins, evalRhs (rd.withVars st.vars) ty p.1 = .ok p.2) →
      execAlts rd st (ofBools sel) (caseAlts isLocal t w xE i (ins.map (·.1))) =
        .ok (assignTo isLocal st t (((ins.map (·.2))[natOfBools sel - i]?).getD vX)) := by
  intro ins
  induction ins with
  | nil =>
    intro i _ _ _
    simp only [List.map, caseAlts]
    rw [execAlts, execStmts_single, exec_assignStmt rd st isLocal t _ ty vX hty hX]
    simp
  | cons p rest ih =>
    intro i hi hfit hvals
    simp only [List.map, caseAlts]
    rw [execAlts]
    have hlt : i < 2 ^ w := by simp at hfit; omega
    by_cases hsel : i = natOfBools sel
    · have : selBits w i = ofBools sel := (selBits_eq_iff w i sel hw hlt).mpr hsel
      simp only [this, beq_self_eq_true, if_true]
      rw [execStmts_single, exec_assignStmt rd st isLocal t p.1 ty p.2 hty (hvals p (by simp))]
      simp [hsel]
    · have hne : selBits w i ≠ ofBools sel := fun h => hsel ((selBits_eq_iff w i sel hw hlt).mp h)
      simp only [beq_eq_false_iff_ne.mpr hne, Bool.false_eq_true, if_false]
      rw [ih (i + 1) (by omega) (by simp at hfit ⊢; omega) (fun q hq => hvals q (by simp [hq]))]
      have : natOfBools sel - i = (natOfBools sel - (i + 1)) + 1 := by omega
      rw [this]
      simp

/-- n-ary multiplexer emitted as CASE (`Process.cpp:798-838`): the target gets the selected input; if the selector value has no
input (`WHEN OTHERS`) it gets all-'X' — the reference multiplexer yields "undefined" there -/
theorem mux_case_sound (rd : Rd) (st : PSt) (isLocal : Bool) (t : String) (ty : Ty) (selE : Expr) (w : Nat) (xE : Expr) (sel : BV)
    (ins : List (Expr × Val)) (vX : Val)
    (hw : sel.length = w) (hty : rd.ty t = some ty) (hfit : ins.length ≤ 2 ^ w)
    (hsel : evalExpr (rd.withVars st.vars) selE = .ok (.uns (ofBools sel)))
    (hvals : ∀ p ∈ ins, evalRhs (rd.withVars st.vars) ty p.1 = .ok p.2)
    (hX : evalRhs (rd.withVars st.vars) ty xE = .ok vX) :
    execStmt rd st (muxCaseStmt isLocal t selE w xE (ins.map (·.1))) =
      .ok (assignTo isLocal st t ((refMux sel (ins.map (·.2))).getD vX)) := by
  rw [muxCaseStmt, execStmt]
  simp only [hsel, bind, Except.bind, caseSelBits, Val.vec?]
  rw [exec_caseAlts rd st isLocal t ty w xE sel hw hty vX hX ins 0 (Nat.zero_le _) (by omega) hvals]
  simp [refMux]

/-! ### rewire: concatenation -/

def isUns : Val → Bool
  | .uns _ => true
  | _ => false

theorem cat2 (a b : Val) (ha : Catable a) (hb : Catable b) :
    evalBin .cat a b = .ok (if isUns a || isUns b then .uns (bitsOfVal b ++ bitsOfVal a) else .lit (bitsOfVal b ++ bitsOfVal a)) := by
  cases a <;> simp [Catable] at ha <;> cases b <;> simp [Catable] at hb <;>
    simp [evalBin, BinOp.isLogical, BinOp.isRelational, Val.vec?, mkVec, joinTag, isUns, bitsOfVal]

def catResult (anyUns : Bool) (bits : Bits) : Val := if anyUns then .uns bits else .lit bits

theorem cat_fold (rd : Rd) :
    ∀ (rest : List (Expr × Val)) (acc : Expr) (accV : Val),
      evalExpr rd acc = .ok accV → Catable accV →
      (∀ p ∈ rest, evalExpr rd p.1 = .ok p.2 ∧ Catable p.2) →
      rest ≠ [] →
      evalExpr rd (rest.foldl (fun a x => Expr.bin .cat a x.1) acc) =
        .ok (catResult (isUns accV || rest.any (fun p => isUns p.2)) ((rest.reverse.flatMap fun p => bitsOfVal p.2) ++ bitsOfVal accV)) := by
  intro rest
  induction rest with
  | nil => intro _ _ _ _ _ h; exact absurd rfl h
  | cons p tl ih =>
    intro acc accV hacc hcat hall _
    have hp := hall p (by simp)
    have hstep : evalExpr rd (Expr.bin .cat acc p.1) =
        .ok (catResult (isUns accV || isUns p.2) (bitsOfVal p.2 ++ bitsOfVal accV)) := by
      simp only [evalExpr, hacc, hp.1, bind, Except.bind]
      rw [cat2 accV p.2 hcat hp.2]
      simp [catResult]
    by_cases htl : tl = []
    · subst htl
      simp [List.foldl, hstep]
    · have hcat' : Catable (catResult (isUns accV || isUns p.2) (bitsOfVal p.2 ++ bitsOfVal accV)) := by
        unfold catResult; split <;> simp [Catable]
      rw [List.foldl, ih _ _ hstep hcat' (fun q hq => hall q (by simp [hq])) htl]
      have hu : isUns (catResult (isUns accV || isUns p.2) (bitsOfVal p.2 ++ bitsOfVal accV)) = (isUns accV || isUns p.2) := by
        unfold catResult; split <;> simp_all [isUns]
      have hb : bitsOfVal (catResult (isUns accV || isUns p.2) (bitsOfVal p.2 ++ bitsOfVal accV)) = bitsOfVal p.2 ++ bitsOfVal accV := by
        unfold catResult; split <;> simp [bitsOfVal]
      simp [hu, hb, List.any_cons, Bool.or_assoc, List.flatMap_append]

end Gatery.C02

namespace Gatery.C02
open Vhdl

/-- general `Node_Rewire` with at least two output ranges (`Process.cpp:536-622`): the emitted concatenation evaluates to the
ranges' values joined in hlim order (least significant range first).  `ps` pairs every range with the value its expression has;
`mustCast` = some input range comes from a bit vector. -/
theorem rewire_cat_sound (rd : Rd) (ctx : Ctx) (hctx : ctx = .uns ∨ ctx = .slv) (ps : List (RPart × Val)) (h2 : 2 ≤ ps.length)
    (hall : ∀ p ∈ ps, evalExpr rd (p.1.expr false) = .ok p.2 ∧ Catable p.2)
    (mustCast : Bool) (hmc : mustCast = ps.any (fun p => isUns p.2)) :
    evalExpr rd (fmtRewireCat ctx (ps.map (·.1)) mustCast) =
      .ok (if ctx = .slv ∧ mustCast = true then .slv (ps.flatMap fun p => bitsOfVal p.2)
           else catResult mustCast (ps.flatMap fun p => bitsOfVal p.2)) := by
  have hsingle : (ctx == Ctx.sl || ctx == Ctx.bool) = false := by rcases hctx with rfl | rfl <;> rfl
  -- the reversed list: most significant range first
  cases hrev : ps.reverse with
  | nil => simp at hrev; subst hrev; simp at h2
  | cons q qs =>
    have hqs : qs ≠ [] := by
      intro h; subst h
      have : ps.reverse.length = 1 := by rw [hrev]; rfl
      simp at this; omega
    have hps : ps = qs.reverse ++ [q] := by
      have := congrArg List.reverse hrev
      simpa using this
    have hq := hall q (by rw [hps]; simp)
    have hall' : ∀ p ∈ qs.map (fun p => (p.1.expr false, p.2)), evalExpr rd p.1 = .ok p.2 ∧ Catable p.2 := by
      intro p hp
      simp only [List.mem_map] at hp
      obtain ⟨x, hx, rfl⟩ := hp
      exact hall x (by rw [hps]; simp [hx])
    have hfold := cat_fold rd (qs.map (fun p => (p.1.expr false, p.2))) (q.1.expr false) q.2 hq.1 hq.2 hall' (by simpa using hqs)
    have hbody : evalExpr rd (qs.foldl (fun acc x => Expr.bin .cat acc (x.1.expr false)) (q.1.expr false)) =
        .ok (catResult mustCast (ps.flatMap fun p => bitsOfVal p.2)) := by
      rw [List.foldl_map] at hfold
      rw [hfold, hmc, hps]
      simp [List.any_append, List.any_reverse, Bool.or_comm, List.flatMap_append, List.flatMap_reverse, List.flatMap_map, Function.comp_def]
    have hlen : ¬ (ps.length ≤ 1) := by omega
    simp only [fmtRewireCat, hsingle, List.length_map]
    rw [← List.map_reverse, hrev]
    simp only [List.map_cons, List.foldl_map]
    by_cases hc : ctx = .slv ∧ mustCast = true
    · obtain ⟨rfl, rfl⟩ := hc
      simp only [beq_self_eq_true, Bool.and_self, if_true, evalExpr, hbody, bind, Except.bind, catResult, evalCall1]
      simp
    · have hcond : (ctx == Ctx.slv && mustCast) = false := by
        rcases hctx with rfl | rfl
        · rfl
        · simp at hc; simp [hc]
      simp only [hcond, Bool.false_eq_true, if_false, show (1 < ps.length) by omega, if_true, evalExpr, hbody, hc]

theorem slice_sound (rd : Rd) (n : String) (hi lo : Nat) (bits : Bits) (h : rd.obj n = some (.uns bits))
    (hlo : lo ≤ hi) (hhi : hi < bits.length) :
    evalExpr rd (.slice n hi lo) = .ok (.uns ((bits.drop lo).take (hi + 1 - lo))) := by
  simp [evalExpr, h, evalSlice, Val.vec?, hlo, hhi, mkVec]

/-- bit extraction from a declared UNSIGNED object (`Process.cpp:495-521`) in the four contexts -/
theorem bit_extract_sound (rd : Rd) (ctx : Ctx) (n : String) (idx : Nat) (a : BV) (h : rd.obj n = some (.uns (ofBools a)))
    (hidx : idx < a.length) :
    evalExpr rd (fmtBitExtract ctx n idx) =
      .ok (match ctx with
        | .bool => .bool (a[idx]!)
        | .sl => .sl (SL.ofBool (a[idx]!))
        | .uns => .uns [SL.ofBool (a[idx]!)]
        | .slv => .slv [SL.ofBool (a[idx]!)]) := by
  have hget : (ofBools a)[idx]? = some (SL.ofBool (a[idx]!)) := by
    simp [ofBools, List.getElem?_map, hidx]
  have hlen : idx < (ofBools a).length := by simpa [ofBools_length] using hidx
  have hslice : ((ofBools a).drop idx).take 1 = [SL.ofBool (a[idx]!)] := by
    rw [List.drop_eq_getElem_cons hlen]
    simp [ofBools, hidx]
  cases ctx
  · -- bool
    simp only [fmtBitExtract, evalExpr, h, bind, Except.bind, evalIndex, Val.vec?, hget]
    cases a[idx]! <;> simp [evalBin, BinOp.isLogical, BinOp.isRelational, SL.ofBool]
  · simp [fmtBitExtract, evalExpr, h, bind, Except.bind, evalIndex, Val.vec?, hget]
  · simp [fmtBitExtract, evalExpr, h, bind, Except.bind, evalSlice, Val.vec?, hlen, mkVec, evalCall1, hslice]
  · simp [fmtBitExtract, evalExpr, h, evalSlice, Val.vec?, hlen, mkVec, hslice]

/-- bool → 1-bit vector (`Process.cpp:522-527`) -/
theorem bool_to_vec_sound (rd : Rd) (ea : Expr) (a : Bool) (ha : evalExpr rd ea = .ok (.sl (SL.ofBool a))) :
    evalExpr rd (fmtBoolToVec ea) = .ok (.lit (ofBools [a])) := by
  simp [fmtBoolToVec, evalExpr, ha, bind, Except.bind, ofBools]

/-- priority conditional (`Process.cpp:844-880`): the first choice whose condition holds, else the default -/
theorem prio_sound (rd : Rd) (st : PSt) (isLocal : Bool) (t : String) (ty : Ty) (hty : rd.ty t = some ty)
    (dflt : Expr) (vd : Val) (hd : evalRhs (rd.withVars st.vars) ty dflt = .ok vd) :
    ∀ (choices : List ((Expr × Bool) × (Expr × Val))),
      (∀ c ∈ choices, evalExpr (rd.withVars st.vars) c.1.1 = .ok (.bool c.1.2) ∧ evalRhs (rd.withVars st.vars) ty c.2.1 = .ok c.2.2) →
      execStmt rd st (prioStmt isLocal t dflt (choices.map fun c => (c.1.1, c.2.1))) =
        .ok (assignTo isLocal st t (((choices.find? fun c => c.1.2).map fun c => c.2.2).getD vd)) := by
  intro choices
  induction choices with
  | nil => intro _; simp [prioStmt, exec_assignStmt rd st isLocal t dflt ty vd hty hd]
  | cons c rest ih =>
    intro hall
    have hc := hall c (by simp)
    simp only [List.map, prioStmt]
    cases hb : c.1.2 with
    | true =>
      rw [hb] at hc
      rw [execStmt_ite_true _ _ _ _ _ hc.1, execStmts_single, exec_assignStmt rd st isLocal t c.2.1 ty c.2.2 hty hc.2]
      simp [List.find?, hb]
    | false =>
      rw [hb] at hc
      rw [execStmt_ite_false _ _ _ _ _ hc.1, execStmts_single, ih (fun x hx => hall x (by simp [hx]))]
      simp [List.find?, hb]

end Gatery.C02
