import GateryModel.C02.RegSpec
/-!
# C02 — lemmas for `register_process_sound`
-/
namespace Gatery.C02
open Vhdl

theorem withVars_nil (rd : Rd) : rd.withVars [] = rd := by
  cases rd
  simp [Rd.withVars, List.lookup]

theorem execStmts_nil (rd : Rd) (st : PSt) : execStmts rd st .nil = .ok st := by
  simp [execStmts]

theorem execStmts_cons (rd : Rd) (st : PSt) (s : Stmt) (r : Stmts) :
    execStmts rd st (.cons s r) = (execStmt rd st s >>= fun st' => execStmts rd st' r) := by
  rw [execStmts]

theorem execStmts_single (rd : Rd) (st : PSt) (s : Stmt) :
    execStmts rd st (.cons s .nil) = execStmt rd st s := by
  rw [execStmts_cons]
  cases h : execStmt rd st s <;> simp [bind, Except.bind, execStmts_nil]

theorem execStmt_ite_true (rd : Rd) (st : PSt) (c : Expr) (t e : Stmts)
    (h : evalExpr (rd.withVars st.vars) c = .ok (.bool true)) :
    execStmt rd st (.ite c t e) = execStmts rd st t := by
  rw [execStmt]
  simp [h, bind, Except.bind]

theorem execStmt_ite_false (rd : Rd) (st : PSt) (c : Expr) (t e : Stmts)
    (h : evalExpr (rd.withVars st.vars) c = .ok (.bool false)) :
    execStmt rd st (.ite c t e) = execStmts rd st e := by
  rw [execStmt]
  simp [h, bind, Except.bind]

theorem execStmt_sigAssign (rd : Rd) (st : PSt) (n : String) (e : Expr) (ty : Ty) (v : Val)
    (hty : rd.ty n = some ty) (hv : evalRhs (rd.withVars st.vars) ty e = .ok v) :
    execStmt rd st (.sigAssign (.name n) e) = .ok { st with writes := st.writes ++ [{ sig := n, idx := none, val := v }] } := by
  rw [execStmt]
  simp [hty, hv, bind, Except.bind]

/-! ### constants and data expressions -/

theorem evalRhs_const (rd : Rd) (ty : Ty) (bits : Bits) (hty : regTy ty) (hlen : bits.length = tyWidth' ty) :
    evalRhs rd ty (fmtConst (tyCtx ty) bits) = .ok (constVal ty bits) := by
  cases ty <;> simp [regTy] at hty
  · -- stdLogic
    simp [tyCtx, fmtConst, evalRhs, evalExpr, coerce, constVal, bind, Except.bind]
  · -- slv
    rename_i w
    simp [tyWidth'] at hlen
    simp [tyCtx, fmtConst, evalRhs, evalExpr, coerce, constVal, bind, Except.bind, hlen]
  · rename_i w
    simp [tyWidth'] at hlen
    simp [tyCtx, fmtConst, evalRhs, evalExpr, coerce, constVal, bind, Except.bind, hlen]

theorem evalRhs_data (rd : Rd) (r : RegNode) (h : RegOK rd r) :
    evalRhs rd r.outTy (dataExpr r) = .ok (dataVal rd r) := by
  have hd := h.data
  have hot := h.outTy
  cases hdat : r.data with
  | none =>
    simp [hdat] at hd
    have hd := hd.1
    cases hty : r.outTy <;> simp [hty, regTy] at hot hd ⊢ <;>
      simp [dataExpr, hdat, evalRhs, othersFor, dataVal, hty]
  | some p =>
    obtain ⟨n, ty⟩ := p
    simp [hdat] at hd
    obtain ⟨dv, hobj, hhas, hshape⟩ := hd
    cases hty : r.outTy <;> simp [hty, regTy] at hot <;>
      cases ty <;> simp [hty, sameShape] at hshape <;>
      cases dv <;> simp [Val.hasTy] at hhas <;>
      simp [dataExpr, hdat, hty, tyCtx, Ctx.conv, evalRhs, evalExpr, hobj, evalCall1, coerce, dataVal, retag, Val.vec?, bind, Except.bind] <;>
      omega

/-! ### the two statement lists -/

theorem exec_resetAssigns (rd : Rd) (regs : List RegNode) (hok : ∀ r ∈ regs, RegOK rd r) :
    ∀ st : PSt, st.vars = [] →
      execStmts rd st (resetAssigns regs) =
        .ok { st with writes := st.writes ++ regs.map fun r => { sig := r.out, idx := none, val := constVal r.outTy r.resetValue } } := by
  induction regs with
  | nil => intro st _; simp [resetAssigns, execStmts_nil]
  | cons r rest ih =>
    intro st hv
    have hr := hok r (by simp)
    rw [resetAssigns, execStmts_cons]
    rw [execStmt_sigAssign rd st r.out _ r.outTy (constVal r.outTy r.resetValue) hr.outDecl
      (by rw [hv, withVars_nil]; exact evalRhs_const rd r.outTy r.resetValue hr.outTy hr.resetLen)]
    simp only [bind, Except.bind]
    rw [ih (fun x hx => hok x (by simp [hx])) _ (by simpa using hv)]
    simp [List.append_assoc]

theorem exec_regAssign (rd : Rd) (r : RegNode) (hr : RegOK rd r) (st : PSt) (hv : st.vars = []) :
    execStmt rd st (regAssign r) =
      .ok { st with writes := st.writes ++ (if enabled (enVal rd r) then [{ sig := r.out, idx := none, val := dataVal rd r }] else []) } := by
  have hassign : execStmt rd st (.sigAssign (.name r.out) (dataExpr r)) =
      .ok { st with writes := st.writes ++ [{ sig := r.out, idx := none, val := dataVal rd r }] } :=
    execStmt_sigAssign rd st r.out _ r.outTy _ hr.outDecl (by rw [hv, withVars_nil]; exact evalRhs_data rd r hr)
  have hen := hr.en
  cases hdat : r.data with
  | none =>
    cases hena : r.enable with
    | none => simp [regAssign, hdat, hena, hassign, enVal, enabled]
    | some e =>
      have := hr.data
      simp [hdat, hena] at this
  | some p =>
    cases hena : r.enable with
    | none => simp [regAssign, hdat, hena, hassign, enVal, enabled]
    | some e =>
      simp [hena] at hen
      obtain ⟨x, hx⟩ := hen
      have hcond : evalExpr (rd.withVars st.vars) (.paren (.bin .eq (.name e) (.chr .I))) = .ok (.bool (x == .I)) := by
        rw [hv, withVars_nil]
        simp [evalExpr, hx, evalBin, BinOp.isLogical, BinOp.isRelational, bind, Except.bind]
      by_cases hxi : x = .I
      · subst hxi
        simp [regAssign, hdat, hena]
        rw [execStmt_ite_true rd st _ _ _ (by simpa using hcond), execStmts_single, hassign]
        simp [enVal, hena, hx, enabled]
      · have : (x == SL.I) = false := by simpa using hxi
        rw [this] at hcond
        simp [regAssign, hdat, hena]
        rw [execStmt_ite_false rd st _ _ _ hcond, execStmts_nil]
        simp [enVal, hena, hx, enabled, this]

/-- the data assignments of the registers that are enabled -/
def dataWrites (rd : Rd) : List RegNode → List Write
  | [] => []
  | r :: rest => (if enabled (enVal rd r) then [{ sig := r.out, idx := none, val := dataVal rd r }] else []) ++ dataWrites rd rest

theorem exec_regAssigns (rd : Rd) (regs : List RegNode) (hok : ∀ r ∈ regs, RegOK rd r) :
    ∀ st : PSt, st.vars = [] →
      execStmts rd st (regAssigns regs) = .ok { st with writes := st.writes ++ dataWrites rd regs } := by
  induction regs with
  | nil => intro st _; simp [regAssigns, execStmts_nil, dataWrites]
  | cons r rest ih =>
    intro st hv
    rw [regAssigns, execStmts_cons, exec_regAssign rd r (hok r (by simp)) st hv]
    simp only [bind, Except.bind]
    rw [ih (fun x hx => hok x (by simp [hx])) _ (by simpa using hv)]
    simp [dataWrites, List.append_assoc]

theorem eval_clockCond (rd : Rd) (cfg : RegCfg) (c l : SL)
    (hc : rd.obj cfg.clock = some (.sl c)) (hl : rd.last cfg.clock = some (.sl l)) :
    evalExpr rd (clockCond cfg) = .ok (.bool (edgeNow cfg.trigger (rd.ev cfg.clock) c l)) := by
  cases ht : cfg.trigger <;> simp [clockCond, ht, evalExpr, hc, hl, edgeNow]

theorem eval_resetCond (rd : Rd) (cfg : RegCfg) (rv : SL) (h : rd.obj cfg.reset = some (.sl rv)) :
    evalExpr rd (resetCond cfg) = .ok (.bool (resetActive cfg rv)) := by
  simp [resetCond, evalExpr, h, evalBin, BinOp.isLogical, BinOp.isRelational, resetActive, bind, Except.bind]

/-! ### `expectedWrites` in the three situations -/

theorem expected_reset (cfg : RegCfg) (rd : Rd) (ev : Bool) (cur last rst : SL) (regs : List RegNode)
    (h : (cfg.kind = .async ∧ resetActive cfg rst = true) ∨
         (cfg.kind = .sync ∧ edgeNow cfg.trigger ev cur last = true ∧ resetActive cfg rst = true)) :
    expectedWrites cfg rd ev cur last rst regs = regs.map fun r => { sig := r.out, idx := none, val := constVal r.outTy r.resetValue } := by
  induction regs with
  | nil => simp [expectedWrites]
  | cons r rest ih =>
    rcases h with ⟨hk, hr⟩ | ⟨hk, he, hr⟩ <;> simp_all [expectedWrites, regNext]

theorem expected_data (cfg : RegCfg) (rd : Rd) (ev : Bool) (cur last rst : SL) (regs : List RegNode)
    (he : edgeNow cfg.trigger ev cur last = true) (hr : cfg.kind = .none ∨ resetActive cfg rst = false) :
    expectedWrites cfg rd ev cur last rst regs = dataWrites rd regs := by
  induction regs with
  | nil => simp [expectedWrites, dataWrites]
  | cons r rest ih =>
    have ih' := ih
    cases hk : cfg.kind <;> rcases hr with hr | hr <;> (try simp [hk] at hr) <;>
      by_cases hen : enabled (enVal rd r) = true <;>
      simp_all [expectedWrites, dataWrites, regNext]

theorem expected_none (cfg : RegCfg) (rd : Rd) (ev : Bool) (cur last rst : SL) (regs : List RegNode)
    (he : edgeNow cfg.trigger ev cur last = false) (hr : cfg.kind = .async → resetActive cfg rst = false) :
    expectedWrites cfg rd ev cur last rst regs = [] := by
  induction regs with
  | nil => simp [expectedWrites]
  | cons r rest ih =>
    cases hk : cfg.kind <;> simp [hk] at hr <;> simp [expectedWrites, regNext, hk, he, hr, ih]

end Gatery.C02
