import GateryModel.C02.Export
/-!
# C02 — the readiness list scheduler (`Process.cpp:990-1046`) emits statements in a topological order
-/
namespace Gatery.C02

variable {α : Type} [DecidableEq α]

/-- every statement finds its inputs ready when it is emitted: `rdy` is what is ready before the first statement of `l` -/
def TopoFrom (rdy : List α) : List (SStmt α) → Prop
  | [] => True
  | s :: r => (∀ x ∈ s.inputs, x ∈ rdy) ∧ TopoFrom (rdy ++ s.outputs) r

theorem ready_iff (s : SStmt α) (rdy : List α) : s.ready rdy = true ↔ ∀ x ∈ s.inputs, x ∈ rdy := by
  simp [SStmt.ready, List.all_eq_true]

/-! ### pickBest returns the index of a ready statement -/

theorem pickBest_go_spec (rdy : List α) :
    ∀ (l : List (SStmt α)) (i : Nat) (best : Option (Nat × Nat)) (k w : Nat),
      pickBest.go rdy l i best = some (k, w) →
      best = some (k, w) ∨ (i ≤ k ∧ ∃ s, l[k - i]? = some s ∧ s.ready rdy = true) := by
  intro l
  induction l with
  | nil => intro i best k w h; simp [pickBest.go] at h; exact Or.inl h
  | cons s r ih =>
    intro i best k w h
    simp only [pickBest.go] at h
    have lift : ∀ {b}, pickBest.go rdy r (i + 1) b = some (k, w) → (b = some (k, w) ∨ (i ≤ k ∧ ∃ s', (s :: r)[k - i]? = some s' ∧ s'.ready rdy = true)) := by
      intro b hb
      rcases ih (i + 1) b k w hb with h1 | ⟨hle, s', hs', hr⟩
      · exact Or.inl h1
      · refine Or.inr ⟨by omega, s', ?_, hr⟩
        have : k - i = (k - (i + 1)) + 1 := by omega
        rw [this]; simpa using hs'
    by_cases hrdy : s.ready rdy = true
    · simp only [hrdy, if_true] at h
      have here : i ≤ i ∧ ∃ s', (s :: r)[i - i]? = some s' ∧ s'.ready rdy = true := ⟨Nat.le_refl _, s, by simp, hrdy⟩
      cases best with
      | none =>
        rcases lift h with h1 | h2
        · simp at h1; obtain ⟨rfl, rfl⟩ := h1; exact Or.inr here
        · exact Or.inr h2
      | some bw =>
        obtain ⟨bi, bwk⟩ := bw
        simp only at h
        by_cases hlt : s.weak < bwk
        · simp only [hlt, if_true] at h
          rcases lift h with h1 | h2
          · simp at h1; obtain ⟨rfl, rfl⟩ := h1; exact Or.inr here
          · exact Or.inr h2
        · simp only [hlt, if_false] at h
          exact lift h
    · simp only [hrdy, Bool.false_eq_true, if_false] at h
      exact lift h

theorem pickBest_spec (stmts : List (SStmt α)) (rdy : List α) (i : Nat) (h : pickBest stmts rdy = some i) :
    ∃ s, stmts[i]? = some s ∧ s.ready rdy = true := by
  simp only [pickBest, Option.map_eq_some_iff] at h
  obtain ⟨⟨k, w⟩, hgo, rfl⟩ := h
  rcases pickBest_go_spec rdy stmts 0 none k w hgo with h1 | ⟨_, s, hs, hr⟩
  · simp at h1
  · exact ⟨s, by simpa using hs, hr⟩

/-! ### swap-remove keeps the multiset -/

omit [DecidableEq α] in
theorem swapRemove_snoc (d : List (SStmt α)) (x : SStmt α) (i : Nat) (hi : i ≤ d.length) :
    swapRemove (d ++ [x]) i = if i = d.length then d else d.set i x := by
  simp only [swapRemove, List.getLast?_concat, List.length_append, List.length_cons, List.length_nil]
  by_cases h : i = d.length
  · subst h; simp
  · have hlt : i < d.length := by omega
    have : (i + 1 == d.length + 0 + 1) = false := by simp; omega
    simp only [this, Bool.false_eq_true, if_false, h]
    rw [List.set_append]
    simp [hlt]

omit [DecidableEq α] in
theorem set_perm (x : SStmt α) : ∀ (d : List (SStmt α)) (i : Nat) (s : SStmt α), d[i]? = some s →
    (s :: d.set i x).Perm (d ++ [x]) := by
  intro d
  induction d with
  | nil => intro i s h; simp at h
  | cons a d' ih =>
    intro i s h
    cases i with
    | zero =>
      simp at h; subst h
      simp only [List.set_cons_zero, List.cons_append]
      exact List.Perm.cons _ (List.perm_append_singleton x d').symm
    | succ j =>
      simp at h
      simp only [List.set_cons_succ, List.cons_append]
      exact (List.Perm.swap a s _).trans (List.Perm.cons a (ih j s h))

omit [DecidableEq α] in
theorem swapRemove_perm (l : List (SStmt α)) (i : Nat) (s : SStmt α) (h : l[i]? = some s) :
    (s :: swapRemove l i).Perm l := by
  rcases List.eq_nil_or_concat l with rfl | ⟨d, x, rfl⟩
  · simp at h
  · simp only [List.concat_eq_append] at h ⊢
    have hi : i ≤ d.length := by
      rcases Nat.lt_or_ge i (d ++ [x]).length with h' | h'
      · simp at h'; omega
      · simp [List.getElem?_eq_none h'] at h
    rw [swapRemove_snoc d x i hi]
    by_cases hend : i = d.length
    · subst hend
      simp at h; subst h
      simp only [if_true]
      exact (List.perm_append_singleton _ d).symm
    · simp only [hend, if_false]
      have hlt : i < d.length := by omega
      have hd : d[i]? = some s := by
        rw [List.getElem?_append_left hlt] at h; exact h
      exact set_perm x d i s hd

/-! ### the loop -/

theorem scheduleLoop_spec : ∀ (fuel : Nat) (stmts : List (SStmt α)) (rdy : List α) (acc out : List (SStmt α)),
    scheduleLoop fuel stmts rdy acc = some out →
    ∃ tail, out = acc.reverse ++ tail ∧ TopoFrom rdy tail ∧ tail.Perm stmts := by
  intro fuel
  induction fuel with
  | zero =>
    intro stmts rdy acc out h
    simp only [scheduleLoop] at h
    cases stmts with
    | nil => simp at h; exact ⟨[], by simp [h.symm], trivial, List.Perm.refl _⟩
    | cons a r => simp at h
  | succ fuel ih =>
    intro stmts rdy acc out h
    simp only [scheduleLoop] at h
    cases stmts with
    | nil => simp at h; exact ⟨[], by simp [h.symm], trivial, List.Perm.refl _⟩
    | cons a r =>
      simp only [List.isEmpty_cons, Bool.false_eq_true, if_false] at h
      cases hp : pickBest (a :: r) rdy with
      | none => simp [hp] at h
      | some i =>
        obtain ⟨s, hs, hready⟩ := pickBest_spec (a :: r) rdy i hp
        simp only [hp, hs] at h
        obtain ⟨tail, hout, htopo, hperm⟩ := ih _ _ _ _ h
        refine ⟨s :: tail, by simp [hout], ⟨(ready_iff s rdy).mp hready, htopo⟩, ?_⟩
        exact (List.Perm.cons s hperm).trans (swapRemove_perm (a :: r) i s hs)

omit [DecidableEq α] in
/-- the positional reading of `TopoFrom`: whatever a statement reads was ready initially or is produced by an earlier statement -/
theorem topo_prefix : ∀ (l : List (SStmt α)) (rdy : List α), TopoFrom rdy l →
    ∀ (pre : List (SStmt α)) (s : SStmt α) (post : List (SStmt α)), l = pre ++ s :: post →
      ∀ x ∈ s.inputs, x ∈ rdy ∨ ∃ p ∈ pre, x ∈ p.outputs := by
  intro l
  induction l with
  | nil => intro rdy _ pre s post h; simp at h
  | cons a r ih =>
    intro rdy h pre s post heq x hx
    cases pre with
    | nil =>
      simp at heq
      obtain ⟨rfl, _⟩ := heq
      exact Or.inl (h.1 x hx)
    | cons p pre' =>
      simp at heq
      obtain ⟨rfl, hr⟩ := heq
      rcases ih (rdy ++ a.outputs) h.2 pre' s post hr x hx with h1 | ⟨q, hq, hxq⟩
      · rcases List.mem_append.mp h1 with h2 | h2
        · exact Or.inl h2
        · exact Or.inr ⟨a, by simp, h2⟩
      · exact Or.inr ⟨q, by simp [hq], hxq⟩

end Gatery.C02
