import GateryModel.C02.Export
/-!
# C02 — register semantics (specification) for `register_process_sound`

What a `Node_Register` does in one activation of its clocked process, as a function of the clock / reset / enable / data
values the process sees (the reference simulator's register: asynchronous reset dominates, then the clock edge, on an edge a
synchronous reset dominates the enable, a disabled register keeps its value).
-/
namespace Gatery.C02
open Vhdl

/-- the triggering edge as the process observes it: `rising_edge`, `falling_edge`, `'event` -/
def edgeNow (t : Trigger) (ev : Bool) (cur last : SL) : Bool :=
  match t with
  | .rising => ev && cur.to01? == some true && last.to01? == some false
  | .falling => ev && cur.to01? == some false && last.to01? == some true
  | .both => ev

def resetActive (cfg : RegCfg) (rst : SL) : Bool := rst == (if cfg.resetHigh then SL.I else SL.O)

def enabled (en : Option SL) : Bool :=
  match en with
  | none => true
  | some e => e == .I

/-- value assigned to the register in this activation; `none`: the register keeps its value -/
def regNext (kind : ResetKind) (edge rstAct : Bool) (en : Option SL) (data resetVal : Val) : Option Val :=
  match kind with
  | .async => if rstAct then some resetVal else if edge then (if enabled en then some data else none) else none
  | .sync => if edge then (if rstAct then some resetVal else if enabled en then some data else none) else none
  | .none => if edge then (if enabled en then some data else none) else none

/-- value of type `ty` -/
def Val.hasTy : Ty → Val → Prop
  | .stdLogic, .sl _ => True
  | .slv w, .slv b => b.length = w
  | .uns w, .uns b => b.length = w
  | _, _ => False

/-- the declared types a register can have -/
def regTy : Ty → Prop
  | .stdLogic => True | .slv _ => True | .uns _ => True | _ => False

/-- the constant `bits` as a value of type `ty` -/
def constVal (ty : Ty) (bits : Bits) : Val :=
  match ty with
  | .stdLogic => .sl (bits.headD .X)
  | .slv _ => .slv bits
  | .uns _ => .uns bits
  | _ => .lit bits

/-- same shape (both scalar or both vectors of the same width) -/
def sameShape : Ty → Ty → Prop
  | .stdLogic, .stdLogic => True
  | .slv a, .slv b => a = b
  | .slv a, .uns b => a = b
  | .uns a, .slv b => a = b
  | .uns a, .uns b => a = b
  | _, _ => False

def tyWidth' : Ty → Nat
  | .slv w => w | .uns w => w | _ => 1

/-- the value the process reads on the data input of `r`, seen under the register's type (all 'X' if unconnected) -/
def dataVal (rd : Rd) (r : RegNode) : Val :=
  match r.data with
  | none => match r.outTy with
    | .slv w => .slv (List.replicate w .X)
    | .uns w => .uns (List.replicate w .X)
    | _ => .sl .X
  | some (n, _) => match rd.obj n with
    | some dv => retag r.outTy dv
    | none => .sl .X

/-- the value of the enable input (`none`: the register has no enable) -/
def enVal (rd : Rd) (r : RegNode) : Option SL :=
  match r.enable with
  | none => none
  | some e => match rd.obj e with
    | some (.sl x) => some x
    | _ => some .X

/-- side conditions on one register: the declarations are consistent with the netlist (what `NamespaceScope` /
`chooseDataTypeFromOutput` guarantee).

Quirk kept out of the theorem by `data`: for a register whose data input is unconnected the exporter writes the unconditional
`out <= (others => 'X');` (`Process.cpp:1224-1228`) — it ignores an enable, and the statement is not legal for a STD_LOGIC
register.  The reference register keeps its value while disabled. -/
structure RegOK (rd : Rd) (r : RegNode) : Prop where
  outDecl : rd.ty r.out = some r.outTy
  outTy : regTy r.outTy
  resetLen : r.resetValue.length = tyWidth' r.outTy
  data : match r.data with
    | none => r.outTy ≠ .stdLogic ∧ r.enable = none   -- see the note below
    | some (n, ty) => ∃ dv, rd.obj n = some dv ∧ Val.hasTy ty dv ∧ sameShape ty r.outTy
  en : match r.enable with
    | none => True
    | some e => ∃ x, rd.obj e = some (.sl x)

/-- the signal assignments the register process must schedule in one activation -/
def expectedWrites (cfg : RegCfg) (rd : Rd) (ev : Bool) (cur last rst : SL) : List RegNode → List Write
  | [] => []
  | r :: rest =>
    let tail := expectedWrites cfg rd ev cur last rst rest
    match regNext cfg.kind (edgeNow cfg.trigger ev cur last) (resetActive cfg rst) (enVal rd r) (dataVal rd r) (constVal r.outTy r.resetValue) with
    | some v => { sig := r.out, idx := none, val := v } :: tail
    | none => tail

end Gatery.C02
