/-!
# C02 — abstract syntax of the VHDL subset that gatery's exporter emits

Sources (all under /repo/source/gatery/export/vhdl):
* `Process.cpp:262-655`  `CombinatoryProcess::formatExpression` — expressions
* `Process.cpp:657-1054` `CombinatoryProcess::writeVHDL` — `PROCESS(all)`, `:=`/`<=`, IF/ELSIF/ELSE, CASE/WHEN, ASSERT
* `Process.cpp:1092-1243` `RegisterProcess::writeVHDL` — clocked processes
* `Entity.cpp:258-470` entity / ports / instantiation with port maps (formal- and actual-side type conversions)
* `BasicBlock.cpp:558-735` concurrent statements (instantiations, blocks, processes, conditional signal assignment with 'Z')
* `GenericMemoryEntity.cpp:106-520` inferred memory: array type, `memory(to_integer(addr))` reads and writes
* `BaseGrouping.cpp:163-246` constants and declarations

Vectors: every vector gatery declares is `(w-1 downto 0)` (`CodeFormatting.cpp:250-270`); a vector value is the list of its
elements with **index 0 first** (so `"100"` is `[0,0,1]`).  Core Lean only.
-/
namespace Gatery.C02.Vhdl

/-- IEEE 1164 `std_ulogic`: 'U' 'X' '0' '1' 'Z' 'W' 'L' 'H' '-'. -/
inductive SL | U | X | O | I | Z | W | L | H | D
  deriving DecidableEq, Repr, Inhabited

abbrev Bits := List SL

def SL.ofChar : Char → Option SL
  | 'U' => some .U | 'X' => some .X | '0' => some .O | '1' => some .I | 'Z' => some .Z
  | 'W' => some .W | 'L' => some .L | 'H' => some .H | '-' => some .D | _ => none

def SL.toChar : SL → Char
  | .U => 'U' | .X => 'X' | .O => '0' | .I => '1' | .Z => 'Z' | .W => 'W' | .L => 'L' | .H => 'H' | .D => '-'

/-- MSB-first text of a vector value -/
def bitsToString (b : Bits) : String := String.ofList (b.reverse.map SL.toChar)

inductive BinOp
  | and | or | xor | nand | nor | xnor
  | eq | ne | lt | gt | le | ge
  | add | sub | mul | cat
  deriving DecidableEq, Repr, Inhabited

inductive Fn1
  | toUnsigned      -- UNSIGNED( )
  | toSlv           -- STD_LOGIC_VECTOR( )
  | toInteger       -- to_integer( )
  | bool2sl         -- bool2stdlogic( )     (GateryHelperPackage, HelperPackage.cpp)
  | sl2bool         -- stdlogic2bool( )
  deriving DecidableEq, Repr, Inhabited

inductive Fn2
  | resize | shiftLeft | shiftRight
  deriving DecidableEq, Repr, Inhabited

inductive Expr
  | name (n : String)
  | index (n : String) (i : Expr)             -- n(i)
  | slice (n : String) (hi lo : Nat)          -- n(hi downto lo)
  | chr (c : SL)                              -- '0'
  | str (bits : Bits)                         -- "0101"   (stored index-0 first)
  | boolLit (b : Bool)                        -- TRUE / FALSE
  | int (n : Nat)
  | others (c : SL)                           -- (others => 'X')
  | agg0 (e : Expr)                           -- (0 => e)
  | not (e : Expr)
  | bin (op : BinOp) (a b : Expr)
  | call1 (f : Fn1) (a : Expr)
  | call2 (f : Fn2) (a b : Expr)
  | edge (rising : Bool) (clk : String)       -- rising_edge(clk) / falling_edge(clk)
  | event (n : String)                        -- clk'event
  | paren (e : Expr)                          -- ( e )  — kept so that emitted text and model output can be compared exactly
  deriving Repr, Inhabited, BEq

/-- assignment target -/
inductive Target
  | name (n : String)
  | index (n : String) (i : Expr)             -- memory(to_integer(addr)) <=
  deriving Repr, Inhabited, BEq

mutual
  inductive Stmt
    | sigAssign (t : Target) (e : Expr)
    | varAssign (n : String) (e : Expr)
    | ite (c : Expr) (t e : Stmts)            -- ELSIF is nested in the else branch
    | case (sel : Expr) (alts : Alts)
    | assert (c : Expr)
  inductive Stmts
    | nil
    | cons (s : Stmt) (r : Stmts)
  /-- `WHEN "bits" => body` ; `choice = none` is `WHEN OTHERS` -/
  inductive Alts
    | nil
    | cons (choice : Option Bits) (body : Stmts) (r : Alts)
end

instance : Inhabited Stmt := ⟨.assert (.boolLit true)⟩
instance : Inhabited Stmts := ⟨.nil⟩
instance : Inhabited Alts := ⟨.nil⟩

def Stmts.ofList : List Stmt → Stmts
  | [] => .nil
  | s :: r => .cons s (Stmts.ofList r)

def Stmts.toList : Stmts → List Stmt
  | .nil => []
  | .cons s r => s :: r.toList

def Stmts.append : Stmts → Stmts → Stmts
  | .nil, b => b
  | .cons s r, b => .cons s (r.append b)

inductive Ty
  | stdLogic
  | slv (w : Nat)
  | uns (w : Nat)
  | boolean
  | integer
  | mem (words width : Nat)                   -- array(words-1 downto 0) of UNSIGNED(width-1 downto 0)
  deriving DecidableEq, Repr, Inhabited

inductive Dir | input | output | inout
  deriving DecidableEq, Repr, Inhabited

inductive ObjKind | signal | variable | constant
  deriving DecidableEq, Repr, Inhabited

/-- initial value of a declaration -/
inductive Init
  | none
  | expr (e : Expr)
  | memInit (words : List (Nat × Bits)) (dflt : SL)   -- (3 => "0101", others => (others => 'X'))
  deriving Repr, Inhabited

structure Decl where
  kind : ObjKind
  name : String
  ty : Ty
  init : Init := .none
  deriving Repr, Inhabited

structure Port where
  name : String
  dir : Dir
  ty : Ty
  init : Option Expr := none          -- default expression `:= …` (initial value of the port's drivers)
  deriving Repr, Inhabited

/-- one association of a port map. `formalConv`: `UNSIGNED(formal) => actual`; the actual is an expression (a name, a name under a
type conversion, a literal or `open`). -/
structure Assoc where
  formal : String
  formalConv : Option Fn1 := none
  actual : Option Expr                        -- none = open
  deriving Repr, Inhabited

inductive Conc
  | process (label : String) (sens : Option (List String)) (decls : List Decl) (body : Stmts)   -- sens = none: PROCESS(all)
  | inst (label : String) (entity : String) (map : List Assoc)
  | assign (target : String) (value : Expr) (cond : Option Expr) (elseValue : Option Expr)       -- t <= v [when c else e];
  | block (label : String) (decls : List Decl) (body : List Conc)
  deriving Inhabited

structure Entity where
  name : String
  ports : List Port
  decls : List Decl
  body : List Conc
  deriving Inhabited

structure DesignFile where
  entities : List Entity
  packages : List String          -- names of packages seen (bodies are not interpreted: the helper functions are built in)
  deriving Inhabited

end Gatery.C02.Vhdl
