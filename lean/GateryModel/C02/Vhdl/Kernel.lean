import Std
import GateryModel.C02.Vhdl.Sem
import GateryModel.C02.Vhdl.Parse
/-!
# C02 — elaboration and simulation kernel (delta cycles), test-vector replay

Model of LRM 14 (elaboration, simulation cycle) for the shape gatery emits; trusted like `Sem.lean`.

* Elaboration flattens the instance hierarchy.  A port associated with a signal name (possibly under a type conversion on the
  actual or on the formal side) **is** that signal (LRM 6.5.6.3: no delta delay through port associations); other actuals
  (literals, `open`) become constant signals.  Blocks are flattened into the enclosing architecture.
* Every process has one driver per signal it assigns, initialised with the signal's initial value; the value of a signal with
  several drivers is `resolved` over them (tristate pins, multi-driver nets).
* Simulation cycle: run the active processes against the *current* values, update drivers from their `writes`, recompute the
  touched signals, the changed ones have an event (`'event`, `'last_value`), processes sensitive to them become active.
  `PROCESS(all)` is sensitive to every signal it reads.  Variables persist between activations.
* The testbench (`FileBasedTestbenchRecorder.cpp:58-395`, `BaseTestbenchRecorder.cpp:126-152`) is modelled, not interpreted:
  clock generators `WAIT FOR half; clk <= not clk`, and the vector interpreter: `ADV n` waits n ps, `SET`/`RST` assign (taking
  effect one delta later), `CHECK` is `ASSERT std_match(sig, value)` on the current value.
-/
namespace Gatery.C02.Vhdl
open Std

/-! ## renaming -/

def Expr.rename (f : String → String) : Expr → Expr
  | .name n => .name (f n)
  | .index n i => .index (f n) (i.rename f)
  | .slice n h l => .slice (f n) h l
  | .agg0 e => .agg0 (e.rename f)
  | .not e => .not (e.rename f)
  | .bin o a b => .bin o (a.rename f) (b.rename f)
  | .call1 g a => .call1 g (a.rename f)
  | .call2 g a b => .call2 g (a.rename f) (b.rename f)
  | .edge r c => .edge r (f c)
  | .event n => .event (f n)
  | .paren e => .paren (e.rename f)
  | e => e

mutual
  def Stmt.rename (f : String → String) : Stmt → Stmt
    | .sigAssign (.name n) e => .sigAssign (.name (f n)) (e.rename f)
    | .sigAssign (.index n i) e => .sigAssign (.index (f n) (i.rename f)) (e.rename f)
    | .varAssign n e => .varAssign (f n) (e.rename f)
    | .ite c t e => .ite (c.rename f) (t.rename f) (e.rename f)
    | .case s a => .case (s.rename f) (a.rename f)
    | .assert c => .assert (c.rename f)
  def Stmts.rename (f : String → String) : Stmts → Stmts
    | .nil => .nil
    | .cons s r => .cons (s.rename f) (r.rename f)
  def Alts.rename (f : String → String) : Alts → Alts
    | .nil => .nil
    | .cons c b r => .cons c (b.rename f) (r.rename f)
end

/-- names read by an expression -/
def Expr.reads : Expr → List String
  | .name n => [n]
  | .index n i => n :: i.reads
  | .slice n _ _ => [n]
  | .agg0 e => e.reads
  | .not e => e.reads
  | .bin _ a b => a.reads ++ b.reads
  | .call1 _ a => a.reads
  | .call2 _ a b => a.reads ++ b.reads
  | .edge _ c => [c]
  | .event n => [n]
  | .paren e => e.reads
  | _ => []

mutual
  def Stmt.reads : Stmt → List String
    | .sigAssign (.name _) e => e.reads
    | .sigAssign (.index _ i) e => i.reads ++ e.reads
    | .varAssign _ e => e.reads
    | .ite c t e => c.reads ++ t.reads ++ e.reads
    | .case s a => s.reads ++ a.reads
    | .assert c => c.reads
  def Stmts.reads : Stmts → List String
    | .nil => []
    | .cons s r => s.reads ++ r.reads
  def Alts.reads : Alts → List String
    | .nil => []
    | .cons _ b r => b.reads ++ r.reads
end

mutual
  def Stmt.sigTargets : Stmt → List String
    | .sigAssign (.name n) _ => [n]
    | .sigAssign (.index n _) _ => [n]
    | .varAssign _ _ => []
    | .ite _ t e => t.sigTargets ++ e.sigTargets
    | .case _ a => a.sigTargets
    | .assert _ => []
  def Stmts.sigTargets : Stmts → List String
    | .nil => []
    | .cons s r => s.sigTargets ++ r.sigTargets
  def Alts.sigTargets : Alts → List String
    | .nil => []
    | .cons _ b r => b.sigTargets ++ r.sigTargets
end

/-! ## flat design -/

structure FProc where
  name : String
  sens : List String
  body : Stmts
  tys : HashMap String Ty                 -- type of every object this process can see (global signal names, local variable names)
  varInit : List (String × Val)
  drives : List String
  deriving Inhabited

structure Flat where
  sigs : Array (String × Ty × Val) := #[]   -- global name, declared type in the declaring scope, initial value
  procs : Array FProc := #[]
  deriving Inhabited

/-- stored form of a value: vectors lose their type tag (the reader's declared type is applied by `retag`) -/
def normVal (v : Val) : Val :=
  match v.vec? with
  | some (_, b) => .lit b
  | none => v

def constRd : Rd := { obj := fun _ => none, ev := fun _ => false, last := fun _ => none, ty := fun _ => none }

def initValue (d : Decl) : Except String Val :=
  match d.init with
  | .none => .ok d.ty.default
  | .expr e => evalRhs constRd d.ty e
  | .memInit ws dflt =>
    match d.ty with
    | .mem n w =>
      let base := List.replicate n (List.replicate w dflt)
      let filled := ws.foldl (fun acc (i, b) => if i < n then acc.set i b else acc) base
      if ws.all (fun (i, b) => i < n && b.length == w) then .ok (.mem filled) else .error s!"memory initialiser of '{d.name}' does not fit the array"
    | _ => .error "memory initialiser for a non-memory"

def dedup (l : List String) : List String := l.foldl (fun acc x => if acc.contains x then acc else acc ++ [x]) []

def tyTag : Ty → Nat
  | .slv _ => 1 | .uns _ => 2 | .stdLogic => 3 | _ => 4

def tyWidth : Ty → Nat
  | .slv w => w | .uns w => w | .stdLogic => 1 | _ => 0

/-- strip parentheses and one type conversion from a port-map actual; returns the name and the conversion -/
def actualName? : Expr → Option (String × Option Fn1)
  | .name n => some (n, none)
  | .paren e => actualName? e
  | .call1 .toUnsigned (.name n) => some (n, some .toUnsigned)
  | .call1 .toSlv (.name n) => some (n, some .toSlv)
  | _ => none

structure Scope where
  path : String
  ren : HashMap String String             -- local name → global name
  tys : HashMap String Ty                 -- global name → type in this scope

abbrev EM := StateT Flat (Except String)

/-- an OUT port with a default expression that is associated with a signal: the default is the initial value of the drivers
inside the instance, hence (LRM 14.7.5.2, initial driving/effective values) of the whole net -/
def setSigInit (name : String) (v : Val) : EM Unit :=
  modify fun f => { f with sigs := f.sigs.map fun (n, ty, old) => if n == name then (n, ty, normVal v) else (n, ty, old) }

def portDefault (p : Port) : Except String Val :=
  match p.init with
  | some e => evalRhs constRd p.ty e
  | none => .ok p.ty.default

def addSig (name : String) (ty : Ty) (v : Val) : EM Unit := do
  let f ← get
  if f.sigs.any (·.1 == name) then throw s!"duplicate signal '{name}'"
  set { f with sigs := f.sigs.push (name, ty, normVal v) }

def mkProc (sc : Scope) (label : String) (sens : Option (List String)) (decls : List Decl) (body : Stmts) : EM Unit := do
  let locals := decls.map (·.name)
  let f := fun n => if locals.contains n then n else (sc.ren.get? n).getD n
  let body' := body.rename f
  let mut tys := sc.tys
  let mut varInit : List (String × Val) := []
  for d in decls do
    if d.kind == .signal then throw "signal declared inside a process"
    tys := tys.insert d.name d.ty
    let v ← (initValue d : Except String Val)
    varInit := varInit ++ [(d.name, v)]
  let sigReads := dedup ((body'.reads).filter fun n => !locals.contains n)
  let sens' := match sens with
    | some l => l.map f
    | none => sigReads
  let idx := (← get).procs.size
  let pname := sc.path ++ label ++ "#" ++ toString idx
  let proc : FProc := { name := pname, sens := sens', body := body', tys := tys, varInit := varInit, drives := dedup body'.sigTargets }
  modify fun fl => { fl with procs := fl.procs.push proc }

def declareLocals (sc : Scope) (decls : List Decl) : EM Scope := do
  let mut sc := sc
  for d in decls do
    if d.kind == .variable then throw "variable declared outside a process"
    let g := sc.path ++ d.name
    let v ← (initValue d : Except String Val)
    addSig g d.ty v
    sc := { sc with ren := sc.ren.insert d.name g, tys := sc.tys.insert g d.ty }
  return sc

partial def elabBody (design : DesignFile) (sc : Scope) (depth : Nat) : List Conc → EM Unit
  | [] => pure ()
  | c :: rest => do
    match c with
    | .process label sens decls body => mkProc sc label sens decls body
    | .assign t v cond els =>
      let body : Stmts := match cond, els with
        | some cnd, some e => .cons (.ite cnd (.cons (.sigAssign (.name t) v) .nil) (.cons (.sigAssign (.name t) e) .nil)) .nil
        | _, _ => .cons (.sigAssign (.name t) v) .nil
      mkProc sc s!"assign_{t}" none [] body
    | .block label decls body =>
      let sc' ← declareLocals sc decls
      elabBody design sc' depth body
      let _ := label
    | .inst label ename map =>
      if depth == 0 then throw "instantiation depth exceeded"
      match design.entities.find? (·.name == ename) with
      | none => throw s!"instance '{label}': entity '{ename}' not found in the exported files"
      | some ent =>
        let path' := s!"{sc.path}{label}/"
        let mut ren : HashMap String String := {}
        let mut tys : HashMap String Ty := {}
        for a in map do
          if !(ent.ports.any (·.name == a.formal)) then throw s!"instance '{label}': '{a.formal}' is not a port of '{ename}'"
        for p in ent.ports do
          match map.find? (·.formal == p.name) with
          | none =>
            if p.dir == .input && p.init.isNone then throw s!"instance '{label}': input port '{p.name}' is not associated"
            let g := path' ++ p.name
            addSig g p.ty (← (portDefault p : Except String Val))
            ren := ren.insert p.name g; tys := tys.insert g p.ty
          | some a =>
            match a.actual with
            | none =>
              let g := path' ++ p.name
              addSig g p.ty (← (portDefault p : Except String Val))
              ren := ren.insert p.name g; tys := tys.insert g p.ty
            | some e =>
              match actualName? e with
              | some (n, conv) =>
                match sc.ren.get? n with
                | none => throw s!"instance '{label}': actual '{n}' of port '{p.name}' is not a signal of the enclosing architecture"
                | some g =>
                  let aty := (sc.tys.get? g).getD .boolean
                  -- type rule of the association (after the conversions on either side the types must agree)
                  let actualTag := match conv with | some .toUnsigned => 2 | some .toSlv => 1 | _ => tyTag aty
                  let formalTag := match a.formalConv with | some .toUnsigned => 2 | some .toSlv => 1 | _ => tyTag p.ty
                  if conv.isSome && a.formalConv.isSome then throw s!"instance '{label}': conversions on both sides of '{p.name}'"
                  if conv.isSome && p.dir != .input then throw s!"instance '{label}': conversion on the actual of non-input port '{p.name}'"
                  if a.formalConv.isSome && p.dir == .input then throw s!"instance '{label}': conversion on the formal of input port '{p.name}'"
                  if actualTag != formalTag then throw s!"instance '{label}': type mismatch in the association of port '{p.name}'"
                  if tyWidth aty != tyWidth p.ty then throw s!"instance '{label}': width mismatch in the association of port '{p.name}' ({tyWidth p.ty} vs {tyWidth aty})"
                  if p.dir == .output && p.init.isSome then setSigInit g (← (portDefault p : Except String Val))
                  ren := ren.insert p.name g; tys := tys.insert g p.ty
              | none =>
                if p.dir != .input then throw s!"instance '{label}': expression associated with non-input port '{p.name}'"
                let g := path' ++ p.name
                let v ← (evalRhs constRd p.ty e : Except String Val)
                addSig g p.ty v
                ren := ren.insert p.name g; tys := tys.insert g p.ty
        let sc0 : Scope := { path := path', ren, tys }
        let sc1 ← declareLocals sc0 ent.decls
        elabBody design sc1 (depth - 1) ent.body
    elabBody design sc depth rest

/-- elaborate `top`; its ports become signals named like the ports (these are the testbench's signals) -/
def elaborate (design : DesignFile) (top : String) (tbInit : List (String × Val)) : Except String (Flat × Entity) := do
  match design.entities.find? (·.name == top) with
  | none => throw s!"top entity '{top}' not found"
  | some ent =>
    let run : EM Unit := do
      let mut ren : HashMap String String := {}
      let mut tys : HashMap String Ty := {}
      for p in ent.ports do
        let v := match tbInit.lookup p.name with
          | some v => v
          | none => p.ty.default
        let v ← (coerce p.ty (retag p.ty v) : Except String Val)
        addSig p.name p.ty v
        ren := ren.insert p.name p.name; tys := tys.insert p.name p.ty
      let sc ← declareLocals { path := "", ren, tys } ent.decls
      elabBody design sc 16 ent.body
    let ((), f) ← run.run {}
    return (f, ent)

/-! ## simulation kernel -/

structure KState where
  cur : HashMap String Val := {}
  last : HashMap String Val := {}
  drv : HashMap (String × String) Val := {}     -- (driver id, signal) ↦ value; driver id = process index or "tb"
  vars : Array (List (String × Val)) := #[]
  taint : HashMap String (List Bool) := {}            -- per signal: which elements went through a metavalue decision (see `taintExpr`)
  dtaint : HashMap (String × String) (List Bool) := {} -- per driver
  vtaint : Array (List (String × List Bool)) := #[]   -- per process: taint of its variables
  taintWake : List String := []                       -- signals whose taint (not value) changed in the last delta
  deltas : Nat := 0
  procRuns : Nat := 0
  assertsFailed : Nat := 0

structure Kernel where
  flat : Flat
  sigDrivers : HashMap String (List String)     -- driver ids per signal
  sensOf : HashMap String (List Nat)            -- processes sensitive to a signal

def resolveVals (vs : List Val) : Except String Val :=
  match vs with
  | [] => .error "signal without driver"
  | [v] => .ok v
  | v :: rest => rest.foldlM (fun acc w =>
      match acc, w with
      | .sl a, .sl b => .ok (.sl (a.resolve2 b))
      | .lit a, .lit b => if a.length == b.length then .ok (.lit (List.zipWith SL.resolve2 a b)) else .error "drivers of different length"
      | _, _ => .error "several drivers on an unresolved signal") v

def mkKernel (flat : Flat) (tbDriven : List String) : Kernel := Id.run do
  let mut sd : HashMap String (List String) := {}
  let mut so : HashMap String (List Nat) := {}
  for s in tbDriven do sd := sd.insert s ["tb"]
  let mut i := 0
  for p in flat.procs do
    for s in p.drives do sd := sd.insert s ((sd.getD s []) ++ [toString i])
    for s in p.sens do so := so.insert s ((so.getD s []) ++ [i])
    i := i + 1
  return { flat, sigDrivers := sd, sensOf := so }

def initState (k : Kernel) : KState := Id.run do
  let mut st : KState := {}
  for (n, _, v) in k.flat.sigs do
    st := { st with cur := st.cur.insert n v, last := st.last.insert n v }
    for d in k.sigDrivers.getD n [] do
      st := { st with drv := st.drv.insert (d, n) v }
  st := { st with vars := k.flat.procs.map (·.varInit), vtaint := k.flat.procs.map (fun _ => []) }
  return st

/-! ## taint: values that went through a metavalue decision

A defined VHDL value is *tainted* when a metavalue took part in deciding it: (a) the result of a relational operator, `to_integer`,
an index or a shift amount with a metavalue operand (numeric_std answers FALSE / 0 there); (b) everything assigned anywhere inside
an IF / CASE whose condition / selector is tainted — the branch taken and the targets of the branches skipped; (c) whatever is
computed from tainted operands (element-wise for logical operators, concatenation, slices; all elements for arithmetic), through
variables, signals, registers, memory words and port associations (aliases). Metavalues themselves are tainted. Taint is only used
to classify a defined-versus-defined CHECK mismatch; where the rules below are unsure they answer "not tainted". -/

def metaMask (v : Val) : List Bool :=
  match normVal v with
  | .sl a => [a.to01?.isNone]
  | .lit a => a.map (·.to01?.isNone)
  | .mem ws => ws.map (·.any (·.to01?.isNone))
  | _ => [false]

def fitT (w : Nat) (t : List Bool) : List Bool := (t ++ List.replicate (w - t.length) false).take w

def orT (a b : List Bool) : List Bool :=
  let w := max a.length b.length
  List.zipWith (· || ·) (fitT w a) (fitT w b)

partial def taintExpr (rd : Rd) (tl : String → List Bool) (e : Expr) : List Bool :=
  match evalExpr rd e with
  | .error _ => []
  | .ok v =>
    let mm := metaMask v
    let w := mm.length
    let allT := fun (b : Bool) => List.replicate w b
    let sub := taintExpr rd tl
    let vmeta := fun (x : Expr) => match evalExpr rd x with | .ok y => (metaMask y).any id | _ => false
    let t : List Bool := match e with
      | .name n => fitT w (tl n)
      | .index n i =>
        if (sub i).any id || vmeta i then allT true else
        match evalExpr rd i with
        | .ok (.int k) => allT ((tl n).getD k false)
        | _ => allT false
      | .slice n _ l => fitT w ((tl n).drop l)
      | .agg0 x => fitT w (sub x)
      | .not x => fitT w (sub x)
      | .paren x => fitT w (sub x)
      | .bin op a b =>
        let ta := sub a
        let tb := sub b
        if op.isLogical then (if ta.length == tb.length then List.zipWith (· || ·) ta tb else allT (ta.any id || tb.any id))
        else if op == .cat then tb ++ ta
        else allT (ta.any id || tb.any id || vmeta a || vmeta b)     -- relational and arithmetic operators
      | .call1 f a =>
        match f with
        | .toInteger => allT ((sub a).any id || vmeta a)
        | _ => fitT w (sub a)
      | .call2 f a b =>
        match f with
        | .resize => fitT w (sub a)
        | _ => allT ((sub a).any id || (sub b).any id || vmeta b)
      | _ => allT false
    List.zipWith (· || ·) (fitT w t) mm

/-- a taint update of a signal by one process activation; `taint = none`: every element (assignment decided by a tainted condition) -/
structure TWrite where
  sig : String
  idx : Option Nat := none
  taint : Option (List Bool)
  assigned : Bool            -- false: the statement was skipped, but under a tainted condition (the kept value is tainted as well)

structure TSt where
  pst : PSt
  vt : List (String × List Bool) := []
  tws : List TWrite := []

mutual
  def Stmt.varTargets : Stmt → List String
    | .varAssign n _ => [n]
    | .ite _ t e => t.varTargets ++ e.varTargets
    | .case _ a => a.varTargets
    | _ => []
  def Stmts.varTargets : Stmts → List String
    | .nil => []
    | .cons s r => s.varTargets ++ r.varTargets
  def Alts.varTargets : Alts → List String
    | .nil => []
    | .cons _ b r => b.varTargets ++ r.varTargets
end

def setVT (vt : List (String × List Bool)) (n : String) (t : List Bool) : List (String × List Bool) :=
  (vt.filter (·.1 != n)) ++ [(n, t)]

def widthOfVal (v : Val) : Nat := (metaMask v).length

mutual
  /-- `execStmt` together with the taint bookkeeping; `ctl`: an enclosing condition / selector is tainted -/
  partial def texecStmt (rd : Rd) (tl : String → List Bool) (ctl : Bool) (s : TSt) : Stmt → Except String TSt
    | .ite c t e => do
      let rdv := rd.withVars s.pst.vars
      let tlv := fun m => match s.vt.lookup m with | some x => x | none => tl m
      let tc := ctl || (taintExpr rdv tlv c).any id
      let s := if tc then markAll s (t.sigTargets ++ e.sigTargets) (t.varTargets ++ e.varTargets) else s
      match ← evalExpr rdv c with
      | .bool true => texecStmts rd tl tc s t
      | .bool false => texecStmts rd tl tc s e
      | _ => .error "IF condition is not a BOOLEAN"
    | .case sel alts => do
      let rdv := rd.withVars s.pst.vars
      let tlv := fun m => match s.vt.lookup m with | some x => x | none => tl m
      let tc := ctl || (taintExpr rdv tlv sel).any id
      let s := if tc then markAll s alts.sigTargets alts.varTargets else s
      let v ← evalExpr rdv sel
      let b ← caseSelBits v
      texecAlts rd tl tc s b alts
    | st => do
      -- assignments and asserts: the value semantics is `execStmt`
      let rdv := rd.withVars s.pst.vars
      let tlv := fun m => match s.vt.lookup m with | some x => x | none => tl m
      let pst ← execStmt rd s.pst st
      match st with
      | .varAssign n e =>
        let w := match pst.vars.lookup n with | some v => widthOfVal v | none => 1
        let t := if ctl then List.replicate w true else fitT w (taintExpr rdv tlv e)
        .ok { s with pst, vt := setVT s.vt n t }
      | .sigAssign (.name n) e =>
        .ok { s with pst, tws := s.tws ++ [{ sig := n, taint := if ctl then none else some (taintExpr rdv tlv e), assigned := true }] }
      | .sigAssign (.index n i) e =>
        let k := match pst.writes.getLast? with | some w => w.idx | none => none
        let ti := (taintExpr rdv tlv i).any id
        let te := (taintExpr rdv tlv e).any id
        -- a tainted index: any word may have been the target
        .ok { s with pst, tws := s.tws ++ [{ sig := n, idx := if ti || ctl then none else k, taint := if ti || ctl then none else some [te], assigned := true }] }
      | _ => .ok { s with pst }
  partial def texecStmts (rd : Rd) (tl : String → List Bool) (ctl : Bool) (s : TSt) : Stmts → Except String TSt
    | .nil => .ok s
    | .cons x r => do
      let s' ← texecStmt rd tl ctl s x
      texecStmts rd tl ctl s' r
  partial def texecAlts (rd : Rd) (tl : String → List Bool) (ctl : Bool) (s : TSt) (sel : Bits) : Alts → Except String TSt
    | .nil => .error "CASE: no alternative matches and there is no WHEN OTHERS"
    | .cons none body _ => texecStmts rd tl ctl s body
    | .cons (some c) body r => if c == sel then texecStmts rd tl ctl s body else texecAlts rd tl ctl s sel r
  partial def markAll (s : TSt) (sigs vars : List String) : TSt :=
    { s with tws := s.tws ++ sigs.map (fun n => { sig := n, taint := none, assigned := false }),
             vt := vars.foldl (fun vt n => setVT vt n (List.replicate (match s.pst.vars.lookup n with | some v => widthOfVal v | none => 1) true)) s.vt }
end

/-- run the given processes against the current values (events = `ev`), then update signals; returns the changed signals -/
def runDelta (k : Kernel) (st : KState) (active : List Nat) (ev : List String) (ext : List (String × Val)) : Except String (KState × List String) := do
  let mut st := st
  let mut touched : List String := []
  let mut taintTouched : List String := []
  -- external (testbench) driver updates
  for (s, v) in ext do
    st := { st with drv := st.drv.insert ("tb", s) (normVal v), dtaint := st.dtaint.insert ("tb", s) [] }
    if !taintTouched.contains s then taintTouched := s :: taintTouched
    if !touched.contains s then touched := s :: touched
  let cur := st.cur
  let last := st.last
  for pi in active do
    let p := k.flat.procs[pi]!
    let rd : Rd := {
      obj := fun n => match cur.get? n with
        | some v => some (match p.tys.get? n with | some ty => retag ty v | none => v)
        | none => none
      ev := fun n => ev.contains n
      last := fun n => last.get? n
      ty := fun n => p.tys.get? n }
    let pst : PSt := { vars := st.vars[pi]! }
    let taintNow := st.taint
    let tl := fun (n : String) => taintNow.getD n []
    match texecStmts rd tl false { pst, vt := st.vtaint.getD pi [] } p.body with
    | .error e => throw s!"process {p.name}: {e}"
    | .ok tr =>
      let r := tr.pst
      st := { st with vars := st.vars.set! pi r.vars, procRuns := st.procRuns + 1, assertsFailed := st.assertsFailed + r.asserts,
                      vtaint := if pi < st.vtaint.size then st.vtaint.set! pi tr.vt else st.vtaint }
      for tw in tr.tws do
        let key := (toString pi, tw.sig)
        let w := match st.cur.get? tw.sig with | some v => widthOfVal v | none => 1
        let old := fitT w (st.dtaint.getD key [])
        let nt : List Bool := match tw.idx, tw.taint with
          | _, none => List.replicate w true
          | none, some t => fitT w t
          | some i, some t => old.set i (t.any id)
        st := { st with dtaint := st.dtaint.insert key (if tw.assigned then nt else orT old nt) }
        if !taintTouched.contains tw.sig then taintTouched := tw.sig :: taintTouched
      for w in r.writes do
        let key := (toString pi, w.sig)
        match w.idx with
        | none => st := { st with drv := st.drv.insert key (normVal w.val) }
        | some i =>
          match st.drv.get? key, w.val.vec? with
          | some (.mem ws), some (_, b) => st := { st with drv := st.drv.insert key (.mem (ws.set i b)) }
          | _, _ => throw s!"process {p.name}: element assignment to '{w.sig}' which is not a memory"
        if !touched.contains w.sig then touched := w.sig :: touched
  let mut changed : List String := []
  for s in touched do
    let ds := k.sigDrivers.getD s []
    let vs := ds.filterMap fun d => st.drv.get? (d, s)
    let v ← resolveVals vs
    match st.cur.get? s with
    | some old =>
      if old != v then
        st := { st with last := st.last.insert s old, cur := st.cur.insert s v }
        changed := s :: changed
    | none => throw s!"assignment to unknown signal '{s}'"
  -- taints: a signal's taint is the union over its drivers; a changed taint re-activates the readers (without an event)
  let mut taintChanged : List String := []
  for s in taintTouched do
    let w := match st.cur.get? s with | some v => widthOfVal v | none => 1
    let nt := (k.sigDrivers.getD s []).foldl (fun acc d => orT acc (fitT w (st.dtaint.getD (d, s) []))) (List.replicate w false)
    if fitT w (st.taint.getD s []) != nt then
      st := { st with taint := st.taint.insert s nt }
      if !changed.contains s then taintChanged := s :: taintChanged
  return ({ st with deltas := st.deltas + 1, taintWake := taintChanged }, changed)

def activeFor (k : Kernel) (changed : List String) : List Nat :=
  dedupNat (changed.flatMap fun s => k.sensOf.getD s [])
where dedupNat (l : List Nat) : List Nat := l.foldl (fun acc x => if acc.contains x then acc else acc ++ [x]) []

/-- delta cycles until no process is active -/
def settle (k : Kernel) : Nat → KState → List Nat → List String → List (String × Val) → Except String KState
  | 0, _, _, _, _ => .error "no fixpoint after 2000 delta cycles (combinational loop oscillates)"
  | fuel + 1, st, active, ev, ext =>
    if active.isEmpty && ext.isEmpty then .ok st else do
      let (st', changed) ← runDelta k st active ev ext
      settle k fuel st' (activeFor k (changed ++ st'.taintWake)) changed []

/-- initialisation phase: every process runs once -/
def initialise (k : Kernel) : Except String KState := do
  let st := initState k
  settle k 2000 st (List.range k.flat.procs.size) [] []

/-- apply testbench assignments at one instant and settle -/
def applyExt (k : Kernel) (st : KState) (ext : List (String × Val)) : Except String KState :=
  if ext.isEmpty then .ok st else settle k 2000 st [] [] ext

/-! ## testbench model -/

structure ClockGen where
  name : String
  halfFs : Nat
  next : Nat          -- time of the next toggle (fs)
  deriving Repr

inductive VecItem
  | adv (ps : Nat)
  | set (sig : String) (value : String)
  | rst (sig : String) (value : String)
  | check (sig : String) (value : String)
  deriving Repr, Inhabited

/-- the `.testvectors` file: keyword line, then 1 (ADV) or 2 (SET/RST/CHECK) argument lines; returns items with their line number -/
def parseVectors (lines : List String) : Except String (List (Nat × VecItem)) :=
  let rec go (ls : List String) (ln : Nat) (acc : List (Nat × VecItem)) (fuel : Nat) : Except String (List (Nat × VecItem)) :=
    match fuel with
    | 0 => .ok acc.reverse
    | fuel + 1 =>
      match ls with
      | [] => .ok acc.reverse
      | "" :: r => go r (ln + 1) acc fuel
      | "ADV" :: v :: r => match v.trimAscii.toString.toNat? with
        | some n => go r (ln + 2) ((ln, .adv n) :: acc) fuel
        | none => .error s!"vector line {ln}: bad ADV argument '{v}'"
      | "SET" :: s :: v :: r => go r (ln + 3) ((ln, .set s v) :: acc) fuel
      | "RST" :: s :: v :: r => go r (ln + 3) ((ln, .rst s v) :: acc) fuel
      | "CHECK" :: s :: v :: r => go r (ln + 3) ((ln, .check s v) :: acc) fuel
      | l :: _ => .error s!"vector line {ln}: cannot parse '{l}'"
  go lines 1 [] (lines.length + 1)

def valOfText (ty : Ty) (s : String) : Except String Val := do
  let mut bits : Bits := []
  for c in s.trimAscii.toString.toList do
    match SL.ofChar c.toUpper with
    | some b => bits := b :: bits
    | none => throw s!"'{c}' in a test vector value is not a std_logic value"
  match ty with
  | .stdLogic => match bits with
    | [b] => return .sl b
    | _ => throw s!"scalar value expected, got '{s}'"
  | .slv w => if bits.length == w then return .slv bits else throw s!"value '{s}' does not have {w} elements"
  | .uns w => if bits.length == w then return .uns bits else throw s!"value '{s}' does not have {w} elements"
  | _ => throw "unsupported pin type"

/-- some element defined ('0'/'1'/'L'/'H') on both sides with different value -/
def hardMismatch (sig pat : Val) : Bool :=
  let bitsOf := fun (v : Val) => match normVal v with | .sl a => [a] | .lit a => a | _ => []
  (List.zipWith (fun a b => match a.to01?, b.to01? with | some x, some y => x != y | _, _ => false) (bitsOf sig) (bitsOf pat)).any id

/-- the elements that are defined on both sides and differ -/
def hardMismatchMask (sig pat : Val) : List Bool :=
  let bitsOf := fun (v : Val) => match normVal v with | .sl a => [a] | .lit a => a | _ => []
  List.zipWith (fun a b => match a.to01?, b.to01? with | some x, some y => x != y | _, _ => false) (bitsOf sig) (bitsOf pat)

def stdMatchVal (sig pat : Val) : Bool :=
  match normVal sig, normVal pat with
  | .sl a, .sl b => a.stdMatch b
  | .lit a, .lit b => a.length == b.length && (List.zipWith SL.stdMatch a b).all id
  | _, _ => false

structure TbHeader where
  sigInit : List (String × Val) := []       -- initial values of the testbench signals that have one
  clocks : List (String × Nat) := []        -- clock name, half period in fs
  deriving Repr

def unitFs : String → Option Nat
  | "fs" => some 1 | "ps" => some 1000 | "ns" => some 1000000 | "us" => some 1000000000
  | "ms" => some 1000000000000 | "sec" => some 1000000000000000 | _ => none

/-- extract signal initial values and clock generators from the text of the real `testbench.vhd` -/
def parseTbHeader (text : String) : Except String TbHeader := do
  let toks := (← tokenize text).map (·.tok)
  let n := toks.size
  let mut h : TbHeader := {}
  let mut i := 0
  while i < n do
    match toks[i]!, toks[i+1]?, toks[i+2]?, toks[i+3]? with
    | .id "signal", some (.id name), some (.sym ":"), some (.id "std_logic_vector") =>
      -- SIGNAL name : STD_LOGIC_VECTOR(h downto 0) [:= (others => 'c')];
      match toks[i+4]?, toks[i+5]?, toks[i+6]?, toks[i+7]?, toks[i+8]?, toks[i+9]? with
      | some (.sym "("), some (.num hi), some (.id "downto"), some (.num 0), some (.sym ")"), some (.sym ":=") =>
        match toks[i+10]?, toks[i+11]?, toks[i+12]?, toks[i+13]?, toks[i+14]? with
        | some (.sym "("), some (.id "others"), some (.sym "=>"), some (.chr c), some (.sym ")") =>
          match SL.ofChar c with
          | some b => h := { h with sigInit := h.sigInit ++ [(name, .slv (List.replicate (hi + 1) b))] }
          | none => throw s!"testbench: bad initial value of '{name}'"
        | _, _, _, _, _ => throw s!"testbench: unsupported initial value of '{name}'"
      | _, _, _, _, _, _ => pure ()
      i := i + 4
    | .id "signal", some (.id name), some (.sym ":"), some (.id "std_logic") =>
      match toks[i+4]?, toks[i+5]? with
      | some (.sym ":="), some (.chr c) =>
        match SL.ofChar c with
        | some b => h := { h with sigInit := h.sigInit ++ [(name, .sl b)] }
        | none => throw s!"testbench: bad initial value of '{name}'"
      | _, _ => pure ()
      i := i + 4
    | .id "wait", some (.id "for"), some (.num v), some (.id u) =>
      -- clock_process_<clk> : PROCESS BEGIN WAIT FOR <v> <u>; <clk> <= not <clk>;
      match unitFs u, toks[i+4]?, toks[i+5]?, toks[i+6]?, toks[i+7]?, toks[i+8]? with
      | some f, some (.sym ";"), some (.id c), some (.sym "<="), some (.id "not"), some (.id c') =>
        if c == c' then h := { h with clocks := h.clocks ++ [(c, v * f)] } else throw "testbench: unexpected clock process"
      | _, _, _, _, _, _ => pure ()     -- the `wait for time_in_ps * 1 ps` of the vector interpreter does not match (no number)
      i := i + 4
    | _, _, _, _ => i := i + 1
  return h

structure CheckFail where
  line : Nat
  sig : String
  expected : String
  got : String
  timeFs : Nat
  hard : Bool          -- some element is '0'/'1' on both sides and differs (otherwise: a metavalue where a defined value was expected)
  hardTainted : Bool   -- hard, and every such element of the checked pin is tainted (went through a metavalue decision) at this CHECK
  deriving Repr

structure ReplayResult where
  checks : Nat := 0
  sets : Nat := 0
  edges : Nat := 0
  fails : List CheckFail := []
  deltas : Nat := 0
  procRuns : Nat := 0
  endTimeFs : Nat := 0
  definedBitsChecked : Nat := 0
  dump : List (String × String) := []       -- all signal values at the first failing CHECK
  firstSetLine : Nat := 0                   -- vector line of the first SET (0 = none)
  metaPresent : Bool := false               -- some signal or variable of the design held a metavalue at some settled instant between the
                                            -- first applied stimulus and the first failing CHECK (a metavalue can leave its trace in a register
                                            -- — e.g. an enable `X = '1'` that is FALSE — and be gone when the difference becomes visible)

/-- replay the vector stream on the elaborated design -/
def replay (k : Kernel) (top : Entity) (hdr : TbHeader) (items : List (Nat × VecItem)) : Except String ReplayResult := do
  let portTy := fun (s : String) => (top.ports.find? (·.name == s.toLower)).map (·.ty)
  let mut st ← initialise k
  let mut clocks : List ClockGen := hdr.clocks.map fun (c, h) => { name := c, halfFs := h, next := h }
  let mut now : Nat := 0
  let mut pending : List (String × Val) := []
  let mut res : ReplayResult := {}
  -- toggles of all clocks whose next toggle is at time t (the clock process computes `not clk` from the current value)
  let togglesAt := fun (st : KState) (clocks : List ClockGen) (t : Nat) =>
    (clocks.filter (·.next == t)).map fun c =>
      let v := match st.cur.get? c.name with
        | some (.sl b) => Val.sl b.not
        | _ => Val.sl .X
      (c.name, v)
  let bump := fun (clocks : List ClockGen) (t : Nat) => clocks.map fun c => if c.next == t then { c with next := c.next + c.halfFs } else c
  let hasMeta := fun (v : Val) => match normVal v with
    | .sl a => a.to01?.isNone
    | .lit a => a.any (·.to01?.isNone)
    | .mem ws => ws.any (·.any (·.to01?.isNone))
    | _ => false
  let stateHasMeta := fun (st : KState) => st.cur.toList.any (fun (_, v) => hasMeta v) || st.vars.any (·.any (fun (_, v) => hasMeta v))
  let mut stimApplied := false
  let mut metaEver := false
  for (ln, it) in items do
    match it with
    | .adv ps =>
      let target := now + ps * 1000
      -- 1. what was assigned at `now` (plus clock toggles at exactly `now`) takes effect
      let ext := pending ++ togglesAt st clocks now
      if !(togglesAt st clocks now).isEmpty then res := { res with edges := res.edges + 1 }
      clocks := bump clocks now
      st ← applyExt k st ext
      if !pending.isEmpty then stimApplied := true
      if stimApplied && !metaEver then metaEver := stateHasMeta st
      pending := []
      -- 2. clock toggles strictly before the target time
      let mut fuel := 100000
      while fuel > 0 do
        fuel := fuel - 1
        let m := clocks.foldl (fun acc c => match acc with | none => some c.next | some a => some (min a c.next)) (none : Option Nat)
        match m with
        | some t =>
          if t < target then
            let ext := togglesAt st clocks t
            clocks := bump clocks t
            st ← applyExt k st ext
            if stimApplied && !metaEver then metaEver := stateHasMeta st
            res := { res with edges := res.edges + 1 }
          else fuel := 0
        | none => fuel := 0
      now := target
    | .set s v | .rst s v =>
      match portTy s with
      | none => throw s!"vector line {ln}: '{s}' is not a port of the top entity"
      | some ty =>
        let val ← (valOfText ty v).mapError (s!"vector line {ln}: " ++ ·)
        pending := (pending.filter (·.1 != s.toLower)) ++ [(s.toLower, val)]
        res := { res with sets := res.sets + 1, firstSetLine := if res.firstSetLine == 0 && (match it with | .set _ _ => true | _ => false) then ln else res.firstSetLine }
    | .check s v =>
      match portTy s, st.cur.get? s.toLower with
      | some ty, some cur =>
        let pat ← (valOfText ty v).mapError (s!"vector line {ln}: " ++ ·)
        res := { res with checks := res.checks + 1, definedBitsChecked := res.definedBitsChecked + (v.toList.filter (fun c => c == '0' || c == '1')).length }
        if !stdMatchVal cur pat then
          if res.fails.isEmpty then
            res := { res with dump := st.cur.toList.map (fun (n, v) => (n, v.toText)), metaPresent := metaEver || stateHasMeta st }
          let mask := hardMismatchMask cur pat
          let tnt := fitT mask.length (orT (st.taint.getD s.toLower []) (metaMask cur))
          let ht := mask.any id && (List.zipWith (fun m x => !m || x) mask tnt).all id
          res := { res with fails := res.fails ++ [{ line := ln, sig := s, expected := v, got := (retag ty cur).toText, timeFs := now, hard := hardMismatch cur pat, hardTainted := ht }] }
      | _, _ => throw s!"vector line {ln}: '{s}' is not a port of the top entity"
  st ← applyExt k st pending
  return { res with deltas := st.deltas, procRuns := st.procRuns, endTimeFs := now }

end Gatery.C02.Vhdl
