import GateryModel.C02.Vhdl.Ast
/-!
# C02 — tokenizer and recursive-descent parser for the emitted VHDL subset

The driver feeds the text of the REAL exported `.vhd` files through `parseDesignFile`.  Anything outside the subset of `Ast.lean`
is a parse error (`Except.error`), which the driver reports as `DIFF` (the model does not cover this export).
Identifiers and keywords are case-insensitive (LRM 15.4) and are normalised to lower case.
Expression grammar follows LRM 9.1: logical < relational < shift < adding (`+ - &`) < multiplying < `not`; a chain of logical
operators must repeat ONE operator (`a and b or c` is illegal VHDL and rejected), `nand`/`nor` do not chain.
-/
namespace Gatery.C02.Vhdl

inductive Tok
  | id (s : String)        -- lower-cased identifier or keyword
  | num (n : Nat)
  | chr (c : Char)         -- character literal 'c'
  | str (s : String)       -- string literal
  | sym (s : String)
  deriving Repr, BEq, Inhabited

def Tok.text : Tok → String
  | .id s => s | .num n => toString n | .chr c => "'" ++ c.toString ++ "'" | .str s => "\"" ++ s ++ "\"" | .sym s => s

structure LTok where
  tok : Tok
  line : Nat
  deriving Inhabited

def isIdStart (c : Char) : Bool := c.isAlpha
def isIdChar (c : Char) : Bool := c.isAlphanum || c == '_'

/-- tokenizer; returns tokens with line numbers or an error message -/
partial def tokenize (s : String) : Except String (Array LTok) :=
  let cs := s.toList.toArray
  let n := cs.size
  let rec go (i : Nat) (line : Nat) (acc : Array LTok) : Except String (Array LTok) :=
    if i ≥ n then .ok acc else
    let c := cs[i]!
    if c == '\n' then go (i+1) (line+1) acc
    else if c == ' ' || c == '\t' || c == '\r' then go (i+1) line acc
    else if c == '-' && i+1 < n && cs[i+1]! == '-' then
      -- comment to end of line
      let rec skip (j : Nat) : Nat := if j < n && cs[j]! != '\n' then skip (j+1) else j
      go (skip i) line acc
    else if isIdStart c then
      let rec idEnd (j : Nat) : Nat := if j < n && isIdChar cs[j]! then idEnd (j+1) else j
      let j := idEnd i
      let w := String.ofList ((cs.extract i j).toList.map Char.toLower)
      go j line (acc.push ⟨.id w, line⟩)
    else if c.isDigit then
      let rec numEnd (j : Nat) : Nat := if j < n && (cs[j]!.isDigit || cs[j]! == '_') then numEnd (j+1) else j
      let j := numEnd i
      let v := (cs.extract i j).toList.foldl (fun a d => if d == '_' then a else a * 10 + (d.toNat - '0'.toNat)) 0
      go j line (acc.push ⟨.num v, line⟩)
    else if c == '"' then
      let rec strEnd (j : Nat) : Nat := if j < n && cs[j]! != '"' && cs[j]! != '\n' then strEnd (j+1) else j
      let j := strEnd (i+1)
      if j < n && cs[j]! == '"' then go (j+1) line (acc.push ⟨.str (String.ofList (cs.extract (i+1) j).toList), line⟩)
      else .error s!"line {line}: unterminated string literal"
    else if c == '\'' then
      -- attribute tick after an identifier or ')', character literal otherwise
      let prevIsName := match acc.back? with
        | some ⟨.id w, _⟩ => !(["return", "then", "else", "when", "is", "and", "or", "xor", "nand", "nor", "xnor", "not", "report", "severity"].contains w)
        | some ⟨.sym ")", _⟩ => true
        | _ => false
      if !prevIsName && i+2 < n && cs[i+2]! == '\'' then go (i+3) line (acc.push ⟨.chr cs[i+1]!, line⟩)
      else go (i+1) line (acc.push ⟨.sym "'", line⟩)
    else
      let two := if i+1 < n then String.ofList [c, cs[i+1]!] else ""
      if two == "<=" || two == ":=" || two == "=>" || two == "/=" || two == ">=" || two == "**" || two == "<>" then
        go (i+2) line (acc.push ⟨.sym two, line⟩)
      else if "();:,.&+-*/=<>|".contains c then go (i+1) line (acc.push ⟨.sym c.toString, line⟩)
      else .error s!"line {line}: unexpected character '{c}'"
  go 0 1 #[]

/-! ## parser monad -/

structure PS where
  toks : Array LTok
  pos : Nat := 0
  consts : List (String × Nat) := []     -- integer constants (WORD_WIDTH, NUM_WORDS)
  memType : Option (Nat × Nat) := none   -- mem_type = (words, width)

abbrev P := StateT PS (Except String)

def peekAt (k : Nat) : P (Option Tok) := do
  let s ← get
  return (s.toks[s.pos + k]?).map (·.tok)

def peek : P (Option Tok) := peekAt 0

def curLine : P Nat := do
  let s ← get
  return match s.toks[s.pos]? with
    | some t => t.line
    | none => match s.toks.back? with | some t => t.line | none => 0

def fail {α} (msg : String) : P α := do
  let l ← curLine
  let t ← peek
  throw s!"line {l}: {msg} (at '{(t.map Tok.text).getD "<eof>"}')"

def next : P Tok := do
  let s ← get
  match s.toks[s.pos]? with
  | some t => set { s with pos := s.pos + 1 }; return t.tok
  | none => fail "unexpected end of file"

def isId (w : String) : P Bool := do return (← peek) == some (.id w)
def isSym (w : String) : P Bool := do return (← peek) == some (.sym w)

def acceptId (w : String) : P Bool := do
  if ← isId w then discard next; return true else return false

def acceptSym (w : String) : P Bool := do
  if ← isSym w then discard next; return true else return false

def expectId (w : String) : P Unit := do
  if !(← acceptId w) then fail s!"expected '{w}'"

def expectSym (w : String) : P Unit := do
  if !(← acceptSym w) then fail s!"expected '{w}'"

def ident : P String := do
  match ← peek with
  | some (.id s) => discard next; return s
  | _ => fail "identifier expected"

def number : P Nat := do
  match ← peek with
  | some (.num n) => discard next; return n
  | _ => fail "number expected"

def bitsOfString (s : String) : P Bits := do
  let mut out : Bits := []
  for c in s.toList do
    match SL.ofChar c with
    | some b => out := b :: out          -- text is MSB first, Bits is index-0 first
    | none => fail s!"illegal VHDL: '{c}' is not a std_logic literal"
  return out

/-- skip tokens up to and including the next `;` -/
partial def skipToSemi : P Unit := do
  let t ← next
  if t == .sym ";" then return () else skipToSemi

def reserved : List String :=
  ["and", "or", "xor", "nand", "nor", "xnor", "not", "downto", "to", "then", "else", "elsif", "end", "is", "when", "others",
   "if", "case", "process", "begin", "signal", "variable", "constant", "port", "map", "entity", "architecture", "of", "in", "out",
   "inout", "block", "component", "generic", "open", "all", "loop", "for", "while", "wait", "null", "assert", "report", "severity"]

/-- integer-valued static expression used in ranges: `7`, `-1`, `WORD_WIDTH-1` -/
def staticInt : P Int := do
  let atom : P Int := do
    match ← peek with
    | some (.num n) => discard next; return (n : Int)
    | some (.id c) =>
      match (← get).consts.lookup c with
      | some v => discard next; return (v : Int)
      | none => fail s!"unknown integer constant '{c}'"
    | _ => fail "integer expected"
  let neg ← acceptSym "-"
  let a ← atom
  let mut v : Int := if neg then -a else a
  repeat
    if ← acceptSym "-" then v := v - (← atom)
    else if ← acceptSym "+" then v := v + (← atom)
    else break
  return v

/-- `(h downto 0)` → width -/
def downtoRange : P Nat := do
  expectSym "("
  let h ← staticInt
  expectId "downto"
  let l ← staticInt
  expectSym ")"
  if l != 0 then fail "vector range must end at 0"
  if h < -1 then fail "bad range"
  return (h + 1).toNat

def parseType : P Ty := do
  let t ← ident
  match t with
  | "std_logic" => return .stdLogic
  | "std_logic_vector" => return .slv (← downtoRange)
  | "unsigned" => return .uns (← downtoRange)
  | "boolean" => return .boolean
  | "integer" => return .integer
  | "mem_type" =>
    match (← get).memType with
    | some (n, w) => return .mem n w
    | none => fail "mem_type used before its declaration"
  | _ => fail s!"unsupported type '{t}'"

/-! ## expressions -/

mutual
  partial def parsePrimary : P Expr := do
    match ← peek with
    | some (.num n) => discard next; return .int n
    | some (.chr c) =>
      discard next
      match SL.ofChar c with
      | some b => return .chr b
      | none => fail s!"'{c}' is not a std_logic literal"
    | some (.str s) => discard next; return .str (← bitsOfString s)
    | some (.sym "(") =>
      discard next
      if ← isId "others" then
        discard next; expectSym "=>"
        match ← next with
        | .chr c =>
          match SL.ofChar c with
          | some b => expectSym ")"; return .others b
          | none => fail s!"'{c}' is not a std_logic literal"
        | _ => fail "character literal expected in (others => …)"
      else if (← peek) == some (.num 0) && (← peekAt 1) == some (.sym "=>") then
        discard next; discard next
        let e ← parseExpr
        expectSym ")"
        return .agg0 e
      else
        let e ← parseExpr
        expectSym ")"
        if ← isSym "(" then fail "illegal VHDL: index/slice applied to a parenthesised expression (LRM 8.4: the prefix must be a name or function call)"
        return .paren e
    | some (.id w) =>
      if w == "true" then discard next; return .boolLit true
      else if w == "false" then discard next; return .boolLit false
      else if w == "not" then fail "misplaced 'not'"
      else if reserved.contains w then fail s!"unexpected keyword '{w}' in expression"
      else
        discard next
        let fn1 : Option Fn1 := match w with
          | "unsigned" => some .toUnsigned | "std_logic_vector" => some .toSlv | "to_integer" => some .toInteger
          | "bool2stdlogic" => some .bool2sl | "stdlogic2bool" => some .sl2bool | _ => none
        let fn2 : Option Fn2 := match w with
          | "resize" => some .resize | "shift_left" => some .shiftLeft | "shift_right" => some .shiftRight | _ => none
        match fn1, fn2 with
        | some f, _ =>
          expectSym "("; let a ← parseExpr; expectSym ")"
          return .call1 f a
        | _, some f =>
          expectSym "("; let a ← parseExpr; expectSym ","; let b ← parseExpr; expectSym ")"
          return .call2 f a b
        | none, none =>
          if w == "rising_edge" || w == "falling_edge" then
            expectSym "("; let c ← ident; expectSym ")"
            return .edge (w == "rising_edge") c
          else if ["to_bitvector", "to_stdlogicvector", "to_stdulogicvector", "to_bit", "std_ulogic_vector", "std_ulogic",
                   "portmap_to_bit", "portmap_to_stdlogic", "portmap_to_stdulogic", "portmap_to_stdlogicvector", "portmap_to_unsigned",
                   "to_unsigned", "to_signed", "signed", "rotate_left", "rotate_right", "std_match"].contains w then
            fail s!"unsupported function '{w}'"
          else if ← acceptSym "'" then
            let a ← ident
            if a == "event" then return .event w else fail s!"unsupported attribute '{a}'"
          else if ← isSym "(" then
            discard next
            -- slice `(h downto l)` or index `(expr)`
            match ← peek, ← peekAt 1 with
            | some (.num h), some (.id "downto") =>
              discard next; discard next
              let l ← number
              expectSym ")"
              if l > h then fail "null slice"
              return .slice w h l
            | _, _ =>
              let i ← parseExpr
              expectSym ")"
              return .index w i
          else return .name w
    | _ => fail "expression expected"

  partial def parseFactor : P Expr := do
    if ← acceptId "not" then
      let e ← parsePrimary
      return .not e
    else parsePrimary

  partial def parseTerm : P Expr := do
    let mut e ← parseFactor
    repeat
      if ← acceptSym "*" then e := .bin .mul e (← parseFactor)
      else if (← isSym "/") || (← isId "mod") || (← isId "rem") then fail "division operators are not in the modelled subset"
      else break
    return e

  partial def parseSimple : P Expr := do
    if (← isSym "-") || (← isSym "+") then fail "unary sign is not in the modelled subset"
    let mut e ← parseTerm
    repeat
      if ← acceptSym "+" then e := .bin .add e (← parseTerm)
      else if ← acceptSym "-" then e := .bin .sub e (← parseTerm)
      else if ← acceptSym "&" then e := .bin .cat e (← parseTerm)
      else break
    return e

  partial def parseRelation : P Expr := do
    let a ← parseSimple
    let op : Option BinOp := match ← peek with
      | some (.sym "=") => some .eq | some (.sym "/=") => some .ne | some (.sym "<") => some .lt
      | some (.sym ">") => some .gt | some (.sym "<=") => some .le | some (.sym ">=") => some .ge | _ => none
    match op with
    | some o => discard next; let b ← parseSimple; return .bin o a b
    | none => return a

  partial def parseExpr : P Expr := do
    let a ← parseRelation
    let logop : Option Tok → Option BinOp
      | some (.id "and") => some .and | some (.id "or") => some .or | some (.id "xor") => some .xor
      | some (.id "nand") => some .nand | some (.id "nor") => some .nor | some (.id "xnor") => some .xnor | _ => none
    match logop (← peek) with
    | none => return a
    | some o =>
      let mut e := a
      let mut count := 0
      repeat
        match logop (← peek) with
        | none => break
        | some o' =>
          if o' != o then fail "mixed logical operators need parentheses"
          if (o == .nand || o == .nor) && count ≥ 1 then fail "nand/nor are not associative"
          discard next
          e := .bin o e (← parseRelation)
          count := count + 1
      return e
end

/-- in a sequential assignment `x <= e` the `<=` must not be taken as a relational operator: parse the target first -/
def parseTargetName : P (String × Option Expr) := do
  let n ← ident
  if reserved.contains n then fail s!"unexpected keyword '{n}'"
  if ← acceptSym "(" then
    let i ← parseExpr
    expectSym ")"
    return (n, some i)
  else return (n, none)

/-! ## sequential statements -/

mutual
  partial def parseStmts (stop : List String) : P Stmts := do
    match ← peek with
    | some (.id w) =>
      if stop.contains w then return .nil
      else
        let s ← parseStmt
        match s with
        | some s => return .cons s (← parseStmts stop)
        | none => parseStmts stop
    | _ => fail "statement expected"

  /-- `none` for a `NULL;` statement -/
  partial def parseStmt : P (Option Stmt) := do
    if ← acceptId "if" then
      let s ← parseIfRest
      return some s
    else if ← acceptId "case" then
      let sel ← parseExpr
      expectId "is"
      let alts ← parseAlts
      expectId "end"; expectId "case"; expectSym ";"
      return some (.case sel alts)
    else if ← acceptId "assert" then
      let c ← parseExpr
      skipToSemi
      return some (.assert c)
    else if ← acceptId "null" then
      expectSym ";"; return none
    else
      let (n, idx) ← parseTargetName
      if ← acceptSym ":=" then
        if idx.isSome then fail "indexed variable assignment is not in the modelled subset"
        let e ← parseExpr
        expectSym ";"
        return some (.varAssign n e)
      else if ← acceptSym "<=" then
        let e ← parseExpr
        expectSym ";"
        return some (.sigAssign (match idx with | some i => .index n i | none => .name n) e)
      else fail "':=' or '<=' expected"

  /-- after `IF`: cond THEN stmts {ELSIF …} [ELSE stmts] END IF ; -/
  partial def parseIfRest : P Stmt := do
    let c ← parseExpr
    expectId "then"
    let t ← parseStmts ["elsif", "else", "end"]
    if ← acceptId "elsif" then
      let e ← parseIfRest     -- consumes the shared END IF;
      return .ite c t (.cons e .nil)
    else if ← acceptId "else" then
      let e ← parseStmts ["end"]
      expectId "end"; expectId "if"; expectSym ";"
      return .ite c t e
    else
      expectId "end"; expectId "if"; expectSym ";"
      return .ite c t .nil

  partial def parseAlts : P Alts := do
    if ← acceptId "when" then
      let choice : Option Bits ← (do
        if ← acceptId "others" then return none
        else match ← next with
          | .str s => return some (← bitsOfString s)
          | _ => fail "string literal or OTHERS expected after WHEN")
      expectSym "=>"
      let body ← parseStmts ["when", "end"]
      return .cons choice body (← parseAlts)
    else return .nil
end

/-! ## declarations -/

/-- memory initialiser `( 3 => "0101", …, others => (others => 'X'))` (GenericMemoryEntity.cpp:140-187) -/
partial def parseMemInit : P Init := do
  expectSym "("
  let rec go (acc : List (Nat × Bits)) : P Init := do
    if ← acceptId "others" then
      expectSym "=>"; expectSym "("; expectId "others"; expectSym "=>"
      match ← next with
      | .chr c =>
        match SL.ofChar c with
        | some b => expectSym ")"; expectSym ")"; return .memInit acc.reverse b
        | none => fail "bad literal"
      | _ => fail "character literal expected"
    else
      let i ← number
      expectSym "=>"
      match ← next with
      | .str s =>
        let b ← bitsOfString s
        expectSym ","
        go ((i, b) :: acc)
      | _ => fail "string literal expected in memory initialiser"
  go []

/-- declarative part of an architecture / block / process; stops at BEGIN -/
partial def parseDecls : P (List Decl) := do
  let rec go (acc : List Decl) : P (List Decl) := do
    match ← peek with
    | some (.id "begin") => return acc.reverse
    | some (.id "signal") | some (.id "variable") | some (.id "constant") =>
      let k ← ident
      let kind : ObjKind := if k == "signal" then .signal else if k == "variable" then .variable else .constant
      let n ← ident
      expectSym ":"
      let ty ← parseType
      let mut init : Init := .none
      if ← acceptSym ":=" then
        match ty with
        | .mem _ _ => init ← parseMemInit
        | .integer =>
          let v ← staticInt
          modify fun s => { s with consts := (n, v.toNat) :: s.consts }
          init := .expr (.int v.toNat)
        | _ => init := .expr (← parseExpr)
      expectSym ";"
      if ty == .integer then go acc else go ({ kind, name := n, ty, init } :: acc)
    | some (.id "attribute") => skipToSemi; go acc
    | some (.id "subtype") =>
      -- SUBTYPE mem_word_type IS UNSIGNED(WORD_WIDTH-1 downto 0);
      discard next
      let n ← ident
      expectId "is"
      let ty ← parseType
      expectSym ";"
      match n, ty with
      | "mem_word_type", .uns w => modify fun s => { s with memType := some (0, w) }; go acc
      | _, _ => fail "unsupported subtype declaration"
    | some (.id "type") =>
      -- TYPE mem_type IS array(NUM_WORDS-1 downto 0) of mem_word_type;
      discard next
      let n ← ident
      expectId "is"; expectId "array"
      let words ← downtoRange
      expectId "of"; expectId "mem_word_type"; expectSym ";"
      if n != "mem_type" then fail "unsupported type declaration"
      match (← get).memType with
      | some (_, w) => modify fun s => { s with memType := some (words, w) }; go acc
      | none => fail "mem_word_type missing"
    | some (.id "component") =>
      -- COMPONENT name PORT( … ); END COMPONENT;  — binding is by name to the entity of the same name
      let rec skipComp : P Unit := do
        let t ← next
        if t == .id "end" then
          if ← acceptId "component" then skipToSemi else skipComp
        else skipComp
      skipComp
      go acc
    | _ => fail "declaration or BEGIN expected"
  go []

/-! ## concurrent statements -/

def parseAssoc : P Assoc := do
  -- formal side: name | CONV(name)
  let f ← ident
  let conv : Option Fn1 := match f with
    | "unsigned" => some .toUnsigned | "std_logic_vector" => some .toSlv | _ => none
  let (formal, formalConv) ← (do
    match conv with
    | some c =>
      expectSym "("; let n ← ident; expectSym ")"
      return (n, some c)
    | none => return (f, (none : Option Fn1)))
  expectSym "=>"
  if ← acceptId "open" then return { formal, formalConv, actual := none }
  let a ← parseExpr
  return { formal, formalConv, actual := some a }

partial def parsePortMap : P (List Assoc) := do
  expectId "port"; expectId "map"; expectSym "("
  let rec go (acc : List Assoc) : P (List Assoc) := do
    let a ← parseAssoc
    if ← acceptSym "," then go (a :: acc)
    else
      expectSym ")"; expectSym ";"
      return (a :: acc).reverse
  go []

mutual
  partial def parseConcs (stop : String) : P (List Conc) := do
    let rec go (acc : List Conc) : P (List Conc) := do
      if ← isId stop then return acc.reverse
      let c ← parseConc
      go (c :: acc)
    go []

  partial def parseProcessRest (label : String) : P Conc := do
    -- after PROCESS
    let mut sens : Option (List String) := some []
    if ← acceptSym "(" then
      if ← acceptId "all" then
        sens := none
        expectSym ")"
      else
        let rec names (acc : List String) : P (List String) := do
          let n ← ident
          if ← acceptSym "," then names (n :: acc) else
            expectSym ")"
            return (n :: acc).reverse
        sens := some (← names [])
    else fail "process without sensitivity list is not in the modelled subset"
    discard (acceptId "is")
    let decls ← parseDecls
    expectId "begin"
    let body ← parseStmts ["end"]
    expectId "end"; expectId "process"
    match ← peek with
    | some (.id _) => discard next
    | _ => pure ()
    expectSym ";"
    return .process label sens decls body

  partial def parseConc : P Conc := do
    -- unlabeled process (GenericMemoryEntity.cpp:437,507)
    if ← acceptId "process" then return ← parseProcessRest ""
    let (n, idx) ← parseTargetName
    if ← acceptSym ":" then
      if idx.isSome then fail "bad label"
      if ← acceptId "process" then return ← parseProcessRest n
      else if ← acceptId "block" then
        discard (acceptId "is")
        let decls ← parseDecls
        expectId "begin"
        let body ← parseConcs "end"
        expectId "end"; expectId "block"
        match ← peek with
        | some (.id _) => discard next
        | _ => pure ()
        expectSym ";"
        return .block n decls body
      else if ← acceptId "entity" then
        -- label : entity work.name [(arch)] port map ( … );
        let lib ← ident
        expectSym "."
        let e ← ident
        if lib != "work" then fail s!"instantiation from library '{lib}' is not in the modelled subset"
        if ← acceptSym "(" then discard ident; expectSym ")"
        if ← isId "generic" then fail "generic map is not in the modelled subset"
        let m ← parsePortMap
        return .inst n e m
      else
        -- component instantiation: label : name port map ( … );
        let e ← ident
        if ← isSym "." then fail "external component instantiation is not in the modelled subset"
        if ← isId "generic" then fail "generic map is not in the modelled subset"
        let m ← parsePortMap
        return .inst n e m
    else if ← acceptSym "<=" then
      if idx.isSome then fail "indexed concurrent assignment is not in the modelled subset"
      let v ← parseExpr
      if ← acceptId "when" then
        let c ← parseExpr
        expectId "else"
        let e ← parseExpr
        expectSym ";"
        return .assign n v (some c) (some e)
      else
        expectSym ";"
        return .assign n v none none
    else fail "concurrent statement expected"
end

/-! ## design units -/

partial def parsePorts : P (List Port) := do
  expectId "port"; expectSym "("
  let rec go (acc : List Port) : P (List Port) := do
    let n ← ident
    expectSym ":"
    let d ← ident
    let dir ← (match d with
      | "in" => pure Dir.input | "out" => pure Dir.output | "inout" => pure Dir.inout
      | _ => fail s!"unsupported port mode '{d}'")
    let ty ← parseType
    let init ← (do if ← acceptSym ":=" then pure (some (← parseExpr)) else pure none)
    if ← acceptSym ";" then go ({ name := n, dir, ty, init } :: acc)
    else
      expectSym ")"; expectSym ";"
      return ({ name := n, dir, ty, init : Port } :: acc).reverse
  go []

structure RawUnits where
  ports : List (String × List Port) := []
  archs : List (String × List Decl × List Conc) := []
  packages : List (String × String) := []        -- (name incl. "body", normalised token text)

partial def parseUnits : P RawUnits := do
  let rec go (u : RawUnits) : P RawUnits := do
    match ← peek with
    | none => return u
    | some (.id "library") | some (.id "use") => skipToSemi; go u
    | some (.id "package") =>
      discard next
      let isBody ← acceptId "body"
      let n ← ident
      -- collect the token text up to END PACKAGE [BODY] name ;
      let rec collect (acc : List String) : P (List String) := do
        let t ← next
        if t == .id "end" && (← isId "package") then
          skipToSemi
          return acc.reverse
        else collect (t.text :: acc)
      let body ← collect []
      go { u with packages := u.packages ++ [((if isBody then "body " else "") ++ n, " ".intercalate body)] }
    | some (.id "entity") =>
      discard next
      let n ← ident
      expectId "is"
      if ← isId "generic" then fail "generics are not in the modelled subset"
      let ports ← (do if ← isId "port" then parsePorts else pure [])
      expectId "end"
      discard (acceptId "entity")
      match ← peek with
      | some (.id _) => discard next
      | _ => pure ()
      expectSym ";"
      go { u with ports := u.ports ++ [(n, ports)] }
    | some (.id "architecture") =>
      discard next
      discard ident
      expectId "of"
      let n ← ident
      expectId "is"
      modify fun s => { s with consts := [], memType := none }
      let decls ← parseDecls
      expectId "begin"
      let body ← parseConcs "end"
      expectId "end"
      discard (acceptId "architecture")
      match ← peek with
      | some (.id _) => discard next
      | _ => pure ()
      expectSym ";"
      go { u with archs := u.archs ++ [(n, decls, body)] }
    | _ => fail "design unit expected"
  go {}

/-- parse the text of one `.vhd` file -/
def parseFileUnits (text : String) : Except String RawUnits := do
  let toks ← tokenize text
  let (u, _) ← (parseUnits.run { toks }).mapError id
  return u

/-- combine the units of several files into entities (entity declaration + its architecture) -/
def assemble (us : List RawUnits) : Except String DesignFile := do
  let ports := us.flatMap (·.ports)
  let archs := us.flatMap (·.archs)
  let mut ents : List Entity := []
  for (n, ps) in ports do
    match archs.find? (·.1 == n) with
    | some (_, decls, body) => ents := ents ++ [{ name := n, ports := ps, decls, body }]
    | none => throw s!"entity '{n}' has no architecture"
  return { entities := ents, packages := us.flatMap (fun u => u.packages.map (·.1)) }

/-- the token text of `GateryHelperPackage` as modelled by `Sem.lean` (`HelperPackage.cpp:38-120`): `bool2stdlogic`
and `stdlogic2bool` are built-in functions of the semantics; if the emitted package differs from this text the driver reports DIFF -/
def helperPackageBodyText : String :=
  "is function bool2stdlogic ( v : boolean ) return std_logic is begin if v then return '1' ; else return '0' ; end if ; end bool2stdlogic ; " ++
  "function stdlogic2bool ( v : std_logic ) return boolean is begin return v = '1' ; end stdlogic2bool ;"

end Gatery.C02.Vhdl
