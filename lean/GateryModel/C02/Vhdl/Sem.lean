import GateryModel.C02.Vhdl.Ast
/-!
# C02 — semantics of the VHDL subset (expressions and sequential statements)

This is a *model* of IEEE 1076 / 1164 / 1076.3 (`numeric_std`), written from the text of the standard packages; it is the
trusted part of C02 (there is no second VHDL simulator in the sandbox).

* `std_ulogic` operators: the `and_table`/`or_table`/`xor_table`/`not_table` of `std_logic_1164`, written by classes.
* `numeric_std` on `UNSIGNED`: `TO_01(…,'X')` — a metavalue anywhere makes an arithmetic result all-'X' and a relational result FALSE
  (`/=`: TRUE); `"+"`/`"-"` are the ripple-carry loop `ADD_UNSIGNED`; `"*"` is the shift-and-add loop; `<` is the MSB-first
  lexicographic order of the predefined array comparison (`UNSIGNED_LESS`); null operands give FALSE / null results;
  `RESIZE`, `SHIFT_LEFT`, `SHIFT_RIGHT`, `TO_INTEGER` (metavalue ↦ 0) as written there.
* A vector value carries the type it has in VHDL (`slv`, `uns`) or `lit` for string literals, aggregates and concatenations whose
  type comes from the context; operator overloads are resolved on these tags and ill-typed combinations are errors.
* Sequential statements: variable assignment is immediate, signal assignment is recorded in program order (`writes`) and applied
  by the kernel (`Kernel.lean`) after the process suspends.
-/
namespace Gatery.C02.Vhdl

/-! ## std_logic_1164 -/

inductive SLClass | u | x | zero | one
  deriving DecidableEq

def SL.cls : SL → SLClass
  | .U => .u | .O => .zero | .L => .zero | .I => .one | .H => .one | _ => .x

def SL.and (a b : SL) : SL :=
  match a.cls, b.cls with
  | .zero, _ => .O | _, .zero => .O
  | .one, .one => .I
  | .u, _ => .U | _, .u => .U
  | _, _ => .X

def SL.or (a b : SL) : SL :=
  match a.cls, b.cls with
  | .one, _ => .I | _, .one => .I
  | .zero, .zero => .O
  | .u, _ => .U | _, .u => .U
  | _, _ => .X

def SL.xor (a b : SL) : SL :=
  match a.cls, b.cls with
  | .u, _ => .U | _, .u => .U
  | .x, _ => .X | _, .x => .X
  | .zero, .zero => .O | .one, .one => .O
  | _, _ => .I

def SL.not (a : SL) : SL :=
  match a.cls with
  | .u => .U | .x => .X | .zero => .I | .one => .O

def SL.ofBool (b : Bool) : SL := if b then .I else .O

/-- `TO_01` on one element: `some` for '0' 'L' '1' 'H' -/
def SL.to01? (a : SL) : Option Bool :=
  match a.cls with
  | .zero => some false | .one => some true | _ => none

/-- the resolution function `resolved` of std_logic_1164 for two drivers (`resolution_table`) -/
def SL.resolve2 (a b : SL) : SL :=
  match a, b with
  | .U, _ => .U | _, .U => .U
  | .X, _ => .X | _, .X => .X
  | .D, _ => .X | _, .D => .X
  | .O, .I => .X | .I, .O => .X
  | .O, _ => .O | _, .O => .O
  | .I, _ => .I | _, .I => .I
  | .Z, s => s | s, .Z => s
  | .W, .W => .W | .L, .L => .L | .H, .H => .H
  | .W, _ => .W | _, .W => .W
  | .L, .H => .W | .H, .L => .W

/-- `std_match` of numeric_std / std_logic_1164 (`match_table`) on one element -/
def SL.stdMatch (a b : SL) : Bool :=
  match a, b with
  | .D, _ => true | _, .D => true
  | _, _ =>
    match a.cls, b.cls with
    | .zero, .zero => true
    | .one, .one => true
    | _, _ => false

def logicOp (op : BinOp) (a b : SL) : SL :=
  match op with
  | .and => a.and b | .or => a.or b | .xor => a.xor b
  | .nand => (a.and b).not | .nor => (a.or b).not | .xnor => (a.xor b).not
  | _ => .X

def boolOp (op : BinOp) (a b : Bool) : Bool :=
  match op with
  | .and => a && b | .or => a || b | .xor => a != b
  | .nand => !(a && b) | .nor => !(a || b) | .xnor => a == b
  | _ => false

def BinOp.isLogical : BinOp → Bool
  | .and | .or | .xor | .nand | .nor | .xnor => true
  | _ => false

def BinOp.isRelational : BinOp → Bool
  | .eq | .ne | .lt | .gt | .le | .ge => true
  | _ => false

/-! ## numeric_std on UNSIGNED (index 0 = least significant element) -/

def allX (n : Nat) : Bits := List.replicate n SL.X

/-- `TO_01(arg,'X')`: `none` stands for the all-'X' result -/
def to01? : Bits → Option (List Bool)
  | [] => some []
  | b :: r => match b.to01?, to01? r with
    | some x, some xs => some (x :: xs)
    | _, _ => none

def ofBools (l : List Bool) : Bits := l.map SL.ofBool

def natOfBools : List Bool → Nat
  | [] => 0
  | b :: r => (if b then 1 else 0) + 2 * natOfBools r

/-- `RESIZE` for UNSIGNED on boolean vectors: truncate or zero-extend at the top -/
def resizeBools (l : List Bool) (n : Nat) : List Bool := (l ++ List.replicate (n - l.length) false).take n

/-- `ADD_UNSIGNED(L, R, C)`: the ripple-carry loop of numeric_std (operands already resized to the same length) -/
def addBools : List Bool → List Bool → Bool → List Bool
  | a :: as, b :: bs, c => ((c != a) != b) :: addBools as bs ((c && a) || (c && b) || (a && b))
  | _, _, _ => []

/-- `SHIFT_LEFT(x,1)` on a fixed-length vector -/
def shl1 (l : List Bool) : List Bool := (false :: l).take l.length

/-- the loop of `"*"`: `for I in 0 to L'left: if XL(I)='1' then RESULT := RESULT + ADVAL; ADVAL := SHIFT_LEFT(ADVAL,1)` -/
def mulLoop : List Bool → List Bool → List Bool → List Bool
  | [], _, r => r
  | x :: xs, adv, r => mulLoop xs (shl1 adv) (if x then addBools r adv false else r)

/-- predefined `<` on equal-length arrays of '0'/'1', leftmost (most significant) element first -/
def lexLt : List Bool → List Bool → Bool
  | a :: as, b :: bs => if a == b then lexLt as bs else (!a && b)
  | [], _ :: _ => true
  | _, _ => false

def unsLess (a b : List Bool) : Bool := lexLt a.reverse b.reverse

def numAdd (l r : Bits) : Bits :=
  let n := max l.length r.length
  if n < 1 then [] else
  match to01? l, to01? r with
  | some a, some b => ofBools (addBools (resizeBools a n) (resizeBools b n) false)
  | _, _ => allX n

def numSub (l r : Bits) : Bits :=
  let n := max l.length r.length
  if n < 1 then [] else
  match to01? l, to01? r with
  | some a, some b => ofBools (addBools (resizeBools a n) ((resizeBools b n).map (!·)) true)
  | _, _ => allX n

def numMul (l r : Bits) : Bits :=
  if l.length < 1 || r.length < 1 then [] else
  let n := l.length + r.length
  match to01? l, to01? r with
  | some a, some b => ofBools (mulLoop a (resizeBools b n) (List.replicate n false))
  | _, _ => allX n

/-- relational operators of numeric_std on UNSIGNED -/
def numRel (op : BinOp) (l r : Bits) : Bool :=
  if l.length < 1 || r.length < 1 then (op == .ne) else
  let n := max l.length r.length
  match to01? l, to01? r with
  | some a, some b =>
    let a := resizeBools a n
    let b := resizeBools b n
    match op with
    | .eq => a == b | .ne => !(a == b)
    | .lt => unsLess a b | .gt => unsLess b a
    | .le => !(unsLess b a) | .ge => !(unsLess a b)
    | _ => false
  | _, _ => (op == .ne)

/-- `RESIZE(arg, n)` for UNSIGNED: elements are copied, no metavalue handling -/
def numResize (a : Bits) (n : Nat) : Bits :=
  if n < 1 then [] else (a ++ List.replicate (n - a.length) SL.O).take n

def numShiftLeft (a : Bits) (k : Nat) : Bits := (List.replicate k SL.O ++ a).take a.length
def numShiftRight (a : Bits) (k : Nat) : Bits := (a.drop k ++ List.replicate k SL.O).take a.length

/-- `TO_INTEGER`: null ↦ 0, metavalue ↦ 0 -/
def numToInt (a : Bits) : Nat :=
  match to01? a with
  | some l => natOfBools l
  | none => 0

/-! ## values -/

inductive Val
  | sl (b : SL)
  | slv (bits : Bits)
  | uns (bits : Bits)
  | lit (bits : Bits)            -- string literal, aggregate, concatenation of such: type from context
  | bool (b : Bool)
  | int (n : Nat)
  | mem (words : List Bits)
  deriving DecidableEq, Repr, Inhabited

def Val.toText : Val → String
  | .sl b => b.toChar.toString
  | .slv b => bitsToString b
  | .uns b => bitsToString b
  | .lit b => bitsToString b
  | .bool b => toString b
  | .int n => toString n
  | .mem w => "[" ++ ",".intercalate (w.map bitsToString) ++ "]"

/-- vector payload with its type tag: 0 = lit, 1 = slv, 2 = uns -/
def Val.vec? : Val → Option (Nat × Bits)
  | .lit b => some (0, b) | .slv b => some (1, b) | .uns b => some (2, b) | _ => none

def mkVec (tag : Nat) (b : Bits) : Val :=
  match tag with
  | 0 => .lit b | 1 => .slv b | _ => .uns b

/-- result tag of a binary operation on two array operands; `none` = incompatible types (slv with uns) -/
def joinTag (a b : Nat) : Option Nat :=
  if a == b then some a else if a == 0 then some b else if b == 0 then some a else none

/-- the initial / default value of a type: `'U'` everywhere (LRM 6.4.2.3: leftmost literal of the type) -/
def Ty.default : Ty → Val
  | .stdLogic => .sl .U
  | .slv w => .slv (List.replicate w .U)
  | .uns w => .uns (List.replicate w .U)
  | .boolean => .bool false
  | .integer => .int 0
  | .mem n w => .mem (List.replicate n (List.replicate w .U))

/-- view a stored value under a declared type (port associations alias one signal under `STD_LOGIC_VECTOR` and `UNSIGNED`) -/
def retag (ty : Ty) (v : Val) : Val :=
  match ty, v.vec? with
  | .slv _, some (_, b) => .slv b
  | .uns _, some (_, b) => .uns b
  | _, _ => v

/-- assignment compatibility: the value `v` assigned to an object of type `ty`; checks type and length (LRM 10.5/10.6) -/
def coerce (ty : Ty) (v : Val) : Except String Val :=
  match ty, v with
  | .stdLogic, .sl b => .ok (.sl b)
  | .boolean, .bool b => .ok (.bool b)
  | .integer, .int n => .ok (.int n)
  | .slv w, .slv b => if b.length == w then .ok (.slv b) else .error s!"length mismatch: {b.length} elements assigned to STD_LOGIC_VECTOR of {w}"
  | .slv w, .lit b => if b.length == w then .ok (.slv b) else .error s!"length mismatch: {b.length} elements assigned to STD_LOGIC_VECTOR of {w}"
  | .uns w, .uns b => if b.length == w then .ok (.uns b) else .error s!"length mismatch: {b.length} elements assigned to UNSIGNED of {w}"
  | .uns w, .lit b => if b.length == w then .ok (.uns b) else .error s!"length mismatch: {b.length} elements assigned to UNSIGNED of {w}"
  | .mem n w, .mem ws => if ws.length == n && ws.all (·.length == w) then .ok (.mem ws) else .error "memory shape mismatch"
  | _, _ => .error s!"type mismatch in assignment: value {v.toText}"

/-- `(others => c)` for a target type -/
def othersFor (ty : Ty) (c : SL) : Except String Val :=
  match ty with
  | .slv w => .ok (.slv (List.replicate w c))
  | .uns w => .ok (.uns (List.replicate w c))
  | _ => .error "(others => …) for a non-array target"

/-! ## expressions -/

/-- what a process can read -/
structure Rd where
  obj : String → Option Val         -- current value of a signal / variable / constant, under its declared type
  ev : String → Bool                -- S'event in this delta
  last : String → Option Val        -- S'last_value
  ty : String → Option Ty           -- declared type (for assignment targets)

def evalBin (op : BinOp) (a b : Val) : Except String Val :=
  if op.isLogical then
    match a, b with
    | .sl x, .sl y => .ok (.sl (logicOp op x y))
    | .bool x, .bool y => .ok (.bool (boolOp op x y))
    | _, _ =>
      match a.vec?, b.vec? with
      | some (ta, x), some (tb, y) =>
        match joinTag ta tb with
        | some t => if x.length == y.length then .ok (mkVec t (List.zipWith (logicOp op) x y)) else .error "logical operator on arrays of different length"
        | none => .error "logical operator mixes STD_LOGIC_VECTOR and UNSIGNED"
      | _, _ => .error "logical operator on incompatible operands"
  else if op.isRelational then
    match a, b with
    | .sl x, .sl y =>
      match op with
      | .eq => .ok (.bool (x == y)) | .ne => .ok (.bool (x != y))
      | _ => .error "ordering of std_logic values is not modelled"
    | .bool x, .bool y =>
      match op with
      | .eq => .ok (.bool (x == y)) | .ne => .ok (.bool (x != y))
      | _ => .error "ordering of booleans is not modelled"
    | .int x, .int y =>
      match op with
      | .eq => .ok (.bool (x == y)) | .ne => .ok (.bool (x != y)) | .lt => .ok (.bool (x < y))
      | .gt => .ok (.bool (x > y)) | .le => .ok (.bool (x ≤ y)) | _ => .ok (.bool (x ≥ y))
    | _, _ =>
      match a.vec?, b.vec? with
      | some (ta, x), some (tb, y) =>
        match joinTag ta tb with
        | some 2 => .ok (.bool (numRel op x y))
        | some 1 =>
          match op with   -- predefined equality of STD_LOGIC_VECTOR: same length and equal elements
          | .eq => .ok (.bool (x == y)) | .ne => .ok (.bool (x != y))
          | _ => .error "ordering of STD_LOGIC_VECTOR values is not modelled"
        | some _ => .error "relational operator between two literals: type cannot be determined"
        | none => .error "relational operator mixes STD_LOGIC_VECTOR and UNSIGNED"
      | _, _ => .error "relational operator on incompatible operands"
  else
    match op with
    | .cat =>
      match a, b with
      | .sl x, .sl y => .ok (.lit [y, x])
      | .sl x, _ => match b.vec? with
        | some (t, y) => .ok (mkVec t (y ++ [x]))
        | none => .error "& on incompatible operands"
      | _, .sl y => match a.vec? with
        | some (t, x) => .ok (mkVec t (y :: x))
        | none => .error "& on incompatible operands"
      | _, _ =>
        match a.vec?, b.vec? with
        | some (ta, x), some (tb, y) =>
          match joinTag ta tb with
          | some t => .ok (mkVec t (y ++ x))
          | none => .error "& mixes STD_LOGIC_VECTOR and UNSIGNED"
        | _, _ => .error "& on incompatible operands"
    | _ =>
      match a.vec?, b.vec? with
      | some (ta, x), some (tb, y) =>
        match joinTag ta tb with
        | some 2 =>
          match op with
          | .add => .ok (.uns (numAdd x y)) | .sub => .ok (.uns (numSub x y)) | _ => .ok (.uns (numMul x y))
        | some 0 => .error "arithmetic operator between two literals: type cannot be determined"
        | _ => .error "arithmetic operator needs an UNSIGNED operand"
      | _, _ => .error "arithmetic operator on incompatible operands"

def evalCall1 (f : Fn1) (a : Val) : Except String Val :=
  match f, a with
  | .toUnsigned, .slv b => .ok (.uns b)
  | .toUnsigned, .uns b => .ok (.uns b)
  | .toSlv, .uns b => .ok (.slv b)
  | .toSlv, .slv b => .ok (.slv b)
  | .toUnsigned, .lit _ => .error "type conversion of an operand whose type is not determined (literal / concatenation of literals)"
  | .toSlv, .lit _ => .error "type conversion of an operand whose type is not determined (literal / concatenation of literals)"
  | .toInteger, .uns b => .ok (.int (numToInt b))
  | .bool2sl, .bool b => .ok (.sl (SL.ofBool b))
  | .sl2bool, .sl b => .ok (.bool (b == .I))
  | _, _ => .error s!"function applied to an operand of the wrong type ({a.toText})"

def evalCall2 (f : Fn2) (a b : Val) : Except String Val :=
  match f, a, b with
  | .resize, .uns x, .int n => .ok (.uns (numResize x n))
  | .shiftLeft, .uns x, .int n => .ok (.uns (numShiftLeft x n))
  | .shiftRight, .uns x, .int n => .ok (.uns (numShiftRight x n))
  | _, _, _ => .error "resize / SHIFT_LEFT / SHIFT_RIGHT need (UNSIGNED, integer)"

def evalIndex (v : Val) (k : Nat) : Except String Val :=
  match v with
  | .mem ws => match ws[k]? with
    | some w => .ok (.uns w)
    | none => .error s!"index {k} out of range"
  | _ => match v.vec? with
    | some (_, b) => match b[k]? with
      | some x => .ok (.sl x)
      | none => .error s!"index {k} out of range"
    | none => .error "indexing a non-array"

def evalSlice (v : Val) (hi lo : Nat) : Except String Val :=
  match v.vec? with
  | some (t, b) => if lo ≤ hi && hi < b.length then .ok (mkVec t ((b.drop lo).take (hi + 1 - lo))) else .error s!"slice ({hi} downto {lo}) out of range"
  | none => .error "slice of a non-array"

def evalExpr (rd : Rd) : Expr → Except String Val
  | .name n => match rd.obj n with
    | some v => .ok v
    | none => .error s!"unknown object '{n}'"
  | .index n i => do
    let k ← evalExpr rd i
    match rd.obj n, k with
    | some v, .int k => evalIndex v k
    | none, _ => .error s!"unknown object '{n}'"
    | _, _ => .error "index is not an integer"
  | .slice n hi lo => match rd.obj n with
    | some v => evalSlice v hi lo
    | none => .error s!"unknown object '{n}'"
  | .chr c => .ok (.sl c)
  | .str b => .ok (.lit b)
  | .boolLit b => .ok (.bool b)
  | .int n => .ok (.int n)
  | .others _ => .error "(others => …) outside an assignment"
  | .agg0 e => do
    match ← evalExpr rd e with
    | .sl b => .ok (.lit [b])
    | _ => .error "(0 => e): e is not a std_logic"
  | .not e => do
    match ← evalExpr rd e with
    | .sl b => .ok (.sl b.not)
    | .bool b => .ok (.bool (!b))
    | v => match v.vec? with
      | some (t, b) => .ok (mkVec t (b.map SL.not))
      | none => .error "not on incompatible operand"
  | .bin op a b => do
    let x ← evalExpr rd a
    let y ← evalExpr rd b
    evalBin op x y
  | .call1 f a => do
    let x ← evalExpr rd a
    evalCall1 f x
  | .call2 f a b => do
    let x ← evalExpr rd a
    let y ← evalExpr rd b
    evalCall2 f x y
  | .edge rising c =>
    match rd.obj c, rd.last c with
    | some (.sl cur), some (.sl old) =>
      -- rising_edge: s'event and to_x01(s) = '1' and to_x01(s'last_value) = '0'
      if rising then .ok (.bool (rd.ev c && cur.to01? == some true && old.to01? == some false))
      else .ok (.bool (rd.ev c && cur.to01? == some false && old.to01? == some true))
    | _, _ => .error s!"rising_edge/falling_edge of '{c}' which is not a std_logic signal"
  | .event n => .ok (.bool (rd.ev n))
  | .paren e => evalExpr rd e

/-! ## sequential statements -/

/-- one scheduled signal assignment: target signal, optional element index, value -/
structure Write where
  sig : String
  idx : Option Nat
  val : Val
  deriving DecidableEq, Repr, Inhabited

structure PSt where
  vars : List (String × Val) := []     -- variables of the process (persist between activations)
  writes : List Write := []            -- signal assignments of this activation, program order
  asserts : Nat := 0                   -- ASSERT statements whose condition was false
  deriving DecidableEq, Repr, Inhabited

def setVar (vars : List (String × Val)) (n : String) (v : Val) : List (String × Val) :=
  match vars with
  | [] => [(n, v)]
  | (m, w) :: r => if m == n then (n, v) :: r else (m, w) :: setVar r n v

/-- reads see variables first, then signals/constants -/
def Rd.withVars (rd : Rd) (vars : List (String × Val)) : Rd :=
  { rd with obj := fun n => match vars.lookup n with
      | some v => some v
      | none => rd.obj n }

/-- right-hand side for a target of type `ty` -/
def evalRhs (rd : Rd) (ty : Ty) (e : Expr) : Except String Val :=
  match e with
  | .others c => othersFor ty c
  | _ => do
    let v ← evalExpr rd e
    coerce ty v

def caseSelBits (v : Val) : Except String Bits :=
  match v.vec? with
  | some (_, b) => .ok b
  | none => .error "CASE selector is not an array"

mutual
  def execStmt (rd : Rd) (st : PSt) : Stmt → Except String PSt
    | .varAssign n e =>
      match rd.ty n with
      | some ty => do
        let v ← evalRhs (rd.withVars st.vars) ty e
        .ok { st with vars := setVar st.vars n v }
      | none => .error s!"assignment to undeclared variable '{n}'"
    | .sigAssign (.name n) e =>
      match rd.ty n with
      | some ty => do
        let v ← evalRhs (rd.withVars st.vars) ty e
        .ok { st with writes := st.writes ++ [{ sig := n, idx := none, val := v }] }
      | none => .error s!"assignment to undeclared signal '{n}'"
    | .sigAssign (.index n i) e =>
      match rd.ty n with
      | some (.mem words w) => do
        let k ← evalExpr (rd.withVars st.vars) i
        let v ← evalRhs (rd.withVars st.vars) (.uns w) e
        match k with
        | .int k => if k < words then .ok { st with writes := st.writes ++ [{ sig := n, idx := some k, val := v }] } else .error "memory write index out of range"
        | _ => .error "index is not an integer"
      | _ => .error s!"indexed assignment to '{n}' which is not a memory"
    | .ite c t e => do
      match ← evalExpr (rd.withVars st.vars) c with
      | .bool true => execStmts rd st t
      | .bool false => execStmts rd st e
      | _ => .error "IF condition is not a BOOLEAN"
    | .case sel alts => do
      let v ← evalExpr (rd.withVars st.vars) sel
      let b ← caseSelBits v
      execAlts rd st b alts
    | .assert c => do
      match ← evalExpr (rd.withVars st.vars) c with
      | .bool true => .ok st
      | .bool false => .ok { st with asserts := st.asserts + 1 }
      | _ => .error "ASSERT condition is not a BOOLEAN"
  def execStmts (rd : Rd) (st : PSt) : Stmts → Except String PSt
    | .nil => .ok st
    | .cons s r => do
      let st' ← execStmt rd st s
      execStmts rd st' r
  def execAlts (rd : Rd) (st : PSt) (sel : Bits) : Alts → Except String PSt
    | .nil => .error "CASE: no alternative matches and there is no WHEN OTHERS"
    | .cons none body _ => execStmts rd st body
    | .cons (some c) body r => if c == sel then execStmts rd st body else execAlts rd st sel r
end

end Gatery.C02.Vhdl
