import GateryModel.Nodes.Netlist
/-!
# C03 — model of the frontend lowering of operators to core nodes

Every function builds the value of a frontend operator *from `evalNode` calls*, in the shape the
frontend builds the nodes (`/repo/source/gatery/frontend/*.cpp`); `.error` = the frontend throws
(`HCL_DESIGNCHECK` / `HCL_ASSERT`).  Values carry the expansion policy of their `SignalReadPort`
(`Signal.h:48-64`); it only matters where operands of different width meet.

Core Lean only (the driver links against this file).
-/
namespace Gatery.C03
open Gatery.Nodes BV4

/-- `Expansion` (`Signal.h:48-54`) -/
inductive Pol | none | zero | one | sign
  deriving DecidableEq, Repr

/-- signal classes of the frontend -/
inductive Ty | bit | uint | sint | bvec
  deriving DecidableEq, Repr

abbrev FE := Except String

def node (k : NodeKind) (w : Nat) (ins : List BV4) : BV4 := evalNode k w (ins.map some)

/-! ## `Node_Rewire::setPadTo`, `SignalReadPort::expand`, `NormalizedWidthOperands` -/

/-- `RewireOperation::addInput` / `addConstant` drop empty ranges (`Node_Rewire.cpp:42-70`) -/
def addRange (rs : List Range) (r : Range) : List Range := if r.subwidth > 0 then rs ++ [r] else rs

/-- `setPadTo(width, padding)` (`Node_Rewire.cpp:128-140`) and `setPadTo(width)` = pad with the msb (`:142-155`, asserts a
    non-empty input) -/
def padRanges (pol : Pol) (tw width : Nat) : FE (List Range) :=
  match pol with
  | .zero => .ok (addRange (addRange [] ⟨min width tw, .input 0 0⟩) ⟨width - tw, .zero⟩)
  | .one => .ok (addRange (addRange [] ⟨min width tw, .input 0 0⟩) ⟨width - tw, .one⟩)
  | .sign =>
    if tw = 0 then .error "setPadTo: type0.width > 0"
    else .ok (addRange [] ⟨min width tw, .input 0 0⟩ ++ List.replicate (width - tw) ⟨1, .input 0 (tw - 1)⟩)
  | .none => .ok [⟨tw, .input 0 0⟩]   -- `setConcat` (type conversion only)

/-- `SignalReadPort::expand(width, resultType)` (`Signal.cpp:30-65`); a pure type conversion (`BOOL`↔`BITVEC`) is the identity on bits -/
def expand (pol : Pol) (v : BV4) (width : Nat) : FE BV4 :=
  if v.length > width then .error "signal width cannot be implicitly decreased"
  else if v.length ≠ width ∧ pol = .none then .error "missmatching operands size and no expansion policy specified"
  else if v.length < width then do
    let rs ← padRanges pol v.length width
    pure (node (.rewire rs) width [v])
  else pure v

/-- `NormalizedWidthOperands(l, r)` (`Signal.h:111-127`): both operands expanded to the larger width -/
def normalize (pa pb : Pol) (a b : BV4) : FE (BV4 × BV4 × Nat) := do
  let w := max a.length b.length
  let a' ← expand pa a w
  let b' ← expand pb b w
  pure (a', b', w)

/-! ## arithmetic, logic, comparison (`SignalArithmeticOp.*`, `SignalLogicOp.*`, `SignalCompareOp.*`) -/

def arith (op : ArithOp) (pa pb : Pol) (a b : BV4) : FE BV4 := do
  let (a', b', w) ← normalize pa pb a b
  pure (node (.arith op) w [a', b'])

def logic (op : LogicOp) (pa pb : Pol) (a b : BV4) : FE BV4 := do
  let (a', b', w) ← normalize pa pb a b
  pure (node (.logic op) w [a', b'])

def lnot (a : BV4) : BV4 := node (.logic .NOT) a.length [a]

def compare (op : CmpOp) (ty : CType) (pa pb : Pol) (a b : BV4) : FE BV4 := do
  let (a', b', _) ← normalize pa pb a b
  pure (node (.compare op ty) 1 [a', b'])

/-- `x.msb()` / `x.sign()`: a one-bit slice, rejected on an empty vector (`BitVector.cpp:492-501`) -/
def msb (a : BV4) : FE BV4 :=
  if a.length = 0 then .error "aliasMsb: width() != 0"
  else pure (node (.rewire [⟨1, .input 0 (a.length - 1)⟩]) 1 [a])

def lsb (a : BV4) : FE BV4 :=
  if a.length = 0 then .error "aliasLsb: width() != 0"
  else pure (node (.rewire [⟨1, .input 0 0⟩]) 1 [a])

/-- `sext(x, w)` = `ext(x, BitWidth w, Expansion::sign)` (`SInt.cpp:24-33`) -/
def sextTo (a : BV4) (w : Nat) : FE BV4 :=
  if w < a.length then .error "ext is not allowed to reduce width"
  else if w > a.length then expand .sign a w else pure a

/-- `lt(SInt, SInt) = (sext(lhs, w) - sext(rhs, w)).sign()` with `w = max(widths) + 1` (`SignalCompareOp.cpp:45-48`): the
    operands are sign-extended by one bit more than the wider one, whatever their own expansion policy is -/
def slt (a b : BV4) : FE BV4 := do
  let w := max a.length b.length + 1
  let a' ← sextTo a w
  let b' ← sextTo b w
  msb (← arith .SUB .sign .sign a' b')
/-- `gt(SInt, SInt) = (sext(rhs, w) - sext(lhs, w)).sign()` (`:40-44`) -/
def sgt (a b : BV4) : FE BV4 := do
  let w := max a.length b.length + 1
  let b' ← sextTo b w
  let a' ← sextTo a w
  msb (← arith .SUB .sign .sign b' a')
def sgeq (a b : BV4) : FE BV4 := do pure (lnot (← slt a b))
def sleq (a b : BV4) : FE BV4 := do pure (lnot (← sgt a b))

/-- the literal `1` of `~x + 1`: `UInt(1)` is one bit wide with policy zero (`BitVector.cpp:347-360`) -/
def plusOne (x : BV4) : FE BV4 := arith .ADD .none .zero x [.t]

/-- `abs(SInt)` (`SignalArithmeticOp.cpp:70-76`): `res = v; IF (v.sign()) res = ~v + 1` — the `IF` is a 2-input multiplexer
    `[selector, old, new]` (`BitVector.cpp:404-431`) -/
def sabs (a : BV4) : FE BV4 := do
  let s ← msb a
  let neg ← plusOne (lnot a)
  pure (node .mux a.length [s, a, neg])

/-- `mul(SInt, SInt)` (`SignalArithmeticOp.cpp:49-68`); `abs` returns `zext(res)` (`:70-77`, since `2477763`): the magnitudes
    meet with zero expansion policy, whatever the policy of the operands -/
def smul (pa pb : Pol) (a b : BV4) : FE BV4 :=
  if a.length = b.length then arith .MUL pa pb a b
  else do
    let lhSign ← msb a
    let rhSign ← msb b
    let resultSign := node (.logic .XOR) 1 [lhSign, rhSign]
    let absL ← sabs a
    let absR ← sabs b
    let absRes ← arith .MUL .zero .zero absL absR
    let neg ← plusOne (lnot absRes)
    pure (node .mux absRes.length [resultSign, absRes, neg])

/-- `Bit` converted for arithmetic / broadcast: `ext(bit, +0, policy)` is a one-bit vector (`UInt.cpp:58-65`) -/
def addBit (op : ArithOp) (pa : Pol) (a bit : BV4) : FE BV4 := arith op pa .zero a bit
/-- `land(vec, bit)` etc.: the bit is sign-extended, i.e. broadcast (`SignalLogicOp.h:123-161`) -/
def bcast (op : LogicOp) (pa : Pol) (a bit : BV4) : FE BV4 := logic op pa .sign a bit

/-- `addC(lhs, rhs, carry)` (`SignalArithmeticOp.cpp:37-47`): a three-operand ADD node -/
def addc (pa pb : Pol) (a b c : BV4) : FE BV4 := do
  let (a', b', w) ← normalize pa pb a b
  if w = 0 then .error "ext is not allowed to reduce width"
  else
    let c' ← (if w > 1 then expand .zero c w else pure c)
    pure (node (.arith .ADD) w [a', b', c'])

/-! ## static shifts and rotates (`SignalBitshiftOp.cpp:33-140`) -/

def fillRanges (fill : Fill) (amount : Nat) (lastOff : Nat) : List Range :=
  match fill with
  | .rotate => []   -- handled by the callers (the source offset differs by direction)
  | .last => List.replicate amount ⟨1, .input 0 lastOff⟩
  | .one => [⟨amount, .one⟩]
  | .zero => [⟨amount, .zero⟩]

/-- first statement of both rewire-op builders (`SignalBitshiftOp.cpp:33-38, 86-91`, since `c4028c8`): a shift by more than the
    width shifts everything out (`min(amount, width)`), a rotate is periodic in the width (`width ? amount % width : 0`) -/
def normAmount (fill : Fill) (width amount : Nat) : Nat :=
  if fill = .rotate then (if width = 0 then 0 else amount % width) else min amount width

/-- the ranges of `rightShiftRewireOp` for a normalised amount (`:40-83`).  `width - 1` for `fill::last` is computed in `size_t`. -/
def rightShiftRanges (width amount : Nat) (fill : Fill) : List Range :=
  (if amount < width then [⟨width - amount, .input 0 amount⟩] else []) ++
  (match fill with
   | .rotate => if amount > 0 then [⟨amount, .input 0 0⟩] else []
   | f => fillRanges f amount ((width + 2^64 - 1) % 2^64))

/-- the ranges of `leftShiftRewireOp` for a normalised amount (`:93-137`); `width - amount` is computed in `size_t` -/
def leftShiftRanges (width amount : Nat) (fill : Fill) : List Range :=
  (match fill with
   | .rotate => -- no empty range (it would sit at offset `width`, one past the operand)
     if amount > 0 then [⟨amount, .input 0 ((width + 2^64 - amount % 2^64) % 2^64)⟩] else []
   | f => fillRanges f amount 0) ++
  (if amount < width then [⟨width - amount, .input 0 0⟩] else [])

def shiftRangesCore (dir : Dir) (fill : Fill) (width amount : Nat) : List Range :=
  match dir with
  | .right => rightShiftRanges width amount fill
  | .left => leftShiftRanges width amount fill

/-- `rightShiftRewireOp(width, amount, fill)` / `leftShiftRewireOp(width, amount, fill)` -/
def rightShiftRewireOp (width amount : Nat) (fill : Fill) : List Range := rightShiftRanges width (normAmount fill width amount) fill
def leftShiftRewireOp (width amount : Nat) (fill : Fill) : List Range := leftShiftRanges width (normAmount fill width amount) fill

/-- `shift<T, direction>(operand, amount, fill)` (`:140-158`): one rewire node; its width is the sum of the ranges -/
def staticShiftRanges (dir : Dir) (fill : Fill) (width amount : Nat) : List Range :=
  match dir with
  | .right => rightShiftRewireOp width amount fill
  | .left => leftShiftRewireOp width amount fill

def rangesWidth (rs : List Range) : Nat := (rs.map (·.subwidth)).sum

def staticShift (dir : Dir) (fill : Fill) (a : BV4) (amount : Nat) : BV4 :=
  let rs := staticShiftRanges dir fill a.length amount
  node (.rewire rs) (rangesWidth rs) [a]

/-- the rewire node for an amount that is already normalised (and the lowering as it was before `c4028c8`) -/
def staticShiftCore (dir : Dir) (fill : Fill) (a : BV4) (amount : Nat) : BV4 :=
  let rs := shiftRangesCore dir fill a.length amount
  node (.rewire rs) (rangesWidth rs) [a]

/-- `rot(signal, amount)` (`:211-235`): positive amounts rotate left, `0` and negative ones right -/
def rotl (a : BV4) (amount : Nat) : BV4 :=
  if amount > 0 then staticShift .left .rotate a amount else staticShift .right .rotate a 0
def rotr (a : BV4) (amount : Nat) : BV4 := staticShift .right .rotate a amount

/-- dynamic shifts are one `Node_Shift` (`SignalBitshiftOp.cpp:238-247`) -/
def dynShift (dir : Dir) (fill : Fill) (a amt : BV4) : BV4 := node (.shift dir fill) a.length [a, amt]

/-! ## extension, slices, concatenation (`UInt.cpp`, `SInt.cpp`, `BVec.cpp`, `BitVectorSlice.cpp`, `Pack.h`) -/

/-- `ext(vec, BitWidth w, policy)` -/
def extTo (pol : Pol) (a : BV4) (w : Nat) : FE BV4 :=
  if w < a.length then .error "ext is not allowed to reduce width"
  else if w > a.length then expand pol a w else pure a

/-- `ext(bit, BitWidth w, policy)` (`UInt.cpp:47-56`) -/
def extBitTo (pol : Pol) (a : BV4) (w : Nat) : FE BV4 :=
  if w = 0 then .error "ext is not allowed to reduce width"
  else if w > 1 then expand pol a w else pure a

/-- `ext(x, BitExtend by, policy)` -/
def extBy (pol : Pol) (a : BV4) (byN : Nat) : FE BV4 :=
  if byN > 0 then expand pol a (a.length + byN) else pure a

/-- `BitVectorSliceStatic::readPort` (`BitVectorSlice.cpp:79-94`) -/
def slice (a : BV4) (off w : Nat) : FE BV4 :=
  if off + w > a.length then .error "Slice offset+width is larger than source width!"
  else pure (node (.rewire (addRange [] ⟨w, .input 0 off⟩)) w [a])

def bitAt (a : BV4) (i : Nat) : FE BV4 :=
  if i < a.length then slice a i 1 else .error "idx < size()"

/-- `Node_Rewire::setExtract(offset, count)` (`Node_Rewire.cpp:96-108`): bits beyond the input are `CONST_UNDEFINED` -/
def extractRanges (inWidth offset count : Nat) : List Range :=
  let rs := if offset < inWidth then addRange [] ⟨min (offset + count) inWidth - offset, .input 0 offset⟩ else []
  if offset + count > inWidth then addRange rs ⟨min (offset + count - inWidth) count, .undef⟩ else rs

/-- `BitVectorSliceDynamic::readPort` (`BitVectorSlice.cpp:138-158`): a multiplexer over `maxIndex+1` static extracts -/
def dynSlice (a idx : BV4) (maxIndex width : Nat) : BV4 :=
  let opts := (List.range (maxIndex + 1)).map fun i => node (.rewire (extractRanges a.length i width)) width [a]
  node .mux width (idx :: opts)

/-- `x[idx]` (`BitVector.cpp:257-270`): `maxIndex = min(size-1, 2^idxWidth - 1)` -/
def dynBit (a idx : BV4) : BV4 := dynSlice a idx (min (a.length - 1) (2^idx.length - 1)) 1
/-- `x(idx, w)` (`BitVector.h:342-348`): `maxIndex = 2^idxWidth - 1` -/
def dynSliceOp (a idx : BV4) (w : Nat) : BV4 := dynSlice a idx (2^idx.length - 1) w

/-- `pack(a₀, a₁, …)` = `setConcat` over the operands, first operand lowest (`Pack.h:91-103`, `Node_Rewire.cpp:77-94`);
    `cat` is `pack` of the reversed list (`Pack.h:106-118`) -/
def pack (xs : List BV4) : BV4 :=
  let rs := (List.range xs.length).map fun i => (⟨(xs.getD i []).length, .input i 0⟩ : Range)
  node (.rewire rs) (rangesWidth rs) xs
def cat (xs : List BV4) : BV4 := pack xs.reverse

/-- `shr(UInt signal, size_t amount, Bit arithmetic)` (`SignalBitshiftOp.cpp:173-180`) -/
def shra (a arithmetic : BV4) (amount : Nat) : FE BV4 := do
  let m ← msb a
  let inShift := node (.logic .AND) 1 [arithmetic, m]
  let high ← extBitTo .sign inShift amount
  let low ← slice a amount (a.length - amount)
  pure (cat [high, low])

/-! ## multiplexer and priority select (`SignalMiscOp.h:56-95`, `PriorityConditional.h`) -/

def muxOp (selPol : Pol) (sel : BV4) (table : List BV4) : FE BV4 :=
  if table.isEmpty then .error "begin(table) != end(table)"
  else if table.length > 2^sel.length ∧ selPol ≠ .zero then .error "The number of mux inputs is larger than can be addressed"
  else
    let n := min table.length (2^sel.length)
    let tab := table.take n
    pure (node .mux (tab.getLastD []).length (sel :: tab))

def prioOp (dflt : BV4) (choices : List (BV4 × BV4)) : BV4 :=
  let ins := dflt :: choices.flatMap fun (c, v) => [c, v]
  -- the output type is the one of the last connected value (`Node_PriorityConditional.cpp:39-45`)
  node .prio (match choices.getLast? with | some (_, v) => v.length | none => dflt.length) ins

namespace Spec0
def isHex (c : Char) : Bool := c.isDigit || ('a' ≤ c ∧ c ≤ 'f') || ('A' ≤ c ∧ c ≤ 'F')
end Spec0

/-! ## literals (`BitVector.cpp:347-387`, `BitVectorState.cpp:173-267,400-411`) -/

/-- `utils::Log2C(v)` for `v > 0` -/
def log2C (v : Nat) : Nat := if v ≤ 1 then 0 else Nat.log2 (v - 1) + 1

/-- `UInt(uint64_t value)`: `Log2C(value+1)` bits (64 when `value + 1` overflows), policy zero -/
def uintLit (value : Nat) : BV4 :=
  let width := if (value + 1) % 2^64 = 0 then 64 else log2C (value + 1)
  ofNat width value

/-! ## conditional assignment (`IF (c) x = a;`, `ConditionalScope`, `BitVector.cpp:404-431`) -/

/-- `IF (cond) x = new;` outside any other scope: a 2-input multiplexer `[cond, old, new]` -/
def ifAssign (cond old new : BV4) : BV4 := node .mux new.length [cond, old, new]

/-- `x = d; IF (sel == k₁) x = a₁; IF (sel == k₂) x = a₂; …` — every condition is a compare node of the selector with the
    integer literal (`UInt(k)`, policy zero) -/
def ifChain (selPol : Pol) (sel d : BV4) (steps : List (Nat × BV4)) : FE BV4 :=
  steps.foldlM (fun x (ka : Nat × BV4) => do
    let c ← compare .EQ .bitvec selPol .zero sel (uintLit ka.1)
    pure (ifAssign c x ka.2)) d

/-- `x = d; IF (c₁) x = a₁; IF (c₂) x = a₂; …` — later conditions override earlier ones -/
def ifPrio (d : BV4) (steps : List (BV4 × BV4)) : BV4 :=
  steps.foldl (fun x (ca : BV4 × BV4) => ifAssign ca.1 x ca.2) d

/-- `sim::parseBit(char)` (`BitVectorState.cpp:153-162`), the value of `Bit(char)`: only `0 1 x X` are accepted;
    `VALUE = (c != '0')`, `DEFINED = (c != 'x' && c != 'X')` -/
def parseBit (c : Char) : FE BV4 :=
  if c == '0' || c == '1' || c == 'x' || c == 'X' then pure [B4.mk (c != '0') (c != 'x' && c != 'X')]
  else .error "value == '0' || value == '1' || value == 'x' || value == 'X'"

/-- digit of a base-`2^bps` literal: `(value, defined)`; any character outside `0-9a-fA-F` (the grammar only allows `x`/`X`
    besides the digits) clears DEFINED (`BitVectorState.cpp:199-215`) -/
def litDigit (bps : Nat) (c : Char) : BV4 :=
  if c.isDigit then ofNat bps (c.toNat - '0'.toNat)
  else if 'a' ≤ c ∧ c ≤ 'f' then ofNat bps (c.toNat - 'a'.toNat + 10)
  else if 'A' ≤ c ∧ c ≤ 'F' then ofNat bps (c.toNat - 'A'.toNat + 10)
  else undef bps

/-- overwrite `v[off ..]` with `d` -/
def overwrite (v : BV4) (off : Nat) (d : BV4) : BV4 :=
  tab v.length fun i => if off ≤ i ∧ i < off + d.length then d.bit (i - off) else v.bit i

/-- `parseHex(bps, …)` (`BitVectorState.cpp:189-216`): each digit is written with `insert` (which handles a digit that
    straddles a 64-bit word, as octal digit 21 does) -/
def parseHexDigits (bps : Nat) (pre : BV4) (digits : List Char) : FE BV4 :=
  let n := digits.length
  let base : FE BV4 :=
    if pre.length = 0 then pure (List.replicate (n * bps) .f)
    else if pre.length ≥ n * bps then pure pre else .error "string UInt constant width is to small for its value"
  base.bind fun start =>
    pure ((List.range n).foldl (fun acc i =>
      let dstIdx := n - 1 - i
      overwrite acc (dstIdx * bps) (litDigit bps (digits.getD i '0'))) start)

/-- `parseDec` (`BitVectorState.cpp:218-236`); the number is read with `strtoull`, values that do not fit 64 bit are rejected -/
def parseDecDigits (pre : BV4) (digits : List Char) : FE BV4 :=
  let num := digits.foldl (fun a c => a * 10 + (c.toNat - '0'.toNat)) 0
  if num ≥ 2^64 then .error "decimal UInt literals are limited to 64 bit values" else
  let width := if num = 2^64 - 1 then 64 else log2C (num + 1)
  let cur : BV4 := if pre.length = 0 then List.replicate width .f else pre
  if cur.length < width then .error "string UInt constant width is to small for its value"
  else pure (overwrite cur 0 (ofNat width num))

/-- `sim::parseBitVector(string_view)` (`BitVectorState.cpp:173-267`) for the bases `b o x d` -/
def parseBitVector (s : String) : FE BV4 :=
  let cs := s.toList
  let wd := cs.takeWhile Char.isDigit
  let rest := cs.dropWhile Char.isDigit
  let pre : BV4 := if wd.isEmpty then [] else List.replicate (String.ofList wd).toNat! .f
  match rest with
  | 'b' :: ds => if ds.all (fun c => c == '0' || c == '1' || c == 'x' || c == 'X') then parseHexDigits 1 pre ds else .error "parse"
  | 'o' :: ds => if ds.all (fun c => ('0' ≤ c ∧ c ≤ '7') || c == 'x' || c == 'X') then parseHexDigits 3 pre ds else .error "parse"
  | 'x' :: ds => if ds.all (fun c => (Spec0.isHex c) || c == 'x' || c == 'X') then parseHexDigits 4 pre ds else .error "parse"
  | 'd' :: ds => if ds.all Char.isDigit then parseDecDigits pre ds else .error "parse"
  | _ => .error "parse"

end Gatery.C03
