import GateryModel.C03.LemmasBits
/-!
# C03 — `Node_Arithmetic` and `Node_Compare` compute the integer definition modulo `2^w`
(both the `uint64_t` path for `w ≤ 64` and the `BigInt` path for `w > 64`)
-/
namespace Gatery.Nodes
open BV4

/-- the exact (unbounded) meaning of one accumulation step of ADD / SUB / MUL -/
def exactStep (op : ArithOp) (acc : Int) (v : Nat) : Int :=
  match op with
  | .ADD => acc + v
  | .SUB => acc - v
  | .MUL => acc * v
  | _ => acc

def ArithOp.isRing : ArithOp → Bool
  | .ADD | .SUB | .MUL => true
  | _ => false

theorem step64_invariant (op : ArithOp) (hop : op.isRing = true) (r : Nat) (E : Int) (v : Nat)
    (h : (r : Int) % 18446744073709551616 = E % 18446744073709551616) :
    (((arithStep64 op (r, true) v).1 : Nat) : Int) % 18446744073709551616 = exactStep op E v % 18446744073709551616
    ∧ (arithStep64 op (r, true) v).2 = true := by
  cases op <;> simp [ArithOp.isRing] at hop <;> simp only [arithStep64, exactStep, Nat.reducePow, and_true]
  · -- ADD
    omega
  · -- SUB
    omega
  · -- MUL
    rw [Int.natCast_emod, Int.natCast_mul]
    simp only [Int.cast_ofNat_Int]
    rw [Int.emod_emod_of_dvd _ (Int.dvd_refl _), Int.mul_emod, h, ← Int.mul_emod]

theorem fold64_invariant (op : ArithOp) (hop : op.isRing = true) (vs : List Nat) (r : Nat) (E : Int)
    (h : (r : Int) % 18446744073709551616 = E % 18446744073709551616) :
    (((vs.foldl (arithStep64 op) (r, true)).1 : Nat) : Int) % 18446744073709551616 = vs.foldl (exactStep op) E % 18446744073709551616 ∧
    (vs.foldl (arithStep64 op) (r, true)).2 = true := by
  induction vs generalizing r E with
  | nil => exact ⟨h, rfl⟩
  | cons v t ih =>
    simp only [List.foldl_cons]
    have hs := step64_invariant op hop r E v h
    generalize arithStep64 op (r, true) v = q at hs ⊢
    obtain ⟨q1, q2⟩ := q
    simp only at hs
    rw [hs.2]
    exact ih _ _ hs.1

theorem foldBig_invariant (op : ArithOp) (hop : op.isRing = true) (vs : List Nat) (E : Int) :
    vs.foldl (arithStepBig op) (E, true) = (vs.foldl (exactStep op) E, true) := by
  induction vs generalizing E with
  | nil => rfl
  | cons v t ih =>
    simp only [List.foldl_cons]
    have : arithStepBig op (E, true) v = (exactStep op E v, true) := by
      cases op <;> simp [ArithOp.isRing] at hop <;> rfl
    rw [this, ih]

theorem all_inDefined_map_some {vs : List BV4} (h : ∀ v ∈ vs, v.allDef = true) : (vs.map some).all inDefined = true := by
  simp only [List.all_map, List.all_eq_true]
  intro v hv
  exact h v hv

theorem pow_dvd_pow_int {m n : Nat} (h : m ≤ n) : ((2:Int) ^ m) ∣ ((2:Int) ^ n) := by
  obtain ⟨k, rfl⟩ := Nat.exists_eq_add_of_le h
  exact ⟨(2:Int) ^ k, by rw [Int.pow_add]⟩

/-- ADD / SUB / MUL nodes with any number of operands of any widths: the result is fully defined and equals the exact
    integer result modulo `2^w` -/
theorem evalArith_ring (op : ArithOp) (hop : op.isRing = true) (w : Nat) (v0 : BV4) (vs : List BV4)
    (hdef : ∀ v ∈ v0 :: vs, v.allDef = true) :
    ((toNat (evalArith op w ((v0 :: vs).map some)) : Nat) : Int) = (vs.map toNat).foldl (exactStep op) (toNat v0) % (2:Int) ^ w
    ∧ (evalArith op w ((v0 :: vs).map some)).allDef = true := by
  have hall := all_inDefined_map_some hdef
  unfold evalArith
  rw [if_pos hall]
  simp only [List.map_cons, List.map_map, inNat]
  have hmap : List.map (inNat ∘ some) vs = vs.map toNat := by
    apply List.map_congr_left; intro v _; rfl
  rw [hmap]
  by_cases hw : w ≤ 64
  · rw [if_pos hw]
    -- the invariant is a congruence modulo 2^64, so no bound on the operand widths is needed
    have hinv := fold64_invariant op hop (vs.map toNat) (toNat v0) (toNat v0 : Int) rfl
    rw [if_pos hinv.2]
    refine ⟨?_, allDef_ofNat _ _⟩
    rw [toNat_ofNat, Int.natCast_emod]
    have : ((2 ^ w : Nat) : Int) = (2:Int) ^ w := by simp
    rw [this]
    have hd : ((2:Int) ^ w) ∣ (18446744073709551616 : Int) := by
      have := pow_dvd_pow_int hw
      simpa using this
    rw [← Int.emod_emod_of_dvd _ hd, hinv.1, Int.emod_emod_of_dvd _ hd]
  · rw [if_neg hw]
    rw [foldBig_invariant op hop]
    simp only [if_true]
    exact ⟨toNat_ofInt _ _, allDef_ofInt _ _⟩

end Gatery.Nodes

namespace Gatery.Nodes
open BV4

/-- DIV / REM nodes (two operands): quotient / remainder of the unsigned values for a non-zero divisor, all bits undefined
    for divisor 0 (both paths) -/
theorem evalArith_div (w : Nat) (a b : BV4) (ha : a.allDef = true) (hb : b.allDef = true) :
    evalArith .DIV w [some a, some b] = if b.toNat = 0 then undef w else ofNat w (a.toNat / b.toNat) := by
  have hall : [some a, some b].all inDefined = true := by simp [inDefined, ha, hb]
  unfold evalArith
  rw [if_pos hall]
  simp only [List.map_cons, List.map_nil, inNat, List.foldl_cons, List.foldl_nil]
  by_cases hz : b.toNat = 0
  · simp [hz, arithStep64, arithStepBig]
  · simp only [hz, if_false, arithStep64, arithStepBig, ne_eq, not_false_eq_true, if_true]
    split
    · rfl
    · rw [← Int.ofNat_tdiv, ofInt_natCast]

theorem evalArith_rem (w : Nat) (a b : BV4) (ha : a.allDef = true) (hb : b.allDef = true) :
    evalArith .REM w [some a, some b] = if b.toNat = 0 then undef w else ofNat w (a.toNat % b.toNat) := by
  have hall : [some a, some b].all inDefined = true := by simp [inDefined, ha, hb]
  unfold evalArith
  rw [if_pos hall]
  simp only [List.map_cons, List.map_nil, inNat, List.foldl_cons, List.foldl_nil]
  by_cases hz : b.toNat = 0
  · simp [hz, arithStep64, arithStepBig]
  · simp only [hz, if_false, arithStep64, arithStepBig, ne_eq, not_false_eq_true, if_true]
    split
    · rfl
    · rw [← Int.ofNat_tmod, ofInt_natCast]

/-! ## Node_Compare -/

theorem cmpNat_eq_cmpInt (op : CmpOp) (l r : Nat) : cmpNat op l r = Gatery.C03.Spec.cmpInt op l r := by
  cases op <;> simp [cmpNat, Gatery.C03.Spec.cmpInt]
  · rw [Bool.eq_iff_iff]; simp; omega
  · rw [Bool.eq_iff_iff]; simp [bne]; omega

/-- comparison of two fully defined operands of any widths (zero width included: both read as 0) is the order on ℕ -/
theorem evalCompare_defined (op : CmpOp) (a b : BV4) (ha : a.allDef = true) (hb : b.allDef = true) :
    evalCompare op [some a, some b] = [B4.ofBool (cmpNat op a.toNat b.toNat)] := by
  unfold evalCompare
  simp only [ha, hb, Bool.and_self, if_true]
  split
  · rename_i hz
    have h1 : a = [] := List.eq_nil_of_length_eq_zero hz.1
    have h2 : b = [] := List.eq_nil_of_length_eq_zero hz.2
    subst h1; subst h2
    cases op <;> simp [cmpZeroWidth, cmpNat, toNat]
  · rfl

end Gatery.Nodes
