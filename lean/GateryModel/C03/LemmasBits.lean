import GateryModel.C08.Mono
import GateryModel.C03.Spec
/-!
# C03 — numbers and bit vectors: `toNat`, `ofNat`, `ofInt`, `testBit`
-/
namespace Gatery.Nodes
open BV4

namespace BV4

@[simp] theorem length_ofNat' (w n : Nat) : (ofNat w n).length = w := by
  induction w generalizing n with
  | zero => rfl
  | succ k ih => simp [ofNat, ih]

theorem toNat_ofNat (w n : Nat) : toNat (ofNat w n) = n % 2 ^ w := by
  induction w generalizing n with
  | zero => simp [ofNat, toNat, Nat.mod_one]
  | succ k ih =>
    simp only [ofNat, toNat, ih]
    rw [Nat.pow_succ, Nat.mul_comm (2 ^ k) 2, Nat.mod_mul]
    by_cases h : n % 2 = 1
    · simp [h, B4.ofBool]
    · have h0 : n % 2 = 0 := by omega
      simp [h0, B4.ofBool]

theorem allDef_ofNat (w n : Nat) : (ofNat w n).allDef = true := by
  induction w generalizing n with
  | zero => rfl
  | succ k ih =>
    simp only [ofNat, allDef, List.all_cons, Bool.and_eq_true]
    refine ⟨?_, ih _⟩
    cases (n % 2 == 1) <;> simp [B4.ofBool, B4.isDef]

theorem allDef_ofInt (w : Nat) (z : Int) : (ofInt w z).allDef = true := allDef_ofNat _ _

theorem bit_ofNat (w n i : Nat) : (ofNat w n).bit i = if i < w then B4.ofBool (n.testBit i) else .x := by
  induction w generalizing n i with
  | zero => simp [ofNat]
  | succ k ih =>
    cases i with
    | zero =>
      simp only [ofNat, bit_cons_zero, Nat.zero_lt_succ, if_true, Nat.testBit_zero]
      by_cases h : n % 2 = 1
      · simp [h]
      · have h0 : n % 2 = 0 := by omega
        simp [h0]
    | succ j =>
      simp only [ofNat, bit_cons_succ, ih, Nat.succ_lt_succ_iff, Nat.testBit_succ]

/-- `toNat` reads the VALUE plane: bit `i` of the number is the value of bit `i` -/
theorem testBit_toNat (v : BV4) (i : Nat) : (toNat v).testBit i = (v.bit i).val := by
  induction v generalizing i with
  | nil => simp [toNat, B4.val]
  | cons b bs ih =>
    cases i with
    | zero =>
      simp only [toNat, bit_cons_zero, Nat.testBit_zero]
      cases b <;> simp [B4.val] <;> omega
    | succ j =>
      simp only [toNat, bit_cons_succ, Nat.testBit_succ, ← ih]
      congr 1
      split <;> omega

theorem ofNat_toNat (v : BV4) (h : v.allDef = true) : ofNat v.length (toNat v) = v := by
  apply ext_bit (by simp)
  intro i hi
  simp only [length_ofNat'] at hi
  rw [bit_ofNat, if_pos hi, testBit_toNat]
  have := (allDef_iff_bit v).mp h i hi
  cases hb : v.bit i <;> simp_all [B4.isDef, B4.val, B4.ofBool]

/-- a fully defined vector is determined by its number -/
theorem eq_ofNat_of_bits {v : BV4} {w n : Nat} (hl : v.length = w) (h : ∀ i, i < w → v.bit i = B4.ofBool (n.testBit i)) :
    v = ofNat w n := by
  apply ext_bit (by simp [hl])
  intro i hi
  rw [bit_ofNat, if_pos (hl ▸ hi), h i (hl ▸ hi)]

theorem toNat_lt' (v : BV4) : v.toNat < 2 ^ v.length := by
  induction v with
  | nil => simp [toNat]
  | cons b bs ih =>
    simp only [toNat, List.length_cons, Nat.pow_succ]
    split <;> omega

theorem toNat_ofInt (w : Nat) (z : Int) : ((toNat (ofInt w z) : Nat) : Int) = z % (2:Int) ^ w := by
  unfold ofInt
  rw [toNat_ofNat]
  have hpos : (0:Int) < (2:Int) ^ w := Int.pow_pos (by omega)
  have h0 : 0 ≤ z % (2:Int) ^ w := Int.emod_nonneg _ (by omega)
  have h1 : z % (2:Int) ^ w < (2:Int) ^ w := Int.emod_lt_of_pos _ hpos
  have hcast : ((2 ^ w : Nat) : Int) = (2:Int) ^ w := by simp
  have : (z % (2:Int) ^ w).toNat < 2 ^ w := by
    have := Int.toNat_of_nonneg h0
    omega
  rw [Nat.mod_eq_of_lt this]
  exact Int.toNat_of_nonneg h0

theorem ofNat_mod_two_pow (w n : Nat) : ofNat w (n % 2 ^ w) = ofNat w n := by
  apply ext_bit (by simp)
  intro i hi
  simp only [length_ofNat'] at hi
  rw [bit_ofNat, bit_ofNat, if_pos hi, if_pos hi, Nat.testBit_mod_two_pow]
  simp [hi]

theorem ofInt_natCast (w m : Nat) : ofInt w (m : Int) = ofNat w m := by
  unfold ofInt
  have hc : ((2:Int) ^ w) = ((2 ^ w : Nat) : Int) := by simp
  rw [hc, ← Int.natCast_emod, Int.toNat_natCast, ofNat_mod_two_pow]

theorem allDef_replicate (w : Nat) (b : B4) (h : b.isDef = true) : allDef (List.replicate w b) = true := by
  simp [allDef, List.all_replicate, h]

theorem allDef_tab {w : Nat} {f : Nat → B4} (h : ∀ i, i < w → (f i).isDef = true) : (tab w f).allDef = true := by
  rw [allDef_iff_bit]
  intro i hi
  simp only [length_tab] at hi
  rw [bit_tab, if_pos hi]; exact h i hi

theorem isDef_bit_of_allDef {v : BV4} (h : v.allDef = true) {i : Nat} (hi : i < v.length) : (v.bit i).isDef = true :=
  (allDef_iff_bit v).mp h i hi

theorem bit_eq_ofBool_val {b : B4} (h : b.isDef = true) : b = B4.ofBool b.val := by
  cases b <;> simp_all [B4.isDef, B4.val, B4.ofBool]

end BV4
end Gatery.Nodes
