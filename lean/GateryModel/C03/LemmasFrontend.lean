import GateryModel.C03.LemmasStruct
/-!
# C03 — the frontend lowering (`C03/Frontend.lean`) equals the definitions (`C03/Spec.lean`)
-/
namespace Gatery.C03
open Gatery.Nodes BV4

theorem node_rewire (rs : List Range) (w : Nat) (ins : List BV4) : node (.rewire rs) w ins = evalRewire rs (ins.map some) := rfl

/-! ## values determined by their number -/

theorem eq_of_toNat_eq {u v : BV4} (hu : u.allDef = true) (hv : v.allDef = true) (hl : u.length = v.length)
    (h : u.toNat = v.toNat) : u = v := by
  rw [← ofNat_toNat u hu, ← ofNat_toNat v hv, hl, h]

theorem allDef_append {u v : BV4} (hu : u.allDef = true) (hv : v.allDef = true) : (u ++ v).allDef = true := by
  simp [allDef, List.all_append] at *; exact ⟨hu, hv⟩

/-! ## `expand` / `NormalizedWidthOperands` -/

theorem evalRewire_pad (v : BV4) (k : Nat) (src : RangeSrc) (fillBit : B4)
    (hsrc : ∀ n ins, evalRange ins ⟨n, src⟩ = List.replicate n fillBit) :
    evalRewire (addRange (addRange [] ⟨v.length, .input 0 0⟩) ⟨k, src⟩) [some v] = v ++ List.replicate k fillBit := by
  by_cases h1 : v.length > 0 <;> by_cases h2 : k > 0
  · simp only [addRange, h1, h2, if_true, List.nil_append]
    rw [evalRewire_append, evalRewire_cons, evalRewire_cons, evalRewire_nil, evalRange_input0, slice_full, hsrc]; simp
  · have : k = 0 := by omega
    subst this
    simp only [addRange, h1, if_true, List.nil_append, Nat.lt_irrefl, if_false]
    rw [evalRewire_cons, evalRewire_nil, evalRange_input0, slice_full]; simp
  · have : v = [] := List.eq_nil_of_length_eq_zero (by omega)
    subst this
    simp only [addRange, List.length_nil, Nat.lt_irrefl, if_false, h2, if_true, List.nil_append]
    rw [evalRewire_cons, evalRewire_nil, hsrc]; simp
  · have : v = [] := List.eq_nil_of_length_eq_zero (by omega)
    subst this
    have : k = 0 := by omega
    subst this
    simp [addRange, evalRewire_nil]

/-- `SignalReadPort::expand` through `Node_Rewire::setPadTo` is zero / one / sign extension -/
theorem expand_eq_extend (pol : Pol) (v : BV4) (w : Nat) (r : BV4) (h : Spec.extend pol v w = some r) :
    expand pol v w = .ok r := by
  unfold Spec.extend at h
  unfold expand
  by_cases h1 : v.length > w
  · simp [h1] at h
  · rw [if_neg h1] at h ⊢
    by_cases h2 : v.length = w
    · rw [if_pos h2] at h
      simp only [Option.some.injEq] at h
      subst h
      simp only [h2, ne_eq, not_true_eq_false, false_and, if_false, Nat.lt_irrefl]
      rfl
    · rw [if_neg h2] at h
      have hlt : v.length < w := by omega
      cases pol with
      | none => simp at h
      | zero =>
        simp only [Option.some.injEq] at h; subst h
        simp only [h2, ne_eq, not_false_eq_true, reduceCtorEq, and_false, if_false, hlt, if_true, padRanges, bind, Except.bind, pure, Except.pure]
        rw [node_rewire, Nat.min_eq_right (Nat.le_of_lt hlt)]
        exact congrArg Except.ok (evalRewire_pad v _ .zero .f (fun n ins => by simp [evalRange]))
      | one =>
        simp only [Option.some.injEq] at h; subst h
        simp only [h2, ne_eq, not_false_eq_true, reduceCtorEq, and_false, if_false, hlt, if_true, padRanges, bind, Except.bind, pure, Except.pure]
        rw [node_rewire, Nat.min_eq_right (Nat.le_of_lt hlt)]
        exact congrArg Except.ok (evalRewire_pad v _ .one .t (fun n ins => by simp [evalRange]))
      | sign =>
        by_cases h0 : v.length = 0
        · simp [h0] at h
        · simp only [h0, if_false, Option.some.injEq] at h; subst h
          simp only [h2, ne_eq, not_false_eq_true, reduceCtorEq, and_false, if_false, hlt, if_true, padRanges, h0, bind, Except.bind, pure, Except.pure]
          rw [node_rewire, Nat.min_eq_right (Nat.le_of_lt hlt)]
          simp only [addRange, show v.length > 0 by omega, if_true, List.nil_append, List.map_cons, List.map_nil]
          rw [evalRewire_append, evalRewire_cons, evalRewire_nil, evalRange_input0, slice_full, evalRewire_replicate_bit]
          simp

theorem normalize_eq_norm (pa pb : Pol) (a b a' b' : BV4) (w : Nat) (h : Spec.norm pa pb a b = some (a', b', w)) :
    normalize pa pb a b = .ok (a', b', w) := by
  unfold Spec.norm at h
  unfold normalize
  simp only [bind, Option.bind] at h
  cases ha : Spec.extend pa a (max a.length b.length) with
  | none => simp [ha] at h
  | some x =>
    cases hb : Spec.extend pb b (max a.length b.length) with
    | none => simp [ha, hb] at h
    | some y =>
      simp only [ha, hb, pure, Option.some.injEq, Prod.mk.injEq] at h
      obtain ⟨rfl, rfl, rfl⟩ := h
      simp only [bind, Except.bind, expand_eq_extend _ _ _ _ ha, expand_eq_extend _ _ _ _ hb, pure, Except.pure]

theorem extend_cases {pol : Pol} {v r : BV4} {w : Nat} (h : Spec.extend pol v w = some r) :
    (v.length = w ∧ r = v) ∨ (v.length < w ∧ ∃ fb : B4, r = v ++ List.replicate (w - v.length) fb ∧
      (pol = .zero ∧ fb = .f ∨ pol = .one ∧ fb = .t ∨ pol = .sign ∧ v.length ≠ 0 ∧ fb = v.bit (v.length - 1))) := by
  unfold Spec.extend at h
  by_cases h1 : v.length > w
  · simp [h1] at h
  · rw [if_neg h1] at h
    by_cases h2 : v.length = w
    · rw [if_pos h2] at h; simp at h; exact Or.inl ⟨h2, h.symm⟩
    · rw [if_neg h2] at h
      refine Or.inr ⟨by omega, ?_⟩
      cases pol with
      | none => simp at h
      | zero => simp at h; exact ⟨.f, h.symm, Or.inl ⟨rfl, rfl⟩⟩
      | one => simp at h; exact ⟨.t, h.symm, Or.inr (Or.inl ⟨rfl, rfl⟩)⟩
      | sign =>
        by_cases h0 : v.length = 0
        · simp [h0] at h
        · simp [h0] at h; exact ⟨_, h.symm, Or.inr (Or.inr ⟨rfl, h0, rfl⟩)⟩

theorem extend_length {pol : Pol} {v r : BV4} {w : Nat} (h : Spec.extend pol v w = some r) : r.length = w := by
  rcases extend_cases h with ⟨h1, rfl⟩ | ⟨h1, fb, rfl, _⟩
  · exact h1
  · simp; omega

theorem extend_allDef {pol : Pol} {v r : BV4} {w : Nat} (h : Spec.extend pol v w = some r) (hv : v.allDef = true) :
    r.allDef = true := by
  rcases extend_cases h with ⟨_, rfl⟩ | ⟨h1, fb, rfl, hfb⟩
  · exact hv
  · apply allDef_append hv (allDef_replicate _ _ _)
    rcases hfb with ⟨_, rfl⟩ | ⟨_, rfl⟩ | ⟨_, h0, rfl⟩
    · rfl
    · rfl
    · exact isDef_bit_of_allDef hv (by omega)

theorem norm_facts {pa pb : Pol} {a b a' b' : BV4} {w : Nat} (h : Spec.norm pa pb a b = some (a', b', w))
    (ha : a.allDef = true) (hb : b.allDef = true) :
    a'.length = w ∧ b'.length = w ∧ a'.allDef = true ∧ b'.allDef = true := by
  unfold Spec.norm at h
  simp only [bind, Option.bind] at h
  cases hx : Spec.extend pa a (max a.length b.length) with
  | none => simp [hx] at h
  | some x =>
    cases hy : Spec.extend pb b (max a.length b.length) with
    | none => simp [hx, hy] at h
    | some y =>
      simp only [hx, hy, pure, Option.some.injEq, Prod.mk.injEq] at h
      obtain ⟨rfl, rfl, rfl⟩ := h
      exact ⟨extend_length hx, extend_length hy, extend_allDef hx ha, extend_allDef hy hb⟩

/-! ## node = definition, as equalities of vectors -/

theorem evalArith_eq_spec (op : ArithOp) (w : Nat) (a b : BV4) (ha : a.allDef = true) (hb : b.allDef = true) :
    evalArith op w [some a, some b] = Spec.arith op w a b := by
  have hdef : ∀ v ∈ a :: [b], v.allDef = true := by
    intro v hv; simp at hv; rcases hv with rfl | rfl <;> assumption
  have hc : ((2:Int) ^ w) = ((2 ^ w : Nat) : Int) := by simp
  cases op
  · -- ADD
    have := evalArith_ring .ADD rfl w a [b] hdef
    simp only [List.map_cons, List.map_nil, List.foldl_cons, List.foldl_nil, exactStep] at this
    refine eq_of_toNat_eq this.2 (allDef_ofNat _ _) (by simp [length_evalArith, Spec.arith, Spec.add]) ?_
    show _ = toNat (ofNat w (a.toNat + b.toNat))
    rw [toNat_ofNat]
    have h1 := this.1
    rw [hc, ← Int.natCast_add, ← Int.natCast_emod] at h1
    exact Int.ofNat_inj.mp h1
  · -- SUB
    have := evalArith_ring .SUB rfl w a [b] hdef
    simp only [List.map_cons, List.map_nil, List.foldl_cons, List.foldl_nil, exactStep] at this
    refine eq_of_toNat_eq this.2 (allDef_ofInt _ _) (by simp [length_evalArith, Spec.arith, Spec.sub]) ?_
    show _ = toNat (ofInt w ((a.toNat : Int) - b.toNat))
    have h2 := toNat_ofInt w ((a.toNat : Int) - b.toNat)
    have h1 := this.1
    rw [← h2] at h1
    exact Int.ofNat_inj.mp h1
  · -- MUL
    have := evalArith_ring .MUL rfl w a [b] hdef
    simp only [List.map_cons, List.map_nil, List.foldl_cons, List.foldl_nil, exactStep] at this
    refine eq_of_toNat_eq this.2 (allDef_ofNat _ _) (by simp [length_evalArith, Spec.arith, Spec.mul]) ?_
    show _ = toNat (ofNat w (a.toNat * b.toNat))
    rw [toNat_ofNat]
    have h1 := this.1
    rw [hc, ← Int.natCast_mul, ← Int.natCast_emod] at h1
    exact Int.ofNat_inj.mp h1
  · exact evalArith_div w a b ha hb
  · exact evalArith_rem w a b ha hb

/-- frontend arithmetic on fully defined operands of any widths and expansion policies -/
theorem arith_eq_spec (op : ArithOp) (pa pb : Pol) (a b a' b' : BV4) (w : Nat)
    (h : Spec.norm pa pb a b = some (a', b', w)) (ha : a.allDef = true) (hb : b.allDef = true) :
    arith op pa pb a b = .ok (Spec.arith op w a' b') := by
  unfold arith
  rw [normalize_eq_norm pa pb a b a' b' w h]
  obtain ⟨_, _, ha', hb'⟩ := norm_facts h ha hb
  simp only [bind, Except.bind, pure, Except.pure, node, List.map_cons, List.map_nil, evalNode]
  rw [evalArith_eq_spec op w a' b' ha' hb']

theorem logic_eq_spec (op : LogicOp) (hop : op ≠ .NOT) (pa pb : Pol) (a b a' b' : BV4) (w : Nat)
    (h : Spec.norm pa pb a b = some (a', b', w)) (ha : a.allDef = true) (hb : b.allDef = true) :
    logic op pa pb a b = .ok (Spec.bitwise op a' b') := by
  unfold logic
  rw [normalize_eq_norm pa pb a b a' b' w h]
  obtain ⟨hl1, hl2, ha', hb'⟩ := norm_facts h ha hb
  simp only [bind, Except.bind, pure, Except.pure, node, List.map_cons, List.map_nil, evalNode]
  rw [← hl1, evalLogic_defined op hop a' b' (by omega) ha' hb']

theorem compare_eq_spec (op : CmpOp) (ty : CType) (pa pb : Pol) (a b a' b' : BV4) (w : Nat)
    (h : Spec.norm pa pb a b = some (a', b', w)) (ha : a.allDef = true) (hb : b.allDef = true) :
    compare op ty pa pb a b = .ok (Spec.ucmp op a' b') := by
  unfold compare
  rw [normalize_eq_norm pa pb a b a' b' w h]
  obtain ⟨_, _, ha', hb'⟩ := norm_facts h ha hb
  simp only [bind, Except.bind, pure, Except.pure, node, List.map_cons, List.map_nil, evalNode]
  rw [evalCompare_defined op a' b' ha' hb', cmpNat_eq_cmpInt]; rfl

end Gatery.C03
