import GateryModel.C03.LemmasSMul
/-!
# C03 — `IF (sel == k) x = a;` chains and `IF (c) x = a;` priority chains are the sequential program they spell
-/
namespace Gatery.C03
open Gatery.Nodes BV4

theorem lt_two_pow_log2C (k : Nat) : k < 2 ^ log2C (k + 1) := by
  unfold log2C
  by_cases h : k + 1 ≤ 1
  · rw [if_pos h]; simp; omega
  · rw [if_neg h]
    have : k + 1 - 1 = k := by omega
    rw [this]
    exact Nat.lt_log2_self

theorem toNat_uintLit (k : Nat) (hk : k < 2 ^ 64) : (uintLit k).toNat = k := by
  unfold uintLit
  simp only [toNat_ofNat]
  split
  · exact Nat.mod_eq_of_lt hk
  · exact Nat.mod_eq_of_lt (lt_two_pow_log2C k)

theorem allDef_uintLit (k : Nat) : (uintLit k).allDef = true := allDef_ofNat _ _

/-- the selector keeps its width, the literal is zero-extended to it -/
theorem norm_sel_lit (sel lit : BV4) (h : lit.length ≤ sel.length) :
    ∃ lit', Spec.norm .none .zero sel lit = some (sel, lit', sel.length) ∧ lit'.toNat = lit.toNat := by
  unfold Spec.norm
  have hm : max sel.length lit.length = sel.length := by omega
  rw [hm]
  have h1 : Spec.extend .none sel sel.length = some sel := by simp [Spec.extend]
  have h2 : ∃ y', Spec.extend .zero lit sel.length = some y' ∧ y'.toNat = lit.toNat := by
    unfold Spec.extend
    rw [if_neg (by omega)]
    by_cases hl : lit.length = sel.length
    · rw [if_pos hl]; exact ⟨lit, rfl, rfl⟩
    · rw [if_neg hl]; exact ⟨_, rfl, by rw [toNat_append, toNat_replicate_f]; omega⟩
  obtain ⟨y', hy1, hy2⟩ := h2
  exact ⟨y', by simp [h1, hy1, bind, Option.bind, pure], hy2⟩

/-- one `IF (sel == k) x = a;` -/
theorem ifStep_eq (sel x a : BV4) (k : Nat) (hsel : sel.allDef = true) (hk : k < 2 ^ 64) (hfit : (uintLit k).length ≤ sel.length)
    (hl : x.length = a.length) :
    (do let c ← compare .EQ .bitvec .none .zero sel (uintLit k); pure (ifAssign c x a) : FE BV4)
      = .ok (if sel.toNat = k then a else x) := by
  obtain ⟨lit', hnorm, hlit⟩ := norm_sel_lit sel (uintLit k) hfit
  rw [compare_eq_spec .EQ .bitvec .none .zero sel (uintLit k) sel lit' sel.length hnorm hsel (allDef_uintLit k)]
  simp only [bind, Except.bind, pure, Except.pure, Spec.ucmp, Spec.cmpInt, hlit, toNat_uintLit k hk, ifAssign]
  rw [mux2_eq a.length _ x a (by unfold B4.ofBool; split <;> rfl) hl rfl]
  congr 1
  by_cases he : sel.toNat = k
  · simp [he, B4.ofBool]
  · have : ¬ ((sel.toNat : Int) = (k : Int)) := by omega
    simp [he, this, B4.ofBool]

/-- **`x = d; IF (sel == k₁) x = a₁; IF (sel == k₂) x = a₂; …`** built by the frontend (compare nodes feeding 2-input multiplexers)
    is the sequential program: the last assignment whose `kⱼ` equals the selector wins — any chain length, repeated `k` included -/
theorem ifChain_eq_spec (sel : BV4) (w : Nat) (steps : List (Nat × BV4)) (d : BV4) (hsel : sel.allDef = true) (hd : d.length = w)
    (hs : ∀ ka ∈ steps, ka.1 < 2 ^ 64 ∧ (uintLit ka.1).length ≤ sel.length ∧ ka.2.length = w) :
    ifChain .none sel d steps = .ok (Spec.ifChain sel d steps) := by
  unfold ifChain Spec.ifChain
  induction steps generalizing d with
  | nil => rfl
  | cons ka rest ih =>
    obtain ⟨k, a⟩ := ka
    obtain ⟨hk, hfit, ha⟩ := hs (k, a) (List.mem_cons_self ..)
    simp only at hk hfit ha
    simp only [List.foldlM_cons, List.foldl_cons]
    have hstep := ifStep_eq sel d a k hsel hk hfit (by omega)
    simp only [bind, Except.bind] at hstep ⊢
    rw [hstep]
    exact ih _ (by split <;> omega) (fun q hq => hs q (List.mem_cons_of_mem _ hq))

/-- `x = d; IF (c₁) x = a₁; IF (c₂) x = a₂; …` with defined conditions: later conditions override earlier ones -/
theorem ifPrio_eq_spec (w : Nat) (steps : List (BV4 × BV4)) (d : BV4) (hd : d.length = w)
    (hs : ∀ ca ∈ steps, (ca.1.bit 0).isDef = true ∧ ca.1.length = 1 ∧ ca.2.length = w) :
    ifPrio d steps = Spec.ifPrio d steps := by
  unfold ifPrio Spec.ifPrio
  induction steps generalizing d with
  | nil => rfl
  | cons ca rest ih =>
    obtain ⟨c, a⟩ := ca
    obtain ⟨hc, hc1, ha⟩ := hs (c, a) (List.mem_cons_self ..)
    simp only at hc hc1 ha
    simp only [List.foldl_cons]
    have hcs : c = [c.bit 0] := by
      apply ext_bit (by simp [hc1])
      intro i hi
      have : i = 0 := by omega
      subst this; simp
    have : ifAssign c d a = if c.bit 0 = .t then a else d := by
      unfold ifAssign
      rw [hcs, mux2_eq a.length _ d a (by simpa using hc) (by omega) rfl]
      simp
    rw [this]
    exact ih _ (by split <;> omega) (fun q hq => hs q (List.mem_cons_of_mem _ hq))

end Gatery.C03
