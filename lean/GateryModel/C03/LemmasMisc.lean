import GateryModel.C03.LemmasShift
/-!
# C03 — slices, concatenation, multiplexer and priority select of the frontend
-/
namespace Gatery.C03
open Gatery.Nodes BV4

/-! ## slices, concatenation, multiplexer, priority select -/

theorem slice_eq_spec (a : BV4) (off w : Nat) (h : off + w ≤ a.length) : slice a off w = .ok (Spec.slice a off w) := by
  unfold slice
  rw [if_neg (by omega)]
  simp only [pure, Except.pure, node_rewire, List.map_cons, List.map_nil]
  by_cases hw : w > 0
  · simp only [addRange, hw, if_true, List.nil_append]
    rw [evalRewire_one, evalRange_input0]
  · have : w = 0 := by omega
    subst this
    simp [addRange, evalRewire_nil, Spec.slice, tab]

theorem cat_eq_spec (xs : List BV4) : cat xs = Spec.concat xs.reverse := by
  unfold cat Spec.concat; exact pack_eq_flatten _

theorem pack_eq_spec (xs : List BV4) : pack xs = Spec.concat xs := pack_eq_flatten xs

/-- `cat(hi, lo)` as numbers: `lo + 2^|lo| · hi` -/
theorem toNat_cat2 (hi lo : BV4) : (cat [hi, lo]).toNat = lo.toNat + 2 ^ lo.length * hi.toNat := by
  rw [cat_eq_spec]; simp [Spec.concat, toNat_append]

theorem muxOp_eq_spec (pol : Pol) (sel : BV4) (table : List BV4) (w : Nat) (hsel : sel.allDef = true)
    (hne : table ≠ []) (hfit : table.length ≤ 2 ^ sel.length) (hw : ∀ v ∈ table, v.length = w) :
    muxOp pol sel table = .ok (Spec.select w table sel.toNat) := by
  unfold muxOp
  have h1 : table.isEmpty = false := by cases table <;> simp_all
  rw [h1]
  simp only [Bool.false_eq_true, if_false]
  rw [if_neg (by omega)]
  simp only [pure, Except.pure, Nat.min_eq_left hfit, List.take_length]
  have hlast : (table.getLastD []).length = w := by
    cases table with
    | nil => exact absurd rfl hne
    | cons x t =>
      rw [List.getLastD_eq_getLast?, List.getLast?_eq_some_getLast (by simp)]
      exact hw _ (List.getLast_mem _)
  rw [hlast]
  show Except.ok (evalMux w (some sel :: table.map some)) = _
  rw [evalMux_defined w sel table hsel hw]

theorem flatMap_pairs (choices : List (BV4 × BV4)) :
    (choices.flatMap fun x => [x.1, x.2]).map some = flattenPairs choices := by
  induction choices with
  | nil => rfl
  | cons p t ih => obtain ⟨c, v⟩ := p; simp [flattenPairs, ← ih]

theorem prioOp_eq_spec (dflt : BV4) (choices : List (BV4 × BV4))
    (hc : ∀ p ∈ choices, (p.1.bit 0).isDef = true ∧ p.2.length = dflt.length) :
    prioOp dflt choices = Spec.prio dflt choices := by
  unfold prioOp
  have hw : (match choices.getLast? with | some (_, v) => v.length | none => dflt.length) = dflt.length := by
    cases hl : choices.getLast? with
    | none => rfl
    | some p => obtain ⟨c, v⟩ := p; exact (hc _ (List.mem_of_getLast? hl)).2
  simp only [node, evalNode, evalPrio, List.map_cons]
  rw [flatMap_pairs]
  have := prioGo_defined dflt.length dflt choices rfl hc
  rw [← hw] at this
  exact this

end Gatery.C03
