import GateryModel.C03.LemmasSigned
/-!
# C03 — `abs(SInt)` and `mul(SInt, SInt)` built from unsigned nodes (`SignalArithmeticOp.cpp:49-77`)
-/
namespace Gatery.C03
open Gatery.Nodes BV4

/-- bitwise NOT as a number: `2^w - 1 - a` -/
theorem lnot_eq_ofNat (a : BV4) (ha : a.allDef = true) : lnot a = ofNat a.length (2 ^ a.length - (a.toNat + 1)) := by
  show evalLogic .NOT a.length [some a] = _
  rw [evalLogic_not a ha]
  apply eq_ofNat_of_bits (by simp [Spec.bnot])
  intro i hi
  simp only [Spec.bnot, bit_tab, if_pos hi]
  rw [Nat.testBit_two_pow_sub_succ (toNat_lt' a), testBit_toNat]
  simp [hi]

theorem allDef_lnot (a : BV4) (ha : a.allDef = true) : (lnot a).allDef = true := by
  rw [lnot_eq_ofNat a ha]; exact allDef_ofNat _ _

theorem length_lnot (a : BV4) : (lnot a).length = a.length := by
  show (evalLogic .NOT a.length [some a]).length = _
  simp [evalLogic]

/-- `x + 1` with the one-bit literal `1` (policy zero) -/
theorem plusOne_eq (x : BV4) (hw : 1 ≤ x.length) (hx : x.allDef = true) : plusOne x = .ok (ofNat x.length (x.toNat + 1)) := by
  unfold plusOne
  have hn : ∃ b', Spec.norm .none .zero x [.t] = some (x, b', x.length) ∧ b'.toNat = 1 ∧ b'.allDef = true := by
    unfold Spec.norm
    have hm : max x.length ([.t] : BV4).length = x.length := by simp; omega
    rw [hm]
    have h1 : Spec.extend .none x x.length = some x := by simp [Spec.extend]
    by_cases h : x.length = 1
    · refine ⟨[.t], ?_, by decide, by decide⟩
      simp [h1, Spec.extend, h, bind, Option.bind, pure]
    · refine ⟨[.t] ++ List.replicate (x.length - 1) .f, ?_, ?_, ?_⟩
      · have h2 : Spec.extend .zero [.t] x.length = some ([.t] ++ List.replicate (x.length - 1) .f) := by
          unfold Spec.extend
          simp only [List.length_cons, List.length_nil]
          rw [if_neg (by omega), if_neg (by omega)]
        simp [h1, h2, bind, Option.bind, pure]
      · rw [toNat_append, toNat_replicate_f]; decide
      · exact allDef_append (by decide) (allDef_replicate _ _ rfl)
  obtain ⟨b', hnorm, hb1, hbd⟩ := hn
  rw [arith_eq_spec .ADD .none .zero x [.t] x b' x.length hnorm hx (by decide)]
  simp only [Spec.arith, Spec.add, hb1]

/-- a two-input multiplexer with a defined one-bit selector -/
theorem mux2_eq (w : Nat) (s : B4) (p q : BV4) (hs : s.isDef = true) (hp : p.length = w) (hq : q.length = w) :
    node .mux w [[s], p, q] = if s = .t then q else p := by
  show evalMux w (some [s] :: [p, q].map some) = _
  rw [evalMux_defined w [s] [p, q] (by cases s <;> simp_all [allDef, B4.isDef]) (by intro v hv; simp at hv; rcases hv with rfl | rfl <;> assumption)]
  cases s <;> simp_all [Spec.select, toNat, B4.isDef]

theorem msb_eq (a : BV4) (hl : 1 ≤ a.length) : msb a = .ok [a.bit (a.length - 1)] := by
  unfold msb
  rw [if_neg (by omega)]
  simp only [pure, Except.pure, node_rewire, List.map_cons, List.map_nil, evalRewire_one, evalRange_input0, Spec.slice]
  simp [tab]

/-- the magnitude of a two's-complement number -/
def mag (a : BV4) : Nat := if a.bit (a.length - 1) = .t then 2 ^ a.length - a.toNat else a.toNat

theorem mag_lt (a : BV4) (hl : 1 ≤ a.length) (ha : a.allDef = true) : mag a < 2 ^ a.length := by
  unfold mag
  have := toNat_lt' a
  have hp : 0 < 2 ^ (a.length - 1) := Nat.pow_pos (by omega)
  rcases toInt_cases a hl ha with ⟨hb, _, h⟩ | ⟨hb, _, h⟩
  · simp only [hb, if_true]; omega
  · simp only [hb, reduceCtorEq, if_false]; omega

theorem toInt_eq_mag (a : BV4) (hl : 1 ≤ a.length) (ha : a.allDef = true) :
    toInt a = if a.bit (a.length - 1) = .t then -((mag a : Nat) : Int) else ((mag a : Nat) : Int) := by
  unfold mag
  have hlt := toNat_lt' a
  rcases toInt_cases a hl ha with ⟨hb, hi, _⟩ | ⟨hb, hi, _⟩
  · simp only [hb, if_true, hi]; omega
  · simp only [hb, reduceCtorEq, if_false, hi]

/-- `abs(SInt)`: the magnitude, as an unsigned number of the same width (`|−2^(w−1)| = 2^(w−1)` fits) -/
theorem sabs_eq (a : BV4) (hl : 1 ≤ a.length) (ha : a.allDef = true) : sabs a = .ok (ofNat a.length (mag a)) := by
  unfold sabs
  have hnl := length_lnot a
  have hnd := allDef_lnot a ha
  rw [msb_eq a hl, plusOne_eq (lnot a) (by omega) hnd]
  simp only [bind, Except.bind, pure, Except.pure]
  have hdef := isDef_bit_of_allDef ha (show a.length - 1 < a.length by omega)
  rw [mux2_eq a.length _ a _ hdef rfl (by simp [hnl])]
  have hlt := toNat_lt' a
  unfold mag
  by_cases hb : a.bit (a.length - 1) = .t
  · simp only [hb, if_true]
    rw [hnl, lnot_eq_ofNat a ha, toNat_ofNat]
    have : 2 ^ (a.length - 1) ≤ a.toNat := by
      rcases toInt_cases a hl ha with ⟨_, _, h⟩ | ⟨hf, _, _⟩
      · exact h
      · rw [hf] at hb; cases hb
    have hp : 0 < 2 ^ (a.length - 1) := Nat.pow_pos (by omega)
    rw [Nat.mod_eq_of_lt (by omega)]
    congr 2
    omega
  · simp only [hb, if_false]
    exact congrArg Except.ok (ofNat_toNat a ha).symm

theorem ofNat_eq_ofInt_of_congr (w m : Nat) (z : Int) (h : ((m : Nat) : Int) % (2:Int) ^ w = z % (2:Int) ^ w) : ofNat w m = ofInt w z := by
  unfold ofInt
  rw [← h]
  have hc : ((2:Int) ^ w) = ((2 ^ w : Nat) : Int) := by simp
  rw [hc, ← Int.natCast_emod, Int.toNat_natCast, ofNat_mod_two_pow]

theorem zext_norm (x y : BV4) : ∃ x' y', Spec.norm .zero .zero x y = some (x', y', max x.length y.length) ∧
    x'.toNat = x.toNat ∧ y'.toNat = y.toNat := by
  unfold Spec.norm
  have hx : ∃ x', Spec.extend .zero x (max x.length y.length) = some x' ∧ x'.toNat = x.toNat := by
    unfold Spec.extend
    rw [if_neg (by omega)]
    by_cases h : x.length = max x.length y.length
    · rw [if_pos h]; exact ⟨x, rfl, rfl⟩
    · rw [if_neg h]; exact ⟨_, rfl, by rw [toNat_append, toNat_replicate_f]; omega⟩
  have hy : ∃ y', Spec.extend .zero y (max x.length y.length) = some y' ∧ y'.toNat = y.toNat := by
    unfold Spec.extend
    rw [if_neg (by omega)]
    by_cases h : y.length = max x.length y.length
    · rw [if_pos h]; exact ⟨y, rfl, rfl⟩
    · rw [if_neg h]; exact ⟨_, rfl, by rw [toNat_append, toNat_replicate_f]; omega⟩
  obtain ⟨x', hx1, hx2⟩ := hx
  obtain ⟨y', hy1, hy2⟩ := hy
  exact ⟨x', y', by simp [hx1, hy1, bind, Option.bind, pure], hx2, hy2⟩

/-- `-(n) mod 2^w` computed as `~r + 1` on `w` bits -/
theorem neg_congr (w n : Nat) :
    ((((2 ^ w - (n % 2 ^ w + 1)) % 2 ^ w + 1 : Nat) : Int)) % (2:Int) ^ w = (-(n : Int)) % (2:Int) ^ w := by
  have hc : ((2:Int) ^ w) = ((2 ^ w : Nat) : Int) := by simp
  have hp : 0 < 2 ^ w := Nat.pow_pos (by omega)
  have hr := Nat.mod_lt n hp
  have hdm := Nat.div_add_mod n (2 ^ w)
  rw [Nat.mod_eq_of_lt (by omega)]
  rw [hc]
  have e1 : (((2 ^ w - (n % 2 ^ w + 1) + 1 : Nat)) : Int) = ((2 ^ w : Nat) : Int) - ((n % 2 ^ w : Nat) : Int) := by omega
  have e2 : (-(n : Int)) = (((2 ^ w : Nat) : Int) - ((n % 2 ^ w : Nat) : Int)) + ((2 ^ w : Nat) : Int) * (-(((n / 2 ^ w : Nat) : Int)) - 1) := by
    have : (n : Int) = ((2 ^ w : Nat) : Int) * ((n / 2 ^ w : Nat) : Int) + ((n % 2 ^ w : Nat) : Int) := by
      rw [← Int.natCast_mul, ← Int.natCast_add, hdm]
    rw [Int.mul_sub, Int.mul_neg, Int.mul_one]
    omega
  rw [e1, e2, Int.add_mul_emod_self_left]

/-- **signed multiplication, all width combinations** (`SignalArithmeticOp.cpp:49-68` with `abs` returning `zext(res)`): the
    product of the two's-complement readings of the operands modulo `2^max(widths)`, whatever their expansion policies -/
theorem smul_mixed_eq_spec (pa pb : Pol) (a b : BV4) (hne : a.length ≠ b.length) (hla : 1 ≤ a.length) (hlb : 1 ≤ b.length)
    (ha : a.allDef = true) (hb : b.allDef = true) :
    smul pa pb a b = .ok (Spec.smul (max a.length b.length) a b) := by
  unfold smul
  rw [if_neg hne, msb_eq a hla, msb_eq b hlb, sabs_eq a hla ha, sabs_eq b hlb hb]
  simp only [bind, Except.bind]
  obtain ⟨x', y', hnorm, hx, hy⟩ := zext_norm (ofNat a.length (mag a)) (ofNat b.length (mag b))
  simp only [length_ofNat'] at hnorm
  rw [arith_eq_spec .MUL .zero .zero _ _ x' y' _ hnorm (allDef_ofNat _ _) (allDef_ofNat _ _)]
  simp only [Spec.arith, Spec.mul, hx, hy, toNat_ofNat]
  generalize hw : max a.length b.length = w
  have hw1 : 1 ≤ w := by omega
  have hma := mag_lt a hla ha
  have hmb := mag_lt b hlb hb
  rw [Nat.mod_eq_of_lt hma, Nat.mod_eq_of_lt hmb]
  generalize hn : mag a * mag b = n
  rw [plusOne_eq _ (by simp [length_lnot]; omega) (allDef_lnot _ (allDef_ofNat _ _))]
  simp only [pure, Except.pure, length_lnot, length_ofNat']
  have hda := isDef_bit_of_allDef ha (show a.length - 1 < a.length by omega)
  have hdb := isDef_bit_of_allDef hb (show b.length - 1 < b.length by omega)
  -- the XOR of the two sign bits
  have hxor : node (.logic .XOR) 1 [[a.bit (a.length - 1)], [b.bit (b.length - 1)]]
      = [B4.ofBool ((a.bit (a.length - 1)).val ^^ (b.bit (b.length - 1)).val)] := by
    revert hda hdb
    cases a.bit (a.length - 1) <;> cases b.bit (b.length - 1) <;> simp [B4.isDef] <;> decide
  rw [hxor, mux2_eq w _ _ _ (by cases ((a.bit (a.length - 1)).val ^^ (b.bit (b.length - 1)).val) <;> rfl) (by simp) (by simp)]
  rw [lnot_eq_ofNat _ (allDef_ofNat _ _), toNat_ofNat]
  simp only [length_ofNat', toNat_ofNat]
  have hA := toInt_eq_mag a hla ha
  have hB := toInt_eq_mag b hlb hb
  unfold Spec.smul
  congr 1
  have hnc : ((n : Nat) : Int) = ((mag a : Nat) : Int) * ((mag b : Nat) : Int) := by rw [← hn, Int.natCast_mul]
  by_cases sa : a.bit (a.length - 1) = .t <;> by_cases sb : b.bit (b.length - 1) = .t
  · -- both negative
    have hva : (a.bit (a.length - 1)).val = true := by rw [sa]; rfl
    have hvb : (b.bit (b.length - 1)).val = true := by rw [sb]; rfl
    simp only [hva, hvb, Bool.xor_self, B4.ofBool, Bool.false_eq_true, if_false, reduceCtorEq]
    rw [hA, hB, if_pos sa, if_pos sb, Int.neg_mul_neg, ← hnc, ofInt_natCast]
  · -- a negative, b not
    have hva : (a.bit (a.length - 1)).val = true := by rw [sa]; rfl
    have hvb : (b.bit (b.length - 1)).val = false := by
      revert hdb sb; cases b.bit (b.length - 1) <;> simp [B4.isDef, B4.val]
    simp only [hva, hvb, Bool.xor_false, B4.ofBool, if_true]
    rw [hA, hB, if_pos sa, if_neg sb, Int.neg_mul, ← hnc]
    exact ofNat_eq_ofInt_of_congr _ _ _ (neg_congr w n)
  · have hva : (a.bit (a.length - 1)).val = false := by
      revert hda sa; cases a.bit (a.length - 1) <;> simp [B4.isDef, B4.val]
    have hvb : (b.bit (b.length - 1)).val = true := by rw [sb]; rfl
    simp only [hva, hvb, Bool.false_xor, B4.ofBool, if_true]
    rw [hA, hB, if_neg sa, if_pos sb, Int.mul_neg, ← hnc]
    exact ofNat_eq_ofInt_of_congr _ _ _ (neg_congr w n)
  · have hva : (a.bit (a.length - 1)).val = false := by
      revert hda sa; cases a.bit (a.length - 1) <;> simp [B4.isDef, B4.val]
    have hvb : (b.bit (b.length - 1)).val = false := by
      revert hdb sb; cases b.bit (b.length - 1) <;> simp [B4.isDef, B4.val]
    simp only [hva, hvb, Bool.xor_self, B4.ofBool, Bool.false_eq_true, if_false, reduceCtorEq]
    rw [hA, hB, if_neg sa, if_neg sb, ← hnc, ofInt_natCast]

theorem toInt_emod (a : BV4) (ha : a.allDef = true) : toInt a % (2:Int) ^ a.length = ((a.toNat : Nat) : Int) % (2:Int) ^ a.length := by
  by_cases hl : a.length = 0
  · have : a = [] := List.eq_nil_of_length_eq_zero hl
    subst this; rfl
  · rcases toInt_cases a (by omega) ha with ⟨_, hi, _⟩ | ⟨_, hi, _⟩
    · rw [hi]
      have hc : ((2:Int) ^ a.length) = ((2 ^ a.length : Nat) : Int) := by simp
      have : ((a.toNat : Nat) : Int) - ((2 ^ a.length : Nat) : Int) = ((a.toNat : Nat) : Int) + ((2 ^ a.length : Nat) : Int) * (-1) := by omega
      rw [this, hc, Int.add_mul_emod_self_left]
    · rw [hi]

/-- equal widths: the unsigned product of the bit patterns is the signed product modulo `2^w` -/
theorem mul_eq_smul (a b : BV4) (hl : a.length = b.length) (ha : a.allDef = true) (hb : b.allDef = true) :
    Spec.mul a.length a b = Spec.smul a.length a b := by
  unfold Spec.mul Spec.smul
  apply ofNat_eq_ofInt_of_congr
  have h1 := toInt_emod a ha
  have h2 := toInt_emod b hb
  rw [← hl] at h2
  rw [Int.natCast_mul, Int.mul_emod, ← h1, ← h2, ← Int.mul_emod]

/-- **`mul(SInt, SInt)` for every combination of widths and expansion policies** -/
theorem smul_eq_spec (pa pb : Pol) (a b : BV4) (ha : a.allDef = true) (hb : b.allDef = true)
    (hz : a.length ≠ b.length → 1 ≤ a.length ∧ 1 ≤ b.length) :
    smul pa pb a b = .ok (Spec.smul (max a.length b.length) a b) := by
  by_cases hl : a.length = b.length
  · unfold smul
    rw [if_pos hl]
    have hn : Spec.norm pa pb a b = some (a, b, a.length) := by
      unfold Spec.norm Spec.extend
      simp [hl]
    rw [arith_eq_spec .MUL pa pb a b a b a.length hn ha hb]
    have : max a.length b.length = a.length := by omega
    rw [this]
    exact congrArg Except.ok (mul_eq_smul a b hl ha hb)
  · exact smul_mixed_eq_spec pa pb a b hl (hz hl).1 (hz hl).2 ha hb

end Gatery.C03
