import GateryModel.C03.LemmasFrontend
/-!
# C03 — static shifts / rotates lowered to a rewire node (`SignalBitshiftOp.cpp:33-145`), slices, concatenation,
multiplexer and priority select of the frontend
-/
namespace Gatery.C03
open Gatery.Nodes BV4

theorem staticShiftCore_eq (dir : Dir) (fill : Fill) (a : BV4) (amount : Nat) :
    staticShiftCore dir fill a amount = evalRewire (shiftRangesCore dir fill a.length amount) [some a] := rfl

theorem bit_slice (a : BV4) (off w i : Nat) : (Spec.slice a off w).bit i = if i < w then a.bit (off + i) else .x := by
  simp [Spec.slice, bit_tab]

theorem length_slice (a : BV4) (off w : Nat) : (Spec.slice a off w).length = w := by simp [Spec.slice]

theorem evalRewire_one (r : Range) (ins : Ins) : evalRewire [r] ins = evalRange ins r := by
  simp [evalRewire]

theorem wrap_sub_one {w : Nat} (h0 : 0 < w) (h : w < 2 ^ 64) : (w + 2 ^ 64 - 1) % 2 ^ 64 = w - 1 := by
  have : w + 2 ^ 64 - 1 = (w - 1) + 2 ^ 64 := by omega
  rw [this, Nat.add_mod_right, Nat.mod_eq_of_lt (by omega)]

theorem wrap_sub {w k : Nat} (hk : k ≤ w) (h : w < 2 ^ 64) : (w + 2 ^ 64 - k % 2 ^ 64) % 2 ^ 64 = w - k := by
  rw [Nat.mod_eq_of_lt (show k < 2 ^ 64 by omega)]
  by_cases h0 : k = 0
  · subst h0; rw [Nat.sub_zero, Nat.sub_zero, Nat.add_mod_right, Nat.mod_eq_of_lt h]
  · have : w + 2 ^ 64 - k = (w - k) + 2 ^ 64 := by omega
    rw [this, Nat.add_mod_right, Nat.mod_eq_of_lt (by omega)]

/-- `P ++ Q` is the vector with bits `f`, given the bits of the two parts -/
theorem append_eq_tab {P Q : BV4} {w n : Nat} {f : Nat → B4} (hP : P.length = n) (hQ : Q.length = w - n) (hn : n ≤ w)
    (h1 : ∀ i, i < n → P.bit i = f i) (h2 : ∀ i, i < w - n → Q.bit i = f (n + i)) : P ++ Q = tab w f := by
  apply ext_bit (by simp [hP, hQ]; omega)
  intro i hi
  simp only [List.length_append, hP, hQ] at hi
  have hiw : i < w := by omega
  simp only [bit_append, bit_tab, hP, hiw, if_true]
  by_cases hin : i < n
  · rw [if_pos hin, h1 i hin]
  · rw [if_neg hin, h2 _ (by omega)]; congr 1; omega

/-- the part of the operand that stays, and the part that is filled in -/
def fillPart (dir : Dir) (fill : Fill) (a : BV4) (amount : Nat) : BV4 :=
  match fill, dir with
  | .zero, _ => List.replicate amount .f
  | .one, _ => List.replicate amount .t
  | .last, .left => List.replicate amount (a.bit 0)
  | .last, .right => List.replicate amount (a.bit (a.length - 1))
  | .rotate, .left => Spec.slice a (a.length - amount) amount
  | .rotate, .right => Spec.slice a 0 amount

theorem evalRewire_keep (a : BV4) (amount off : Nat) :
    evalRewire (if amount < a.length then [(⟨a.length - amount, .input 0 off⟩ : Range)] else []) [some a]
      = if amount < a.length then Spec.slice a off (a.length - amount) else [] := by
  split
  · rw [evalRewire_one, evalRange_input0]
  · rfl

theorem keep_eq_slice (a : BV4) (amount off : Nat) (h : amount ≤ a.length) :
    (if amount < a.length then Spec.slice a off (a.length - amount) else []) = Spec.slice a off (a.length - amount) := by
  split
  · rfl
  · have : a.length - amount = 0 := by omega
    rw [this]; simp [Spec.slice, tab]

/-- the rotate part: one input range, none at all for amount 0 -/
theorem evalRewire_rot (a : BV4) (amount off : Nat) :
    evalRewire (if amount > 0 then [(⟨amount, .input 0 off⟩ : Range)] else []) [some a] = Spec.slice a off amount := by
  split
  · rw [evalRewire_one, evalRange_input0]
  · have : amount = 0 := by omega
    subst this; simp [evalRewire_nil, Spec.slice, tab]

theorem staticShiftCore_right_parts (fill : Fill) (a : BV4) (amount : Nat) (h : amount ≤ a.length) (hw : a.length < 2 ^ 64) :
    staticShiftCore .right fill a amount = Spec.slice a amount (a.length - amount) ++ fillPart .right fill a amount := by
  rw [staticShiftCore_eq]
  simp only [shiftRangesCore, rightShiftRanges]
  rw [evalRewire_append, evalRewire_keep, keep_eq_slice a amount amount h]
  congr 1
  cases fill
  · simp [fillRanges, fillPart, evalRewire_one, evalRange]
  · simp [fillRanges, fillPart, evalRewire_one, evalRange]
  · simp only [fillRanges, fillPart]
    by_cases h0 : a.length = 0
    · have : amount = 0 := by omega
      subst this; rfl
    · rw [wrap_sub_one (Nat.pos_of_ne_zero h0) hw, evalRewire_replicate_bit]
  · simp only [fillPart]; rw [evalRewire_rot]

theorem staticShiftCore_left_parts (fill : Fill) (a : BV4) (amount : Nat) (h : amount ≤ a.length) (hw : a.length < 2 ^ 64) :
    staticShiftCore .left fill a amount = fillPart .left fill a amount ++ Spec.slice a 0 (a.length - amount) := by
  rw [staticShiftCore_eq]
  simp only [shiftRangesCore, leftShiftRanges]
  rw [evalRewire_append, evalRewire_keep, keep_eq_slice a amount 0 h]
  congr 1
  cases fill
  · simp [fillRanges, fillPart, evalRewire_one, evalRange]
  · simp [fillRanges, fillPart, evalRewire_one, evalRange]
  · simp only [fillRanges, fillPart]; rw [evalRewire_replicate_bit]
  · simp only [fillPart]; rw [wrap_sub h hw, evalRewire_rot]

theorem length_fillPart (dir : Dir) (fill : Fill) (a : BV4) (amount : Nat) : (fillPart dir fill a amount).length = amount := by
  cases dir <;> cases fill <;> simp [fillPart, length_slice]

/-- for `amount ≤ width` the static shift / rotate is the list-of-bits definition (all directions and fill modes) -/
theorem staticShiftCore_eq_spec (dir : Dir) (fill : Fill) (a : BV4) (amount : Nat) (h : amount ≤ a.length)
    (hw : a.length < 2 ^ 64) : staticShiftCore dir fill a amount = Spec.shift dir fill a amount := by
  by_cases hz : a.length = 0
  · have ha : a = [] := List.eq_nil_of_length_eq_zero hz
    have hk : amount = 0 := by omega
    subst ha; subst hk
    cases dir <;> cases fill <;> rfl
  have hpos : 0 < a.length := Nat.pos_of_ne_zero hz
  cases dir
  · -- left: fill part below, kept part above
    rw [staticShiftCore_left_parts fill a amount h hw]
    have hfl : Spec.fillOf .left .last a = a.bit 0 := by
      simp only [Spec.fillOf, hz, if_false]
    cases fill <;> simp only [Spec.shift, Spec.shiftLeft, Spec.rotLeft, hfl] <;> try simp only [Spec.fillOf]
    all_goals
      apply append_eq_tab (n := amount) (length_fillPart _ _ _ _) (length_slice _ _ _) h
    · intro i hi; simp [fillPart, bit_replicate, hi]
    · intro i hi; rw [bit_slice, if_pos hi, if_neg (by omega)]; congr 1; omega
    · intro i hi; simp [fillPart, bit_replicate, hi]
    · intro i hi; rw [bit_slice, if_pos hi, if_neg (by omega)]; congr 1; omega
    · intro i hi; simp only [fillPart, bit_replicate, hi, if_true]
    · intro i hi; rw [bit_slice, if_pos hi, if_neg (by omega)]; congr 1; omega
    · -- rotate, low part: result bit i (< amount) is source bit w - amount + i
      intro i hi
      simp only [fillPart]
      rw [bit_slice, if_pos hi]
      by_cases heq : amount = a.length
      · subst heq; simp [Nat.mod_self, Nat.mod_eq_of_lt hi]
      · have hlt : amount < a.length := by omega
        rw [Nat.mod_eq_of_lt hlt, Nat.mod_eq_of_lt (by omega)]; congr 1; omega
    · intro i hi
      rw [bit_slice, if_pos hi]
      have hlt : amount < a.length := by omega
      rw [Nat.mod_eq_of_lt hlt, mod_of_range (by omega) (by omega)]; congr 1; omega
  · -- right: kept part below, fill part above
    rw [staticShiftCore_right_parts fill a amount h hw]
    have hfl : Spec.fillOf .right .last a = a.bit (a.length - 1) := by
      simp only [Spec.fillOf, hz, if_false]
    cases fill <;> simp only [Spec.shift, Spec.shiftRight, Spec.rotRight, hfl] <;> try simp only [Spec.fillOf]
    all_goals
      apply append_eq_tab (n := a.length - amount) (length_slice _ _ _) (by rw [length_fillPart]; omega) (by omega)
    · intro i hi; rw [bit_slice, if_pos hi, if_pos (by omega), Nat.add_comm]
    · intro i hi; rw [if_neg (by omega)]; simp only [fillPart, bit_replicate]; rw [if_pos (by omega)]
    · intro i hi; rw [bit_slice, if_pos hi, if_pos (by omega), Nat.add_comm]
    · intro i hi; rw [if_neg (by omega)]; simp only [fillPart, bit_replicate]; rw [if_pos (by omega)]
    · intro i hi; rw [bit_slice, if_pos hi, if_pos (by omega), Nat.add_comm]
    · intro i hi; rw [if_neg (by omega)]; simp only [fillPart, bit_replicate]; rw [if_pos (by omega)]
    · intro i hi; rw [bit_slice, if_pos hi, Nat.mod_eq_of_lt (by omega), Nat.add_comm]
    · intro i hi
      simp only [fillPart]
      rw [bit_slice, if_pos (by omega)]
      by_cases heq : amount = a.length
      · subst heq; simp
        rw [Nat.mod_eq_of_lt (by omega)]
      · rw [mod_of_range (by omega) (by omega)]; congr 1; omega

theorem rangesWidth_append (l1 l2 : List Range) : rangesWidth (l1 ++ l2) = rangesWidth l1 + rangesWidth l2 := by
  simp [rangesWidth, List.sum_append]
theorem rangesWidth_one (r : Range) : rangesWidth [r] = r.subwidth := by simp [rangesWidth]
theorem rangesWidth_replicate (n : Nat) (s : RangeSrc) : rangesWidth (List.replicate n ⟨1, s⟩) = n := by
  induction n with
  | zero => rfl
  | succ k ih => rw [List.replicate_succ, show (⟨1, s⟩ : Range) :: List.replicate k ⟨1, s⟩ = [⟨1, s⟩] ++ List.replicate k ⟨1, s⟩ from rfl,
      rangesWidth_append, ih, rangesWidth_one]; exact Nat.add_comm _ _

theorem length_evalRewire (rs : List Range) (ins : Ins) : (evalRewire rs ins).length = rangesWidth rs := by
  induction rs with
  | nil => rfl
  | cons r t ih =>
    rw [evalRewire_cons, List.length_append, ih, show r :: t = [r] ++ t from rfl, rangesWidth_append, rangesWidth_one]
    congr 1
    unfold evalRange; cases r.src <;> simp

/-- **the defect (DESIGN.md §6 F4), for every width, direction and fill mode**: a static shift or rotate by more than
    the width builds a result that is `amount` bits wide instead of `width` bits -/
theorem staticShiftCore_length_of_gt (dir : Dir) (fill : Fill) (a : BV4) (amount : Nat) (h : amount > a.length) :
    (staticShiftCore dir fill a amount).length = amount := by
  rw [staticShiftCore_eq, length_evalRewire]
  have hn : ¬ amount < a.length := by omega
  cases dir
  · simp only [shiftRangesCore, leftShiftRanges, if_neg hn, List.append_nil]
    cases fill
    · exact rangesWidth_one _
    · exact rangesWidth_one _
    · exact rangesWidth_replicate _ _
    · simp only [show amount > 0 by omega, if_true]; exact rangesWidth_one _
  · simp only [shiftRangesCore, rightShiftRanges, if_neg hn, List.nil_append]
    cases fill
    · exact rangesWidth_one _
    · exact rangesWidth_one _
    · exact rangesWidth_replicate _ _
    · simp only [show amount > 0 by omega, if_true]; exact rangesWidth_one _

/-! ## the lowering as it is now: the amount is normalised first -/

theorem staticShift_eq_core (dir : Dir) (fill : Fill) (a : BV4) (amount : Nat) :
    staticShift dir fill a amount = staticShiftCore dir fill a (normAmount fill a.length amount) := by
  cases dir <;> rfl

theorem normAmount_le (fill : Fill) (w amount : Nat) : normAmount fill w amount ≤ w := by
  unfold normAmount
  split
  · split
    · omega
    · exact Nat.le_of_lt (Nat.mod_lt _ (by omega))
  · exact Nat.min_le_right _ _

/-- the definition itself is insensitive to the normalisation: shifting by `≥ width` is all fill, rotating is periodic -/
theorem spec_shift_normAmount (dir : Dir) (fill : Fill) (a : BV4) (amount : Nat) :
    Spec.shift dir fill a (normAmount fill a.length amount) = Spec.shift dir fill a amount := by
  by_cases hz : a.length = 0
  · have ha : a = [] := List.eq_nil_of_length_eq_zero hz
    subst ha
    cases dir <;> cases fill <;> simp [Spec.shift, Spec.shiftLeft, Spec.shiftRight, Spec.rotLeft, Spec.rotRight, tab]
  have hpos : 0 < a.length := Nat.pos_of_ne_zero hz
  cases fill
  case rotate =>
    simp only [normAmount, if_true, hz, if_false]
    cases dir
    · simp only [Spec.shift, Spec.rotLeft, Nat.mod_mod]
    · simp only [Spec.shift, Spec.rotRight]
      apply ext_bit (by simp)
      intro i hi
      simp only [length_tab] at hi
      rw [bit_tab, bit_tab, if_pos hi, if_pos hi]
      congr 1
      rw [Nat.add_mod, Nat.mod_mod, ← Nat.add_mod]
  all_goals
    simp only [normAmount, reduceCtorEq, if_false]
    cases dir <;> simp only [Spec.shift, Spec.shiftLeft, Spec.shiftRight] <;>
      (apply ext_bit (by simp); intro i hi; simp only [length_tab] at hi
       rw [bit_tab, bit_tab, if_pos hi, if_pos hi]) <;>
      (by_cases hk : amount ≤ a.length
       · rw [Nat.min_eq_left hk]
       · rw [Nat.min_eq_right (by omega)]
         first
         | rw [if_pos (by omega), if_pos (by omega)]
         | rw [if_neg (by omega), if_neg (by omega)])

/-- **static shifts and rotates, every amount, every direction, every fill mode, every width** (`SignalBitshiftOp.cpp` after
    `c4028c8`): the rewire node the frontend builds is the list-of-bits definition — a shift by `≥ width` is all fill, a
    rotate is periodic in the width, and the result keeps the operand's width -/
theorem staticShift_eq_spec (dir : Dir) (fill : Fill) (a : BV4) (amount : Nat) (hw : a.length < 2 ^ 64) :
    staticShift dir fill a amount = Spec.shift dir fill a amount := by
  rw [staticShift_eq_core, staticShiftCore_eq_spec dir fill a _ (normAmount_le fill a.length amount) hw, spec_shift_normAmount]

end Gatery.C03
