import GateryModel.C03.LemmasMisc
/-!
# C03 — signed order comparison built from a subtraction in one extra bit (`SignalCompareOp.cpp:40-54`)
-/
namespace Gatery.C03
open Gatery.Nodes BV4

theorem toNat_replicate_t (k : Nat) : toNat (List.replicate k B4.t) = 2 ^ k - 1 := by
  induction k with
  | zero => rfl
  | succ n ih =>
    simp only [List.replicate_succ, toNat, ih, if_true, Nat.pow_succ]
    have : 0 < 2 ^ n := Nat.pow_pos (by omega)
    omega

/-- the top bit of a number below `2^(i+1)` says whether it reaches `2^i` -/
theorem testBit_top {x i : Nat} (h : x < 2 ^ (i + 1)) : x.testBit i = decide (2 ^ i ≤ x) := by
  rw [Nat.testBit_eq_decide_div_mod_eq]
  have hp : 0 < 2 ^ i := Nat.pow_pos (by omega)
  have hlt : x / 2 ^ i < 2 := by
    rw [Nat.div_lt_iff_lt_mul hp]; rw [Nat.pow_succ] at h; omega
  by_cases hge : 2 ^ i ≤ x
  · have : 1 ≤ x / 2 ^ i := (Nat.le_div_iff_mul_le hp).mpr (by omega)
    have : x / 2 ^ i = 1 := by omega
    simp [this, hge]
  · have : x / 2 ^ i = 0 := Nat.div_eq_of_lt (by omega)
    simp [this, hge]

/-- two's-complement reading: `toInt` is `toNat` or `toNat - 2^w`, within `[-2^(w-1), 2^(w-1))` -/
theorem toInt_cases (a : BV4) (hl : 1 ≤ a.length) (ha : a.allDef = true) :
    (a.bit (a.length - 1) = .t ∧ toInt a = (a.toNat : Int) - ((2 ^ a.length : Nat) : Int) ∧ 2 ^ (a.length - 1) ≤ a.toNat) ∨
    (a.bit (a.length - 1) = .f ∧ toInt a = a.toNat ∧ a.toNat < 2 ^ (a.length - 1)) := by
  have hlt := toNat_lt' a
  have htb := testBit_toNat a (a.length - 1)
  have hlen : a.length - 1 + 1 = a.length := by omega
  rw [testBit_top (by rw [hlen]; exact hlt)] at htb
  have hdef := isDef_bit_of_allDef ha (show a.length - 1 < a.length by omega)
  cases hb : a.bit (a.length - 1) with
  | x => rw [hb] at hdef; simp [B4.isDef] at hdef
  | t =>
    left
    rw [hb] at htb
    simp only [B4.val, decide_eq_true_eq] at htb
    refine ⟨rfl, ?_, htb⟩
    simp [toInt, hb]
  | f =>
    right
    rw [hb] at htb
    simp only [B4.val, decide_eq_false_iff_not, Nat.not_le] at htb
    refine ⟨rfl, ?_, htb⟩
    simp [toInt, hb]

/-- sign extension to `w` bits represents the same integer modulo `2^w` -/
theorem toNat_sext (a : BV4) (k : Nat) (hl : 1 ≤ a.length) (ha : a.allDef = true) :
    ((toNat (a ++ List.replicate k (a.bit (a.length - 1))) : Nat) : Int)
      = toInt a + (if a.bit (a.length - 1) = .t then ((2 ^ (a.length + k) : Nat) : Int) else 0) := by
  rw [toNat_append]
  rcases toInt_cases a hl ha with ⟨hb, hi, _⟩ | ⟨hb, hi, _⟩
  · rw [hb, toNat_replicate_t, hi]
    simp only [if_true]
    have hp : 0 < 2 ^ k := Nat.pow_pos (by omega)
    rw [Nat.pow_add]
    have : 2 ^ a.length * (2 ^ k - 1) = 2 ^ a.length * 2 ^ k - 2 ^ a.length := by
      rw [Nat.mul_sub, Nat.mul_one]
    rw [this]
    have hge : 2 ^ a.length ≤ 2 ^ a.length * 2 ^ k := Nat.le_mul_of_pos_right _ hp
    omega
  · rw [hb, toNat_replicate_f, hi]
    simp

theorem bit_top_ofInt (w : Nat) (hw : 1 ≤ w) (d : Int) (hlo : -((2 ^ (w - 1) : Nat) : Int) < d) (hhi : d < ((2 ^ (w - 1) : Nat) : Int)) :
    (ofInt w d).bit (w - 1) = B4.ofBool (decide (d < 0)) := by
  unfold ofInt
  rw [bit_ofNat, if_pos (by omega)]
  have hpw : (2 : Int) ^ w = ((2 ^ w : Nat) : Int) := by simp
  have h2 : 2 ^ w = 2 * 2 ^ (w - 1) := by
    have : w = (w - 1) + 1 := by omega
    rw [this, Nat.pow_succ]; simp; omega
  have hP : 0 < 2 ^ (w - 1) := Nat.pow_pos (by omega)
  congr 1
  by_cases hneg : d < 0
  · have hmod : d % (2:Int) ^ w = d + ((2 ^ w : Nat) : Int) := by
      rw [hpw, ← Int.add_mul_emod_self_left d ((2 ^ w : Nat) : Int) 1, Int.mul_one]
      exact Int.emod_eq_of_lt (by omega) (by omega)
    rw [hmod]
    have hn : (d + ((2 ^ w : Nat) : Int)).toNat < 2 ^ (w - 1 + 1) := by
      have : w - 1 + 1 = w := by omega
      rw [this]; omega
    rw [testBit_top hn]
    simp only [hneg, decide_true, decide_eq_true_eq]
    omega
  · have hmod : d % (2:Int) ^ w = d := by
      rw [hpw]; exact Int.emod_eq_of_lt (by omega) (by omega)
    rw [hmod]
    have hn : d.toNat < 2 ^ (w - 1 + 1) := by
      have : w - 1 + 1 = w := by omega
      rw [this]; omega
    rw [testBit_top hn]
    simp only [hneg, decide_false, decide_eq_false_iff_not, Nat.not_le]
    omega

theorem sextTo_eq (a : BV4) (w : Nat) (hl : 1 ≤ a.length) (hw : a.length < w) :
    sextTo a w = .ok (a ++ List.replicate (w - a.length) (a.bit (a.length - 1))) := by
  unfold sextTo
  rw [if_neg (by omega), if_pos hw]
  apply expand_eq_extend
  unfold Spec.extend
  rw [if_neg (by omega), if_neg (by omega)]
  simp only [show ¬ a.length = 0 by omega, if_false]

/-- **signed `<`** through the frontend is the order on the two's-complement readings — all widths `≥ 1`, mixed widths
    included (the subtraction is done in `max + 1` bits, so it cannot overflow) -/
theorem slt_eq_spec (a b : BV4) (hla : 1 ≤ a.length) (hlb : 1 ≤ b.length) (ha : a.allDef = true) (hb : b.allDef = true) :
    slt a b = .ok (Spec.scmp .LT a b) := by
  have hw1 : a.length < max a.length b.length + 1 := by omega
  have hw2 : b.length < max a.length b.length + 1 := by omega
  generalize hwdef : max a.length b.length + 1 = w at hw1 hw2
  unfold slt
  rw [hwdef]
  simp only [bind, Except.bind, sextTo_eq a w hla hw1, sextTo_eq b w hlb hw2]
  -- the two extended operands
  generalize ha' : a ++ List.replicate (w - a.length) (a.bit (a.length - 1)) = a'
  generalize hb' : b ++ List.replicate (w - b.length) (b.bit (b.length - 1)) = b'
  have hla' : a'.length = w := by rw [← ha']; simp; omega
  have hlb' : b'.length = w := by rw [← hb']; simp; omega
  have hda' : a'.allDef = true := by
    rw [← ha']; exact allDef_append ha (allDef_replicate _ _ (isDef_bit_of_allDef ha (by omega)))
  have hdb' : b'.allDef = true := by
    rw [← hb']; exact allDef_append hb (allDef_replicate _ _ (isDef_bit_of_allDef hb (by omega)))
  have hnorm : Spec.norm .sign .sign a' b' = some (a', b', w) := by
    unfold Spec.norm Spec.extend
    simp [hla', hlb']
  rw [arith_eq_spec .SUB .sign .sign a' b' a' b' w hnorm hda' hdb']
  simp only [Spec.arith, Spec.sub]
  unfold msb
  rw [if_neg (by simp; omega)]
  simp only [pure, Except.pure, length_ofInt, node_rewire, List.map_cons, List.map_nil, evalRewire_one, evalRange_input0]
  congr 1
  -- one bit: the top bit of the (w-bit) difference
  apply ext_bit (by simp [Spec.slice, Spec.scmp])
  intro i hi
  simp only [length_slice] at hi
  have hi0 : i = 0 := by omega
  subst hi0
  rw [bit_slice, if_pos (by omega), Nat.add_zero]
  -- the difference of the extended operands is congruent to the difference of the integers, which fits w bits
  have hsa := toNat_sext a (w - a.length) hla ha
  have hsb := toNat_sext b (w - b.length) hlb hb
  rw [ha'] at hsa; rw [hb'] at hsb
  have hwa : a.length + (w - a.length) = w := by omega
  have hwb : b.length + (w - b.length) = w := by omega
  rw [hwa] at hsa; rw [hwb] at hsb
  -- bounds
  have hA : 2 * 2 ^ (a.length - 1) ≤ 2 ^ (w - 1) := by
    have : 2 * 2 ^ (a.length - 1) = 2 ^ a.length := by
      have : a.length = (a.length - 1) + 1 := by omega
      conv => rhs; rw [this, Nat.pow_succ]
      omega
    rw [this]; exact Nat.pow_le_pow_right (by omega) (by omega)
  have hB : 2 * 2 ^ (b.length - 1) ≤ 2 ^ (w - 1) := by
    have : 2 * 2 ^ (b.length - 1) = 2 ^ b.length := by
      have : b.length = (b.length - 1) + 1 := by omega
      conv => rhs; rw [this, Nat.pow_succ]
      omega
    rw [this]; exact Nat.pow_le_pow_right (by omega) (by omega)
  have h2a : 2 ^ a.length = 2 * 2 ^ (a.length - 1) := by
    have : a.length = (a.length - 1) + 1 := by omega
    conv => lhs; rw [this, Nat.pow_succ]
    omega
  have h2b : 2 ^ b.length = 2 * 2 ^ (b.length - 1) := by
    have : b.length = (b.length - 1) + 1 := by omega
    conv => lhs; rw [this, Nat.pow_succ]
    omega
  have hd : -((2 ^ (w - 1) : Nat) : Int) < toInt a - toInt b ∧ toInt a - toInt b < ((2 ^ (w - 1) : Nat) : Int) := by
    rcases toInt_cases a hla ha with ⟨_, hia, hga⟩ | ⟨_, hia, hga⟩ <;>
    rcases toInt_cases b hlb hb with ⟨_, hib, hgb⟩ | ⟨_, hib, hgb⟩ <;>
    (have := toNat_lt' a; have := toNat_lt' b; rw [hia, hib]; constructor <;> omega)
  -- replace the w-bit difference by the integer difference (same residue modulo 2^w)
  have hcongr : ofInt w ((a'.toNat : Int) - b'.toNat) = ofInt w (toInt a - toInt b) := by
    unfold ofInt
    congr 2
    rw [hsa, hsb]
    have hpw : (2 : Int) ^ w = ((2 ^ w : Nat) : Int) := by simp
    rw [hpw]
    by_cases ca : a.bit (a.length - 1) = .t <;> by_cases cb : b.bit (b.length - 1) = .t <;> simp only [ca, cb, if_true, if_false]
    · congr 1; omega
    · have : toInt a + ((2 ^ w : Nat) : Int) - (toInt b + 0) = (toInt a - toInt b) + ((2 ^ w : Nat) : Int) * 1 := by omega
      rw [this, Int.add_mul_emod_self_left]
    · have : toInt a + 0 - (toInt b + ((2 ^ w : Nat) : Int)) = (toInt a - toInt b) + ((2 ^ w : Nat) : Int) * (-1) := by omega
      rw [this, Int.add_mul_emod_self_left]
    · congr 1; omega
  rw [hcongr, bit_top_ofInt w (by omega) _ hd.1 hd.2]
  simp [Spec.scmp, Spec.cmpInt, bit]
  congr 1
  rw [Bool.eq_iff_iff]; simp; omega

end Gatery.C03

namespace Gatery.C03
open Gatery.Nodes BV4

theorem sgt_eq_slt_swap (a b : BV4) : sgt a b = slt b a := by
  unfold sgt slt
  rw [Nat.max_comm]

theorem lnot_single (p : Bool) : lnot [B4.ofBool p] = [B4.ofBool (!p)] := by
  cases p <;> rfl

theorem sgt_eq_spec (a b : BV4) (hla : 1 ≤ a.length) (hlb : 1 ≤ b.length) (ha : a.allDef = true) (hb : b.allDef = true) :
    sgt a b = .ok (Spec.scmp .GT a b) := by
  rw [sgt_eq_slt_swap, slt_eq_spec b a hlb hla hb ha]
  simp only [Spec.scmp, Spec.cmpInt]

theorem sgeq_eq_spec (a b : BV4) (hla : 1 ≤ a.length) (hlb : 1 ≤ b.length) (ha : a.allDef = true) (hb : b.allDef = true) :
    sgeq a b = .ok (Spec.scmp .GEQ a b) := by
  unfold sgeq
  simp only [bind, Except.bind, slt_eq_spec a b hla hlb ha hb, pure, Except.pure, Spec.scmp, Spec.cmpInt, lnot_single]
  congr 3
  rw [Bool.eq_iff_iff]; simp

theorem sleq_eq_spec (a b : BV4) (hla : 1 ≤ a.length) (hlb : 1 ≤ b.length) (ha : a.allDef = true) (hb : b.allDef = true) :
    sleq a b = .ok (Spec.scmp .LEQ a b) := by
  unfold sleq
  simp only [bind, Except.bind, sgt_eq_spec a b hla hlb ha hb, pure, Except.pure, Spec.scmp, Spec.cmpInt, lnot_single]
  congr 3
  rw [Bool.eq_iff_iff]; simp

end Gatery.C03

namespace Gatery.C03
open Gatery.Nodes BV4

/-- sign extension preserves the two's-complement value -/
theorem toInt_sext (a : BV4) (k : Nat) (hl : 1 ≤ a.length) (ha : a.allDef = true) :
    toInt (a ++ List.replicate k (a.bit (a.length - 1))) = toInt a := by
  by_cases hk : k = 0
  · subst hk; simp
  · have hs := toNat_sext a k hl ha
    have htop : (a ++ List.replicate k (a.bit (a.length - 1))).bit ((a ++ List.replicate k (a.bit (a.length - 1))).length - 1)
        = a.bit (a.length - 1) := by
      rw [bit_append, if_neg (by simp; omega), bit_replicate, if_pos (by simp; omega)]
    unfold toInt at hs ⊢
    rw [htop]
    simp only [List.length_append, List.length_replicate]
    have hc : ((2:Int) ^ (a.length + k)) = ((2 ^ (a.length + k) : Nat) : Int) := by simp
    rw [hc]
    by_cases ht : a.bit (a.length - 1) = .t
    · simp only [ht, if_true] at hs ⊢; omega
    · simp only [ht, if_false] at hs ⊢; omega

end Gatery.C03
