import GateryModel.C03.LemmasArith
/-!
# C03 — logic, shifts, rewire (extension / slice / concatenation), multiplexer, priority select
-/
namespace Gatery.Nodes
open BV4 Gatery.C03

@[simp] theorem inBit_cons_zero (o : Option BV4) (t : Ins) (i : Nat) : inBit (o :: t) 0 i = optBit o i := by
  cases o <;> simp [inBit, optBit]
@[simp] theorem inBit_cons_succ (o : Option BV4) (t : Ins) (k i : Nat) : inBit (o :: t) (k+1) i = inBit t k i := by
  simp [inBit]
@[simp] theorem optBit_some (v : BV4) (i : Nat) : optBit (some v) i = v.bit i := rfl

/-! ## Node_Logic -/

theorem logicBit_defined (op : LogicOp) {l r : B4} (hl : l.isDef = true) (hr : r.isDef = true) :
    logicBit op l r = B4.ofBool (Spec.boolOp op l.val r.val) := by
  cases op <;> cases l <;> cases r <;> simp_all [B4.isDef] <;> decide

theorem evalLogic_defined (op : LogicOp) (hop : op ≠ .NOT) (a b : BV4) (hl : a.length = b.length)
    (ha : a.allDef = true) (hb : b.allDef = true) :
    evalLogic op a.length [some a, some b] = Spec.bitwise op a b := by
  unfold evalLogic Spec.bitwise
  apply ext_bit (by simp)
  intro i hi
  simp only [length_tab] at hi
  rw [bit_tab, bit_tab, if_pos hi, if_pos hi]
  simp only [hop, if_false, inBit_cons_zero, inBit_cons_succ, optBit_some]
  exact logicBit_defined op (isDef_bit_of_allDef ha hi) (isDef_bit_of_allDef hb (hl ▸ hi))

theorem evalLogic_not (a : BV4) (ha : a.allDef = true) : evalLogic .NOT a.length [some a] = Spec.bnot a := by
  unfold evalLogic Spec.bnot
  apply ext_bit (by simp)
  intro i hi
  simp only [length_tab] at hi
  rw [bit_tab, bit_tab, if_pos hi, if_pos hi]
  simp only [if_true, inBit_cons_zero, optBit_some]
  have := isDef_bit_of_allDef ha hi
  cases hb : a.bit i <;> simp_all [B4.isDef, logicBit, B4.val, B4.mk, B4.ofBool]

/-! ## Node_Shift -/

theorem mod_of_range {x w : Nat} (h1 : w ≤ x) (h2 : x < 2 * w) : x % w = x - w := by
  rw [Nat.mod_eq_sub_mod h1, Nat.mod_eq_of_lt (by omega)]

/-- the dynamic shift / rotate node with a fully defined amount is the list-of-bits definition, for every fill mode, every
    amount (`≥ width` included), every width and every operand (undefined operand bits move along) -/
theorem evalShift_eq_spec (d : Dir) (f : Fill) (a amt : BV4) (hamt : amt.allDef = true) :
    evalShift d f a.length [some a, some amt] = Spec.shift d f a amt.toNat := by
  have hfill : shiftFill d f a.length [some a, some amt] = Spec.fillOf d f a := by
    cases f <;> cases d <;> simp [shiftFill, Spec.fillOf]
  unfold evalShift
  simp only [List.getD_cons_succ, List.getD_cons_zero, hamt, Bool.not_true, Bool.false_eq_true, if_false, hfill]
  by_cases hbig : amt.toNat ≥ a.length ∧ f ≠ .rotate
  · rw [if_pos hbig]
    have hf := hbig.2
    cases d <;> cases f <;> simp at hf <;> simp only [Spec.shift, Spec.shiftLeft, Spec.shiftRight] <;>
      (apply ext_bit (by simp); intro i hi; simp only [List.length_replicate] at hi
       rw [bit_replicate, bit_tab, if_pos hi, if_pos hi]) <;>
      first
      | (rw [if_pos (by omega)])
      | (rw [if_neg (by omega)])
  · rw [if_neg hbig]
    by_cases hrot : f = .rotate
    · subst hrot
      by_cases hw : a.length = 0
      · have : a = [] := List.eq_nil_of_length_eq_zero hw
        subst this
        cases d <;> simp [Spec.shift, Spec.rotLeft, Spec.rotRight, tab]
      · have hwpos : 0 < a.length := Nat.pos_of_ne_zero hw
        have hlt := Nat.mod_lt amt.toNat hwpos
        cases d
        · -- rotate left
          simp only [Spec.shift, Spec.rotLeft, if_true]
          apply ext_bit (by simp)
          intro i hi
          simp only [length_tab] at hi
          rw [bit_tab, bit_tab, if_pos hi, if_pos hi]
          simp only [inBit_cons_zero, optBit_some]
          generalize amt.toNat % a.length = k at hlt ⊢
          by_cases hia : i < k
          · have e : (i + (a.length - k)) % a.length = a.length - k + i := by
              rw [Nat.mod_eq_of_lt (by omega)]; omega
            rw [if_pos hia, e]
          · have e : (i + (a.length - k)) % a.length = i - k := by
              rw [mod_of_range (by omega) (by omega)]; omega
            rw [if_neg hia, e]
        · -- rotate right
          simp only [Spec.shift, Spec.rotRight, if_true]
          apply ext_bit (by simp)
          intro i hi
          simp only [length_tab] at hi
          rw [bit_tab, bit_tab, if_pos hi, if_pos hi]
          simp only [inBit_cons_zero, optBit_some]
          have e0 : (i + amt.toNat) % a.length = (i + amt.toNat % a.length) % a.length := by
            rw [Nat.add_mod, Nat.mod_eq_of_lt hi]
          rw [e0]
          generalize amt.toNat % a.length = k at hlt ⊢
          by_cases hia : i < a.length - k
          · rw [if_pos hia, Nat.mod_eq_of_lt (by omega)]
          · have e : (i + k) % a.length = i - (a.length - k) := by
              rw [mod_of_range (by omega) (by omega)]; omega
            rw [if_neg hia, e]
    · have hsmall : amt.toNat < a.length := by
        have : ¬ (amt.toNat ≥ a.length) := fun h => hbig ⟨h, hrot⟩
        omega
      rw [Nat.mod_eq_of_lt hsmall]
      cases d <;> cases f <;> simp at hrot <;> simp only [Spec.shift, Spec.shiftLeft, Spec.shiftRight] <;>
        (apply ext_bit (by simp); intro i hi; simp only [length_tab] at hi
         rw [bit_tab, bit_tab, if_pos hi, if_pos hi]
         simp only [inBit_cons_zero, optBit_some, reduceCtorEq, if_false]) <;>
        first
        | rfl
        | (by_cases h : i < a.length - amt.toNat
           · rw [if_pos h, if_pos (by omega)]
           · rw [if_neg h, if_neg (by omega)])

/-- zero-fill shifts as arithmetic: `a * 2^k mod 2^w` and `a / 2^k` -/
theorem shiftLeft_zero_eq_ofNat (a : BV4) (k : Nat) (ha : a.allDef = true) :
    Spec.shiftLeft .f a k = ofNat a.length (a.toNat * 2 ^ k) := by
  apply eq_ofNat_of_bits (by simp [Spec.shiftLeft])
  intro i hi
  simp only [Spec.shiftLeft, bit_tab, if_pos hi]
  rw [← Nat.shiftLeft_eq, Nat.testBit_shiftLeft]
  by_cases h : i < k
  · simp [h, B4.ofBool]; omega
  · simp only [h, if_false]
    rw [testBit_toNat]
    have hge : i ≥ k := by omega
    simp only [ge_iff_le, hge, decide_true, Bool.true_and]
    exact bit_eq_ofBool_val (isDef_bit_of_allDef ha (by omega))

theorem shiftRight_zero_eq_ofNat (a : BV4) (k : Nat) (ha : a.allDef = true) :
    Spec.shiftRight .f a k = ofNat a.length (a.toNat / 2 ^ k) := by
  apply eq_ofNat_of_bits (by simp [Spec.shiftRight])
  intro i hi
  simp only [Spec.shiftRight, bit_tab, if_pos hi]
  rw [← Nat.shiftRight_eq_div_pow, Nat.testBit_shiftRight, testBit_toNat]
  by_cases h : i + k < a.length
  · rw [if_pos h, Nat.add_comm k i]
    exact bit_eq_ofBool_val (isDef_bit_of_allDef ha h)
  · rw [if_neg h, Nat.add_comm k i, bit_of_ge a _ (by omega)]
    rfl

/-! ## Node_Rewire -/

theorem evalRewire_nil (ins : Ins) : evalRewire [] ins = [] := rfl
theorem evalRewire_cons (r : Range) (rs : List Range) (ins : Ins) :
    evalRewire (r :: rs) ins = evalRange ins r ++ evalRewire rs ins := by
  simp [evalRewire]
theorem evalRewire_append (rs rs' : List Range) (ins : Ins) :
    evalRewire (rs ++ rs') ins = evalRewire rs ins ++ evalRewire rs' ins := by
  simp [evalRewire]

/-- a single input range is a slice -/
theorem evalRange_input0 (a : BV4) (t : Ins) (off sw : Nat) :
    evalRange (some a :: t) ⟨sw, .input 0 off⟩ = Spec.slice a off sw := by
  simp [evalRange, Spec.slice]

theorem slice_full (a : BV4) : Spec.slice a 0 a.length = a := by
  simp [Spec.slice, tab_bit_self]

theorem evalRewire_replicate_bit (a : BV4) (t : Ins) (k off : Nat) :
    evalRewire (List.replicate k ⟨1, .input 0 off⟩) (some a :: t) = List.replicate k (a.bit off) := by
  induction k with
  | zero => rfl
  | succ n ih =>
    rw [List.replicate_succ, evalRewire_cons, ih, List.replicate_succ]
    simp [evalRange, tab]

theorem toNat_append (a b : BV4) : toNat (a ++ b) = toNat a + 2 ^ a.length * toNat b := by
  induction a with
  | nil => simp [toNat]
  | cons x xs ih =>
    simp only [List.cons_append, toNat, ih, List.length_cons, Nat.pow_succ]
    rw [Nat.mul_add, Nat.mul_comm (2 ^ xs.length) 2, Nat.mul_assoc]
    omega

theorem toNat_replicate_f (k : Nat) : toNat (List.replicate k B4.f) = 0 := by
  induction k with
  | zero => rfl
  | succ n ih => simp [List.replicate_succ, toNat, ih]

/-- `pack` (setConcat over all operands) is list concatenation, first operand lowest -/
theorem pack_eq_flatten (xs : List BV4) : pack xs = xs.flatten := by
  unfold pack node evalNode evalRewire
  simp only
  rw [List.flatMap_def, List.map_map]
  congr 1
  apply List.ext_getElem (by simp)
  intro i h1 h2
  simp only [List.length_map, List.length_range] at h1
  simp only [List.getElem_map, List.getElem_range, Function.comp]
  unfold evalRange
  simp only
  have hget : (xs.map some).getD i none = some xs[i] := by
    simp [List.getD_eq_getElem?_getD, List.getElem?_eq_getElem h1]
  have hx : xs.getD i [] = xs[i] := by simp [List.getD_eq_getElem?_getD, List.getElem?_eq_getElem h1]
  rw [hx]
  have : (fun j => inBit (xs.map some) i (0 + j)) = xs[i].bit := by
    funext j; unfold inBit; rw [hget]; simp
  rw [this, tab_bit_self]

/-! ## Node_Multiplexer, Node_PriorityConditional on fully defined control inputs -/

theorem copyIn_some_self (v : BV4) : copyIn v.length (some v) = v := by simp [copyIn, tab_bit_self]

theorem evalMux_defined (w : Nat) (sel : BV4) (data : List BV4) (hsel : sel.allDef = true) (hw : ∀ v ∈ data, v.length = w) :
    evalMux w (some sel :: data.map some) = Spec.select w data sel.toNat := by
  unfold evalMux Spec.select
  simp only [hsel, Bool.not_true, Bool.false_eq_true, if_false, List.length_map]
  by_cases h : sel.toNat ≥ data.length
  · rw [if_pos h, List.getElem?_eq_none h]; rfl
  · rw [if_neg h]
    have hlt : sel.toNat < data.length := by omega
    rw [List.getElem?_eq_getElem hlt]
    simp only [Option.getD_some, List.getD_eq_getElem?_getD, List.getElem?_map, List.getElem?_eq_getElem hlt, Option.map_some]
    rw [← hw _ (List.getElem_mem hlt)]
    exact copyIn_some_self _

def flattenPairs : List (BV4 × BV4) → Ins
  | [] => []
  | (c, v) :: rest => some c :: some v :: flattenPairs rest

theorem prioGo_defined (w : Nat) (dflt : BV4) (choices : List (BV4 × BV4)) (hd : dflt.length = w)
    (hc : ∀ p ∈ choices, (p.1.bit 0).isDef = true ∧ p.2.length = w) :
    prioGo w (some dflt) (flattenPairs choices) = Spec.prio dflt choices := by
  induction choices with
  | nil => simp [flattenPairs, prioGo, Spec.prio, ← hd, copyIn_some_self]
  | cons p rest ih =>
    obtain ⟨c, v⟩ := p
    have hp := hc (c, v) (List.mem_cons_self ..)
    simp only [flattenPairs, prioGo, Spec.prio]
    have hrest := ih (fun q hq => hc q (List.mem_cons_of_mem _ hq))
    cases hb : c.bit 0 with
    | x => rw [hb] at hp; simp [B4.isDef] at hp
    | t => simp only [if_true]; rw [← hp.2]; exact copyIn_some_self _
    | f => simp only [reduceCtorEq, if_false]; exact hrest

end Gatery.Nodes
