import GateryModel.C03.Frontend
/-!
# C03 — the mathematical definitions the operators are compared with

Operands are fully defined bit vectors, read as naturals (`toNat`), two's-complement integers (`toInt`)
or lists of bits.  A result is a `BV4` in which `x` means *the definition leaves this bit open*
(division by zero, a multiplexer index that selects nothing, a dynamic slice beyond the source).
`none` = the operator instance is ill-formed (the frontend is expected to reject it).

Core Lean only (the driver evaluates these on every generated case).
-/
namespace Gatery.C03.Spec
open Gatery.Nodes BV4

/-- bits as booleans -/
def bools (a : BV4) : List Bool := a.map B4.val
def ofBools (l : List Bool) : BV4 := l.map B4.ofBool

/-- extension to `w ≥ length` bits: zero, one or sign fill; `none` policy only if nothing has to be added -/
def extend (pol : Pol) (a : BV4) (w : Nat) : Option BV4 :=
  if a.length > w then none
  else if a.length = w then some a
  else match pol with
    | .none => none
    | .zero => some (a ++ List.replicate (w - a.length) .f)
    | .one => some (a ++ List.replicate (w - a.length) .t)
    | .sign => if a.length = 0 then none else some (a ++ List.replicate (w - a.length) (a.bit (a.length - 1)))

/-- both operands brought to the larger width -/
def norm (pa pb : Pol) (a b : BV4) : Option (BV4 × BV4 × Nat) := do
  let w := max a.length b.length
  let a' ← extend pa a w
  let b' ← extend pb b w
  pure (a', b', w)

/-! ## arithmetic modulo `2^w` -/
def add (w : Nat) (a b : BV4) : BV4 := ofNat w (a.toNat + b.toNat)
def sub (w : Nat) (a b : BV4) : BV4 := ofInt w ((a.toNat : Int) - b.toNat)
def mul (w : Nat) (a b : BV4) : BV4 := ofNat w (a.toNat * b.toNat)
/-- quotient and remainder are defined for a non-zero divisor only -/
def div (w : Nat) (a b : BV4) : BV4 := if b.toNat = 0 then undef w else ofNat w (a.toNat / b.toNat)
def rem (w : Nat) (a b : BV4) : BV4 := if b.toNat = 0 then undef w else ofNat w (a.toNat % b.toNat)
/-- signed product: the product of the two's-complement readings, modulo `2^w` -/
def smul (w : Nat) (a b : BV4) : BV4 := ofInt w (a.toInt * b.toInt)
def sabs (a : BV4) : BV4 := ofNat a.length a.toInt.natAbs
def add3 (w : Nat) (a b c : BV4) : BV4 := ofNat w (a.toNat + b.toNat + c.toNat)

def arith (op : ArithOp) (w : Nat) (a b : BV4) : BV4 :=
  match op with
  | .ADD => add w a b | .SUB => sub w a b | .MUL => mul w a b | .DIV => div w a b | .REM => rem w a b

/-! ## bitwise -/
def boolOp : LogicOp → Bool → Bool → Bool
  | .AND, p, q => p && q | .NAND, p, q => !(p && q) | .OR, p, q => p || q | .NOR, p, q => !(p || q)
  | .XOR, p, q => p ^^ q | .EQ, p, q => !(p ^^ q) | .NOT, p, _ => !p

/-- bit `i` of the result is the boolean function of bit `i` of the operands -/
def bitwise (op : LogicOp) (a b : BV4) : BV4 := tab a.length fun i => B4.ofBool (boolOp op (a.bit i).val (b.bit i).val)
def bnot (a : BV4) : BV4 := tab a.length fun i => B4.ofBool (!(a.bit i).val)

/-! ## comparisons: the order on ℕ (unsigned) and on ℤ (signed) -/
def cmpInt (op : CmpOp) (l r : Int) : Bool :=
  match op with
  | .EQ => l == r | .NEQ => l != r | .LT => decide (l < r) | .GT => decide (l > r)
  | .LEQ => decide (l ≤ r) | .GEQ => decide (l ≥ r)

def ucmp (op : CmpOp) (a b : BV4) : BV4 := [B4.ofBool (cmpInt op a.toNat b.toNat)]
def scmp (op : CmpOp) (a b : BV4) : BV4 := [B4.ofBool (cmpInt op a.toInt b.toInt)]

/-! ## shifts and rotates on lists of bits (LSB first); every amount is meaningful -/

/-- towards the MSB: `amount` fill bits enter at the LSB end; result bit `i` is source bit `i - amount` -/
def shiftLeft (fillBit : B4) (a : BV4) (amount : Nat) : BV4 :=
  tab a.length fun i => if i < amount then fillBit else a.bit (i - amount)
/-- towards the LSB: `amount` fill bits enter at the MSB end; result bit `i` is source bit `i + amount` -/
def shiftRight (fillBit : B4) (a : BV4) (amount : Nat) : BV4 :=
  tab a.length fun i => if i + amount < a.length then a.bit (i + amount) else fillBit
/-- rotation towards the MSB: result bit `(i + amount) mod w` is source bit `i` -/
def rotLeft (a : BV4) (amount : Nat) : BV4 :=
  tab a.length fun i => a.bit ((i + (a.length - amount % a.length)) % a.length)
/-- rotation towards the LSB: result bit `i` is source bit `(i + amount) mod w` -/
def rotRight (a : BV4) (amount : Nat) : BV4 :=
  tab a.length fun i => a.bit ((i + amount) % a.length)

/-- the fill bit of each mode: `last` duplicates the bit next to the vacated end (LSB for left, MSB for right shifts) -/
def fillOf (dir : Dir) (fill : Fill) (a : BV4) : B4 :=
  match fill with
  | .zero => .f | .one => .t | .rotate => .f
  | .last => if a.length = 0 then .f else match dir with
      | .left => a.bit 0
      | .right => a.bit (a.length - 1)

def shift (dir : Dir) (fill : Fill) (a : BV4) (amount : Nat) : BV4 :=
  match dir, fill with
  | .left, .rotate => rotLeft a amount
  | .right, .rotate => rotRight a amount
  | .left, f => shiftLeft (fillOf .left f a) a amount
  | .right, f => shiftRight (fillOf .right f a) a amount

/-! ## structure -/
/-- `w` bits starting at `off`; bits beyond the end of the source are open -/
def slice (a : BV4) (off w : Nat) : BV4 := tab w fun i => a.bit (off + i)
def sliceOpen (a : BV4) (off w : Nat) : BV4 := slice a off w
def concat (xs : List BV4) : BV4 := xs.flatten
/-- `ins[sel]`, open when the index selects nothing -/
def select (w : Nat) (table : List BV4) (sel : Nat) : BV4 := (table[sel]?).getD (undef w)
/-- the value of the first choice whose condition is 1, else the default -/
def prio (dflt : BV4) : List (BV4 × BV4) → BV4
  | [] => dflt
  | (c, v) :: rest => if c.bit 0 = .t then v else prio dflt rest

/-- sequential program `x = d; if sel = k₁ then x = a₁; if sel = k₂ then x = a₂; …`: the last matching assignment wins -/
def ifChain (sel d : BV4) (steps : List (Nat × BV4)) : BV4 :=
  steps.foldl (fun x (ka : Nat × BV4) => if sel.toNat = ka.1 then ka.2 else x) d
/-- `x = d; if c₁ then x = a₁; if c₂ then x = a₂; …` -/
def ifPrio (d : BV4) (steps : List (BV4 × BV4)) : BV4 :=
  steps.foldl (fun x (ca : BV4 × BV4) => if ca.1.bit 0 = .t then ca.2 else x) d

/-! ## literals: `[width] base digits`, most significant digit first; `x` digits are undefined -/
def digitVal (c : Char) : Option Nat :=
  if c.isDigit then some (c.toNat - '0'.toNat)
  else if 'a' ≤ c ∧ c ≤ 'f' then some (c.toNat - 'a'.toNat + 10)
  else if 'A' ≤ c ∧ c ≤ 'F' then some (c.toNat - 'A'.toNat + 10)
  else none

/-- bits of a power-of-two-base literal, LSB first -/
def digitsBits (bps : Nat) (digits : List Char) : BV4 :=
  digits.reverse.flatMap fun c => match digitVal c with
    | some d => ofNat bps d
    | none => undef bps

/-- a one-character bit literal: `0`, `1`, or `x`/`X` for undefined; nothing else is a bit -/
def bitLiteral (c : Char) : Option BV4 :=
  if c == '0' then some [.f] else if c == '1' then some [.t] else if c == 'x' || c == 'X' then some [.x] else none

/-- value of a literal `[width] (b|o|x|d) digits`: the digits' bits, zero-extended to the stated width; ill-formed if the
    stated width (when present and non-zero) is too small -/
def literal (s : String) : Option BV4 :=
  let cs := s.toList
  let wd := cs.takeWhile Char.isDigit
  let rest := cs.dropWhile Char.isDigit
  let width? : Option Nat := if wd.isEmpty then none else let w := (String.ofList wd).toNat!; if w = 0 then none else some w
  let natural : Option BV4 :=
    match rest with
    | 'b' :: ds => some (digitsBits 1 ds)
    | 'o' :: ds => some (digitsBits 3 ds)
    | 'x' :: ds => some (digitsBits 4 ds)
    | 'd' :: ds =>
      let n := ds.foldl (fun a c => a * 10 + (c.toNat - '0'.toNat)) 0
      some (ofNat (if n = 0 then 0 else Nat.log2 n + 1) n)
    | _ => none
  natural.bind fun bits =>
    match width? with
    | none => some bits
    | some w => if w < bits.length then none else some (bits ++ List.replicate (w - bits.length) .f)

end Gatery.C03.Spec
