import GateryModel.C04.ClockLemmas
/-!
# C04 — the clock invariant holds after the set-up part of `powerOn`; consequences for edge and activation times
-/
namespace Gatery.C04
open Gatery.Sched
variable {π : Type}

/-- the set-up of one reset pin only appends reset events / reset log entries -/
theorem initReset_queue_log (P : Prog) (s : Sim π) (rp : Nat) (r : RstPinDecl) :
    (∃ evs, (initReset P s rp r).queue = s.queue ++ evs ∧ ∀ x ∈ evs, x.type = .resetValueChange) ∧
    (∀ p, clockLog p (initReset P s rp r).log = clockLog p s.log) := by
  unfold initReset
  simp only
  split
  · refine ⟨⟨[], by simp [Sim.addLog], by simp⟩, fun p => ?_⟩
    simp [Sim.addLog, clockLog_cons]
  · refine ⟨⟨[_], rfl, by simp⟩, fun p => ?_⟩
    simp [Sim.addLog, Sim.push, clockLog_cons]

theorem initFold_queue_log (P : Prog) (l : List Nat) (s : Sim π) :
    (∃ evs, (l.foldl (fun s rp => initReset P s rp (P.rstPins.getD rp default)) s).queue = s.queue ++ evs ∧
        ∀ x ∈ evs, x.type = .resetValueChange) ∧
    (∀ p, clockLog p (l.foldl (fun s rp => initReset P s rp (P.rstPins.getD rp default)) s).log = clockLog p s.log) := by
  induction l generalizing s with
  | nil => exact ⟨⟨[], by simp, by simp⟩, fun _ => rfl⟩
  | cons a l ih =>
    simp only [List.foldl_cons]
    obtain ⟨⟨e1, hq1, he1⟩, hl1⟩ := initReset_queue_log P s a (P.rstPins.getD a default)
    obtain ⟨⟨e2, hq2, he2⟩, hl2⟩ := ih (initReset P s a (P.rstPins.getD a default))
    refine ⟨⟨e1 ++ e2, by rw [hq2, hq1, List.append_assoc], ?_⟩, fun p => by rw [hl2, hl1]⟩
    intro x hx
    rcases List.mem_append.1 hx with hx | hx
    · exact he1 x hx
    · exact he2 x hx

/-- `mapIdx` producing events whose `pin` is their index (+ offset): exactly one is a trigger of pin `p` -/
theorem filter_mapIdx_pin {α : Type} (l : List α) (f : Nat → α → Event) (k p : Nat)
    (hf : ∀ i x, (f i x).pin = k + i ∧ (f i x).type = .clockPinTrigger) :
    (l.mapIdx f).filter (isTrig p) = if h : k ≤ p ∧ p - k < l.length then [f (p - k) (l[p - k]'h.2)] else [] := by
  induction l generalizing f k with
  | nil => simp
  | cons a l ih =>
    rw [List.mapIdx_cons, List.filter_cons]
    have ih' := ih (fun i => f (i+1)) (k+1) (fun i x => by
      have := hf (i+1) x; exact ⟨by omega, this.2⟩)
    rw [ih']
    have h0 := hf 0 a
    by_cases hp : p = k
    · subst hp
      have : isTrig p (f 0 a) = true := by simp [isTrig, h0.1, h0.2]
      rw [if_pos this, dif_neg (by omega), dif_pos ⟨Nat.le_refl _, by simp⟩]
      simp
    · have : isTrig p (f 0 a) = false := by
        simp [isTrig, h0.1, h0.2]; omega
      rw [this]
      simp only [Bool.false_eq_true, if_false]
      by_cases hc : k + 1 ≤ p ∧ p - (k + 1) < l.length
      · rw [dif_pos hc, dif_pos ⟨by omega, by simp; omega⟩]
        have e1 : p - k = (p - (k+1)) + 1 := by omega
        simp [e1]
      · rw [dif_neg hc, dif_neg (by simp; omega)]

theorem initClockEvents_trig (P : Prog) (p : Nat) (hp : p < P.pins.length) :
    (initClockEvents P).filter (isTrig p) = [trigEv P p 1] := by
  unfold initClockEvents
  rw [filter_mapIdx_pin _ _ 0 p (fun i x => ⟨by simp, rfl⟩)]
  rw [dif_pos ⟨Nat.zero_le _, by simpa using hp⟩]
  simp only [Nat.sub_zero, trigEv, edgeFlag, srcRising, halfPeriod, Prog.pinFreq]
  have hg : P.pins.getD p default = P.pins[p] := by simp [List.getD_eq_getElem?_getD, hp]
  rw [hg]
  have : (0 : Rat) + 1 / 2 / P.pins[p].freq = ((1 : Nat) : Rat) * (1 / 2 / P.pins[p].freq) := by grind
  rw [this]
  simp

theorem initClockEvents_vc (P : Prog) (p : Nat) : (initClockEvents P).filter (isVC p) = [] := by
  apply List.filter_eq_nil_iff.2
  intro x hx
  unfold initClockEvents at hx
  obtain ⟨i, _, rfl⟩ := List.mem_mapIdx.1 hx
  simp [isVC]

theorem initClockEvents_pin (P : Prog) : ∀ e ∈ initClockEvents P, e.pin < P.pins.length := by
  intro x hx
  unfold initClockEvents at hx
  obtain ⟨i, hi, rfl⟩ := List.mem_mapIdx.1 hx
  exact hi

theorem ClockInv.init (P : Prog) (pins0 : List Val) (ext : π) : ClockInv P (initState P pins0 ext) := by
  unfold initState
  have hq0 : (initState0 P pins0 ext).queue = initClockEvents P := rfl
  have hl0 : (initState0 P pins0 ext).log = [] := rfl
  generalize initState0 P pins0 ext = s0 at hq0 hl0 ⊢
  obtain ⟨⟨evs, hq, hev⟩, hl⟩ := initFold_queue_log P (List.range P.rstPins.length) s0
  have hevT : ∀ p, evs.filter (isTrig p) = [] := fun p =>
    List.filter_eq_nil_iff.2 fun x hx => by simp [isTrig, hev x hx]
  have hevV : ∀ p, evs.filter (isVC p) = [] := fun p =>
    List.filter_eq_nil_iff.2 fun x hx => by simp [isVC, hev x hx]
  refine ⟨fun p hp => ⟨0, ?_, Or.inl ⟨?_, ?_⟩⟩, ?_⟩
  · rw [hl, hl0]; simp [clockLog, edgeList]
  · rw [hq, hq0, List.filter_append, hevT, initClockEvents_trig P p hp]; simp
  · rw [hq, hq0, List.filter_append, hevV, initClockEvents_vc]; simp
  · intro e he ht
    rw [hq, hq0] at he
    rcases List.mem_append.1 he with he | he
    · exact initClockEvents_pin P e he
    · rcases ht with ht | ht <;> rw [hev e he] at ht <;> cases ht

/-- the clock invariant holds in every state reachable from power-on by steps of the event loop -/
theorem ClockInv.reachable {P : Prog} {S : ProcSem π} (hwf : WF P) (hS : S.Lawful) (pins0 : List Val) (ext : π)
    {s : Sim π} (h : Steps P S (initState P pins0 ext) s) : ClockInv P s :=
  Steps.induct (fun _ _ ha st => ClockInv.step hwf hS ha st) h (ClockInv.init P pins0 ext)

end Gatery.C04

namespace Gatery.C04
open Gatery.Sched
variable {π : Type}

/-! ### from edges to activations -/

theorem halfPeriod_mul_even (P : Prog) (p k : Nat) :
    ((2 * (k+1) : Nat) : Rat) * halfPeriod P p = ((k+1 : Nat) : Rat) / P.pinFreq p := by
  unfold halfPeriod
  rw [Rat.div_def, Rat.div_def]
  have : ((2 * (k+1) : Nat) : Rat) = 2 * ((k+1 : Nat) : Rat) := by grind
  rw [this]; grind

theorem halfPeriod_mul (P : Prog) (p k : Nat) :
    ((k+1 : Nat) : Rat) * halfPeriod P p = ((k+1 : Nat) : Rat) / (2 * P.pinFreq p) := by
  unfold halfPeriod
  rw [Rat.div_def, Rat.div_def, Rat.div_def]
  by_cases h : P.pinFreq p = 0
  · simp [h]
  · have : (2 * P.pinFreq p)⁻¹ = 2⁻¹ * (P.pinFreq p)⁻¹ := by grind
    rw [this]; grind

theorem activates_edgeFlag_aligned {P : Prog} {p : Nat} {trig : Trigger} (ha : edgeAligned (srcRising P p) trig = true)
    (hb : trig ≠ .both) (j : Nat) : trig.activates (edgeFlag P p j) = decide (j % 2 = 0) := by
  unfold edgeFlag
  cases trig <;> simp [edgeAligned] at ha <;> simp [Trigger.activates, ha] at * <;>
    (by_cases h : j % 2 = 1 <;> simp [h] <;> omega)

theorem activates_edgeFlag_anti {P : Prog} {p : Nat} {trig : Trigger} (ha : edgeAligned (srcRising P p) trig = false)
    (j : Nat) : trig.activates (edgeFlag P p j) = decide (j % 2 = 1) := by
  unfold edgeFlag
  cases trig <;> simp [edgeAligned] at ha <;> simp [Trigger.activates, ha] at * <;>
    (by_cases h : j % 2 = 1 <;> simp [h])

def actOf (P : Prog) (p : Nat) (trig : Trigger) (n : Nat) : List Time :=
  ((edgeList P p n).filter fun x => trig.activates x.1).map (·.2)

theorem actOf_succ (P : Prog) (p : Nat) (trig : Trigger) (n : Nat) :
    actOf P p trig (n+1) = actOf P p trig n ++
      (if trig.activates (edgeFlag P p (n+1)) then [((n+1 : Nat) : Rat) * halfPeriod P p] else []) := by
  unfold actOf
  rw [edgeList_succ, List.filter_append, List.map_append]
  congr 1
  by_cases h : trig.activates (edgeFlag P p (n+1)) = true <;> simp [h]

/-- dual-edge clock: every edge activates -/
theorem actOf_both (P : Prog) (p n : Nat) :
    actOf P p .both n = (List.range n).map fun k => ((k+1 : Nat) : Rat) * halfPeriod P p := by
  induction n with
  | zero => simp [actOf, edgeList]
  | succ n ih => rw [actOf_succ, ih, List.range_succ, List.map_append]; simp [Trigger.activates]

/-- single-edge clock whose edge is aligned with its pin: the even edges activate -/
theorem actOf_aligned {P : Prog} {p : Nat} {trig : Trigger} (ha : edgeAligned (srcRising P p) trig = true) (hb : trig ≠ .both)
    (n : Nat) : actOf P p trig n = (List.range (n / 2)).map fun k => ((2 * (k+1) : Nat) : Rat) * halfPeriod P p := by
  induction n with
  | zero => simp [actOf, edgeList]
  | succ n ih =>
    rw [actOf_succ, ih, activates_edgeFlag_aligned ha hb]
    by_cases h : (n+1) % 2 = 0
    · have e : (n+1) / 2 = n / 2 + 1 := by omega
      have e2 : n + 1 = 2 * (n / 2 + 1) := by omega
      rw [e, List.range_succ, List.map_append]
      simp only [h, decide_true, if_true, List.map_cons, List.map_nil]
      rw [← e2]
    · have e : (n+1) / 2 = n / 2 := by omega
      rw [e]; simp [h]

/-- single-edge clock on a pin whose other edge is the aligned one: the odd edges activate -/
theorem actOf_anti {P : Prog} {p : Nat} {trig : Trigger} (ha : edgeAligned (srcRising P p) trig = false)
    (n : Nat) : actOf P p trig n = (List.range ((n+1) / 2)).map fun k => ((2 * k + 1 : Nat) : Rat) * halfPeriod P p := by
  induction n with
  | zero => simp [actOf, edgeList]
  | succ n ih =>
    rw [actOf_succ, ih, activates_edgeFlag_anti ha]
    by_cases h : (n+1) % 2 = 1
    · have e : (n+1+1) / 2 = (n+1) / 2 + 1 := by omega
      have e2 : n + 1 = 2 * ((n+1) / 2) + 1 := by omega
      rw [e, List.range_succ, List.map_append]
      simp only [h, decide_true, if_true, List.map_cons, List.map_nil]
      rw [← e2]
    · have e : (n+1+1) / 2 = (n+1) / 2 := by omega
      rw [e]; simp [h]

end Gatery.C04
