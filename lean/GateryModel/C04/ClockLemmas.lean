import GateryModel.C04.Defs
/-!
# C04 — the clock invariant: trigger events are generated at exactly `j · (1/2)/f`, whatever else is queued
-/
namespace Gatery.C04
open Gatery.Sched
variable {π : Type}

/-- for every clock pin: the logged edges are the first `n` ideal edges, exactly one trigger event is queued (the next one), and a
    value-change event is queued exactly when the trigger has been handled but the edge not yet. -/
structure ClockInv (P : Prog) (s : Sim π) : Prop where
  pins : ∀ p, p < P.pins.length → ∃ n, clockLog p s.log = edgeList P p n ∧
      ((s.queue.filter (isTrig p) = [trigEv P p (n+1)] ∧ s.queue.filter (isVC p) = []) ∨
       (s.queue.filter (isTrig p) = [trigEv P p (n+2)] ∧ s.queue.filter (isVC p) = [vcEv P p (n+1)]))
  stray : ∀ e ∈ s.queue, (e.type = .clockPinTrigger ∨ e.type = .clockValueChange) → e.pin < P.pins.length

theorem isTrig_hw {p : Nat} {e : Event} (h : isTrig p e = true) : isHw e = true := by
  simp [isTrig] at h; simp [isHw, h.1]
theorem isVC_hw {p : Nat} {e : Event} (h : isVC p e = true) : isHw e = true := by
  simp [isVC] at h; simp [isHw, h.1]

theorem filter_hw_of {f : Event → Bool} (hf : ∀ e, f e = true → isHw e = true) (q : List Event) :
    (hwQueue q).filter f = q.filter f := by
  simp only [hwQueue, List.filter_filter]
  apply List.filter_congr
  intro e _
  cases h : f e with
  | false => simp
  | true => simp [hf e h]

theorem filter_eq_of_hwq {f : Event → Bool} (hf : ∀ e, f e = true → isHw e = true) {q q' : List Event}
    (h : hwQueue q' = hwQueue q) : q'.filter f = q.filter f := by
  rw [← filter_hw_of hf q', ← filter_hw_of hf q, h]

theorem clockLog_hw (p : Nat) (l : List LogEntry) : clockLog p (hwLog l) = clockLog p l := by
  simp only [clockLog, hwLog]
  rw [← List.filter_reverse, List.filterMap_filter]
  congr 1
  funext x
  cases x <;> simp [isHwLog]

theorem clockLog_eq_of_hwlog {p : Nat} {l l' : List LogEntry} (h : hwLog l' = hwLog l) : clockLog p l' = clockLog p l := by
  rw [← clockLog_hw p l', ← clockLog_hw p l, h]

theorem clockLog_cons (p : Nat) (x : LogEntry) (l : List LogEntry) :
    clockLog p (x :: l) = clockLog p l ++ (match x with
      | .clock p' r t => if p' = p then [(r, t)] else []
      | _ => []) := by
  simp only [clockLog, List.reverse_cons, List.filterMap_append]
  congr 1
  cases x <;> simp
  split <;> simp_all

theorem edgeList_succ (P : Prog) (p n : Nat) :
    edgeList P p (n+1) = edgeList P p n ++ [(edgeFlag P p (n+1), ((n+1 : Nat) : Rat) * halfPeriod P p)] := by
  simp [edgeList, List.range_succ]

theorem mem_of_filter_eq_singleton {f : Event → Bool} {q : List Event} {x e : Event}
    (h : q.filter f = [x]) (he : e ∈ q) (hf : f e = true) : e = x := by
  have : e ∈ q.filter f := List.mem_filter.2 ⟨he, hf⟩
  rw [h] at this; simpa using this

theorem filter_erase_of_not (f : Event → Bool) (q : List Event) (e : Event) (hf : f e = false) :
    (q.erase e).filter f = q.filter f := by
  rw [← List.erase_filter]
  apply List.erase_of_not_mem
  intro h
  rw [(List.mem_filter.1 h).2] at hf; cases hf

theorem filter_erase_singleton (f : Event → Bool) (q : List Event) (e : Event) (h : q.filter f = [e]) :
    (q.erase e).filter f = [] := by
  rw [← List.erase_filter, h]; simp

theorem filter_resume_nil {f : Event → Bool} (hf : ∀ e, f e = true → isHw e = true) {evs : List Event}
    (h : ∀ x ∈ evs, x.type = .simProcResume) : evs.filter f = [] := by
  apply List.filter_eq_nil_iff.2
  intro x hx hfx
  have := hf x hfx
  simp [isHw, h x hx] at this

end Gatery.C04

namespace Gatery.C04
open Gatery.Sched
variable {π : Type}

theorem halfPeriod_pos {P : Prog} (hwf : WF P) {p : Nat} (hp : p < P.pins.length) : 0 < halfPeriod P p := by
  unfold halfPeriod
  rw [Rat.div_def]
  exact Rat.mul_pos (by grind) (Rat.inv_pos.2 (hwf.freq_pos p hp))

/-- the invariant only depends on the hardware events of the queue and the clock entries of the log -/
theorem ClockInv.transfer {P : Prog} {s s' : Sim π} (h : ClockInv P s)
    (hT : ∀ p, s'.queue.filter (isTrig p) = s.queue.filter (isTrig p))
    (hV : ∀ p, s'.queue.filter (isVC p) = s.queue.filter (isVC p))
    (hL : ∀ p, clockLog p s'.log = clockLog p s.log)
    (hS : ∀ e ∈ s'.queue, (e.type = .clockPinTrigger ∨ e.type = .clockValueChange) → e ∈ s.queue) : ClockInv P s' := by
  refine ⟨fun p hp => ?_, fun e he ht => h.stray e (hS e he ht) ht⟩
  obtain ⟨n, hl, hq⟩ := h.pins p hp
  exact ⟨n, by rw [hL, hl], by rw [hT, hV]; exact hq⟩

theorem ClockInv.of_hw {P : Prog} {s s' : Sim π} (h : ClockInv P s)
    (hq : hwQueue s'.queue = hwQueue s.queue) (hL : ∀ p, clockLog p s'.log = clockLog p s.log) : ClockInv P s' := by
  refine h.transfer (fun p => filter_eq_of_hwq (fun _ => isTrig_hw) hq) (fun p => filter_eq_of_hwq (fun _ => isVC_hw) hq) hL ?_
  intro e he ht
  have : e ∈ hwQueue s'.queue := List.mem_filter.2 ⟨he, by rcases ht with ht | ht <;> simp [isHw, ht]⟩
  rw [hq] at this
  exact (List.mem_filter.1 this).1

theorem ClockInv.of_frame {P : Prog} {s s' : Sim π} (h : ClockInv P s) (f : ProcFrame s s') : ClockInv P s' :=
  h.of_hw f.hwq fun _ => clockLog_eq_of_hwlog f.hwlog

theorem hwQueue_erase_resume (q : List Event) (e : Event) (h : e.type = .simProcResume) :
    hwQueue (q.erase e) = hwQueue q := filter_erase_of_not isHw q e (by simp [isHw, h])

theorem trig_next (P : Prog) (p n : Nat) (e : Event) (he : e = trigEv P p (n+1)) :
    ({ e with flag := !e.flag, time := e.time + (1/2) / P.pinFreq e.pin, microTick := 0 } : Event) = trigEv P p (n+2) := by
  subst he
  have ht : ((n+1 : Nat) : Rat) * halfPeriod P p + halfPeriod P p = ((n+2 : Nat) : Rat) * halfPeriod P p := by grind
  have hf : (!edgeFlag P p (n+1)) = edgeFlag P p (n+2) := by
    unfold edgeFlag
    by_cases h : (n+1) % 2 = 1
    · rw [if_pos h, if_neg (by omega)]; simp
    · rw [if_neg h, if_pos (by omega)]
  simp only [trigEv]
  rw [hf]
  show ({ type := .clockPinTrigger, time := ((n+1 : Nat) : Rat) * halfPeriod P p + halfPeriod P p, microTick := 0,
          phase := .during, pin := p, flag := edgeFlag P p (n+2), handle := 0, insertionId := 0 } : Event) = _
  rw [ht]

/-- the invariant is preserved by every step of the event loop -/
theorem ClockInv.step {P : Prog} {S : ProcSem π} (hwf : WF P) (hS : S.Lawful) {s s' : Sim π}
    (h : ClockInv P s) (st : MicroStep P S s s') : ClockInv P s' := by
  cases st with
  | reeval => exact h.of_hw rfl fun _ => rfl
  | commit =>
    obtain ⟨_, _, _, _, hq, hl⟩ := commitState_spec P S hS s
    refine h.of_hw hq fun p => ?_
    rw [← clockLog_hw, hl, clockLog_cons, clockLog_hw]; simp
  | frame _ f => exact h.of_frame f
  | setTime t => exact h.of_hw rfl fun _ => rfl
  | event e hmem htime hmin =>
    unfold processEvent
    cases hty : e.type with
    | simProcResume =>
      simp only
      have f := hS.resume P (s.dequeue e) e.handle
      refine (h.of_hw (s' := s.dequeue e) ?_ fun _ => rfl).of_frame f
      exact hwQueue_erase_resume _ _ hty
    | resetValueChange =>
      simp only
      have hnT : ∀ p, isTrig p e = false := fun p => by simp [isTrig, hty]
      have hnV : ∀ p, isVC p e = false := fun p => by simp [isVC, hty]
      refine h.transfer (fun p => ?_) (fun p => ?_) (fun p => ?_) ?_
      · simpa using filter_erase_of_not _ _ _ (hnT p)
      · simpa using filter_erase_of_not _ _ _ (hnV p)
      · rw [onResetValue_log, clockLog_cons]; simp
      · intro x hx _; exact List.mem_of_mem_erase (by simpa using hx)
    | clockValueChange =>
      simp only
      have hp0 := h.stray e hmem (Or.inr hty)
      obtain ⟨n, hl, hq⟩ := h.pins e.pin hp0
      have hVe : isVC e.pin e = true := by simp [isVC, hty]
      rcases hq with ⟨_, hV⟩ | ⟨hT, hV⟩
      · have : e ∈ s.queue.filter (isVC e.pin) := List.mem_filter.2 ⟨hmem, hVe⟩
        rw [hV] at this; cases this
      · have he : e = vcEv P e.pin (n+1) := mem_of_filter_eq_singleton hV hmem hVe
        refine ⟨fun p hp => ?_, fun x hx ht => h.stray x (List.mem_of_mem_erase (by simpa using hx)) ht⟩
        by_cases hpe : p = e.pin
        · subst hpe
          refine ⟨n+1, ?_, Or.inl ⟨?_, ?_⟩⟩
          · rw [onClockValue_log, clockLog_cons, dequeue_log, hl, edgeList_succ]
            simp only [dequeue_time, if_true]
            rw [← htime]
            conv => lhs; rw [he]
            simp [vcEv, trigEv]
          · have : isTrig e.pin e = false := by simp [isTrig, hty]
            simpa [this] using (filter_erase_of_not _ s.queue e this).trans hT
          · simpa using filter_erase_singleton _ s.queue e (by rw [hV, ← he])
        · obtain ⟨m, hl', hq'⟩ := h.pins p hp
          refine ⟨m, ?_, ?_⟩
          · rw [onClockValue_log, clockLog_cons, dequeue_log, hl']
            have : ¬ e.pin = p := fun x => hpe x.symm
            simp [this]
          · have h1 : isTrig p e = false := by simp [isTrig, hty]
            have h2 : isVC p e = false := by simp [isVC]; intro _; exact fun x => hpe x.symm
            simpa [filter_erase_of_not _ s.queue e h1, filter_erase_of_not _ s.queue e h2] using hq'
    | clockPinTrigger =>
      simp only
      have hp0 := h.stray e hmem (Or.inl hty)
      obtain ⟨n, hl, hq⟩ := h.pins e.pin hp0
      have hTe : isTrig e.pin e = true := by simp [isTrig, hty]
      have hVe : isVC e.pin e = false := by simp [isVC, hty]
      obtain ⟨_, _, _, _, hlog, _, evs, hqueue, hev⟩ := onTrigger_spec P (s.dequeue e) e
      have hevT : ∀ p, evs.filter (isTrig p) = [] := fun p => filter_resume_nil (fun _ => isTrig_hw) hev
      have hevV : ∀ p, evs.filter (isVC p) = [] := fun p => filter_resume_nil (fun _ => isVC_hw) hev
      rcases hq with ⟨hT, hV⟩ | ⟨hT, hV⟩
      · have he : e = trigEv P e.pin (n+1) := mem_of_filter_eq_singleton hT hmem hTe
        have hvc' : ({ e with type := .clockValueChange } : Event) = vcEv P e.pin (n+1) := by
          conv => lhs; rw [he]
          simp [vcEv, trigEv]
        have htr' : ({ e with flag := !e.flag, time := e.time + (1/2) / P.pinFreq e.pin, microTick := 0 } : Event)
            = trigEv P e.pin (n+2) := by
          exact trig_next P e.pin n e he
        refine ⟨fun p hp => ?_, ?_⟩
        · by_cases hpe : p = e.pin
          · subst hpe
            refine ⟨n, by rw [hlog, dequeue_log, hl], Or.inr ⟨?_, ?_⟩⟩
            · rw [hqueue, hvc', htr']
              simp only [List.filter_append, hevT, dequeue_queue, filter_erase_singleton _ s.queue e (by rw [hT, ← he])]
              simp [isTrig, vcEv, trigEv]
            · rw [hqueue, hvc', htr']
              simp only [List.filter_append, hevV, dequeue_queue, filter_erase_of_not _ s.queue e hVe, hV]
              simp [isVC, vcEv, trigEv]
          · obtain ⟨m, hl', hq'⟩ := h.pins p hp
            refine ⟨m, by rw [hlog, dequeue_log, hl'], ?_⟩
            have h1 : isTrig p e = false := by simp [isTrig]; intro _; exact fun x => hpe x.symm
            have h2 : isVC p e = false := by simp [isVC, hty]
            have hne : ¬ e.pin = p := fun x => hpe x.symm
            rw [hqueue, hvc', htr']
            simp only [List.filter_append, hevT, hevV, dequeue_queue, filter_erase_of_not _ s.queue e h1,
              filter_erase_of_not _ s.queue e h2]
            simpa [isTrig, isVC, vcEv, trigEv, hne] using hq'
        · intro x hx ht
          rw [hqueue] at hx
          simp only [List.mem_append, List.mem_cons, List.mem_singleton, List.not_mem_nil, or_false] at hx
          rcases hx with (hx | hx) | hx | hx
          · exact h.stray x (List.mem_of_mem_erase (by simpa using hx)) ht
          · have := hev x hx; rcases ht with ht | ht <;> rw [this] at ht <;> cases ht
          · rw [hx]; exact hp0
          · rw [hx]; exact hp0
      · -- a value change of this pin is still pending with a strictly smaller time: `e` is not time-minimal
        exfalso
        have he : e = trigEv P e.pin (n+2) := mem_of_filter_eq_singleton hT hmem hTe
        have hv : vcEv P e.pin (n+1) ∈ s.queue := by
          have : vcEv P e.pin (n+1) ∈ s.queue.filter (isVC e.pin) := by rw [hV]; simp
          exact (List.mem_filter.1 this).1
        apply hmin _ hv
        have hpos := halfPeriod_pos hwf hp0
        conv => rhs; rw [he]
        simp only [vcEv, trigEv]
        grind

end Gatery.C04
