import GateryModel.Sched.Frame
import GateryModel.C04.Spec
/-!
# C04 — definitions used by the invariants: well-formed programs, observation functions on the log
-/
namespace Gatery.C04
open Gatery.Sched
variable {π : Type}

/-- what `extractClockPins`/`allocateClocks` guarantee and the simulator relies on -/
structure WF (P : Prog) : Prop where
  /-- clock frequencies are positive (`boost::rational` division would throw on 0) -/
  freq_pos : ∀ p, p < P.pins.length → 0 < P.pinFreq p
  /-- a reset pin that some register listens to is held for a positive time: `getMinResetTime/Cycles` of a clock with clocked
      nodes and a reset is positive and propagates to the pin source (Clock.cpp:66-92). For such pins the `minTime == 0` branch of
      `powerOn` (ReferenceSimulator.cpp:678-688) is dead code; it is reachable only for reset pins without registers. -/
  minTime_ne : ∀ rp, (∃ i, i < P.net.regs.length ∧ (P.regDom i).rstPin = some rp) → (P.rstPins.getD rp default).minTime ≠ 0
  /-- reset pin indices are in range -/
  rstPin_lt : ∀ di rp, (P.dom di).rstPin = some rp → rp < P.rstPins.length
  /-- a clock without reset has no reset pin (`getResetPinSource` returns `nullptr`, Clock.cpp:156) -/
  rst_none : ∀ di, (P.dom di).rstType = .none → (P.dom di).rstPin = none

def srcRising (P : Prog) (p : Nat) : Bool := (P.pins.getD p default).srcRising

/-- half the period of clock pin `p` -/
def halfPeriod (P : Prog) (p : Nat) : Rat := (1/2) / P.pinFreq p

/-- level after the `j`-th edge (`j ≥ 1`) of clock pin `p`: the signal starts at `srcRising` -/
def edgeFlag (P : Prog) (p j : Nat) : Bool := if j % 2 = 1 then !srcRising P p else srcRising P p

/-- the `j`-th `clockPinTrigger` event of pin `p` -/
def trigEv (P : Prog) (p j : Nat) : Event :=
  { type := .clockPinTrigger, pin := p, flag := edgeFlag P p j, time := (j : Rat) * halfPeriod P p, microTick := 0, phase := .during }

/-- the `j`-th `clockValueChange` event of pin `p` -/
def vcEv (P : Prog) (p j : Nat) : Event := { trigEv P p j with type := .clockValueChange }

def isTrig (p : Nat) (e : Event) : Bool := e.type = .clockPinTrigger && e.pin = p
def isVC (p : Nat) (e : Event) : Bool := e.type = .clockValueChange && e.pin = p

/-- the `onClock` observations of pin `p` in chronological order: (new level, time) -/
def clockLog (p : Nat) (log : List LogEntry) : List (Bool × Time) :=
  log.reverse.filterMap fun
    | .clock p' r t => if p' = p then some (r, t) else none
    | _ => none

/-- the first `n` edges of an ideal clock signal on pin `p` -/
def edgeList (P : Prog) (p n : Nat) : List (Bool × Time) :=
  (List.range n).map fun j => (edgeFlag P p (j+1), ((j+1 : Nat) : Rat) * halfPeriod P p)

/-- times at which a clock with trigger `trig` connected to pin `p` activated its registers, in chronological order -/
def activationTimes (p : Nat) (trig : Trigger) (log : List LogEntry) : List Time :=
  ((clockLog p log).filter fun x => trig.activates x.1).map (·.2)

/-- current level of the reset signal of a domain (`false` if it has none) -/
def level (s : Sim π) (d : DomainDecl) : Bool :=
  match d.rstPin with
  | some rp => s.resetHigh.getD rp false
  | none => false

/-- all registers hold latched copies of their current inputs (the state right after `reevaluate`) -/
def Latched (P : Prog) (s : Sim π) : Prop :=
  ∀ i (h : i < s.regs.length),
    s.regs[i].intData = (P.net.dataIn s.outs s.pins i).getD (.undef (P.reg i).width) ∧
    s.regs[i].intEn = (P.net.enIn s.outs s.pins i).getD .one

end Gatery.C04
