import GateryModel.C04.RegInit
import GateryModel.C04.ClockInit
/-!
# C04 — main lemmas behind the property theorems
-/
namespace Gatery.C04
open Gatery.Sched
variable {π : Type}

/-! ### (a) what one event does to one register -/

theorem advance_out_spec {P : Prog} (hwf : WF P) {s : Sim π} (hinv : RegInv P s) (i : Nat) (hi : i < s.regs.length) :
    (Reg.advance (P.reg i) (P.regDom i) s.regs[i]).out =
      specEdge (P.reg i).rst (P.reg i).width (specInReset (P.reg i) (P.regDom i) (level s (P.regDom i)))
        s.regs[i].intEn s.regs[i].intData s.regs[i].out := by
  have hir := hinv.inReset i hi
  have hah := hinv.asyncHeld i hi
  unfold Reg.advance specEdge
  rw [← hir]
  by_cases c : s.regs[i].inReset = true
  · rw [if_pos c, if_pos c]
    have hsome : (P.reg i).rst.isSome = true := by
      rw [hir] at c; simp only [specInReset, Bool.and_eq_true] at c; exact c.1.1
    obtain ⟨v, hv⟩ := Option.isSome_iff_exists.1 hsome
    cases hrt : (P.regDom i).rstType with
    | sync => simp [writeResetValue_out_some _ _ _ v hv, hv]
    | async =>
      have := hah c hrt
      rw [hv] at this
      simp [hv]; exact (Option.some.inj this)
    | none =>
      exfalso
      have hn := hwf.rst_none (P.reg i).dom hrt
      rw [hir] at c
      simp only [specInReset, Bool.and_eq_true] at c
      have : (P.regDom i).rstPin = none := hn
      rw [this] at c; simp at c
  · rw [if_neg c, if_neg c]
    cases s.regs[i].intEn <;> rfl

theorem resetChange_out (d : RegDecl) (dom : DomainDecl) (lvl : Bool) (r : RegState) :
    (Reg.resetChange d dom lvl r).out =
      if dom.rstType = .async ∧ ((lvl == dom.activeHigh) && d.rst.isSome) = true then d.rst.getD r.out else r.out := by
  unfold Reg.resetChange
  simp only [bool_ne_not]
  by_cases c : ((lvl == dom.activeHigh) && d.rst.isSome) = true
  · by_cases a : dom.rstType = .async
    · have hsome : d.rst.isSome = true := by simp only [Bool.and_eq_true] at c; exact c.2
      obtain ⟨v, hv⟩ := Option.isSome_iff_exists.1 hsome
      rw [if_pos (by simp [c, a]), if_pos ⟨a, c⟩, writeResetValue_out_some _ _ _ v hv, hv]; rfl
    · rw [if_neg (by simp [a]), if_neg (fun x => a x.1)]
  · rw [if_neg (by simp [c]), if_neg (fun x => c x.2)]

/-- **reg_step**: the output of register `i` after the simulator handled event `e`:
    at an activating edge of its own clock `specEdge` of the latched input/enable (reset value while the reset signal is at the
    active level — for synchronous *and* asynchronous reset), at an event that drives the reset signal of its clock to the active
    level the reset value if the reset is asynchronous, unchanged in every other case. -/
theorem reg_step {P : Prog} {S : ProcSem π} (hwf : WF P) (hS : S.Lawful) {s : Sim π} (hinv : RegInv P s)
    (e : Event) (i : Nat) (hi : i < s.regs.length) :
    ∃ h' : i < (processEvent P S (s.dequeue e) e).regs.length,
    (processEvent P S (s.dequeue e) e).regs[i].out =
      if e.type = .clockValueChange ∧ (P.regDom i).pin = e.pin ∧ (P.regDom i).trig.activates e.flag = true then
        specEdge (P.reg i).rst (P.reg i).width (specInReset (P.reg i) (P.regDom i) (level s (P.regDom i)))
          s.regs[i].intEn s.regs[i].intData s.regs[i].out
      else if e.type = .resetValueChange ∧ (P.regDom i).rstPin = some e.pin ∧ (P.regDom i).rstType = .async ∧
          specInReset (P.reg i) (P.regDom i) e.flag = true then
        (P.reg i).rst.getD s.regs[i].out
      else s.regs[i].out := by
  obtain ⟨h', hreg⟩ := out_after_event P S hS s e i hi
  refine ⟨h', ?_⟩
  rw [hreg]
  by_cases c1 : e.type = .clockValueChange ∧ (P.regDom i).pin = e.pin ∧ (P.regDom i).trig.activates e.flag = true
  · rw [if_pos c1, if_pos c1]; exact advance_out_spec hwf hinv i hi
  · rw [if_neg c1, if_neg c1]
    by_cases c2 : e.type = .resetValueChange ∧ (P.regDom i).rstPin = some e.pin
    · rw [if_pos c2, resetChange_out]
      have hspec : specInReset (P.reg i) (P.regDom i) e.flag = ((e.flag == (P.regDom i).activeHigh) && (P.reg i).rst.isSome) := by
        simp only [specInReset, c2.2]; cases (P.reg i).rst.isSome <;> simp
      rw [← hspec]
      by_cases c3 : (P.regDom i).rstType = .async ∧ specInReset (P.reg i) (P.regDom i) e.flag = true
      · rw [if_pos c3, if_pos ⟨c2.1, c2.2, c3.1, c3.2⟩]
      · rw [if_neg c3, if_neg (fun x => c3 ⟨x.2.2.1, x.2.2.2⟩)]
    · rw [if_neg c2, if_neg (fun x => c2 ⟨x.1, x.2.1⟩)]

/-- every step of the event loop other than handling an event leaves all registers' outputs alone -/
theorem outs_of_nonevent {P : Prog} {S : ProcSem π} (hS : S.Lawful) {s s' : Sim π} (st : MicroStep P S s s')
    (hne : ∀ e, e ∈ s.queue → s' ≠ processEvent P S (s.dequeue e) e) : s'.outs = s.outs := by
  cases st with
  | reeval => exact reevaluate_outs P s
  | commit => simp only [Sim.outs, (commitState_spec P S hS s).2.1]
  | frame _ f => simp only [Sim.outs, f.regs]
  | setTime t => rfl
  | event e hmem _ _ => exact absurd rfl (hne e hmem)

/-- **a register changes only at an activating edge of its own clock or at an asynchronous-reset event of its own reset**:
    if a step of the event loop changes the output of register `i`, the step handled an event of the current simulation time that is
    either a value change of the clock pin of `i`'s clock with an edge that clock triggers on, or a change of the reset signal of
    `i`'s clock to its active level with asynchronous reset type. -/
theorem out_changes_only_at_own_events {P : Prog} {S : ProcSem π} (hwf : WF P) (hS : S.Lawful) {s s' : Sim π}
    (hinv : RegInv P s) (st : MicroStep P S s s') (i : Nat) (hi : i < s.regs.length)
    (hch : s'.outs.getD i default ≠ s.outs.getD i default) :
    ∃ e ∈ s.queue, e.time = s.time ∧ s' = processEvent P S (s.dequeue e) e ∧
      ((e.type = .clockValueChange ∧ (P.regDom i).pin = e.pin ∧ (P.regDom i).trig.activates e.flag = true) ∨
       (e.type = .resetValueChange ∧ (P.regDom i).rstPin = some e.pin ∧ (P.regDom i).rstType = .async ∧
          specInReset (P.reg i) (P.regDom i) e.flag = true)) := by
  cases st with
  | reeval => exact absurd (by rw [reevaluate_outs]) hch
  | commit => exact absurd (by simp only [Sim.outs, (commitState_spec P S hS s).2.1]) hch
  | frame _ f => exact absurd (by simp only [Sim.outs, f.regs]) hch
  | setTime t => exact absurd rfl hch
  | event e hmem htime hmin =>
    refine ⟨e, hmem, htime, rfl, ?_⟩
    obtain ⟨h', hout⟩ := reg_step hwf hS hinv e i hi
    have e1 : (processEvent P S (s.dequeue e) e).outs.getD i default = (processEvent P S (s.dequeue e) e).regs[i].out := by
      simp [Sim.outs, List.getD_eq_getElem?_getD, h']
    have e2 : s.outs.getD i default = s.regs[i].out := by
      simp [Sim.outs, List.getD_eq_getElem?_getD, hi]
    rw [e1, e2, hout] at hch
    by_cases c1 : e.type = .clockValueChange ∧ (P.regDom i).pin = e.pin ∧ (P.regDom i).trig.activates e.flag = true
    · exact Or.inl c1
    · rw [if_neg c1] at hch
      by_cases c2 : e.type = .resetValueChange ∧ (P.regDom i).rstPin = some e.pin ∧ (P.regDom i).rstType = .async ∧
          specInReset (P.reg i) (P.regDom i) e.flag = true
      · exact Or.inr c2
      · rw [if_neg c2] at hch; exact absurd rfl hch

/-! ### (b) two-phase update: all registers of one instant sample pre-edge values, commit order is irrelevant -/

/-- handle a list of events one after the other without re-evaluating in between (one micro tick of `advanceMicroTick`) -/
def runEvents (P : Prog) (S : ProcSem π) (s : Sim π) : List Event → Sim π
  | [] => s
  | e :: es => runEvents P S (processEvent P S (s.dequeue e) e) es

/-- register `i` is activated by clock-value-change event `e` -/
def hits (P : Prog) (i : Nat) (e : Event) : Bool :=
  decide ((P.regDom i).pin = e.pin) && (P.regDom i).trig.activates e.flag

theorem hits_iff (P : Prog) (i : Nat) (e : Event) :
    hits P i e = true ↔ (P.regDom i).pin = e.pin ∧ (P.regDom i).trig.activates e.flag = true := by
  simp [hits]

theorem runEvents_regs (P : Prog) (S : ProcSem π) (hS : S.Lawful) (evs : List Event)
    (hvc : ∀ e ∈ evs, e.type = .clockValueChange) (hnd : (evs.map (·.pin)).Nodup) (s : Sim π) (i : Nat) (hi : i < s.regs.length) :
    ∃ h' : i < (runEvents P S s evs).regs.length,
      (runEvents P S s evs).regs[i] =
        if evs.any (hits P i) = true then Reg.advance (P.reg i) (P.regDom i) s.regs[i] else s.regs[i] := by
  induction evs generalizing s with
  | nil => exact ⟨hi, by simp [runEvents]⟩
  | cons e es ih =>
    have hty := hvc e (List.mem_cons_self ..)
    obtain ⟨h1, hreg⟩ := out_after_event P S hS s e i hi
    have hnd' : (es.map (·.pin)).Nodup := (List.nodup_cons.1 (by simpa using hnd)).2
    have hnotin : e.pin ∉ es.map (·.pin) := (List.nodup_cons.1 (by simpa using hnd)).1
    obtain ⟨h2, hreg2⟩ := ih (fun x hx => hvc x (List.mem_cons_of_mem _ hx)) hnd' (processEvent P S (s.dequeue e) e) h1
    refine ⟨h2, ?_⟩
    show (runEvents P S (processEvent P S (s.dequeue e) e) es).regs[i] = _
    rw [hreg2, hreg]
    have hnr : ¬ (e.type = .resetValueChange ∧ (P.regDom i).rstPin = some e.pin) := by rw [hty]; simp
    rw [List.any_cons]
    cases c : hits P i e with
    | true =>
      have c0 := (hits_iff P i e).1 c
      have c' : e.type = .clockValueChange ∧ (P.regDom i).pin = e.pin ∧ (P.regDom i).trig.activates e.flag = true := ⟨hty, c0.1, c0.2⟩
      have hno : es.any (hits P i) = false := by
        cases hh : es.any (hits P i) with
        | false => rfl
        | true =>
          exfalso
          obtain ⟨x, hx, hxh⟩ := List.any_eq_true.1 hh
          apply hnotin
          rw [← c0.1, ((hits_iff P i x).1 hxh).1]
          exact List.mem_map_of_mem hx
      rw [hno, if_pos c']; simp
    | false =>
      have c' : ¬ (e.type = .clockValueChange ∧ (P.regDom i).pin = e.pin ∧ (P.regDom i).trig.activates e.flag = true) := by
        intro x
        have := (hits_iff P i e).2 ⟨x.2.1, x.2.2⟩
        rw [c] at this; cases this
      rw [if_neg c', if_neg hnr]; simp

theorem runEvents_regs_length (P : Prog) (S : ProcSem π) (evs : List Event)
    (hvc : ∀ e ∈ evs, e.type = .clockValueChange) (s : Sim π) : (runEvents P S s evs).regs.length = s.regs.length := by
  induction evs generalizing s with
  | nil => rfl
  | cons e es ih =>
    show (runEvents P S (processEvent P S (s.dequeue e) e) es).regs.length = _
    rw [ih (fun x hx => hvc x (List.mem_cons_of_mem _ hx))]
    have hty := hvc e (List.mem_cons_self ..)
    unfold processEvent; rw [hty]; simp [onClockValue, Sim.addLog]

theorem any_perm {α : Type} {l l' : List α} (hp : l.Perm l') (f : α → Bool) : l.any f = l'.any f := by
  cases h : l'.any f with
  | true =>
    obtain ⟨x, hx, hf⟩ := List.any_eq_true.1 h
    exact List.any_eq_true.2 ⟨x, hp.mem_iff.2 hx, hf⟩
  | false =>
    cases h2 : l.any f with
    | false => rfl
    | true =>
      obtain ⟨x, hx, hf⟩ := List.any_eq_true.1 h2
      have := List.any_eq_true.2 ⟨x, hp.mem_iff.1 hx, hf⟩
      rw [h] at this; cases this

/-- **commit order is irrelevant**: handling the clock-value-change events of one instant (distinct clock pins, any number of clock
    domains) in any order yields the same registers. -/
theorem commit_order_irrelevant (P : Prog) (S : ProcSem π) (hS : S.Lawful) (evs evs' : List Event) (hp : evs.Perm evs')
    (hvc : ∀ e ∈ evs, e.type = .clockValueChange) (hnd : (evs.map (·.pin)).Nodup) (s : Sim π) :
    (runEvents P S s evs).regs = (runEvents P S s evs').regs := by
  have hvc' : ∀ e ∈ evs', e.type = .clockValueChange := fun e he => hvc e (hp.mem_iff.2 he)
  have hnd' : (evs'.map (·.pin)).Nodup := (hp.map _).nodup_iff.1 hnd
  apply List.ext_getElem
  · rw [runEvents_regs_length P S evs hvc, runEvents_regs_length P S evs' hvc']
  · intro i h1 h2
    have hi : i < s.regs.length := by rw [runEvents_regs_length P S evs hvc] at h1; exact h1
    obtain ⟨_, e1⟩ := runEvents_regs P S hS evs hvc hnd s i hi
    obtain ⟨_, e2⟩ := runEvents_regs P S hS evs' hvc' hnd' s i hi
    rw [e1, e2, any_perm hp]

/-- **all registers triggered at one instant sample pre-edge values**: starting from a state in which the registers have latched
    their inputs (the state after `reevaluate`), after all clock-value-change events of the instant — whatever their order, whatever
    clock domains they belong to — every activated register shows `specEdge` of its D/ENABLE inputs *evaluated on the register
    outputs and pin values from before any commit of this instant*, every other register is unchanged. -/
theorem same_instant_sample_pre_edge {P : Prog} {S : ProcSem π} (hwf : WF P) (hS : S.Lawful) {s : Sim π} (hinv : RegInv P s)
    (hl : Latched P s) (evs : List Event) (hvc : ∀ e ∈ evs, e.type = .clockValueChange) (hnd : (evs.map (·.pin)).Nodup)
    (i : Nat) (hi : i < s.regs.length) :
    ∃ h' : i < (runEvents P S s evs).regs.length,
      (runEvents P S s evs).regs[i].out =
        if evs.any (hits P i) = true then
          specEdge (P.reg i).rst (P.reg i).width (specInReset (P.reg i) (P.regDom i) (level s (P.regDom i)))
            ((P.net.enIn s.outs s.pins i).getD .one) ((P.net.dataIn s.outs s.pins i).getD (.undef (P.reg i).width)) s.regs[i].out
        else s.regs[i].out := by
  obtain ⟨h', hreg⟩ := runEvents_regs P S hS evs hvc hnd s i hi
  refine ⟨h', ?_⟩
  rw [hreg]
  by_cases c : evs.any (hits P i) = true
  · rw [if_pos c, if_pos c, advance_out_spec hwf hinv i hi, (hl i hi).1, (hl i hi).2]
  · rw [if_neg c, if_neg c]

theorem reevaluate_latched (P : Prog) (s : Sim π) : Latched P (reevaluate P s) := by
  intro i hi
  have houts := reevaluate_outs P s
  simp only [reevaluate_pins, houts]
  simp [reevaluate, Reg.evaluate]

end Gatery.C04
