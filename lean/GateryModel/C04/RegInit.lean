import GateryModel.C04.RegLemmas
/-!
# C04 — the register invariant holds after the set-up part of `powerOn` (reset pins asserted one after the other)
-/
namespace Gatery.C04
open Gatery.Sched
variable {π : Type}

/-- invariant of the reset set-up loop after `k` reset pins -/
structure InitJ (P : Prog) (k : Nat) (s : Sim π) : Prop where
  len : s.regs.length = P.net.regs.length
  rlen : s.resetHigh.length = P.rstPins.length
  regs : ∀ i (h : i < s.regs.length),
    match (P.regDom i).rstPin with
    | some rp => if rp < k then
        s.regs[i].inReset = specInReset (P.reg i) (P.regDom i) (s.resetHigh.getD rp false) ∧
        (s.regs[i].inReset = true → (P.regDom i).rstType = .async → some s.regs[i].out = (P.reg i).rst)
      else s.regs[i].inReset = false
    | none => s.regs[i].inReset = false

theorem powerOn_inReset (d : RegDecl) : (Reg.powerOn d).inReset = false := rfl

theorem InitJ.zero (P : Prog) (pins0 : List Val) (ext : π) : InitJ P 0 (initState0 P pins0 ext) := by
  refine ⟨by simp [initState0], by simp [initState0], ?_⟩
  intro i hi
  have : (initState0 P pins0 ext).regs[i].inReset = false := by simp [initState0, powerOn_inReset]
  split
  · simp [this]
  · exact this

theorem InitJ.succ {P : Prog} (hwf : WF P) {k : Nat} (hk : k < P.rstPins.length) {s : Sim π} (h : InitJ P k s) :
    InitJ P (k+1) (initReset P s k (P.rstPins.getD k default)) := by
  have hmt := hwf.minTime_ne k
  generalize P.rstPins.getD k default = r at hmt
  have hkl : k < s.resetHigh.length := by rw [h.rlen]; exact hk
  unfold initReset
  by_cases hz : r.minTime = 0
  · -- no register listens to this reset pin
    have hno : ∀ i, i < s.regs.length → (P.regDom i).rstPin ≠ some k := by
      intro i hi hc
      exact hmt ⟨i, by rw [← h.len]; exact hi, hc⟩ hz
    simp only [if_pos hz, Sim.addLog]
    refine ⟨by simp [h.len], by simp [h.rlen], ?_⟩
    intro i hi
    have hi' : i < s.regs.length := by simpa using hi
    have hold := h.regs i hi'
    have hne := hno i hi'
    simp only [List.getElem_mapIdx, if_neg hne]
    cases hrp : (P.regDom i).rstPin with
    | none => rw [hrp] at hold; exact hold
    | some rp =>
      rw [hrp] at hold hne
      simp only at hold ⊢
      have c : rp ≠ k := fun x => hne (by rw [x])
      rw [getD_set_ne _ _ _ _ (fun x => c x.symm), getD_set_ne _ _ _ _ (fun x => c x.symm)]
      by_cases c2 : rp < k
      · rw [if_pos c2] at hold; rw [if_pos (by omega)]; exact hold
      · rw [if_neg c2] at hold; rw [if_neg (by omega)]; exact hold
  simp only [if_neg hz, Sim.push, Sim.addLog]
  refine ⟨by simp [h.len], by simp [h.rlen], ?_⟩
  intro i hi
  have hi' : i < s.regs.length := by simpa using hi
  have hold := h.regs i hi'
  simp only [List.getElem_mapIdx]
  cases hrp : (P.regDom i).rstPin with
  | none =>
    rw [hrp] at hold
    simp only at hold ⊢
    rw [if_neg (by simp)]; exact hold
  | some rp =>
    rw [hrp] at hold
    simp only at hold ⊢
    by_cases c : rp = k
    · subst c
      rw [if_pos rfl, if_pos (by omega), getD_set_self _ _ _ hkl, resetChange_inReset, bool_ne_not]
      refine ⟨?_, ?_⟩
      · simp only [specInReset, hrp]
        cases (P.reg i).rst.isSome <;> simp
      · intro hir hasync
        have hsome : (P.reg i).rst.isSome = true := by
          cases hh : (P.reg i).rst.isSome <;> simp [hh] at hir ⊢
        obtain ⟨v, hv⟩ := Option.isSome_iff_exists.1 hsome
        have hl : ((r.srcActiveHigh != !(P.regDom i).activeHigh) && (P.reg i).rst.isSome) = true := by
          rw [bool_ne_not]; exact hir
        unfold Reg.resetChange
        simp only [hl, hasync, Bool.true_and, decide_true, if_true]
        rw [writeResetValue_out_some _ _ _ v hv, hv]
    · have c' : ¬ (some rp = some k) := fun x => c (Option.some.inj x)
      rw [if_neg c', getD_set_ne _ _ _ _ (fun x => c x.symm)]
      by_cases c2 : rp < k
      · rw [if_pos c2] at hold; rw [if_pos (by omega)]; exact hold
      · rw [if_neg c2] at hold; rw [if_neg (by omega)]; exact hold

theorem InitJ.fold {P : Prog} (hwf : WF P) (pins0 : List Val) (ext : π) (k : Nat) (hk : k ≤ P.rstPins.length) :
    InitJ P k ((List.range k).foldl (fun s rp => initReset P s rp (P.rstPins.getD rp default)) (initState0 P pins0 ext)) := by
  induction k with
  | zero => exact InitJ.zero P pins0 ext
  | succ k ih =>
    rw [List.range_succ, List.foldl_append]
    exact InitJ.succ hwf (by omega) (ih (by omega))

theorem RegInv.init {P : Prog} (hwf : WF P) (pins0 : List Val) (ext : π) : RegInv P (initState P pins0 ext) := by
  have h := InitJ.fold hwf pins0 ext P.rstPins.length (Nat.le_refl _)
  unfold initState
  refine ⟨h.len, h.rlen, ?_, ?_⟩
  · intro i hi
    have := h.regs i hi
    unfold level
    cases hrp : (P.regDom i).rstPin with
    | none => rw [hrp] at this; simp only at this ⊢; rw [this]; simp [specInReset, hrp]
    | some rp =>
      rw [hrp] at this
      simp only at this ⊢
      rw [if_pos (hwf.rstPin_lt _ _ hrp)] at this
      exact this.1
  · intro i hi
    have := h.regs i hi
    cases hrp : (P.regDom i).rstPin with
    | none => rw [hrp] at this; simp only at this; intro hir; rw [this] at hir; cases hir
    | some rp =>
      rw [hrp] at this
      simp only at this
      rw [if_pos (hwf.rstPin_lt _ _ hrp)] at this
      exact this.2

theorem RegInv.reachable {P : Prog} {S : ProcSem π} (hwf : WF P) (hS : S.Lawful) (pins0 : List Val) (ext : π)
    {s : Sim π} (h : Steps P S (initState P pins0 ext) s) : RegInv P s :=
  Steps.induct (fun _ _ ha st => RegInv.step hwf hS ha st) h (RegInv.init hwf pins0 ext)

end Gatery.C04
