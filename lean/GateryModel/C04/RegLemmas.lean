import GateryModel.C04.Defs
/-!
# C04 — register invariants: INT_IN_RESET mirrors the reset signal; an asynchronously reset register shows its reset value;
what a single event does to a register output (`reg_step`), what it does not (`reevaluate`, process hooks, everything else).
-/
namespace Gatery.C04
open Gatery.Sched
variable {π : Type}

/-- INT_IN_RESET of every register equals "has a reset value ∧ its clock's reset signal is at the active level", and a register of
    a clock with asynchronous reset shows its reset value while in reset. -/
structure RegInv (P : Prog) (s : Sim π) : Prop where
  len : s.regs.length = P.net.regs.length
  rlen : s.resetHigh.length = P.rstPins.length
  inReset : ∀ i (h : i < s.regs.length), s.regs[i].inReset = specInReset (P.reg i) (P.regDom i) (level s (P.regDom i))
  asyncHeld : ∀ i (h : i < s.regs.length), s.regs[i].inReset = true → (P.regDom i).rstType = .async →
      some s.regs[i].out = (P.reg i).rst

theorem writeResetValue_inReset (d : RegDecl) (c : Bool) (r : RegState) : (Reg.writeResetValue d c r).inReset = r.inReset := by
  unfold Reg.writeResetValue; split <;> (try split) <;> rfl

theorem advance_inReset (d : RegDecl) (dom : DomainDecl) (r : RegState) : (Reg.advance d dom r).inReset = r.inReset := by
  unfold Reg.advance
  split
  · split
    · exact writeResetValue_inReset _ _ _
    · rfl
  · split <;> rfl

theorem resetChange_inReset (d : RegDecl) (dom : DomainDecl) (lvl : Bool) (r : RegState) :
    (Reg.resetChange d dom lvl r).inReset = ((lvl != !dom.activeHigh) && d.rst.isSome) := by
  unfold Reg.resetChange
  simp only
  split
  · rw [writeResetValue_inReset]
  · rfl

theorem bool_ne_not (a b : Bool) : (a != !b) = (a == b) := by cases a <;> cases b <;> rfl

/-- the output of a register after the event switch handled `e` (`s` = state before the pop) -/
theorem out_after_event (P : Prog) (S : ProcSem π) (hS : S.Lawful) (s : Sim π) (e : Event) (i : Nat) (h : i < s.regs.length) :
    ∃ h' : i < (processEvent P S (s.dequeue e) e).regs.length,
    (processEvent P S (s.dequeue e) e).regs[i] =
      if e.type = .clockValueChange ∧ (P.regDom i).pin = e.pin ∧ (P.regDom i).trig.activates e.flag = true then
        Reg.advance (P.reg i) (P.regDom i) s.regs[i]
      else if e.type = .resetValueChange ∧ (P.regDom i).rstPin = some e.pin then
        Reg.resetChange (P.reg i) (P.regDom i) e.flag s.regs[i]
      else s.regs[i] := by
  unfold processEvent
  cases hty : e.type with
  | clockPinTrigger =>
    have := (onTrigger_spec P (s.dequeue e) e).2.1
    simp only [dequeue_regs] at this
    simp only
    refine ⟨by rw [this]; exact h, ?_⟩
    simp [this]
  | simProcResume =>
    have := (hS.resume P (s.dequeue e) e.handle).regs
    simp only [dequeue_regs] at this
    simp only
    refine ⟨by rw [this]; exact h, ?_⟩
    simp [this]
  | clockValueChange =>
    simp only
    refine ⟨by simp [onClockValue, Sim.addLog]; exact h, ?_⟩
    simp only [onClockValue, Sim.addLog, dequeue_regs, List.getElem_mapIdx]
    by_cases c : (P.regDom i).pin = e.pin ∧ (P.regDom i).trig.activates e.flag = true
    · simp [c]
    · simp [c]
  | resetValueChange =>
    simp only
    refine ⟨by simp [onResetValue, Sim.addLog]; exact h, ?_⟩
    simp only [onResetValue, Sim.addLog, dequeue_regs, List.getElem_mapIdx]
    by_cases c : (P.regDom i).rstPin = some e.pin <;> simp [c]

end Gatery.C04

namespace Gatery.C04
open Gatery.Sched
variable {π : Type}

theorem resetHigh_after_event (P : Prog) (S : ProcSem π) (hS : S.Lawful) (s : Sim π) (e : Event) :
    (processEvent P S (s.dequeue e) e).resetHigh =
      if e.type = .resetValueChange then s.resetHigh.set e.pin e.flag else s.resetHigh := by
  unfold processEvent
  cases hty : e.type with
  | clockPinTrigger => simpa using (onTrigger_spec P (s.dequeue e) e).2.2.2.1
  | simProcResume => simpa using (hS.resume P (s.dequeue e) e.handle).resetHigh
  | clockValueChange => simp
  | resetValueChange => simp [onResetValue, Sim.addLog]

theorem getD_set_self (l : List Bool) (i : Nat) (v : Bool) (h : i < l.length) : (l.set i v).getD i false = v := by
  simp [List.getD_eq_getElem?_getD, List.getElem?_set, h]

theorem getD_set_ne (l : List Bool) (i j : Nat) (v : Bool) (h : i ≠ j) : (l.set i v).getD j false = l.getD j false := by
  simp [List.getD_eq_getElem?_getD, List.getElem?_set, h]

theorem writeResetValue_out_some (d : RegDecl) (c : Bool) (r : RegState) (v : Val) (h : d.rst = some v) :
    (Reg.writeResetValue d c r).out = v := by
  unfold Reg.writeResetValue; rw [h]

theorem RegInv.step {P : Prog} {S : ProcSem π} (hwf : WF P) (hS : S.Lawful) {s s' : Sim π}
    (h : RegInv P s) (st : MicroStep P S s s') : RegInv P s' := by
  cases st with
  | reeval =>
    refine ⟨by simp [reevaluate, h.len], h.rlen, ?_, ?_⟩
    · intro i hi
      have hi' : i < s.regs.length := by simpa [reevaluate] using hi
      have := h.inReset i hi'
      simpa [reevaluate, Reg.evaluate, level] using this
    · intro i hi
      have hi' : i < s.regs.length := by simpa [reevaluate] using hi
      have := h.asyncHeld i hi'
      simpa [reevaluate, Reg.evaluate] using this
  | commit =>
    obtain ⟨_, hr, _, hrh, _, _⟩ := commitState_spec P S hS s
    refine ⟨by rw [hr, h.len], by rw [hrh, h.rlen], ?_, ?_⟩
    · intro i hi; simp only [hr, level, hrh]; exact h.inReset i (by simpa [hr] using hi)
    · intro i hi; simp only [hr]; exact h.asyncHeld i (by simpa [hr] using hi)
  | frame _ f =>
    refine ⟨by rw [f.regs, h.len], by rw [f.resetHigh, h.rlen], ?_, ?_⟩
    · intro i hi; simp only [f.regs, level, f.resetHigh]; exact h.inReset i (by simpa [f.regs] using hi)
    · intro i hi; simp only [f.regs]; exact h.asyncHeld i (by simpa [f.regs] using hi)
  | setTime t => exact ⟨h.len, h.rlen, h.inReset, h.asyncHeld⟩
  | event e hmem htime hmin =>
    have hlen : (processEvent P S (s.dequeue e) e).regs.length = s.regs.length := by
      unfold processEvent
      cases hty : e.type with
      | clockPinTrigger => simpa using congrArg List.length (onTrigger_spec P (s.dequeue e) e).2.1
      | simProcResume => simpa using congrArg List.length (hS.resume P (s.dequeue e) e.handle).regs
      | clockValueChange => simp [onClockValue, Sim.addLog]
      | resetValueChange => simp [onResetValue, Sim.addLog]
    have hrh := resetHigh_after_event P S hS s e
    refine ⟨by rw [hlen, h.len], ?_, ?_, ?_⟩
    · rw [hrh]; split <;> simp [h.rlen]
    · intro i hi
      have hi' : i < s.regs.length := by rw [hlen] at hi; exact hi
      obtain ⟨_, hreg⟩ := out_after_event P S hS s e i hi'
      rw [hreg]
      have hold := h.inReset i hi'
      by_cases c1 : e.type = .clockValueChange ∧ (P.regDom i).pin = e.pin ∧ (P.regDom i).trig.activates e.flag = true
      · rw [if_pos c1, advance_inReset, hold]
        have : e.type ≠ .resetValueChange := by rw [c1.1]; decide
        simp only [level, hrh, this, if_false]
      · rw [if_neg c1]
        by_cases c2 : e.type = .resetValueChange ∧ (P.regDom i).rstPin = some e.pin
        · rw [if_pos c2, resetChange_inReset, bool_ne_not]
          have hlt : e.pin < s.resetHigh.length := by rw [h.rlen]; exact hwf.rstPin_lt _ _ c2.2
          simp only [level, hrh, c2.1, c2.2, if_true, getD_set_self _ _ _ hlt, specInReset]
          cases (P.reg i).rst.isSome <;> simp
        · rw [if_neg c2, hold]
          simp only [level, hrh]
          by_cases c3 : e.type = .resetValueChange
          · simp only [c3, if_true]
            cases hrp : (P.regDom i).rstPin with
            | none => rfl
            | some rp =>
              have : e.pin ≠ rp := fun x => c2 ⟨c3, by rw [hrp, x]⟩
              simp only [getD_set_ne _ _ _ _ this]
          · simp only [c3, if_false]
    · intro i hi
      have hi' : i < s.regs.length := by rw [hlen] at hi; exact hi
      obtain ⟨_, hreg⟩ := out_after_event P S hS s e i hi'
      rw [hreg]
      have hold := h.asyncHeld i hi'
      by_cases c1 : e.type = .clockValueChange ∧ (P.regDom i).pin = e.pin ∧ (P.regDom i).trig.activates e.flag = true
      · rw [if_pos c1, advance_inReset]
        intro hir hasync
        have : Reg.advance (P.reg i) (P.regDom i) s.regs[i] = s.regs[i] := by
          unfold Reg.advance; rw [if_pos hir, if_neg (by rw [hasync]; decide)]
        rw [this]; exact hold hir hasync
      · rw [if_neg c1]
        by_cases c2 : e.type = .resetValueChange ∧ (P.regDom i).rstPin = some e.pin
        · rw [if_pos c2]
          intro hir hasync
          rw [resetChange_inReset] at hir
          have hsome : (P.reg i).rst.isSome = true := by
            cases hh : (P.reg i).rst.isSome <;> simp [hh] at hir ⊢
          obtain ⟨v, hv⟩ := Option.isSome_iff_exists.1 hsome
          have hl : ((e.flag != !(P.regDom i).activeHigh) && (P.reg i).rst.isSome) = true := hir
          unfold Reg.resetChange
          simp only [hl, hasync, Bool.true_and, decide_true, if_true]
          rw [writeResetValue_out_some _ _ _ v hv, hv]
        · rw [if_neg c2]; exact hold

end Gatery.C04
