import GateryModel.Sched.Clock
/-!
# C04 — specification: what the property statement says about registers and clocks

Plain functions over the observable quantities (register outputs, input values, reset level, clock edges).
The property theorems relate the model (`Sched/Sim.lean`) to these; the driver evaluates the same functions on the
log of the real simulator (`PROPFAIL`).
-/
namespace Gatery.C04
open Gatery.Sched

/-- new output of a register at an activating edge of its own clock:
    reset value while in reset, else `d` (the input value before the edge) if enabled, unchanged if disabled,
    undefined if the enable is undefined. -/
def specEdge (rst : Option Val) (w : Nat) (inReset : Bool) (en : Tri) (d q : Val) : Val :=
  if inReset then rst.getD q
  else match en with
    | .one => d
    | .zero => q
    | .x => .undef w

/-- a register is in reset iff it has a reset value, its clock has a reset signal and that signal is at the clock's active level -/
def specInReset (rd : RegDecl) (dom : DomainDecl) (level : Bool) : Bool :=
  rd.rst.isSome && dom.rstPin.isSome && (level == dom.activeHigh)

/-- output of a register after one instant of simulated time at which its clock did (`activated`) or did not activate and the
    reset signal of its clock took the new levels `rstEvents` (at most one in practice). `levelPre`, `d`, `en`, `q` are the reset
    level, the D and ENABLE inputs and the output from immediately before the instant. An asynchronous reset acts at the reset
    event, a synchronous one only through `specEdge`. -/
def specInstant (rd : RegDecl) (dom : DomainDecl) (activated : Bool) (levelPre : Bool) (rstEvents : List Bool)
    (d : Option Val) (en : Option Tri) (q : Val) : Val :=
  let q1 := if activated then
      specEdge rd.rst rd.width (specInReset rd dom levelPre) (en.getD .one) (d.getD (.undef rd.width)) q
    else q
  rstEvents.foldl (fun q lvl =>
    if dom.rstType = .async ∧ dom.rstPin.isSome ∧ lvl = dom.activeHigh then rd.rst.getD q else q) q1

/-- time of the `k`-th activation (`k ≥ 1`) of a clock of frequency `f`: the `k`-th multiple of the period, of the half period for a dual-edge clock -/
def specActivationTime (trig : Trigger) (f : Rat) (k : Nat) : Rat :=
  if trig = .both then (k : Rat) / (2 * f) else (k : Rat) / f

/-- time of the `j`-th edge (`j ≥ 1`) of a clock signal of frequency `f` -/
def specEdgeTime (f : Rat) (j : Nat) : Rat := (j : Rat) / (2 * f)

/-- a clock whose activating edge coincides with the multiples of its period on the clock signal it is connected to: the signal
    starts high iff its source clock is rising-edge triggered (ReferenceSimulator.cpp:636), so rising edges are the even edges
    exactly in that case. -/
def edgeAligned (srcRising : Bool) (trig : Trigger) : Bool :=
  match trig with
  | .both => true
  | .rising => srcRising
  | .falling => !srcRising

end Gatery.C04
