import GateryModel.C04.Main
/-!
# C04 — decidable well-formedness (checked by the driver on every generated program), clock-tree facts,
the micro tick as a sequence of events without re-evaluation
-/
namespace Gatery.C04
open Gatery.Sched
variable {π : Type}

/-- executable version of `WF` -/
def wfb (P : Prog) : Bool :=
  P.pins.all (fun p => decide (0 < p.freq)) &&
  (List.range P.rstPins.length).all (fun rp =>
    !((List.range P.net.regs.length).any fun i => decide ((P.regDom i).rstPin = some rp)) ||
    decide ((P.rstPins.getD rp default).minTime ≠ 0)) &&
  P.doms.all (fun d =>
    (match d.rstPin with
      | some rp => decide (rp < P.rstPins.length)
      | none => true) &&
    (decide (d.rstType = .none → d.rstPin = none)))

theorem dom_cases (P : Prog) (di : Nat) : P.dom di ∈ P.doms ∨ P.dom di = default := by
  unfold Prog.dom
  rw [List.getD_eq_getElem?_getD]
  cases h : P.doms[di]? with
  | none => exact Or.inr rfl
  | some d => exact Or.inl (List.mem_of_getElem? h)

theorem wfb_sound {P : Prog} (h : wfb P = true) : WF P := by
  simp only [wfb, Bool.and_eq_true, List.all_eq_true, decide_eq_true_eq] at h
  obtain ⟨⟨h1, h2⟩, h3⟩ := h
  have hlt : ∀ di rp, (P.dom di).rstPin = some rp → rp < P.rstPins.length := by
    intro di rp hrp
    rcases dom_cases P di with hm | hd
    · have := (h3 _ hm).1; rw [hrp] at this; simpa using this
    · rw [hd] at hrp; cases hrp
  refine ⟨?_, ?_, hlt, ?_⟩
  · intro p hp
    have : P.pinFreq p = P.pins[p].freq := by simp [Prog.pinFreq, List.getD_eq_getElem?_getD, hp]
    rw [this]; exact h1 _ (List.getElem_mem hp)
  · rintro rp ⟨i, hi, hrp⟩
    have := h2 rp (List.mem_range.2 (hlt _ _ hrp))
    simp only [Bool.or_eq_true, Bool.not_eq_true', decide_eq_true_eq] at this
    rcases this with this | this
    · have hany : ((List.range P.net.regs.length).any fun i => decide ((P.regDom i).rstPin = some rp)) = true :=
        List.any_eq_true.2 ⟨i, List.mem_range.2 hi, by simpa using hrp⟩
      rw [hany] at this; cases this
    · exact this
  · intro di hn
    rcases dom_cases P di with hm | hd
    · exact (h3 _ hm).2 hn
    · rw [hd]; rfl

/-! ### clock tree: a clock and the clock whose pin it uses have the same absolute frequency -/

theorem clockPinSourceF_freq (cs : ClockTree) (f i : Nat) : cs.absFreq (cs.clockPinSourceF f i) = cs.absFreq i := by
  induction f generalizing i with
  | zero => rfl
  | succ f ih =>
    unfold ClockTree.clockPinSourceF
    cases hp : (cs.get i).parent with
    | none => rfl
    | some p =>
      simp only
      split
      · rename_i hin
        rw [ih p]
        simp only [ClockTree.inheritsClockPin, hp, Bool.and_eq_true, decide_eq_true_eq] at hin
        exact hin.1.2
      · rfl

/-- pin sharing never changes the frequency: the clock-pin source of a clock has the clock's own absolute frequency
    (`inheritsClockPinSource` requires equal `absoluteFrequency()`, Clock.cpp:113-116) -/
theorem pinSource_freq (cs : ClockTree) (i : Nat) : cs.absFreq (cs.clockPinSource i) = cs.absFreq i :=
  clockPinSourceF_freq cs cs.length i

/-- a derived clock's absolute frequency is its parent's times the multiplier -/
theorem absFreqF_derived (cs : ClockTree) (f i p : Nat) (hp : (cs.get i).parent = some p) :
    cs.absFreqF (f+1) i = cs.absFreqF f p * (cs.get i).freqOrMul := by
  simp [ClockTree.absFreqF, hp]

/-! ### a micro tick handles events only: no re-evaluation between the commits of one instant -/

theorem advanceMicroTick_runEvents (P : Prog) (S : ProcSem π) (fuel : Nat) (s : Sim π) :
    ∃ evs, advanceMicroTick P S fuel s = runEvents P S s evs ∨
           advanceMicroTick P S fuel s = (runEvents P S s evs).fail "fuel:advanceMicroTick" := by
  induction fuel generalizing s with
  | zero => exact ⟨[], Or.inr rfl⟩
  | succ n ih =>
    unfold advanceMicroTick
    cases minEvent s.queue with
    | none => exact ⟨[], Or.inl rfl⟩
    | some e =>
      simp only
      split
      · obtain ⟨evs, h⟩ := ih (processEvent P S (s.dequeue e) e)
        exact ⟨e :: evs, h⟩
      · exact ⟨[], Or.inl rfl⟩

end Gatery.C04
