import GateryModel.C05.Model
/-!
# C05 — historical variant of the destructor (gatery before commit ac19c14)

`~ConditionalScope` used to decide "a nested scope closed inside this ELSE" by comparing node ports
(`m_lastConditionOnEntry != m_lastCondition`). `popScopeOld` / `buildOld` are `popScope` / `build` with exactly that test;
everything else is shared with the model of the current code. Used only by the clearly labelled historical witness in
`Properties/C05.lean`; no theorem about the current code depends on this file.
-/
namespace Gatery.C05

def popScopeOld (B : BState) (nsigs : Nat) : Option BState :=
  match B.scopes with
  | [] => none
  | s :: rest =>
      let B := { B with scopes := rest, sigs := B.sigs.take nsigs }
      match s.combined with
      | some c => some { B with lastCond := some c }
      | none =>
          match s.onEntry, B.lastCond with
          | some l, some lc =>
              if lc ≠ l then
                let (ns, o) := mkNode B.nodes (.or lc l)
                some { B with nodes := ns, lastCond := some o }
              else some { B with lastCond := some s.cond }
          | _, _ => some { B with lastCond := some s.cond }

def buildOld : Prog → BState → Option BState
  | .done, B => some B
  | .decl ty init k, B => do let B1 ← stepDecl B ty init; buildOld k B1
  | .declDefault ty d k, B => do let B1 ← stepDefault B ty d; buildOld k B1
  | .assign x p e k, B => do let B1 ← stepAssign B x p e; buildOld k B1
  | .ifS c body k, B => do
      let B1 ← openIf B c
      let B2 ← buildOld body B1
      let B3 ← popScopeOld B2 B.sigs.length
      buildOld k B3
  | .elseS body k, B => do
      let B1 ← openElse B
      let B2 ← buildOld body B1
      let B3 ← popScopeOld B2 B.sigs.length
      buildOld k B3
  | .elseifS c body k, B => do
      let B1 ← openElseIf B c
      let B2 ← buildOld body B1
      let B3 ← popScopeOld B2 B.sigs.length
      buildOld k B3
  | .elseIf2 c body k, B => do
      let l ← B.lastCond
      let B1 := pushElse B l
      let B2 ← openIf B1 c
      let B3 ← buildOld body B2
      let B4 ← popScopeOld B3 B.sigs.length
      let B5 ← popScopeOld B4 B.sigs.length
      buildOld k B5
  | .istmt _ _, _ => none
  | .enif _ _ _, _ => none

end Gatery.C05
