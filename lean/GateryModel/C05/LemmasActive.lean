import GateryModel.C05.LemmasBuild
/-!
# C05 helper lemmas 8 — an executed block tracks the sequential interpreter
-/
namespace Gatery.C05

variable {ρ : List Val}

/-- `m_lastCondition` evaluates to "a branch of the chain so far was taken" -/
def ChainOK (ρ : List Val) (B : BState) (ch : Option Bool) : Prop :=
  ∀ t, ch = some t → ∃ l, B.lastCond = some l ∧ truthy (valAt ρ B.nodes l) = t

/-- the innermost open scope's full condition evaluates to true -/
def Active (ρ : List Val) (B : BState) : Prop :=
  ∀ top rest, B.scopes = top :: rest → valAt ρ B.nodes top.full = [true]

theorem Active.frame {B B1 : BState} (h : Active ρ B) (hw : WF B) (hf : Frame B B1) : Active ρ B1 := by
  intro top rest hs
  rw [hf.scopes] at hs
  rw [valAt_ext hf.ext (hw.scopes top (by rw [hs]; exact List.mem_cons_self)).full]
  exact h top rest hs

/-- the statement of the executed-context induction, for one program -/
def ActiveSpec (ρ : List Val) (p : Prog) : Prop :=
  ∀ (B B' : BState) (env env' : List Val) (ch : Option Bool),
    build p B = some B' → run p env ch = some env' →
    WF B → Agree ρ B.nodes B.sigs env → Active ρ B → ChainOK ρ B ch →
    WF B' ∧ Frame B B' ∧ Agree ρ B'.nodes B'.sigs env' ∧ B.sigs.length ≤ B'.sigs.length

/-- value of a freshly opened scope's full condition in an executed context -/
theorem full_of_active {B : BState} (hw : WF B) (ha : Active ρ B) {ns : Nodes} (e : Ext B.nodes ns) (cv : Val) (b : Bool)
    (hcv : cv = [b]) :
    (match B.scopes with
      | [] => cv
      | parent :: _ => [truthy cv && truthy (valAt ρ ns parent.full)]) = [b] := by
  subst hcv
  cases hs : B.scopes with
  | nil => rfl
  | cons parent rest =>
    simp only
    rw [valAt_ext e (hw.scopes parent (by rw [hs]; exact List.mem_cons_self)).full, ha parent rest hs]
    simp [truthy]

/-- a block inside a freshly opened scope whose full condition evaluates to `[t]`: executed if `t`, skipped otherwise -/
theorem scoped_body {body : Prog} (ihb : ActiveSpec ρ body) {B B1 B2 B3 : BState} {new : Scope} {env env1 : List Val} {t : Bool}
    (hw : WF B) (ho : Opened B B1 new) (hfv : valAt ρ B1.nodes new.full = [t]) (ha : Agree ρ B.nodes B.sigs env)
    (h2 : build body B1 = some B2) (h3 : popScope B2 B.sigs.length = some B3)
    (hrun : (if t then dropLocals env.length (run body env none) else some env) = some env1) :
    WF B3 ∧ Frame B B3 ∧ Agree ρ B3.nodes B3.sigs env1 ∧ B3.sigs.length = B.sigs.length ∧
    WF B2 ∧ Frame B1 B2 := by
  have ha1 : Agree ρ B1.nodes B1.sigs env := by rw [ho.sigs]; exact ha.mono hw.sigs ho.ext
  cases t with
  | true =>
    simp only [if_true, dropLocals] at hrun
    obtain ⟨envb, hrb, hmap⟩ := Option.map_eq_some_iff.mp hrun
    subst hmap
    have hact1 : Active ρ B1 := by
      intro top rest hs
      rw [ho.scopes] at hs
      simp only [List.cons.injEq] at hs
      obtain ⟨rfl, _⟩ := hs
      exact hfv
    obtain ⟨w2, f2, a2, l2⟩ := ihb B1 B2 env envb none h2 hrb ho.wf ha1 hact1 (by intro t ht; cases ht)
    obtain ⟨w3, f3, a3⟩ := pop_active ho w2 f2 a2 h3
    have hl3 := pop_sigs_length ho f2 l2 h3
    rw [ha.1]
    exact ⟨w3, f3, a3, hl3, w2, f2⟩
  | false =>
    simp only [Bool.false_eq_true, if_false, Option.some.injEq] at hrun
    subst hrun
    obtain ⟨w2, f2, k2, l2⟩ := build_dead (ρ := ρ) body B1 B2 new B.scopes h2 ho.wf ho.scopes hfv
    obtain ⟨w3, f3, k3⟩ := pop_dead hw ho w2 f2 k2 h3
    have hl3 := pop_sigs_length ho f2 l2 h3
    exact ⟨w3, f3, agree_of_keeps hw ha k3 hl3, hl3, w2, f2⟩

theorem ite_bind {α β : Type} {c : Prop} [Decidable c] (a b : Option α) (f : α → Option β) :
    (if c then a.bind f else b.bind f) = (if c then a else b).bind f := by
  split <;> rfl

theorem bit_val {v : Val} {t : Ty} (hl : v.length = t.width) (ht : t = .bit) : v = [truthy v] := by
  subst ht; exact eq_single_of_length_one v hl

theorem build_active (p : Prog) : ActiveSpec ρ p := by
  induction p with
  | done =>
    intro B B' env env' ch h hr hw ha hact hch
    simp [build] at h; subst h
    simp [run] at hr; subst hr
    exact ⟨hw, Frame.refl _, ha, Nat.le_refl _⟩
  | decl ty init k ihk =>
    intro B B' env env' ch h hr hw ha hact hch
    simp only [build, Option.bind_eq_bind] at h
    obtain ⟨B1, h1, h2⟩ := Option.bind_eq_some_iff.mp h
    simp only [run, Option.bind_eq_bind] at hr
    obtain ⟨v, hv, hr2⟩ := Option.bind_eq_some_iff.mp hr
    obtain ⟨w1, f1, _, ns, i, _, _, hs⟩ := stepDecl_frame h1 hw
    have a1 := stepDecl_active h1 hw ha hv
    obtain ⟨w2, f2, a2, l2⟩ := ihk B1 B' _ env' none h2 hr2 w1 a1 (hact.frame hw f1) (by intro t ht; cases ht)
    exact ⟨w2, f1.trans f2, a2, by rw [hs] at l2; simp at l2; omega⟩
  | declDefault ty d k ihk =>
    intro B B' env env' ch h hr hw ha hact hch
    simp only [build, Option.bind_eq_bind] at h
    obtain ⟨B1, h1, h2⟩ := Option.bind_eq_some_iff.mp h
    simp only [run] at hr
    obtain ⟨w1, f1, _, _, s, hs, _⟩ := stepDefault_frame (ρ := ρ) h1 hw
    have a1 := stepDefault_active h1 hw ha
    obtain ⟨w2, f2, a2, l2⟩ := ihk B1 B' _ env' none h2 hr w1 a1 (hact.frame hw f1) (by intro t ht; cases ht)
    exact ⟨w2, f1.trans f2, a2, by rw [hs] at l2; simp at l2; omega⟩
  | assign x p e k ihk =>
    intro B B' env env' ch h hr hw ha hact hch
    simp only [build, Option.bind_eq_bind] at h
    obtain ⟨B1, h1, h2⟩ := Option.bind_eq_some_iff.mp h
    simp only [run, Option.bind_eq_bind] at hr
    obtain ⟨v, hv, hr⟩ := Option.bind_eq_some_iff.mp hr
    obtain ⟨cur, hcur, hr⟩ := Option.bind_eq_some_iff.mp hr
    obtain ⟨nv, hnv, hr⟩ := Option.bind_eq_some_iff.mp hr
    obtain ⟨w1, f1, _, hl⟩ := stepAssign_frame h1 hw
    have a1 := stepAssign_active h1 hw ha hact hv hcur hnv
    obtain ⟨w2, f2, a2, l2⟩ := ihk B1 B' _ env' none h2 hr w1 a1 (hact.frame hw f1) (by intro t ht; cases ht)
    exact ⟨w2, f1.trans f2, a2, by omega⟩
  | ifS c body k ihb ihk =>
    intro B B' env env' ch h hr hw ha hact hch
    simp only [build, Option.bind_eq_bind] at h
    obtain ⟨B1, h1, h⟩ := Option.bind_eq_some_iff.mp h
    obtain ⟨B2, h2, h⟩ := Option.bind_eq_some_iff.mp h
    obtain ⟨B3, h3, h⟩ := Option.bind_eq_some_iff.mp h
    simp only [run, Option.bind_eq_bind] at hr
    obtain ⟨vc, hvc, hr⟩ := Option.bind_eq_some_iff.mp hr
    rw [ite_bind] at hr
    obtain ⟨env1, henv1, hr⟩ := Option.bind_eq_some_iff.mp hr
    obtain ⟨ns, ci, new, hb, e1, lci, o1, ocond, oent, ocomb, ens, fv⟩ := openIf_spec (ρ := ρ) h1 hw
    obtain ⟨g1, g2⟩ := buildExpr_sound c _ _ _ _ vc hb ha hw.sigs hvc
    have hvc1 : vc = [truthy vc] := bit_val g2 rfl
    have hfv : valAt ρ B1.nodes new.full = [truthy vc] := by
      rw [fv, g1]; exact full_of_active hw hact e1 vc _ hvc1
    obtain ⟨w3, f3, a3, l3, w2, f2⟩ := scoped_body ihb hw o1 hfv ha h2 h3 henv1
    -- m_lastCondition after the destructor
    have hs2 : B2.scopes = new :: B.scopes := by rw [f2.scopes, o1.scopes]
    obtain ⟨_, _, _, p5, p6⟩ := popScope_spec hs2 h3
    simp only [ocomb, oent] at p6
    have hch3 : ChainOK ρ B3 (some (truthy vc)) := by
      intro t ht; cases ht
      refine ⟨ci, by rw [p6, ocond], ?_⟩
      rw [valAt_ext ((ens.trans f2.ext).trans p5) lci, g1]
    obtain ⟨w4, f4, a4, l4⟩ := ihk B3 B' env1 env' _ h hr w3 a3 (hact.frame hw f3) hch3
    exact ⟨w4, f3.trans f4, a4, by omega⟩
  | elseS body k ihb ihk =>
    intro B B' env env' ch h hr hw ha hact hch
    simp only [build, Option.bind_eq_bind] at h
    obtain ⟨B1, h1, hA⟩ := Option.bind_eq_some_iff.mp h
    obtain ⟨B2, h2, hB⟩ := Option.bind_eq_some_iff.mp hA
    obtain ⟨B3, h3, hC⟩ := Option.bind_eq_some_iff.mp hB
    clear h hA hB
    simp only [run, Option.bind_eq_bind] at hr
    obtain ⟨taken, htk, hr⟩ := Option.bind_eq_some_iff.mp hr
    rw [ite_bind] at hr
    obtain ⟨env1, henv1, hr⟩ := Option.bind_eq_some_iff.mp hr
    obtain ⟨l, hl, hlv⟩ := hch taken htk
    unfold openElse at h1
    simp only [hl, Option.bind_eq_bind, Option.bind_some, Option.some.injEq] at h1
    subst h1
    obtain ⟨new, o1, _, _, _, fv⟩ := pushElse_spec (ρ := ρ) hw (hw.last l hl)
    have hfv : valAt ρ (pushElse B l).nodes new.full = [!taken] := by
      rw [fv, hlv]
      cases hs : B.scopes with
      | nil => rfl
      | cons parent rest => simp only; rw [hact parent rest hs]; simp [truthy]
    have henv1' : (if (!taken) = true then dropLocals env.length (run body env none) else some env) = some env1 := by
      cases taken <;> simpa using henv1
    obtain ⟨w3, f3, a3, l3, _, _⟩ := scoped_body ihb hw o1 hfv ha h2 h3 henv1'
    obtain ⟨w4, f4, a4, l4⟩ := ihk B3 B' env1 env' none hC hr w3 a3 (hact.frame hw f3) (by intro t ht; cases ht)
    exact ⟨w4, f3.trans f4, a4, by omega⟩
  | elseifS c body k ihb ihk =>
    intro B B' env env' ch h hr hw ha hact hch
    simp only [build, Option.bind_eq_bind] at h
    obtain ⟨B1, h1, h⟩ := Option.bind_eq_some_iff.mp h
    obtain ⟨B2, h2, h⟩ := Option.bind_eq_some_iff.mp h
    obtain ⟨B3, h3, h⟩ := Option.bind_eq_some_iff.mp h
    simp only [run, Option.bind_eq_bind] at hr
    obtain ⟨taken, htk, hr⟩ := Option.bind_eq_some_iff.mp hr
    obtain ⟨l, hl, hlv⟩ := hch taken htk
    obtain ⟨ns, ci, l', new, o, hb, hl', e1, lci, o1, oent, ocomb, olt, ov, fv⟩ := openElseIf_spec (ρ := ρ) h1 hw
    rw [hl] at hl'; cases hl'
    cases taken with
    | true =>
      simp only [if_true] at hr
      have hfv : valAt ρ B1.nodes new.full = [false] := by
        rw [fv]
        cases hs : B.scopes with
        | nil => simp [hlv]
        | cons parent rest => simp [hlv]
      obtain ⟨w3, f3, a3, l3, w2, f2⟩ := scoped_body (t := false) (env1 := env) ihb hw o1 hfv ha h2 h3 (by simp)
      have hs2 : B2.scopes = new :: B.scopes := by rw [f2.scopes, o1.scopes]
      obtain ⟨_, _, _, p5, p6⟩ := popScope_spec hs2 h3
      simp only [ocomb] at p6
      have hch3 : ChainOK ρ B3 (some true) := by
        intro t ht; cases ht
        refine ⟨o, p6, ?_⟩
        rw [valAt_ext (f2.ext.trans p5) olt, ov, hlv]; rfl
      obtain ⟨w4, f4, a4, l4⟩ := ihk B3 B' env env' _ h hr w3 a3 (hact.frame hw f3) hch3
      exact ⟨w4, f3.trans f4, a4, by omega⟩
    | false =>
      simp only [Bool.false_eq_true, if_false, Option.bind_eq_bind] at hr
      obtain ⟨vc, hvc, hr⟩ := Option.bind_eq_some_iff.mp hr
      rw [ite_bind] at hr
      obtain ⟨env1, henv1, hr⟩ := Option.bind_eq_some_iff.mp hr
      obtain ⟨g1, g2⟩ := buildExpr_sound c _ _ _ _ vc hb ha hw.sigs hvc
      have hfv : valAt ρ B1.nodes new.full = [truthy vc] := by
        rw [fv]
        cases hs : B.scopes with
        | nil => simp [hlv, g1]
        | cons parent rest => simp [hlv, g1, hact parent rest hs, truthy_single]
      obtain ⟨w3, f3, a3, l3, w2, f2⟩ := scoped_body ihb hw o1 hfv ha h2 h3 henv1
      have hs2 : B2.scopes = new :: B.scopes := by rw [f2.scopes, o1.scopes]
      obtain ⟨_, _, _, p5, p6⟩ := popScope_spec hs2 h3
      simp only [ocomb] at p6
      have hch3 : ChainOK ρ B3 (some (truthy vc)) := by
        intro t ht; cases ht
        refine ⟨o, p6, ?_⟩
        rw [valAt_ext (f2.ext.trans p5) olt, ov, hlv, g1]; simp [truthy]
      obtain ⟨w4, f4, a4, l4⟩ := ihk B3 B' env1 env' _ h hr w3 a3 (hact.frame hw f3) hch3
      exact ⟨w4, f3.trans f4, a4, by omega⟩
  | elseIf2 c body k ihb ihk =>
    intro B B' env env' ch h hr hw ha hact hch
    simp only [build, Option.bind_eq_bind] at h
    obtain ⟨l, hl, hA⟩ := Option.bind_eq_some_iff.mp h
    obtain ⟨B2, h1, hB⟩ := Option.bind_eq_some_iff.mp hA
    obtain ⟨B3, h2, hC⟩ := Option.bind_eq_some_iff.mp hB
    obtain ⟨B4, h3, hD⟩ := Option.bind_eq_some_iff.mp hC
    obtain ⟨B5, h4, hE⟩ := Option.bind_eq_some_iff.mp hD
    clear h hA hB hC hD
    simp only [run, Option.bind_eq_bind] at hr
    obtain ⟨taken, htk, hr⟩ := Option.bind_eq_some_iff.mp hr
    obtain ⟨l', hl', hlv⟩ := hch taken htk
    rw [hl] at hl'; cases hl'
    -- the ELSE scope
    obtain ⟨e, o1, eent, ecomb, _, fve⟩ := pushElse_spec (ρ := ρ) hw (hw.last l hl)
    have hfe : valAt ρ (pushElse B l).nodes e.full = [!taken] := by
      rw [fve, hlv]
      cases hs : B.scopes with
      | nil => rfl
      | cons parent rest => simp only; rw [hact parent rest hs]; simp [truthy]
    have ha1 : Agree ρ (pushElse B l).nodes (pushElse B l).sigs env := by rw [o1.sigs]; exact ha.mono hw.sigs o1.ext
    -- the inner IF scope
    obtain ⟨ns, ci, i, hb, e1, lci, oi, icond, ient, icomb, ens, fvi⟩ := openIf_spec (ρ := ρ) h1 o1.wf
    have hefull : e.full < (pushElse B l).nodes.size := (o1.wf.scopes e (by rw [o1.scopes]; exact List.mem_cons_self)).full
    have hfi : valAt ρ B2.nodes i.full = [truthy (valAt ρ ns ci) && !taken] := by
      rw [fvi, o1.scopes]; simp only; rw [valAt_ext e1 hefull, hfe]; rfl
    have h3' : popScope B3 (pushElse B l).sigs.length = some B4 := by rw [o1.sigs]; exact h3
    have hlen : env.length = B.sigs.length := ha.1
    -- common tail: given the state after both destructors, continue with `k`
    have tail : ∀ (env1 : List Val) (tk : Bool), WF B3 → Frame B2 B3 → WF B4 → Frame (pushElse B l) B4 →
        Agree ρ B4.nodes B4.sigs env1 → B4.sigs.length = (pushElse B l).sigs.length →
        (truthy (valAt ρ ns ci) || taken) = tk → run k env1 (some tk) = some env' →
        WF B' ∧ Frame B B' ∧ Agree ρ B'.nodes B'.sigs env' ∧ B.sigs.length ≤ B'.sigs.length := by
      intro env1 tk w3 f3 w4 f4 a4 l4 htk' hrk
      obtain ⟨w5, f5, a5⟩ := pop_active o1 w4 f4 a4 h4
      have hl5 := pop_sigs_length o1 f4 (by rw [l4]; exact Nat.le_refl _) h4
      have htake : env1.take B.sigs.length = env1 := by
        apply List.take_of_length_le
        rw [a4.1, l4, o1.sigs]; exact Nat.le_refl _
      rw [htake] at a5
      -- m_lastCondition after the two destructors
      have hs3 : B3.scopes = i :: (pushElse B l).scopes := by rw [f3.scopes, oi.scopes]
      obtain ⟨_, _, pn3, p5, p6⟩ := popScope_spec hs3 h3'
      simp only [icomb, ient] at p6
      have hs4 : B4.scopes = e :: B.scopes := by rw [f4.scopes, o1.scopes]
      obtain ⟨_, _, _, q5, q6⟩ := popScope_spec hs4 h4
      simp only [ecomb, eent, p6] at q6
      -- a scope was opened inside the ELSE: s_nextId moved on
      have hnid : B4.nextId ≠ e.id + 1 := by
        have h1' := f3.nextId
        rw [oi.nextId, o1.nextId] at h1'
        rw [pn3, o1.id]; omega
      simp only [ne_eq, hnid, not_false_eq_true, if_true] at q6
      have hch6 : ChainOK ρ B5 (some tk) := by
        intro t ht; cases ht
        refine ⟨B4.nodes.size, q6.1, ?_⟩
        rw [q6.2, val_or, icond, valAt_ext ((ens.trans f3.ext).trans p5) lci,
          valAt_ext (o1.ext.trans f4.ext) (hw.last l hl), hlv, truthy_single]
        exact htk'
      obtain ⟨w7, f7, a7, l7⟩ := ihk _ B' env1 env' _ hE hrk w5 a5 (hact.frame hw f5) hch6
      refine ⟨w7, f5.trans f7, a7, ?_⟩
      rw [hl5] at l7; exact l7
    cases taken with
    | true =>
      simp only [if_true] at hr
      have hid : valAt ρ B2.nodes i.full = [false] := by rw [hfi]; simp
      obtain ⟨w4, f4, a4, l4, w3, f3⟩ := scoped_body (t := false) (env1 := env) ihb o1.wf oi hid ha1 h2 h3' (by simp)
      exact tail env true w3 f3 w4 f4 a4 l4 (by simp) hr
    | false =>
      simp only [Bool.false_eq_true, if_false, Option.bind_eq_bind] at hr
      obtain ⟨vc, hvc, hr⟩ := Option.bind_eq_some_iff.mp hr
      rw [ite_bind] at hr
      obtain ⟨env1, henv1, hr⟩ := Option.bind_eq_some_iff.mp hr
      obtain ⟨g1, g2⟩ := buildExpr_sound c _ _ _ _ vc hb ha1 o1.wf.sigs hvc
      have hid : valAt ρ B2.nodes i.full = [truthy vc] := by rw [hfi, g1]; simp
      have henv1' : (if truthy vc = true then dropLocals (pushElse B l).sigs.length (run body env none) else some env) = some env1 := by
        rw [o1.sigs, ← hlen]; exact henv1
      have ha1' := ha1
      obtain ⟨w4, f4, a4, l4, w3, f3⟩ := scoped_body (t := truthy vc) (env1 := env1) ihb o1.wf oi hid ha1 h2 h3'
        (by rw [ha1.1]; exact henv1')
      exact tail env1 (truthy vc) w3 f3 w4 f4 a4 l4 (by rw [g1]; simp) hr
  | istmt s k _ =>
    intro B B' env env' ch h hr hw ha hact hch
    simp [build] at h
  | enif c body k _ _ =>
    intro B B' env env' ch h hr hw ha hact hch
    simp [build] at h

end Gatery.C05
