import GateryModel.C05.LemmasStmt
/-!
# C05 helper lemmas 6 — scopes around blocks, and the two inductions over programs

* `build_dead`   : a block built under a full condition that evaluates to false leaves every outer signal's value alone;
* `build_active` : a block built under a full condition that evaluates to true (or outside every scope) tracks the
                   sequential interpreter: afterwards every live signal's driver evaluates to the interpreter's environment,
                   and `m_lastCondition` evaluates to "some branch of the chain so far was taken".
-/
namespace Gatery.C05

variable {ρ : List Val}

/-- `B1` = `B` with one more `ConditionalScope` (`new`) constructed -/
structure Opened (B B1 : BState) (new : Scope) : Prop where
  wf : WF B1
  scopes : B1.scopes = new :: B.scopes
  id : new.id = B.nextId
  sigs : B1.sigs = B.sigs
  nextId : B1.nextId = B.nextId + 1
  last : B1.lastCond = B.lastCond
  ext : Ext B.nodes B1.nodes

/-- opening a scope on `B` whose nodes were extended to `ns` (by evaluating the condition) -/
theorem opened_push {B : BState} (hw : WF B) {ns : Nodes} (e : Ext B.nodes ns) {cond : Nat} (hc : cond < ns.size)
    {oe cb : Option Nat} (hoe : ∀ l, oe = some l → l < ns.size) (hcb : ∀ c, cb = some c → c < ns.size) :
    ∃ new, Opened B (pushScope { B with nodes := ns } cond oe cb) new ∧ new.cond = cond ∧ new.onEntry = oe ∧ new.combined = cb ∧
      Ext ns (pushScope { B with nodes := ns } cond oe cb).nodes ∧
      valAt ρ (pushScope { B with nodes := ns } cond oe cb).nodes new.full =
        match B.scopes with
        | [] => valAt ρ ns cond
        | parent :: _ => [truthy (valAt ρ ns cond) && truthy (valAt ρ ns parent.full)] := by
  have hw0 : WF { B with nodes := ns } := hw.withNodes e
  obtain ⟨full, h1, h2, h3, h4, h6, h7, h8⟩ := pushScope_spec (ρ := ρ) { B with nodes := ns } cond oe cb
  refine ⟨_, ⟨pushScope_wf hw0 hc hoe hcb, h1, rfl, h3, h2, h4, e.trans h6⟩, rfl, rfl, rfl, h6, ?_⟩
  exact h8 hc (fun sc hsc => (hw0.scopes sc hsc).full)

theorem agree_take {ns : Nodes} {sigs : List Sig} {env : List Val} (h : Agree ρ ns sigs env) (n : Nat) :
    Agree ρ ns (sigs.take n) (env.take n) := by
  refine ⟨by simp [List.length_take, h.1], fun x s hx => ?_⟩
  rw [List.getElem?_take] at hx
  split at hx
  · obtain ⟨v, a1, a2, a3⟩ := h.2 x s hx
    exact ⟨v, by rw [List.getElem?_take]; simp [*], a2, a3⟩
  · simp at hx

/-- closing a scope whose block was skipped -/
theorem pop_dead {B B1 B2 B3 : BState} {new : Scope} (hw : WF B) (ho : Opened B B1 new) (hw2 : WF B2) (hf : Frame B1 B2)
    (hk : Keeps ρ new.id B1 B2) (hp : popScope B2 B.sigs.length = some B3) :
    WF B3 ∧ Frame B B3 ∧ Keeps ρ B.nextId B B3 := by
  have hs2 : B2.scopes = new :: B.scopes := by rw [hf.scopes, ho.scopes]
  obtain ⟨p1, p2, p3, p5, _⟩ := popScope_spec hs2 hp
  refine ⟨(popScope_wf hw2 hp).1, ⟨(ho.ext.trans hf.ext).trans p5, p1, ?_⟩, ?_⟩
  · rw [p3]; exact Nat.le_trans (by rw [ho.nextId]; exact Nat.le_succ _) hf.nextId
  · intro x s hx hlt
    obtain ⟨s2, a1, a2, a3, a4⟩ := hk x s (by rw [ho.sigs]; exact hx) (by rw [ho.id]; exact hlt)
    refine ⟨s2, ?_, a2, a3, ?_⟩
    · rw [p2, List.getElem?_take]
      simp [(List.getElem?_eq_some_iff.mp hx).1, a1]
    · rw [valAt_ext p5 (hw2.sigs x s2 a1), a4, valAt_ext ho.ext (hw.sigs x s hx)]

/-- a skipped block leaves the agreement with the interpreter's (unchanged) environment intact -/
theorem agree_of_keeps {B B3 : BState} {env : List Val} (hw : WF B) (ha : Agree ρ B.nodes B.sigs env)
    (hk : Keeps ρ B.nextId B B3) (hl : B3.sigs.length = B.sigs.length) : Agree ρ B3.nodes B3.sigs env := by
  refine ⟨by rw [hl]; exact ha.1, fun x s3 hx => ?_⟩
  have hxl : x < B.sigs.length := by rw [← hl]; exact (List.getElem?_eq_some_iff.mp hx).1
  have hxs : B.sigs[x]? = some B.sigs[x] := List.getElem?_eq_getElem hxl
  obtain ⟨s', a1, a2, a3, a4⟩ := hk x _ hxs (hw.sigInit x _ hxs)
  rw [hx] at a1; cases a1
  obtain ⟨v, b1, b2, b3⟩ := ha.2 x _ hxs
  exact ⟨v, b1, by rw [a4]; exact b2, by rw [a2]; exact b3⟩

theorem pop_sigs_length {B B1 B2 B3 : BState} {new : Scope} (ho : Opened B B1 new) (hf : Frame B1 B2)
    (hle : B1.sigs.length ≤ B2.sigs.length) (hp : popScope B2 B.sigs.length = some B3) : B3.sigs.length = B.sigs.length := by
  have hs2 : B2.scopes = new :: B.scopes := by rw [hf.scopes, ho.scopes]
  obtain ⟨_, p2, _⟩ := popScope_spec hs2 hp
  rw [p2, List.length_take, ← ho.sigs]; omega

/-- closing a scope whose block was executed -/
theorem pop_active {B B1 B2 B3 : BState} {new : Scope} {envb : List Val} (ho : Opened B B1 new) (hw2 : WF B2) (hf : Frame B1 B2)
    (ha : Agree ρ B2.nodes B2.sigs envb) (hp : popScope B2 B.sigs.length = some B3) :
    WF B3 ∧ Frame B B3 ∧ Agree ρ B3.nodes B3.sigs (envb.take B.sigs.length) := by
  have hs2 : B2.scopes = new :: B.scopes := by rw [hf.scopes, ho.scopes]
  obtain ⟨p1, p2, p3, p5, _⟩ := popScope_spec hs2 hp
  refine ⟨(popScope_wf hw2 hp).1, ⟨(ho.ext.trans hf.ext).trans p5, p1, ?_⟩, ?_⟩
  · rw [p3]; exact Nat.le_trans (by rw [ho.nextId]; exact Nat.le_succ _) hf.nextId
  · rw [p2]
    exact agree_take (ha.mono hw2.sigs p5) _

/-! ### the statements that open scopes -/

theorem openIf_spec {B B1 : BState} {c : Expr} (h : openIf B c = some B1) (hw : WF B) :
    ∃ ns ci new, buildExpr B.sigs B.nodes c = some (ns, ci, .bit) ∧ Ext B.nodes ns ∧ ci < ns.size ∧
      Opened B B1 new ∧ new.cond = ci ∧ new.onEntry = none ∧ new.combined = none ∧ Ext ns B1.nodes ∧
      valAt ρ B1.nodes new.full =
        match B.scopes with
        | [] => valAt ρ ns ci
        | parent :: _ => [truthy (valAt ρ ns ci) && truthy (valAt ρ ns parent.full)] := by
  unfold openIf at h
  simp only [Option.bind_eq_bind] at h
  cases hb : buildExpr B.sigs B.nodes c with
  | none => simp [hb] at h
  | some pr =>
    obtain ⟨ns, ci, t⟩ := pr
    simp only [hb, Option.bind_some] at h
    split at h
    · rename_i ht; subst ht
      simp only [Option.some.injEq] at h
      subst h
      obtain ⟨e1, l1⟩ := buildExpr_ext c _ _ _ _ hb hw.sigs
      obtain ⟨new, o1, o2, o3, o4, o5, o6⟩ := opened_push (ρ := ρ) hw e1 l1 (oe := none) (cb := none) (by simp) (by simp)
      exact ⟨ns, ci, new, rfl, e1, l1, o1, o2, o3, o4, o5, o6⟩
    · simp at h

theorem pushElse_spec {B : BState} {l : Nat} (hw : WF B) (hl : l < B.nodes.size) :
    ∃ new, Opened B (pushElse B l) new ∧ new.onEntry = some l ∧ new.combined = none ∧
      valAt ρ (pushElse B l).nodes new.cond = [!truthy (valAt ρ B.nodes l)] ∧
      valAt ρ (pushElse B l).nodes new.full =
        match B.scopes with
        | [] => [!truthy (valAt ρ B.nodes l)]
        | parent :: _ => [!truthy (valAt ρ B.nodes l) && truthy (valAt ρ B.nodes parent.full)] := by
  unfold pushElse
  simp only [mkNode]
  have e1 : Ext B.nodes ((B.nodes.push (.not l)).push (.sig B.nodes.size)) := (Ext.push _ _).trans (Ext.push _ _)
  obtain ⟨new, o1, o2, o3, o4, o6, o5⟩ := opened_push (ρ := ρ) hw e1 (cond := (B.nodes.push (.not l)).size)
    (by simp [Array.size_push]) (oe := some l) (cb := none) (by intro l' h'; cases h'; exact e1.lt hl) (by simp)
  have hcv : valAt ρ ((B.nodes.push (.not l)).push (.sig B.nodes.size)) (B.nodes.push (.not l)).size = [!truthy (valAt ρ B.nodes l)] := by
    rw [val_sig, val_not]
  refine ⟨new, o1, o3, o4, ?_, ?_⟩
  · rw [o2, valAt_ext o6 (by simp [Array.size_push])]; exact hcv
  · rw [o5]
    cases hs : B.scopes with
    | nil => simp only; exact hcv
    | cons parent rest =>
      simp only [hcv, truthy_single]
      have hp : parent.full < B.nodes.size := (hw.scopes parent (by rw [hs]; exact List.mem_cons_self)).full
      rw [valAt_ext e1 hp]

theorem openElseIf_spec {B B1 : BState} {c : Expr} (h : openElseIf B c = some B1) (hw : WF B) :
    ∃ ns ci l new o, buildExpr B.sigs B.nodes c = some (ns, ci, .bit) ∧ B.lastCond = some l ∧ Ext B.nodes ns ∧ ci < ns.size ∧
      Opened B B1 new ∧ new.onEntry = none ∧ new.combined = some o ∧ o < B1.nodes.size ∧
      valAt ρ B1.nodes o = [truthy (valAt ρ B.nodes l) || truthy (valAt ρ ns ci)] ∧
      valAt ρ B1.nodes new.full =
        match B.scopes with
        | [] => [truthy (valAt ρ ns ci) && !truthy (valAt ρ B.nodes l)]
        | parent :: _ => [(truthy (valAt ρ ns ci) && !truthy (valAt ρ B.nodes l)) && truthy (valAt ρ B.nodes parent.full)] := by
  unfold openElseIf at h
  simp only [Option.bind_eq_bind] at h
  cases hb : buildExpr B.sigs B.nodes c with
  | none => simp [hb] at h
  | some pr =>
    obtain ⟨ns, ci, t⟩ := pr
    simp only [hb, Option.bind_some] at h
    obtain ⟨l, hl, h'⟩ := Option.bind_eq_some_iff.mp h
    clear h
    · split at h'
      · rename_i ht; subst ht
        simp only [mkNode, Option.some.injEq] at h'
        subst h'
        obtain ⟨e1, l1⟩ := buildExpr_ext c _ _ _ _ hb hw.sigs
        have hl0 : l < B.nodes.size := hw.last l hl
        have hl1 : l < ns.size := e1.lt hl0
        let n1 := ns.push (.or l ci)
        let n2 := n1.push (.not l)
        let n3 := n2.push (.and ci n1.size)
        have x1 : Ext ns n1 := Ext.push _ _
        have x2 : Ext n1 n2 := Ext.push _ _
        have x3 : Ext n2 n3 := Ext.push _ _
        have x13 : Ext n1 n3 := x2.trans x3
        have e3 : Ext B.nodes n3 := e1.trans (x1.trans x13)
        have hsz1 : n1.size = ns.size + 1 := by simp [n1, Array.size_push]
        have hsz2 : n2.size = ns.size + 2 := by simp [n2, n1, Array.size_push]
        have hsz3 : n3.size = ns.size + 3 := by simp [n3, n2, n1, Array.size_push]
        obtain ⟨new, o1, o2, o3, o4, o6, o5⟩ := opened_push (ρ := ρ) hw e3 (cond := n2.size)
          (by rw [hsz3, hsz2]; omega) (oe := none) (cb := some ns.size) (by simp)
          (by intro c' h'; cases h'; rw [hsz3]; omega)
        have hor : valAt ρ n3 ns.size = [truthy (valAt ρ B.nodes l) || truthy (valAt ρ ns ci)] := by
          rw [valAt_ext x13 (by rw [hsz1]; omega), val_or, valAt_ext e1 hl0]
        have hand : valAt ρ n3 n2.size = [truthy (valAt ρ ns ci) && !truthy (valAt ρ B.nodes l)] := by
          rw [val_and, valAt_ext (x1.trans x2) l1]
          have : valAt ρ n2 n1.size = [!truthy (valAt ρ B.nodes l)] := by
            rw [val_not, valAt_ext x1 hl1, valAt_ext e1 hl0]
          rw [this, truthy_single]
        refine ⟨ns, ci, l, new, ns.size, rfl, hl, e1, l1, o1, o3, o4, o6.lt (by rw [hsz3]; omega), ?_, ?_⟩
        · rw [valAt_ext o6 (by rw [hsz3]; omega)]; exact hor
        · rw [o5]
          cases hs : B.scopes with
          | nil => simp only; exact hand
          | cons parent rest =>
            simp only [hand, truthy_single]
            have hp : parent.full < B.nodes.size := (hw.scopes parent (by rw [hs]; exact List.mem_cons_self)).full
            rw [valAt_ext e3 hp]
      · simp at h'

/-! ### a skipped block -/

theorem dead_full_persist {B B1 : BState} {top : Scope} {rest : List Scope} (hw : WF B) (hsc : B.scopes = top :: rest)
    (hd : valAt ρ B.nodes top.full = [false]) (hf : Frame B B1) :
    B1.scopes = top :: rest ∧ valAt ρ B1.nodes top.full = [false] := by
  refine ⟨by rw [hf.scopes, hsc], ?_⟩
  rw [valAt_ext hf.ext (hw.scopes top (by rw [hsc]; exact List.mem_cons_self)).full]; exact hd

theorem build_dead (p : Prog) : ∀ (B B' : BState) (top : Scope) (rest : List Scope),
    build p B = some B' → WF B → B.scopes = top :: rest → valAt ρ B.nodes top.full = [false] →
    WF B' ∧ Frame B B' ∧ Keeps ρ top.id B B' ∧ B.sigs.length ≤ B'.sigs.length := by
  induction p with
  | done =>
    intro B B' top rest h hw hsc hd
    simp [build] at h; subst h
    exact ⟨hw, Frame.refl _, Keeps.refl _ _, Nat.le_refl _⟩
  | decl ty init k ihk =>
    intro B B' top rest h hw hsc hd
    simp only [build, Option.bind_eq_bind] at h
    cases h1 : stepDecl B ty init with
    | none => simp [h1] at h
    | some B1 =>
      simp only [h1, Option.bind_some] at h
      obtain ⟨w1, f1, _, ns, i, _, _, hs⟩ := stepDecl_frame h1 hw
      obtain ⟨s1, d1⟩ := dead_full_persist hw hsc hd f1
      obtain ⟨w2, f2, k2, l2⟩ := ihk B1 B' top rest h w1 s1 d1
      exact ⟨w2, f1.trans f2, (stepDecl_keeps top.id h1 hw).trans k2, by rw [hs] at l2; simp at l2; omega⟩
  | declDefault ty d k ihk =>
    intro B B' top rest h hw hsc hd
    simp only [build, Option.bind_eq_bind] at h
    cases h1 : stepDefault B ty d with
    | none => simp [h1] at h
    | some B1 =>
      simp only [h1, Option.bind_some] at h
      obtain ⟨w1, f1, _, _, s, hs, _⟩ := stepDefault_frame (ρ := ρ) h1 hw
      obtain ⟨s1, d1⟩ := dead_full_persist hw hsc hd f1
      obtain ⟨w2, f2, k2, l2⟩ := ihk B1 B' top rest h w1 s1 d1
      exact ⟨w2, f1.trans f2, (stepDefault_keeps top.id h1 hw).trans k2, by rw [hs] at l2; simp at l2; omega⟩
  | assign x p e k ihk =>
    intro B B' top rest h hw hsc hd
    simp only [build, Option.bind_eq_bind] at h
    cases h1 : stepAssign B x p e with
    | none => simp [h1] at h
    | some B1 =>
      simp only [h1, Option.bind_some] at h
      obtain ⟨w1, f1, _, hl⟩ := stepAssign_frame h1 hw
      obtain ⟨s1, d1⟩ := dead_full_persist hw hsc hd f1
      obtain ⟨w2, f2, k2, l2⟩ := ihk B1 B' top rest h w1 s1 d1
      exact ⟨w2, f1.trans f2, (stepAssign_dead h1 hw hsc hd).trans k2, by omega⟩
  | ifS c body k ihb ihk =>
    intro B B' top rest h hw hsc hd
    simp only [build, Option.bind_eq_bind] at h
    cases h1 : openIf B c with
    | none => simp [h1] at h
    | some B1 =>
      simp only [h1, Option.bind_some] at h
      cases h2 : build body B1 with
      | none => simp [h2] at h
      | some B2 =>
        simp only [h2, Option.bind_some] at h
        cases h3 : popScope B2 B.sigs.length with
        | none => simp [h3] at h
        | some B3 =>
          simp only [h3, Option.bind_some] at h
          obtain ⟨ns, ci, new, _, e1, _, o1, _, _, _, _, fv⟩ := openIf_spec (ρ := ρ) h1 hw
          have hfull : top.full < B.nodes.size := (hw.scopes top (by rw [hsc]; exact List.mem_cons_self)).full
          have hnd : valAt ρ B1.nodes new.full = [false] := by
            rw [fv, hsc]; simp only; rw [valAt_ext e1 hfull, hd]; simp [truthy]
          obtain ⟨w2, f2, k2, l2⟩ := ihb B1 B2 new (B.scopes) h2 o1.wf o1.scopes hnd
          obtain ⟨w3, f3, k3⟩ := pop_dead hw o1 w2 f2 k2 h3
          have hl3 := pop_sigs_length o1 f2 l2 h3
          obtain ⟨s3, d3⟩ := dead_full_persist hw hsc hd f3
          obtain ⟨w4, f4, k4, l4⟩ := ihk B3 B' top rest h w3 s3 d3
          have hlt : top.id ≤ B.nextId := Nat.le_of_lt (hw.scopes top (by rw [hsc]; exact List.mem_cons_self)).id
          exact ⟨w4, f3.trans f4, (k3.weaken hlt).trans k4, by omega⟩
  | elseS body k ihb ihk =>
    intro B B' top rest h hw hsc hd
    simp only [build, Option.bind_eq_bind] at h
    cases h1 : openElse B with
    | none => simp [h1] at h
    | some B1 =>
      simp only [h1, Option.bind_some] at h
      cases h2 : build body B1 with
      | none => simp [h2] at h
      | some B2 =>
        simp only [h2, Option.bind_some] at h
        cases h3 : popScope B2 B.sigs.length with
        | none => simp [h3] at h
        | some B3 =>
          simp only [h3, Option.bind_some] at h
          unfold openElse at h1
          cases hl : B.lastCond with
          | none => simp [hl] at h1
          | some l =>
            simp only [hl, Option.bind_eq_bind, Option.bind_some, Option.some.injEq] at h1
            subst h1
            obtain ⟨new, o1, _, _, _, fv⟩ := pushElse_spec (ρ := ρ) hw (hw.last l hl)
            have hnd : valAt ρ (pushElse B l).nodes new.full = [false] := by
              rw [fv, hsc]; simp only; rw [hd]; simp [truthy]
            obtain ⟨w2, f2, k2, l2⟩ := ihb _ B2 new (B.scopes) h2 o1.wf o1.scopes hnd
            obtain ⟨w3, f3, k3⟩ := pop_dead hw o1 w2 f2 k2 h3
            have hl3 := pop_sigs_length o1 f2 l2 h3
            obtain ⟨s3, d3⟩ := dead_full_persist hw hsc hd f3
            obtain ⟨w4, f4, k4, l4⟩ := ihk B3 B' top rest h w3 s3 d3
            have hlt : top.id ≤ B.nextId := Nat.le_of_lt (hw.scopes top (by rw [hsc]; exact List.mem_cons_self)).id
            exact ⟨w4, f3.trans f4, (k3.weaken hlt).trans k4, by omega⟩
  | elseifS c body k ihb ihk =>
    intro B B' top rest h hw hsc hd
    simp only [build, Option.bind_eq_bind] at h
    cases h1 : openElseIf B c with
    | none => simp [h1] at h
    | some B1 =>
      simp only [h1, Option.bind_some] at h
      cases h2 : build body B1 with
      | none => simp [h2] at h
      | some B2 =>
        simp only [h2, Option.bind_some] at h
        cases h3 : popScope B2 B.sigs.length with
        | none => simp [h3] at h
        | some B3 =>
          simp only [h3, Option.bind_some] at h
          obtain ⟨ns, ci, l, new, o, _, _, e1, _, o1, _, _, _, _, fv⟩ := openElseIf_spec (ρ := ρ) h1 hw
          have hnd : valAt ρ B1.nodes new.full = [false] := by
            rw [fv, hsc]; simp only; rw [hd]; simp [truthy]
          obtain ⟨w2, f2, k2, l2⟩ := ihb B1 B2 new (B.scopes) h2 o1.wf o1.scopes hnd
          obtain ⟨w3, f3, k3⟩ := pop_dead hw o1 w2 f2 k2 h3
          have hl3 := pop_sigs_length o1 f2 l2 h3
          obtain ⟨s3, d3⟩ := dead_full_persist hw hsc hd f3
          obtain ⟨w4, f4, k4, l4⟩ := ihk B3 B' top rest h w3 s3 d3
          have hlt : top.id ≤ B.nextId := Nat.le_of_lt (hw.scopes top (by rw [hsc]; exact List.mem_cons_self)).id
          exact ⟨w4, f3.trans f4, (k3.weaken hlt).trans k4, by omega⟩
  | elseIf2 c body k ihb ihk =>
    intro B B' top rest h hw hsc hd
    simp only [build, Option.bind_eq_bind] at h
    cases hl : B.lastCond with
    | none => simp [hl] at h
    | some l =>
      simp only [hl, Option.bind_some] at h
      cases h1 : openIf (pushElse B l) c with
      | none => simp [h1] at h
      | some B2 =>
        simp only [h1, Option.bind_some] at h
        cases h2 : build body B2 with
        | none => simp [h2] at h
        | some B3 =>
          simp only [h2, Option.bind_some] at h
          cases h3 : popScope B3 B.sigs.length with
          | none => simp [h3] at h
          | some B4 =>
            simp only [h3, Option.bind_some] at h
            cases h4 : popScope B4 B.sigs.length with
            | none => simp [h4] at h
            | some B5 =>
              simp only [h4, Option.bind_some] at h
              obtain ⟨e, o1, _, _, _, fve⟩ := pushElse_spec (ρ := ρ) hw (hw.last l hl)
              have hfull : top.full < B.nodes.size := (hw.scopes top (by rw [hsc]; exact List.mem_cons_self)).full
              have hed : valAt ρ (pushElse B l).nodes e.full = [false] := by
                rw [fve, hsc]; simp only; rw [hd]; simp [truthy]
              obtain ⟨ns, ci, i, _, e1, _, oi, _, _, _, _, fvi⟩ := openIf_spec (ρ := ρ) h1 o1.wf
              have hefull : e.full < (pushElse B l).nodes.size := (o1.wf.scopes e (by rw [o1.scopes]; exact List.mem_cons_self)).full
              have hid : valAt ρ B2.nodes i.full = [false] := by
                rw [fvi, o1.scopes]; simp only; rw [valAt_ext e1 hefull, hed]; simp [truthy]
              obtain ⟨w3, f3, k3, l3⟩ := ihb B2 B3 i _ h2 oi.wf oi.scopes hid
              have h3' : popScope B3 (pushElse B l).sigs.length = some B4 := by rw [o1.sigs]; exact h3
              obtain ⟨w4, f4, k4⟩ := pop_dead o1.wf oi w3 f3 k3 h3'
              have hl4 := pop_sigs_length oi f3 l3 h3'
              have k4' : Keeps ρ e.id (pushElse B l) B4 := k4.weaken (by rw [o1.id, o1.nextId]; exact Nat.le_succ _)
              obtain ⟨w5, f5, k5⟩ := pop_dead hw o1 w4 f4 k4' h4
              have hl5 := pop_sigs_length o1 f4 (by rw [hl4]; exact Nat.le_refl _) h4
              obtain ⟨s6, d6⟩ := dead_full_persist hw hsc hd f5
              obtain ⟨w7, f7, k7, l7⟩ := ihk _ B' top rest h w5 s6 d6
              have hlt : top.id ≤ B.nextId := Nat.le_of_lt (hw.scopes top (by rw [hsc]; exact List.mem_cons_self)).id
              exact ⟨w7, f5.trans f7, (k5.weaken hlt).trans k7, by omega⟩
  | istmt s k _ =>
    intro B B' top rest h hw hsc hd
    simp [build] at h
  | enif c body k _ _ =>
    intro B B' top rest h hw hsc hd
    simp [build] at h

end Gatery.C05
