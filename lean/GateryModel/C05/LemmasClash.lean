import GateryModel.C05.LemmasBuild
/-!
# C05 helper lemmas 7 — the ghost flag `clash` is only ever raised
-/
namespace Gatery.C05

theorem stepDecl_clash {B B1 : BState} {ty : Ty} {init : Expr} (h : stepDecl B ty init = some B1) : B1.clash = B.clash := by
  unfold stepDecl at h
  simp only [Option.bind_eq_bind] at h
  cases hb : buildExpr B.sigs B.nodes init with
  | none => simp [hb] at h
  | some pr =>
    obtain ⟨ns, i, t⟩ := pr
    simp only [hb, Option.bind_some] at h
    split at h
    · simp only [Option.some.injEq] at h; subst h; rfl
    · simp at h

theorem stepDefault_clash {B B1 : BState} {ty : Ty} {d : Val} (h : stepDefault B ty d = some B1) : B1.clash = B.clash := by
  unfold stepDefault at h
  split at h
  · simp only [mkNode, Option.some.injEq] at h; subst h; rfl
  · simp at h

theorem stepAssign_clash {B B1 : BState} {x : Nat} {p : List Sel} {e : Expr} (h : stepAssign B x p e = some B1) :
    B1.clash = B.clash := by
  obtain ⟨_, _, _, _, _, _, _, _, _, _, rfl⟩ := stepAssign_inv h
  rfl

theorem pushScope_clash (B : BState) (cond : Nat) (oe cb : Option Nat) : (pushScope B cond oe cb).clash = B.clash := by
  obtain ⟨_, _, _, _, _, h, _⟩ := pushScope_spec (ρ := []) B cond oe cb
  exact h

theorem pushElse_clash (B : BState) (l : Nat) : (pushElse B l).clash = B.clash := by
  unfold pushElse
  simp only [mkNode]
  rw [pushScope_clash]

theorem openIf_clash {B B1 : BState} {c : Expr} (h : openIf B c = some B1) : B1.clash = B.clash := by
  unfold openIf at h
  simp only [Option.bind_eq_bind] at h
  cases hb : buildExpr B.sigs B.nodes c with
  | none => simp [hb] at h
  | some pr =>
    obtain ⟨ns, ci, t⟩ := pr
    simp only [hb, Option.bind_some] at h
    split at h
    · simp only [Option.some.injEq] at h; subst h; rw [pushScope_clash]
    · simp at h

theorem openElse_clash {B B1 : BState} (h : openElse B = some B1) : B1.clash = B.clash := by
  unfold openElse at h
  simp only [Option.bind_eq_bind] at h
  obtain ⟨l, _, h'⟩ := Option.bind_eq_some_iff.mp h
  simp only [Option.some.injEq] at h'; subst h'
  exact pushElse_clash B l

theorem openElseIf_clash {B B1 : BState} {c : Expr} (h : openElseIf B c = some B1) : B1.clash = B.clash := by
  unfold openElseIf at h
  simp only [Option.bind_eq_bind] at h
  cases hb : buildExpr B.sigs B.nodes c with
  | none => simp [hb] at h
  | some pr =>
    obtain ⟨ns, ci, t⟩ := pr
    simp only [hb, Option.bind_some] at h
    obtain ⟨l, _, h'⟩ := Option.bind_eq_some_iff.mp h
    split at h'
    · simp only [mkNode, Option.some.injEq] at h'; subst h'; rw [pushScope_clash]
    · simp at h'

theorem popScope_clash {B B' : BState} {n : Nat} (h : popScope B n = some B') : B'.clash = B.clash := by
  cases hs : B.scopes with
  | nil => simp [popScope, hs] at h
  | cons s rest => exact (popScope_spec hs h).2.2.2.1

theorem noteClash_clash_of_true {l : Nat} {B4 B5 : BState} (h : B5.clash = true) : (noteClash l B4 B5).clash = true := by
  unfold noteClash; split <;> simp [h]

/-- once raised, the flag stays raised -/
theorem build_clash_mono (p : Prog) : ∀ (B B' : BState), build p B = some B' → B.clash = true → B'.clash = true := by
  induction p with
  | done => intro B B' h hc; simp [build] at h; subst h; exact hc
  | decl ty init k ihk =>
    intro B B' h hc
    simp only [build, Option.bind_eq_bind] at h
    obtain ⟨B1, h1, h2⟩ := Option.bind_eq_some_iff.mp h
    exact ihk _ _ h2 (by rw [stepDecl_clash h1]; exact hc)
  | declDefault ty d k ihk =>
    intro B B' h hc
    simp only [build, Option.bind_eq_bind] at h
    obtain ⟨B1, h1, h2⟩ := Option.bind_eq_some_iff.mp h
    exact ihk _ _ h2 (by rw [stepDefault_clash h1]; exact hc)
  | assign x p e k ihk =>
    intro B B' h hc
    simp only [build, Option.bind_eq_bind] at h
    obtain ⟨B1, h1, h2⟩ := Option.bind_eq_some_iff.mp h
    exact ihk _ _ h2 (by rw [stepAssign_clash h1]; exact hc)
  | ifS c body k ihb ihk =>
    intro B B' h hc
    simp only [build, Option.bind_eq_bind] at h
    obtain ⟨B1, h1, h⟩ := Option.bind_eq_some_iff.mp h
    obtain ⟨B2, h2, h⟩ := Option.bind_eq_some_iff.mp h
    obtain ⟨B3, h3, h⟩ := Option.bind_eq_some_iff.mp h
    exact ihk _ _ h (by rw [popScope_clash h3]; exact ihb _ _ h2 (by rw [openIf_clash h1]; exact hc))
  | elseS body k ihb ihk =>
    intro B B' h hc
    simp only [build, Option.bind_eq_bind] at h
    obtain ⟨B1, h1, h⟩ := Option.bind_eq_some_iff.mp h
    obtain ⟨B2, h2, h⟩ := Option.bind_eq_some_iff.mp h
    obtain ⟨B3, h3, h⟩ := Option.bind_eq_some_iff.mp h
    exact ihk _ _ h (by rw [popScope_clash h3]; exact ihb _ _ h2 (by rw [openElse_clash h1]; exact hc))
  | elseifS c body k ihb ihk =>
    intro B B' h hc
    simp only [build, Option.bind_eq_bind] at h
    obtain ⟨B1, h1, h⟩ := Option.bind_eq_some_iff.mp h
    obtain ⟨B2, h2, h⟩ := Option.bind_eq_some_iff.mp h
    obtain ⟨B3, h3, h⟩ := Option.bind_eq_some_iff.mp h
    exact ihk _ _ h (by rw [popScope_clash h3]; exact ihb _ _ h2 (by rw [openElseIf_clash h1]; exact hc))
  | elseIf2 c body k ihb ihk =>
    intro B B' h hc
    simp only [build, Option.bind_eq_bind] at h
    obtain ⟨l, _, h⟩ := Option.bind_eq_some_iff.mp h
    obtain ⟨B2, h1, h⟩ := Option.bind_eq_some_iff.mp h
    obtain ⟨B3, h2, h⟩ := Option.bind_eq_some_iff.mp h
    obtain ⟨B4, h3, h⟩ := Option.bind_eq_some_iff.mp h
    obtain ⟨B5, h4, h⟩ := Option.bind_eq_some_iff.mp h
    refine ihk _ _ h (noteClash_clash_of_true ?_)
    rw [popScope_clash h4, popScope_clash h3]
    exact ihb _ _ h2 (by rw [openIf_clash h1, pushElse_clash]; exact hc)

theorem build_clash_false {p : Prog} {B B' : BState} (h : build p B = some B') (hc : B'.clash = false) : B.clash = false := by
  cases hb : B.clash with
  | false => rfl
  | true => rw [build_clash_mono p B B' h hb] at hc; cases hc

end Gatery.C05
