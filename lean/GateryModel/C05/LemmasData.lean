import GateryModel.C05.LemmasEval
/-!
# C05 helper lemmas 2 — values: widths of `extract` / `splice` / operators, and the Rewire that
`replaceSelection` describes equals `splice` on values of the right widths.
-/
namespace Gatery.C05

theorem length_extract (l : Val) (off w : Nat) (h : off + w ≤ l.length) : (extract l off w).length = w := by
  simp [extract, List.length_take, List.length_drop]; omega

theorem length_splice (cur : Val) (off w : Nat) (new : Val) (h : off + w ≤ cur.length) (hn : new.length = w) :
    (splice cur off w new).length = cur.length := by
  simp [splice, List.length_take, List.length_drop]; omega

theorem length_bitsOfNat (w n : Nat) : (bitsOfNat w n).length = w := by
  induction w generalizing n with
  | zero => rfl
  | succ w ih => simp [bitsOfNat, ih]

theorem length_op1 (o : Op1) (a : Val) : (o.sem a).length = a.length := by
  cases o; simp [Op1.sem]

theorem length_op2 (o : Op2) (ta tb t : Ty) (a b : Val) (h : o.resTy ta tb = some t)
    (ha : a.length = ta.width) (hb : b.length = tb.width) : (o.sem a b).length = t.width := by
  cases o <;> cases ta <;> cases tb <;> simp [Op2.resTy] at h <;>
    (try (obtain ⟨h1, h2⟩ := h; subst h2)) <;> (try subst h) <;>
    simp_all [Op2.sem, Ty.width, length_bitsOfNat, List.length_zipWith]

theorem truthy_single (b : Bool) : truthy [b] = b := rfl

theorem eq_single_of_length_one (v : Val) (h : v.length = 1) : v = [truthy v] := by
  match v, h with
  | [b], _ => rfl

/-- value of the Rewire node built by `BitVectorSliceStatic::assignLocal` (`g k` = value of input `k`) -/
theorem rewire_replace (g : Nat → Val) (off w total : Nat) (hc : (g 0).length = total) (hn : (g 1).length = w)
    (h : off + w ≤ total) :
    (replaceSelection off w total).flatMap (fun r => extract (g r.1) r.2.1 r.2.2) = splice (g 0) off w (g 1) := by
  unfold replaceSelection splice
  have h1 : min w (total - off) = w := by omega
  have h2 : List.take w (g 1) = g 1 := List.take_of_length_le (by omega)
  by_cases hgt : total > off + w
  · simp only [hgt, if_true, List.flatMap_append, List.flatMap_cons, List.flatMap_nil, List.append_nil, extract,
      List.drop_zero, h1, h2]
    have h3 : List.take (total - (off + w)) (List.drop (off + w) (g 0)) = List.drop (off + w) (g 0) :=
      List.take_of_length_le (by simp [List.length_drop]; omega)
    simp [h3]
  · simp only [hgt, if_false, List.flatMap_cons, List.flatMap_nil, List.append_nil, extract,
      List.drop_zero, h1, h2]
    have h3 : List.drop (off + w) (g 0) = [] := List.drop_of_length_le (by omega)
    simp [h3]

/-- pointwise reading of `splice`: inside the range the new bits, outside the old ones (sanity lemma for the specification) -/
theorem splice_getElem? (cur new : Val) (off w i : Nat) (h : off + w ≤ cur.length) (hn : new.length = w) :
    (splice cur off w new)[i]? = if off ≤ i ∧ i < off + w then new[i - off]? else cur[i]? := by
  unfold splice
  by_cases h1 : i < off
  · have : ¬ (off ≤ i ∧ i < off + w) := by omega
    simp only [this, if_false]
    rw [List.append_assoc, List.getElem?_append_left (by simp [List.length_take]; omega)]
    simp [List.getElem?_take, h1]
  · by_cases h2 : i < off + w
    · have : off ≤ i ∧ i < off + w := by omega
      simp only [this, and_self, if_true]
      rw [List.append_assoc, List.getElem?_append_right (by simp [List.length_take]; omega)]
      have hl : (List.take off cur).length = off := by simp [List.length_take]; omega
      rw [hl, List.getElem?_append_left (by omega)]
    · have : ¬ (off ≤ i ∧ i < off + w) := by omega
      simp only [this, if_false]
      rw [List.getElem?_append_right (by simp [List.length_take]; omega)]
      have hl : (List.take off cur ++ new).length = off + w := by simp [List.length_take]; omega
      rw [hl, List.getElem?_drop]
      congr 1; omega

end Gatery.C05
