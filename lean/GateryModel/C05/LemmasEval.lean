import GateryModel.C05.Model
/-!
# C05 helper lemmas 1 — netlist evaluation

Appending nodes never changes the value of an existing node (`valAt_ext`), the value of a freshly
appended node is its `nodeSem` over the old values, and the value-level lemmas for the node kinds the
frontend model creates.
-/
namespace Gatery.C05

variable {ρ : List Val}

theorem evalNodes_push (ns : Nodes) (n : Node) :
    evalNodes ρ (ns.push n) = (evalNodes ρ ns).push (nodeSem ρ (evalNodes ρ ns) n) := by
  simp [evalNodes]

theorem foldl_push_size (f : Array Val → Node → Val) (l : List Node) (vs : Array Val) :
    (l.foldl (fun vs n => vs.push (f vs n)) vs).size = vs.size + l.length := by
  induction l generalizing vs with
  | nil => simp
  | cons a l ih => simp [List.foldl_cons, ih, Array.size_push]; omega

theorem foldl_push_get (f : Array Val → Node → Val) (l : List Node) (vs : Array Val) (i : Nat) (h : i < vs.size) :
    (l.foldl (fun vs n => vs.push (f vs n)) vs)[i]? = vs[i]? := by
  induction l generalizing vs with
  | nil => simp
  | cons a l ih =>
    simp only [List.foldl_cons]
    rw [ih _ (by simp [Array.size_push]; omega)]
    simp [Array.getElem?_push]; omega

@[simp] theorem evalNodes_size (ns : Nodes) : (evalNodes ρ ns).size = ns.size := by
  unfold evalNodes
  rw [← Array.foldl_toList, foldl_push_size]
  simp

/-- `ns'` extends `ns` by appended nodes -/
def Ext (ns ns' : Nodes) : Prop := ∃ e : Array Node, ns' = ns ++ e

theorem Ext.refl (ns : Nodes) : Ext ns ns := ⟨#[], by simp⟩

theorem Ext.trans {a b c : Nodes} (h1 : Ext a b) (h2 : Ext b c) : Ext a c := by
  obtain ⟨e1, rfl⟩ := h1
  obtain ⟨e2, rfl⟩ := h2
  exact ⟨e1 ++ e2, by simp [Array.append_assoc]⟩

theorem Ext.push (ns : Nodes) (n : Node) : Ext ns (ns.push n) := ⟨#[n], Array.push_eq_append⟩

theorem Ext.size_le {a b : Nodes} (h : Ext a b) : a.size ≤ b.size := by
  obtain ⟨e, rfl⟩ := h
  simp [Array.size_append]

theorem Ext.lt {a b : Nodes} (h : Ext a b) {i : Nat} (hi : i < a.size) : i < b.size :=
  Nat.lt_of_lt_of_le hi h.size_le

theorem valAt_ext {ns ns' : Nodes} (h : Ext ns ns') {i : Nat} (hi : i < ns.size) :
    valAt ρ ns' i = valAt ρ ns i := by
  obtain ⟨e, rfl⟩ := h
  unfold valAt evalNodes
  rw [Array.foldl_append, ← Array.foldl_toList (xs := e)]
  simp only [Array.getD_eq_getD_getElem?]
  rw [foldl_push_get]
  have := evalNodes_size (ρ := ρ) ns
  unfold evalNodes at this
  omega

theorem valAt_push_self (ns : Nodes) (n : Node) :
    valAt ρ (ns.push n) ns.size = nodeSem ρ (evalNodes ρ ns) n := by
  unfold valAt
  rw [evalNodes_push, Array.getD_eq_getD_getElem?, Array.getElem?_push]
  simp

theorem valAt_push_lt (ns : Nodes) (n : Node) {i : Nat} (hi : i < ns.size) :
    valAt ρ (ns.push n) i = valAt ρ ns i := valAt_ext (Ext.push ns n) hi

theorem getD_evalNodes (ns : Nodes) (i : Nat) : (evalNodes ρ ns).getD i [] = valAt ρ ns i := rfl

/-- everything one needs to know about `mkNode` -/
theorem mkNode_spec (ns : Nodes) (n : Node) :
    (mkNode ns n).1 = ns.push n ∧ (mkNode ns n).2 = ns.size := ⟨rfl, rfl⟩

theorem mkNode_ext (ns : Nodes) (n : Node) : Ext ns (mkNode ns n).1 := Ext.push ns n

theorem mkNode_lt (ns : Nodes) (n : Node) : (mkNode ns n).2 < (mkNode ns n).1.size := by
  simp [mkNode, Array.size_push]

theorem mkNode_val (ns : Nodes) (n : Node) :
    valAt ρ (mkNode ns n).1 (mkNode ns n).2 = nodeSem ρ (evalNodes ρ ns) n := valAt_push_self ns n

/-! value of the node kinds -/

theorem val_sig (ns : Nodes) (a : Nat) : valAt ρ (ns.push (.sig a)) ns.size = valAt ρ ns a := by
  rw [valAt_push_self]; rfl

theorem val_not (ns : Nodes) (a : Nat) : valAt ρ (ns.push (.not a)) ns.size = [!truthy (valAt ρ ns a)] := by
  rw [valAt_push_self]; rfl

theorem val_and (ns : Nodes) (a b : Nat) :
    valAt ρ (ns.push (.and a b)) ns.size = [truthy (valAt ρ ns a) && truthy (valAt ρ ns b)] := by
  rw [valAt_push_self]; rfl

theorem val_or (ns : Nodes) (a b : Nat) :
    valAt ρ (ns.push (.or a b)) ns.size = [truthy (valAt ρ ns a) || truthy (valAt ρ ns b)] := by
  rw [valAt_push_self]; rfl

theorem val_const (ns : Nodes) (v : Val) : valAt ρ (ns.push (.const v)) ns.size = v := by
  rw [valAt_push_self]; rfl

theorem val_dflt (ns : Nodes) (d : Nat) : valAt ρ (ns.push (.dflt d)) ns.size = valAt ρ ns d := by
  rw [valAt_push_self]; rfl

theorem val_op1 (ns : Nodes) (o : Op1) (a : Nat) : valAt ρ (ns.push (.op1 o a)) ns.size = o.sem (valAt ρ ns a) := by
  rw [valAt_push_self]; rfl

theorem val_op2 (ns : Nodes) (o : Op2) (a b : Nat) :
    valAt ρ (ns.push (.op2 o a b)) ns.size = o.sem (valAt ρ ns a) (valAt ρ ns b) := by
  rw [valAt_push_self]; rfl

theorem val_mux (ns : Nodes) (s : Nat) (ins : List Nat) (j : Nat) (h : ins[natOfBits (valAt ρ ns s)]? = some j) :
    valAt ρ (ns.push (.mux s ins)) ns.size = valAt ρ ns j := by
  rw [valAt_push_self]
  simp only [nodeSem, getD_evalNodes, h]

theorem val_rewire1 (ns : Nodes) (a off w : Nat) :
    valAt ρ (ns.push (.rewire [a] [(0, off, w)])) ns.size = extract (valAt ρ ns a) off w := by
  rw [valAt_push_self]
  simp only [nodeSem, getD_evalNodes, List.flatMap_cons, List.flatMap_nil, List.append_nil, List.getD_cons_zero]

theorem natOfBits_single (b : Bool) : natOfBits [b] = b.toNat := by simp [natOfBits]

/-- the two-input conditional multiplexer -/
theorem val_mux2 (ns : Nodes) (s a b : Nat) (c : Bool) (h : valAt ρ ns s = [c]) :
    valAt ρ (ns.push (.mux s [a, b])) ns.size = if c then valAt ρ ns b else valAt ρ ns a := by
  cases c
  · rw [val_mux ns s [a, b] a (by simp [h, natOfBits])]; simp
  · rw [val_mux ns s [a, b] b (by simp [h, natOfBits])]; simp

/-! ### a list-based twin of `evalNodes` that the kernel can evaluate (used for the concrete witness only) -/

def nodeSemL (ρ : List Val) (vs : List Val) : Node → Val
  | .input i => ρ.getD i []
  | .const v => v
  | .sig a => vs.getD a []
  | .not a => [!truthy (vs.getD a [])]
  | .and a b => [truthy (vs.getD a []) && truthy (vs.getD b [])]
  | .or a b => [truthy (vs.getD a []) || truthy (vs.getD b [])]
  | .mux s ins =>
      match ins[natOfBits (vs.getD s [])]? with
      | some j => vs.getD j []
      | none => []
  | .rewire ins ranges => ranges.flatMap fun r => extract (vs.getD (ins.getD r.1 0) []) r.2.1 r.2.2
  | .op1 o a => o.sem (vs.getD a [])
  | .op2 o a b => o.sem (vs.getD a []) (vs.getD b [])
  | .dflt d => vs.getD d []
  | .pad a w p => padTo p w (vs.getD a [])

def evalL (ρ : List Val) (ns : List Node) : List Val := ns.foldl (fun vs n => vs ++ [nodeSemL ρ vs n]) []

def outputsL (ρ : List Val) (B : BState) : List Val :=
  let vs := evalL ρ B.nodes.toList
  B.sigs.map fun s => vs.getD s.driver []

theorem nodeSem_toList (ρ : List Val) (vs : Array Val) (n : Node) : nodeSem ρ vs n = nodeSemL ρ vs.toList n := by
  cases n with
  | mux s ins =>
    simp only [nodeSem, nodeSemL, Array.getD_eq_getD_getElem?, List.getD_eq_getElem?_getD, Array.getElem?_toList]
    cases ins[natOfBits (vs[s]?.getD [])]? <;> rfl
  | _ => simp [nodeSem, nodeSemL, Array.getD_eq_getD_getElem?, List.getD_eq_getElem?_getD]

theorem evalNodes_toList (ρ : List Val) (ns : Nodes) : (evalNodes ρ ns).toList = evalL ρ ns.toList := by
  unfold evalNodes evalL
  rw [← Array.foldl_toList]
  have : ∀ (l : List Node) (a : Array Val), (l.foldl (fun vs n => vs.push (nodeSem ρ vs n)) a).toList =
      l.foldl (fun vs n => vs ++ [nodeSemL ρ vs n]) a.toList := by
    intro l
    induction l with
    | nil => intro a; rfl
    | cons n l ih => intro a; simp only [List.foldl_cons]; rw [ih]; simp [nodeSem_toList]
  simpa using this ns.toList #[]

theorem outputs_eq_outputsL (ρ : List Val) (B : BState) : outputs ρ B = outputsL ρ B := by
  unfold outputs outputsL
  simp only [← evalNodes_toList, Array.getD_eq_getD_getElem?, List.getD_eq_getElem?_getD, Array.getElem?_toList]

end Gatery.C05
