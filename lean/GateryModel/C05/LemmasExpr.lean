import GateryModel.C05.LemmasData
/-!
# C05 helper lemmas 3 — reads, read-modify-write and expressions

For each frontend function of the model (`readPathB`, `assignPathB`, `buildExpr`) two facts:
* *frame* (`…_ext`): it only appends nodes and returns an existing node — holds in every context;
* *soundness* (`…_sound`): when the signals' drivers evaluate to the interpreter's environment (`Agree`),
  the returned node evaluates to what the interpreter computes (`readPath`, `writePath`, `evalE`), with the static width.
-/
namespace Gatery.C05

variable {ρ : List Val}

/-- every signal's driver is an existing node -/
def SigsValid (ns : Nodes) (sigs : List Sig) : Prop := ∀ (x : Nat) (s : Sig), sigs[x]? = some s → s.driver < ns.size

/-- the built drivers evaluate to the interpreter's environment, with the declared widths -/
def Agree (ρ : List Val) (ns : Nodes) (sigs : List Sig) (env : List Val) : Prop :=
  env.length = sigs.length ∧
  ∀ (x : Nat) (s : Sig), sigs[x]? = some s → ∃ v, env[x]? = some v ∧ valAt ρ ns s.driver = v ∧ v.length = s.ty.width

theorem SigsValid.mono {ns ns' : Nodes} {sigs : List Sig} (h : SigsValid ns sigs) (e : Ext ns ns') : SigsValid ns' sigs :=
  fun x s hs => e.lt (h x s hs)

theorem Agree.mono {ns ns' : Nodes} {sigs : List Sig} {env : List Val} (h : Agree ρ ns sigs env)
    (hv : SigsValid ns sigs) (e : Ext ns ns') : Agree ρ ns' sigs env := by
  refine ⟨h.1, fun x s hs => ?_⟩
  obtain ⟨v, h1, h2, h3⟩ := h.2 x s hs
  exact ⟨v, h1, by rw [valAt_ext e (hv x s hs)]; exact h2, h3⟩

theorem natOfBits_lt (v : Val) : natOfBits v < 2 ^ v.length := by
  induction v with
  | nil => simp [natOfBits]
  | cons b r ih =>
    simp only [natOfBits, List.length_cons, Nat.pow_succ]
    cases b <;> simp <;> omega

theorem idxOf_some {sigs : List Sig} {idx ip iw : Nat} (h : idxOf sigs idx = some (ip, iw)) :
    ∃ s, sigs[idx]? = some s ∧ s.driver = ip ∧ s.ty = .uint iw ∧ 1 ≤ iw := by
  unfold idxOf at h
  cases hs : sigs[idx]? with
  | none => simp [hs] at h
  | some s =>
    simp only [hs, Option.bind_eq_bind, Option.bind_some] at h
    cases hty : s.ty with
    | bit => simp [hty] at h
    | uint w =>
      simp only [hty] at h
      split at h
      · simp at h; obtain ⟨h1, h2⟩ := h; subst h2; exact ⟨s, rfl, h1, hty, by assumption⟩
      · simp at h

/-- the index port of a dynamic selection exists -/
theorem selGeom_dyn_valid {sigs : List Sig} {ns : Nodes} (hv : SigsValid ns sigs) {W : Nat} {s : Sel}
    {ip mul w n : Nat} {t : Ty} (h : selGeom sigs W s = some (.dyn ip mul w n t)) : ip < ns.size := by
  cases s with
  | slice off w' => simp [selGeom] at h
  | bit i => simp [selGeom] at h
  | sel f =>
    simp only [selGeom, Option.bind_eq_bind] at h
    cases hr : f.toSelection.resolve W with
    | none => simp [hr] at h
    | some pr =>
      obtain ⟨o, w'⟩ := pr
      simp only [hr, Option.bind_some] at h
      split at h <;> simp at h
  | dynBit idx =>
    simp only [selGeom, Option.bind_eq_bind] at h
    cases hi : idxOf sigs idx with
    | none => simp [hi] at h
    | some pr =>
      obtain ⟨ip', iw⟩ := pr
      simp only [hi, Option.bind_some] at h
      split at h
      · simp at h
        obtain ⟨s', h1, h2, _⟩ := idxOf_some hi
        rw [← h.1, ← h2]; exact hv _ _ h1
      · simp at h
  | dynPart idx parts =>
    simp only [selGeom, Option.bind_eq_bind] at h
    cases hi : idxOf sigs idx with
    | none => simp [hi] at h
    | some pr =>
      obtain ⟨ip', iw⟩ := pr
      simp only [hi, Option.bind_some] at h
      split at h
      · simp at h
        obtain ⟨s', h1, h2, _⟩ := idxOf_some hi
        rw [← h.1, ← h2]; exact hv _ _ h1
      · simp at h
  | dynSlice idx w' =>
    simp only [selGeom, Option.bind_eq_bind] at h
    cases hi : idxOf sigs idx with
    | none => simp [hi] at h
    | some pr =>
      obtain ⟨ip', iw⟩ := pr
      simp only [hi, Option.bind_some] at h
      split at h
      · simp at h
        obtain ⟨s', h1, h2, _⟩ := idxOf_some hi
        rw [← h.1, ← h2]; exact hv _ _ h1
      · simp at h

/-- static geometry (frontend) versus dynamic position (interpreter) of one selection -/
inductive SelMatch (ρ : List Val) (ns : Nodes) (W off w : Nat) : SelG → Prop where
  | stat (t : Ty) (hb : off + w ≤ W) (ht : t.width = w) : SelMatch ρ ns W off w (.stat off w t)
  | dyn (ip mul n k : Nat) (t : Ty) (hk : k < n) (hoff : off = k * mul) (hb : off + w ≤ W) (ht : t.width = w)
      (hip : ip < ns.size) (hval : natOfBits (valAt ρ ns ip) = k) : SelMatch ρ ns W off w (.dyn ip mul w n t)

theorem sel_match {ns : Nodes} {sigs : List Sig} {env : List Val} (ha : Agree ρ ns sigs env) (hv : SigsValid ns sigs)
    {cv : Val} {W : Nat} (hW : cv.length = W) {s : Sel} {g : SelG} {off w : Nat}
    (hg : selGeom sigs W s = some g) (hp : selPos env cv s = some (off, w)) : SelMatch ρ ns W off w g := by
  cases s with
  | slice o w' =>
    simp only [selGeom] at hg
    simp only [selPos, Option.some.injEq, Prod.mk.injEq] at hp
    obtain ⟨rfl, rfl⟩ := hp
    split at hg
    · simp at hg; subst hg; exact .stat _ (by omega) rfl
    · simp at hg
  | bit i =>
    simp only [selGeom] at hg
    simp only [selPos, Option.some.injEq, Prod.mk.injEq] at hp
    obtain ⟨rfl, rfl⟩ := hp
    split at hg
    · simp at hg; subst hg; exact .stat _ (by omega) rfl
    · simp at hg
  | sel f =>
    simp only [selGeom, Option.bind_eq_bind] at hg
    simp only [selPos, hW] at hp
    simp only [hp, Option.bind_some] at hg
    split at hg
    · simp at hg; subst hg; exact .stat _ (by omega) rfl
    · simp at hg
  | dynBit idx =>
    simp only [selGeom, Option.bind_eq_bind] at hg
    cases hi : idxOf sigs idx with
    | none => simp [hi] at hg
    | some pr =>
      obtain ⟨ip, iw⟩ := pr
      obtain ⟨s', h1, h2, h3, h4⟩ := idxOf_some hi
      obtain ⟨iv, e1, e2, e3⟩ := ha.2 _ _ h1
      simp only [hi, Option.bind_some] at hg
      simp only [selPos, e1, Option.bind_eq_bind, Option.bind_some] at hp
      rw [h3] at e3; simp only [Ty.width] at e3
      split at hg
      · simp at hg; subst hg
        split at hp
        · simp at hp; obtain ⟨rfl, rfl⟩ := hp
          rename_i hlt
          rw [hW, e3] at hlt
          refine .dyn ip 1 _ (natOfBits iv) .bit hlt (by simp) ?_ rfl ?_ ?_
          · have : natOfBits iv < W := Nat.lt_of_lt_of_le hlt (Nat.min_le_left _ _); omega
          · rw [← h2]; exact hv _ _ h1
          · rw [← h2, e2]
        · simp at hp
      · simp at hg
  | dynPart idx parts =>
    simp only [selGeom, Option.bind_eq_bind] at hg
    cases hi : idxOf sigs idx with
    | none => simp [hi] at hg
    | some pr =>
      obtain ⟨ip, iw⟩ := pr
      obtain ⟨s', h1, h2, h3, h4⟩ := idxOf_some hi
      obtain ⟨iv, e1, e2, e3⟩ := ha.2 _ _ h1
      simp only [hi, Option.bind_some] at hg
      simp only [selPos, e1, Option.bind_eq_bind, Option.bind_some] at hp
      split at hg
      · simp at hg; subst hg
        split at hp
        · simp at hp; obtain ⟨rfl, rfl⟩ := hp
          rename_i hlt
          rw [hW]
          refine .dyn ip _ _ (natOfBits iv) (.uint (W / parts)) hlt rfl ?_ rfl ?_ ?_
          · have h5 : (natOfBits iv + 1) * (W / parts) ≤ parts * (W / parts) := Nat.mul_le_mul_right _ hlt
            have h6 : parts * (W / parts) ≤ W := Nat.mul_div_le W parts
            rw [Nat.add_mul] at h5; omega
          · rw [← h2]; exact hv _ _ h1
          · rw [← h2, e2]
        · simp at hp
      · simp at hg
  | dynSlice idx w' =>
    simp only [selGeom, Option.bind_eq_bind] at hg
    cases hi : idxOf sigs idx with
    | none => simp [hi] at hg
    | some pr =>
      obtain ⟨ip, iw⟩ := pr
      obtain ⟨s', h1, h2, h3, h4⟩ := idxOf_some hi
      obtain ⟨iv, e1, e2, e3⟩ := ha.2 _ _ h1
      simp only [hi, Option.bind_some] at hg
      simp only [selPos, e1, Option.bind_eq_bind, Option.bind_some, Option.some.injEq, Prod.mk.injEq] at hp
      obtain ⟨rfl, rfl⟩ := hp
      rw [h3] at e3; simp only [Ty.width] at e3
      have hlt := natOfBits_lt iv
      rw [e3] at hlt
      split at hg
      · simp at hg; subst hg
        rename_i hc
        refine .dyn ip 1 _ (natOfBits iv) (.uint w') hlt (by simp) (by omega) rfl ?_ ?_
        · rw [← h2]; exact hv _ _ h1
        · rw [← h2, e2]
      · simp at hg

/-! ### `mkExtracts` -/

theorem mkExtracts_spec (cur mul w : Nat) : ∀ (n i : Nat) (ns ns' : Nodes) (es : List Nat),
    mkExtracts cur mul w i n ns = (ns', es) → cur < ns.size →
    Ext ns ns' ∧ es.length = n ∧
    ∀ j, j < n → ∃ e, es[j]? = some e ∧ e < ns'.size ∧ valAt ρ ns' e = extract (valAt ρ ns cur) ((i + j) * mul) w := by
  intro n
  induction n with
  | zero =>
    intro i ns ns' es h hc
    simp [mkExtracts] at h
    obtain ⟨rfl, rfl⟩ := h
    exact ⟨Ext.refl _, rfl, fun j hj => by omega⟩
  | succ n ih =>
    intro i ns ns' es h hc
    simp only [mkExtracts, mkNode] at h
    cases hr : mkExtracts cur mul w (i + 1) n (ns.push (.rewire [cur] [(0, i * mul, w)])) with
    | mk ns2 es2 =>
      rw [hr] at h
      simp only [Prod.mk.injEq] at h
      obtain ⟨rfl, rfl⟩ := h
      have hc2 : cur < (ns.push (Node.rewire [cur] [(0, i * mul, w)])).size := by simp [Array.size_push]; omega
      obtain ⟨e1, e2, e3⟩ := ih (i + 1) _ _ _ hr hc2
      refine ⟨(Ext.push _ _).trans e1, by simp [e2], fun j hj => ?_⟩
      cases j with
      | zero =>
        refine ⟨ns.size, by simp, e1.lt (by simp [Array.size_push]), ?_⟩
        rw [valAt_ext e1 (by simp [Array.size_push]), val_rewire1]; simp
      | succ j =>
        obtain ⟨e, h1, h2, h3⟩ := e3 j (by omega)
        refine ⟨e, by simpa using h1, h2, ?_⟩
        rw [h3, valAt_push_lt _ _ hc]
        congr 2; omega

/-! ### reads -/

theorem readPathB_ext {sigs : List Sig} : ∀ (p : List Sel) (ns : Nodes) (cur : Nat) (ty : Ty) (ns' : Nodes) (i : Nat) (t : Ty),
    readPathB sigs ns cur ty p = some (ns', i, t) → cur < ns.size → Ext ns ns' ∧ i < ns'.size := by
  intro p
  induction p with
  | nil =>
    intro ns cur ty ns' i t h hc
    simp [readPathB] at h
    obtain ⟨rfl, rfl, rfl⟩ := h
    exact ⟨Ext.refl _, hc⟩
  | cons s r ih =>
    intro ns cur ty ns' i t h hc
    unfold readPathB at h
    cases ty with
    | bit => simp at h
    | uint W =>
      simp only [Option.bind_eq_bind] at h
      cases hg : selGeom sigs W s with
      | none => simp [hg] at h
      | some g =>
        simp only [hg, Option.bind_some] at h
        cases g with
        | stat off w t' =>
          simp only [mkNode] at h
          obtain ⟨e1, e2⟩ := ih _ _ _ _ _ _ h (by simp [Array.size_push])
          exact ⟨(Ext.push _ _).trans e1, e2⟩
        | dyn ip mul w n t' =>
          simp only at h
          cases hm : mkExtracts cur mul w 0 n ns with
          | mk ns2 es =>
            rw [hm] at h
            simp only [mkNode] at h
            obtain ⟨x1, _, _⟩ := mkExtracts_spec (ρ := []) cur mul w n 0 ns ns2 es hm hc
            obtain ⟨e1, e2⟩ := ih _ _ _ _ _ _ h (by simp [Array.size_push])
            exact ⟨(x1.trans (Ext.push _ _)).trans e1, e2⟩

theorem readPathB_sound {sigs : List Sig} {env : List Val} :
    ∀ (p : List Sel) (ns : Nodes) (cur : Nat) (ty : Ty) (ns' : Nodes) (i : Nat) (t : Ty) (cv v : Val),
    readPathB sigs ns cur ty p = some (ns', i, t) → Agree ρ ns sigs env → SigsValid ns sigs →
    cur < ns.size → valAt ρ ns cur = cv → cv.length = ty.width → readPath env cv p = some v →
    valAt ρ ns' i = v ∧ v.length = t.width := by
  intro p
  induction p with
  | nil =>
    intro ns cur ty ns' i t cv v h ha hv hc hcv hl hr
    simp [readPathB] at h
    obtain ⟨rfl, rfl, rfl⟩ := h
    simp [readPath] at hr
    subst hr
    exact ⟨hcv, hl⟩
  | cons s r ih =>
    intro ns cur ty ns' i t cv v h ha hv hc hcv hl hr
    unfold readPathB at h
    cases ty with
    | bit => simp at h
    | uint W =>
      simp only [Ty.width] at hl
      simp only [Option.bind_eq_bind] at h
      cases hg : selGeom sigs W s with
      | none => simp [hg] at h
      | some g =>
        simp only [hg, Option.bind_some] at h
        simp only [readPath, Option.bind_eq_bind] at hr
        cases hp : selPos env cv s with
        | none => simp [hp] at hr
        | some pr =>
          obtain ⟨off, w⟩ := pr
          simp only [hp, Option.bind_some] at hr
          have hm := sel_match ha hv hl hg hp
          cases hm with
          | stat t' hb ht =>
            simp only [mkNode] at h
            have e0 := Ext.push ns (.rewire [cur] [(0, off, w)])
            refine ih _ _ _ _ _ _ (extract cv off w) v h (ha.mono hv e0) (hv.mono e0) (by simp [Array.size_push]) ?_ ?_ hr
            · rw [val_rewire1, hcv]
            · rw [ht]; exact length_extract _ _ _ (by omega)
          | dyn ip mul n k t' hk hoff hb ht hip hval =>
            simp only at h
            cases hmk : mkExtracts cur mul w 0 n ns with
            | mk ns2 es =>
              rw [hmk] at h
              simp only [mkNode] at h
              obtain ⟨x1, x2, x3⟩ := mkExtracts_spec (ρ := ρ) cur mul w n 0 ns ns2 es hmk hc
              obtain ⟨e, y1, y2, y3⟩ := x3 k hk
              have e0 := x1.trans (Ext.push ns2 (.mux ip es))
              refine ih _ _ _ _ _ _ (extract cv off w) v h (ha.mono hv e0) (hv.mono e0) (by simp [Array.size_push]) ?_ ?_ hr
              · rw [val_mux ns2 ip es e (by rw [valAt_ext x1 hip, hval]; exact y1), y3, hcv, hoff]; simp
              · rw [ht]; exact length_extract _ _ _ (by omega)

/-! ### read-modify-write -/

/-- frame property of a nested-assignment builder -/
def ChildExt (base : Nodes) (child : Nodes → Nat → Option (Nodes × Nat)) : Prop :=
  ∀ ns ex ns' ch, Ext base ns → child ns ex = some (ns', ch) → ex < ns.size → Ext ns ns' ∧ ch < ns'.size

theorem assignOpts_ext {base : Nodes} {child : Nodes → Nat → Option (Nodes × Nat)} (hch : ChildExt base child) (cur curW mul w : Nat) :
    ∀ (n i : Nat) (ns ns' : Nodes) (rs : List Nat),
    assignOpts child cur curW mul w i n ns = some (ns', rs) → Ext base ns → cur < ns.size →
    Ext ns ns' ∧ rs.length = n ∧ ∀ r ∈ rs, r < ns'.size := by
  intro n
  induction n with
  | zero =>
    intro i ns ns' rs h hb0 hc
    simp [assignOpts] at h
    obtain ⟨rfl, rfl⟩ := h
    exact ⟨Ext.refl _, rfl, by simp⟩
  | succ n ih =>
    intro i ns ns' rs h hb0 hc
    simp only [assignOpts, mkNode, Option.bind_eq_bind] at h
    cases hc1 : child (ns.push (.rewire [cur] [(0, i * mul, w)])) ns.size with
    | none => simp [hc1] at h
    | some pr =>
      obtain ⟨ns2, ch⟩ := pr
      simp only [hc1, Option.bind_some] at h
      obtain ⟨c1, c2⟩ := hch _ _ _ _ (hb0.trans (Ext.push _ _)) hc1 (by simp [Array.size_push])
      cases hr : assignOpts child cur curW mul w (i + 1) n (ns2.push (.rewire [cur, ch] (replaceSelection (i * mul) w curW))) with
      | none => simp [hr] at h
      | some pr2 =>
        obtain ⟨ns3, rs3⟩ := pr2
        simp only [hr, Option.bind_some, Option.some.injEq, Prod.mk.injEq] at h
        obtain ⟨rfl, rfl⟩ := h
        have e12 : Ext ns ns2 := (Ext.push _ _).trans c1
        obtain ⟨d1, d2, d3⟩ := ih _ _ _ _ hr (hb0.trans (e12.trans (Ext.push _ _))) ((e12.trans (Ext.push _ _)).lt hc)
        refine ⟨(e12.trans (Ext.push _ _)).trans d1, by simp [d2], ?_⟩
        intro r hr'
        simp only [List.mem_cons] at hr'
        cases hr' with
        | inl h' => subst h'; exact d1.lt (by simp [Array.size_push])
        | inr h' => exact d3 r h'

/-- option `k` of the per-option loop evaluates to the spliced value -/
theorem assignOpts_sound {base : Nodes} {child : Nodes → Nat → Option (Nodes × Nat)} (hch : ChildExt base child) (cur curW mul w : Nat)
    (cv sub : Val) (k : Nat) (hcl : cv.length = curW) (hb : k * mul + w ≤ curW)
    (hsound : ∀ ns ex ns' ch, Ext base ns → child ns ex = some (ns', ch) → ex < ns.size → cur < ns.size → valAt ρ ns cur = cv →
        valAt ρ ns ex = extract cv (k * mul) w → valAt ρ ns' ch = sub ∧ sub.length = w) :
    ∀ (n i : Nat) (ns ns' : Nodes) (rs : List Nat),
    assignOpts child cur curW mul w i n ns = some (ns', rs) → Ext base ns → cur < ns.size → valAt ρ ns cur = cv → i ≤ k → k < i + n →
    ∃ r, rs[k - i]? = some r ∧ valAt ρ ns' r = splice cv (k * mul) w sub ∧ sub.length = w := by
  intro n
  induction n with
  | zero => intro i ns ns' rs h hb0 hc hcv h1 h2; omega
  | succ n ih =>
    intro i ns ns' rs h hb0 hc hcv h1 h2
    simp only [assignOpts, mkNode, Option.bind_eq_bind] at h
    cases hc1 : child (ns.push (.rewire [cur] [(0, i * mul, w)])) ns.size with
    | none => simp [hc1] at h
    | some pr =>
      obtain ⟨ns2, ch⟩ := pr
      simp only [hc1, Option.bind_some] at h
      obtain ⟨c1, c2⟩ := hch _ _ _ _ (hb0.trans (Ext.push _ _)) hc1 (by simp [Array.size_push])
      cases hr : assignOpts child cur curW mul w (i + 1) n (ns2.push (.rewire [cur, ch] (replaceSelection (i * mul) w curW))) with
      | none => simp [hr] at h
      | some pr2 =>
        obtain ⟨ns3, rs3⟩ := pr2
        simp only [hr, Option.bind_some, Option.some.injEq, Prod.mk.injEq] at h
        obtain ⟨rfl, rfl⟩ := h
        have e01 := Ext.push ns (.rewire [cur] [(0, i * mul, w)])
        have e12 : Ext ns ns2 := e01.trans c1
        have e23 := Ext.push ns2 (.rewire [cur, ch] (replaceSelection (i * mul) w curW))
        obtain ⟨d1, _, _⟩ := assignOpts_ext hch cur curW mul w _ _ _ _ _ hr (hb0.trans (e12.trans e23)) ((e12.trans e23).lt hc)
        by_cases hik : i = k
        · subst hik
          have hchv : valAt ρ ns2 ch = sub ∧ sub.length = w :=
            hsound _ _ _ _ (hb0.trans e01) hc1 (by simp [Array.size_push]) (e01.lt hc) (by rw [valAt_ext e01 hc]; exact hcv)
              (by rw [val_rewire1, hcv])
          refine ⟨ns2.size, by simp, ?_, hchv.2⟩
          rw [valAt_ext d1 (by simp [Array.size_push]), valAt_push_self]
          have hcur2 : valAt ρ ns2 cur = cv := by rw [valAt_ext e12 hc]; exact hcv
          simp only [nodeSem, getD_evalNodes]
          have hg := rewire_replace (fun k => valAt ρ ns2 (([cur, ch] : List Nat).getD k 0)) (i * mul) w curW
            (by simpa using hcur2 ▸ hcl) (by simpa using hchv.1 ▸ hchv.2) hb
          simp only [List.getD_cons_zero, List.getD_cons_succ, hcur2, hchv.1] at hg
          exact hg
        · obtain ⟨r, g1, g2⟩ := ih (i + 1) _ _ _ hr (hb0.trans (e12.trans e23)) ((e12.trans e23).lt hc)
            (by rw [valAt_ext (e12.trans e23) hc]; exact hcv) (by omega) (by omega)
          refine ⟨r, ?_, g2⟩
          have : k - i = (k - (i + 1)) + 1 := by omega
          rw [this]; simpa using g1

theorem assignPathB_ext {sigs : List Sig} (next : Nat) :
    ∀ (p : List Sel) (ns : Nodes) (cur curW : Nat) (ns' : Nodes) (i : Nat),
    assignPathB sigs next p ns cur curW = some (ns', i) → SigsValid ns sigs → cur < ns.size → next < ns.size →
    Ext ns ns' ∧ i < ns'.size := by
  intro p
  induction p with
  | nil =>
    intro ns cur curW ns' i h hv hc hn
    simp [assignPathB] at h
    obtain ⟨rfl, rfl⟩ := h
    exact ⟨Ext.refl _, hn⟩
  | cons s r ih =>
    intro ns cur curW ns' i h hv hc hn
    unfold assignPathB at h
    simp only [Option.bind_eq_bind] at h
    cases hg : selGeom sigs curW s with
    | none => simp [hg] at h
    | some g =>
      simp only [hg, Option.bind_some] at h
      cases g with
      | stat off w t' =>
        simp only [mkNode, Option.bind_eq_bind] at h
        cases hr : assignPathB sigs next r (ns.push (.rewire [cur] [(0, off, w)])) ns.size w with
        | none => simp [hr] at h
        | some pr =>
          obtain ⟨ns2, ch⟩ := pr
          simp only [hr, Option.bind_some, Option.some.injEq, Prod.mk.injEq] at h
          obtain ⟨rfl, rfl⟩ := h
          have e0 := Ext.push ns (.rewire [cur] [(0, off, w)])
          obtain ⟨e1, e2⟩ := ih _ _ _ _ _ hr (hv.mono e0) (by simp [Array.size_push]) (e0.lt hn)
          exact ⟨(e0.trans e1).trans (Ext.push _ _), by simp [Array.size_push]⟩
      | dyn ip mul w n t' =>
        simp only [mkNode, Option.bind_eq_bind] at h
        cases hr : assignOpts (fun ns ex => assignPathB sigs next r ns ex w) cur curW mul w 0 n ns with
        | none => simp [hr] at h
        | some pr =>
          obtain ⟨ns2, rs⟩ := pr
          simp only [hr, Option.bind_some, Option.some.injEq, Prod.mk.injEq] at h
          obtain ⟨rfl, rfl⟩ := h
          -- the child builder is used on extensions of `ns` only; its frame property there is the induction hypothesis
          have hch : ChildExt ns (fun ns ex => assignPathB sigs next r ns ex w) := by
            intro ns2 ex ns2' ch hb h2 hex
            exact ih _ _ _ _ _ h2 (hv.mono hb) hex (hb.lt hn)
          obtain ⟨d1, d2, d3⟩ := assignOpts_ext hch cur curW mul w _ _ _ _ _ hr (Ext.refl _) hc
          exact ⟨d1.trans (Ext.push _ _), by simp [Array.size_push]⟩

theorem pathTy_cons {sigs : List Sig} {ty : Ty} {s : Sel} {r : List Sel} {t : Ty} (h : pathTy sigs ty (s :: r) = some t) :
    ∃ W g, ty = .uint W ∧ selGeom sigs W s = some g ∧
      pathTy sigs (match g with | .stat _ _ t => t | .dyn _ _ _ _ t => t) r = some t := by
  cases ty with
  | bit => simp [pathTy] at h
  | uint W =>
    simp only [pathTy, Option.bind_eq_bind] at h
    cases hg : selGeom sigs W s with
    | none => simp [hg] at h
    | some g =>
      simp only [hg, Option.bind_some] at h
      refine ⟨W, g, rfl, hg, ?_⟩
      cases g <;> exact h

theorem assignPathB_sound {sigs : List Sig} {env : List Val} (next : Nat) (nv : Val) :
    ∀ (p : List Sel) (ns : Nodes) (cur : Nat) (ty : Ty) (ns' : Nodes) (i : Nat) (cv res : Val) (t : Ty),
    assignPathB sigs next p ns cur ty.width = some (ns', i) → Agree ρ ns sigs env → SigsValid ns sigs →
    cur < ns.size → next < ns.size → valAt ρ ns cur = cv → cv.length = ty.width → valAt ρ ns next = nv →
    pathTy sigs ty p = some t → nv.length = t.width →
    writePath env cv p nv = some res →
    valAt ρ ns' i = res ∧ res.length = ty.width := by
  intro p
  induction p with
  | nil =>
    intro ns cur ty ns' i cv res t h ha hv hc hn hcv hl hnv hty hnl hw
    simp [assignPathB] at h
    obtain ⟨rfl, rfl⟩ := h
    simp [writePath] at hw
    subst hw
    simp [pathTy] at hty
    subst hty
    exact ⟨hnv, hnl⟩
  | cons s r ih =>
    intro ns cur ty ns' i cv res t h ha hv hc hn hcv hl hnv hty hnl hw
    obtain ⟨W, g, rfl, hg, htyr⟩ := pathTy_cons hty
    simp only [Ty.width] at h hl ⊢
    unfold assignPathB at h
    simp only [Option.bind_eq_bind, hg, Option.bind_some] at h
    simp only [writePath, Option.bind_eq_bind] at hw
    cases hp : selPos env cv s with
    | none => simp [hp] at hw
    | some pr =>
      obtain ⟨off, w⟩ := pr
      simp only [hp, Option.bind_some] at hw
      cases hsub : writePath env (extract cv off w) r nv with
      | none => simp [hsub] at hw
      | some sub =>
        simp only [hsub, Option.bind_some, Option.some.injEq] at hw
        subst hw
        have hm := sel_match ha hv hl hg hp
        have hexl : (extract cv off w).length = w := by
          cases hm <;> exact length_extract _ _ _ (by omega)
        cases hm with
        | stat t' hb ht =>
          subst ht
          simp only at htyr
          simp only [mkNode, Option.bind_eq_bind] at h
          cases hr : assignPathB sigs next r (ns.push (.rewire [cur] [(0, off, t'.width)])) ns.size t'.width with
          | none => simp [hr] at h
          | some pr =>
            obtain ⟨ns2, ch⟩ := pr
            simp only [hr, Option.bind_some, Option.some.injEq, Prod.mk.injEq] at h
            obtain ⟨rfl, rfl⟩ := h
            have e0 := Ext.push ns (.rewire [cur] [(0, off, t'.width)])
            obtain ⟨e1, e2⟩ := assignPathB_ext next _ _ _ _ _ _ hr (hv.mono e0) (by simp [Array.size_push]) (e0.lt hn)
            have hsl : valAt ρ ns2 ch = sub ∧ sub.length = t'.width :=
              ih _ _ t' _ _ (extract cv off t'.width) sub t hr (ha.mono hv e0) (hv.mono e0) (by simp [Array.size_push]) (e0.lt hn)
                (by rw [val_rewire1, hcv]) hexl (by rw [valAt_ext e0 hn]; exact hnv) htyr hnl hsub
            refine ⟨?_, by rw [length_splice cv off t'.width sub (by omega) hsl.2, hl]⟩
            rw [valAt_push_self]
            simp only [nodeSem, getD_evalNodes]
            have hcur2 : valAt ρ ns2 cur = cv := by rw [valAt_ext (e0.trans e1) hc]; exact hcv
            have hgx := rewire_replace (fun k => valAt ρ ns2 (([cur, ch] : List Nat).getD k 0)) off t'.width W
              (by simpa using hcur2 ▸ hl) (by simpa using hsl.1 ▸ hsl.2) hb
            simp only [List.getD_cons_zero, List.getD_cons_succ, hcur2, hsl.1] at hgx
            exact hgx
        | dyn ip mul n k t' hk hoff hb ht hip hval =>
          subst ht
          simp only at htyr
          simp only [mkNode, Option.bind_eq_bind] at h
          cases hr : assignOpts (fun ns ex => assignPathB sigs next r ns ex t'.width) cur W mul t'.width 0 n ns with
          | none => simp [hr] at h
          | some pr =>
            obtain ⟨ns2, rs⟩ := pr
            simp only [hr, Option.bind_some, Option.some.injEq, Prod.mk.injEq] at h
            obtain ⟨rfl, rfl⟩ := h
            have hch : ChildExt ns (fun ns ex => assignPathB sigs next r ns ex t'.width) := by
              intro ns3 ex ns3' ch hb3 h2 hex
              exact assignPathB_ext next _ _ _ _ _ _ h2 (hv.mono hb3) hex (hb3.lt hn)
            obtain ⟨d1, d2, d3⟩ := assignOpts_ext hch cur W mul t'.width _ _ _ _ _ hr (Ext.refl _) hc
            obtain ⟨rk, g1, g2, g3⟩ := assignOpts_sound (ρ := ρ) hch cur W mul t'.width cv sub k hl (by omega)
              (fun ns3 ex ns3' ch hb3 h2 hex _ _ hexv =>
                ih _ _ t' _ _ (extract cv off t'.width) sub t h2 (ha.mono hv hb3) (hv.mono hb3) hex (hb3.lt hn)
                  (by rw [hoff]; exact hexv) hexl (by rw [valAt_ext hb3 hn]; exact hnv) htyr hnl hsub)
              n 0 ns ns2 rs hr (Ext.refl _) hc hcv (by omega) (by omega)
            refine ⟨?_, by rw [length_splice cv off t'.width sub (by omega) g3, hl]⟩
            rw [val_mux ns2 ip rs rk (by rw [valAt_ext d1 hip, hval]; simpa using g1), g2, hoff]

/-! ### expressions -/

theorem buildExpr_ext {sigs : List Sig} : ∀ (e : Expr) (ns ns' : Nodes) (i : Nat) (t : Ty),
    buildExpr sigs ns e = some (ns', i, t) → SigsValid ns sigs → Ext ns ns' ∧ i < ns'.size := by
  intro e
  induction e with
  | const ty v =>
    intro ns ns' i t h hv
    simp only [buildExpr, mkNode] at h
    split at h
    · simp at h; obtain ⟨rfl, rfl, rfl⟩ := h
      exact ⟨Ext.push _ _, by simp [Array.size_push]⟩
    · simp at h
  | read x p =>
    intro ns ns' i t h hv
    simp only [buildExpr, Option.bind_eq_bind] at h
    cases hs : sigs[x]? with
    | none => simp [hs] at h
    | some s =>
      simp only [hs, Option.bind_some] at h
      exact readPathB_ext p _ _ _ _ _ _ h (hv x s hs)
  | op1 o a iha =>
    intro ns ns' i t h hv
    simp only [buildExpr, Option.bind_eq_bind, mkNode] at h
    cases ha : buildExpr sigs ns a with
    | none => simp [ha] at h
    | some pr =>
      obtain ⟨ns1, ia, ta⟩ := pr
      simp only [ha, Option.bind_some, Option.some.injEq, Prod.mk.injEq] at h
      obtain ⟨rfl, rfl, rfl⟩ := h
      obtain ⟨e1, _⟩ := iha _ _ _ _ ha hv
      exact ⟨e1.trans (Ext.push _ _), by simp [Array.size_push]⟩
  | op2 o a b iha ihb =>
    intro ns ns' i t h hv
    simp only [buildExpr, Option.bind_eq_bind, mkNode] at h
    cases ha : buildExpr sigs ns a with
    | none => simp [ha] at h
    | some pr =>
      obtain ⟨ns1, ia, ta⟩ := pr
      simp only [ha, Option.bind_some] at h
      obtain ⟨e1, _⟩ := iha _ _ _ _ ha hv
      cases hb : buildExpr sigs ns1 b with
      | none => simp [hb] at h
      | some pr2 =>
        obtain ⟨ns2, ib, tb⟩ := pr2
        simp only [hb, Option.bind_some] at h
        obtain ⟨e2, _⟩ := ihb _ _ _ _ hb (hv.mono e1)
        cases hr : o.resTy ta tb with
        | none => simp [hr] at h
        | some tr =>
          simp only [hr, Option.bind_some, Option.some.injEq, Prod.mk.injEq] at h
          obtain ⟨rfl, rfl, rfl⟩ := h
          exact ⟨(e1.trans e2).trans (Ext.push _ _), by simp [Array.size_push]⟩

theorem buildExpr_sound {sigs : List Sig} {env : List Val} : ∀ (e : Expr) (ns ns' : Nodes) (i : Nat) (t : Ty) (v : Val),
    buildExpr sigs ns e = some (ns', i, t) → Agree ρ ns sigs env → SigsValid ns sigs → evalE env e = some v →
    valAt ρ ns' i = v ∧ v.length = t.width := by
  intro e
  induction e with
  | const ty c =>
    intro ns ns' i t v h hag hv hev
    simp only [buildExpr, mkNode] at h
    split at h
    · simp at h; obtain ⟨rfl, rfl, rfl⟩ := h
      simp [evalE] at hev; subst hev
      exact ⟨val_const _ _, by assumption⟩
    · simp at h
  | read x p =>
    intro ns ns' i t v h hag hv hev
    simp only [buildExpr, Option.bind_eq_bind] at h
    cases hs : sigs[x]? with
    | none => simp [hs] at h
    | some s =>
      simp only [hs, Option.bind_some] at h
      obtain ⟨cv, c1, c2, c3⟩ := hag.2 x s hs
      simp only [evalE, c1, Option.bind_eq_bind, Option.bind_some] at hev
      exact readPathB_sound p _ _ _ _ _ _ cv v h hag hv (hv x s hs) c2 c3 hev
  | op1 o a iha =>
    intro ns ns' i t v h hag hv hev
    simp only [buildExpr, Option.bind_eq_bind, mkNode] at h
    cases ha : buildExpr sigs ns a with
    | none => simp [ha] at h
    | some pr =>
      obtain ⟨ns1, ia, ta⟩ := pr
      simp only [ha, Option.bind_some, Option.some.injEq, Prod.mk.injEq] at h
      obtain ⟨rfl, rfl, rfl⟩ := h
      simp only [evalE, Option.bind_eq_bind] at hev
      cases hva : evalE env a with
      | none => simp [hva] at hev
      | some va =>
        simp only [hva, Option.bind_some, Option.some.injEq] at hev
        subst hev
        obtain ⟨g1, g2⟩ := iha _ _ _ _ va ha hag hv hva
        exact ⟨by rw [val_op1, g1], by rw [length_op1, g2]⟩
  | op2 o a b iha ihb =>
    intro ns ns' i t v h hag hv hev
    simp only [buildExpr, Option.bind_eq_bind, mkNode] at h
    cases ha : buildExpr sigs ns a with
    | none => simp [ha] at h
    | some pr =>
      obtain ⟨ns1, ia, ta⟩ := pr
      simp only [ha, Option.bind_some] at h
      obtain ⟨e1, l1⟩ := buildExpr_ext a _ _ _ _ ha hv
      cases hb : buildExpr sigs ns1 b with
      | none => simp [hb] at h
      | some pr2 =>
        obtain ⟨ns2, ib, tb⟩ := pr2
        simp only [hb, Option.bind_some] at h
        obtain ⟨e2, l2⟩ := buildExpr_ext b _ _ _ _ hb (hv.mono e1)
        cases hr : o.resTy ta tb with
        | none => simp [hr] at h
        | some tr =>
          simp only [hr, Option.bind_some, Option.some.injEq, Prod.mk.injEq] at h
          obtain ⟨rfl, rfl, rfl⟩ := h
          simp only [evalE, Option.bind_eq_bind] at hev
          cases hva : evalE env a with
          | none => simp [hva] at hev
          | some va =>
            cases hvb : evalE env b with
            | none => simp [hva, hvb] at hev
            | some vb =>
              simp only [hva, hvb, Option.bind_some, Option.some.injEq] at hev
              subst hev
              obtain ⟨g1, g2⟩ := iha _ _ _ _ va ha hag hv hva
              obtain ⟨k1, k2⟩ := ihb _ _ _ _ vb hb (hag.mono hv e1) (hv.mono e1) hvb
              refine ⟨?_, length_op2 o ta tb _ va vb hr g2 k2⟩
              rw [val_op2, k1, valAt_ext e2 l1, g1]

end Gatery.C05
