import GateryModel.C05.LemmasActive
/-!
# C05 helper lemmas 9 — the initial design (one pin per input) and the top-level corollaries of the inductions
-/
namespace Gatery.C05

variable {ρ : List Val}

theorem inputs_val : ∀ (n i : Nat), i < n →
    valAt ρ ((List.range n).map Node.input).toArray i = ρ.getD i [] := by
  intro n
  induction n with
  | zero => intro i h; omega
  | succ n ih =>
    intro i h
    have hsz : ((List.range n).map Node.input).toArray.size = n := by simp
    have hpush : ((List.range (n + 1)).map Node.input).toArray = ((List.range n).map Node.input).toArray.push (.input n) := by
      simp [List.range_succ]
    rw [hpush]
    by_cases hi : i = n
    · subst hi
      have := valAt_push_self (ρ := ρ) ((List.range i).map Node.input).toArray (.input i)
      rw [hsz] at this
      rw [this]; rfl
    · rw [valAt_push_lt _ _ (by rw [hsz]; omega)]
      exact ih i (by omega)

theorem initState_sigs_get (ins : List Ty) (x : Nat) (s : Sig) (h : (initState ins).sigs[x]? = some s) :
    ∃ ty, ins[x]? = some ty ∧ s = { ty := ty, driver := x, initScope := 0 } := by
  unfold initState at h
  simp only [List.getElem?_zipWith] at h
  cases hr : (List.range ins.length)[x]? with
  | none => simp [hr] at h
  | some i =>
    cases ht : ins[x]? with
    | none => simp [hr, ht] at h
    | some ty =>
      simp only [hr, ht] at h
      have hix : i = x := by
        have := List.getElem?_eq_some_iff.mp hr
        obtain ⟨hlt, he⟩ := this
        simpa using he.symm
      subst hix
      simp at h
      exact ⟨ty, rfl, h.symm⟩

theorem initState_wf (ins : List Ty) : WF (initState ins) := by
  refine ⟨?_, ?_, ?_, ?_, ?_⟩
  · intro x s hs
    obtain ⟨ty, h1, rfl⟩ := initState_sigs_get ins x s hs
    have := (List.getElem?_eq_some_iff.mp h1).1
    simp [initState]; exact this
  · intro x s hs
    obtain ⟨ty, h1, rfl⟩ := initState_sigs_get ins x s hs
    simp [initState]
  · intro sc hsc; simp [initState] at hsc
  · intro l hl; simp [initState] at hl
  · simp [initState]

theorem typedEnv_get {ins : List Ty} {env : List Val} (h : typedEnv ins env) (x : Nat) (ty : Ty) (hx : ins[x]? = some ty) :
    ∃ v, env[x]? = some v ∧ v.length = ty.width := by
  unfold typedEnv at h
  have h1 : (env.map List.length)[x]? = (ins.map Ty.width)[x]? := by rw [h]
  simp only [List.getElem?_map, hx, Option.map_some] at h1
  cases hv : env[x]? with
  | none => simp [hv] at h1
  | some v => simp [hv] at h1; exact ⟨v, rfl, h1⟩

theorem initState_agree' (ins : List Ty) (env : List Val) (h : typedEnv ins env) :
    Agree env (initState ins).nodes (initState ins).sigs env := by
  have hlen : env.length = ins.length := by
    have := congrArg List.length h
    simpa using this
  refine ⟨?_, ?_⟩
  · simp [initState, hlen]
  · intro x s hs
    obtain ⟨ty, h1, rfl⟩ := initState_sigs_get ins x s hs
    obtain ⟨v, hv, hl⟩ := typedEnv_get h x ty h1
    refine ⟨v, hv, ?_, hl⟩
    have hx : x < ins.length := (List.getElem?_eq_some_iff.mp h1).1
    simp only [initState]
    rw [inputs_val _ _ hx]
    simp [List.getD, hv]

/-- top level: the two inductions, started from the design with only the input pins -/
theorem build_top {ins : List Ty} {p : Prog} {B : BState} {env0 env : List Val}
    (hb : build p (initState ins) = some B) (hρ : typedEnv ins env0)
    (hr : run p env0 none = some env) :
    WF B ∧ Agree env0 B.nodes B.sigs env := by
  obtain ⟨w, _, a, _⟩ := build_active (ρ := env0) p (initState ins) B env0 env none hb hr (initState_wf ins)
    (initState_agree' ins env0 hρ) (by intro top rest hs; simp [initState] at hs) (by intro t ht; cases ht)
  exact ⟨w, a⟩

theorem outputs_eq_of_agree {B : BState} {env : List Val} (h : Agree ρ B.nodes B.sigs env) : outputs ρ B = env := by
  apply List.ext_getElem?
  intro x
  simp only [outputs, List.getElem?_map]
  cases hs : B.sigs[x]? with
  | none =>
    simp only [Option.map_none]
    have : B.sigs.length ≤ x := by
      cases Nat.lt_or_ge x B.sigs.length with
      | inl hlt => rw [List.getElem?_eq_getElem hlt] at hs; cases hs
      | inr hge => exact hge
    rw [List.getElem?_eq_none (by rw [h.1]; exact this)]
  | some s =>
    obtain ⟨v, h1, h2, _⟩ := h.2 x s hs
    simp only [Option.map_some, h1]
    exact congrArg some h2

end Gatery.C05
