import GateryModel.C05.LemmasExpr
/-!
# C05 helper lemmas 4 — frontend state: well-formedness, scope constructor / destructor, single statements
-/
namespace Gatery.C05

variable {ρ : List Val}

structure ScopeOK (ns : Nodes) (nextId : Nat) (sc : Scope) : Prop where
  id : sc.id < nextId
  cond : sc.cond < ns.size
  full : sc.full < ns.size
  onEntry : ∀ l, sc.onEntry = some l → l < ns.size
  combined : ∀ c, sc.combined = some c → c < ns.size

/-- every node reference held by the frontend state exists; scope ids are below `s_nextId` -/
structure WF (B : BState) : Prop where
  sigs : SigsValid B.nodes B.sigs
  sigInit : ∀ (x : Nat) (s : Sig), B.sigs[x]? = some s → s.initScope < B.nextId
  scopes : ∀ sc ∈ B.scopes, ScopeOK B.nodes B.nextId sc
  last : ∀ l, B.lastCond = some l → l < B.nodes.size
  pos : 0 < B.nextId

theorem ScopeOK.mono {ns ns' : Nodes} {n n' : Nat} {sc : Scope} (h : ScopeOK ns n sc) (e : Ext ns ns') (hn : n ≤ n') :
    ScopeOK ns' n' sc :=
  ⟨Nat.lt_of_lt_of_le h.id hn, e.lt h.cond, e.lt h.full, fun l hl => e.lt (h.onEntry l hl), fun c hc => e.lt (h.combined c hc)⟩

/-- what a statement may change: nodes are appended, the scope stack is restored, ids only grow -/
structure Frame (B B' : BState) : Prop where
  ext : Ext B.nodes B'.nodes
  scopes : B'.scopes = B.scopes
  nextId : B.nextId ≤ B'.nextId

theorem Frame.refl (B : BState) : Frame B B := ⟨Ext.refl _, rfl, Nat.le_refl _⟩

theorem Frame.trans {A B C : BState} (h1 : Frame A B) (h2 : Frame B C) : Frame A C :=
  ⟨h1.ext.trans h2.ext, h2.scopes.trans h1.scopes, Nat.le_trans h1.nextId h2.nextId⟩

/-- signals declared outside the scope with id `tid` keep type, scope id and value -/
def Keeps (ρ : List Val) (tid : Nat) (B B' : BState) : Prop :=
  ∀ (x : Nat) (s : Sig), B.sigs[x]? = some s → s.initScope < tid →
    ∃ s', B'.sigs[x]? = some s' ∧ s'.ty = s.ty ∧ s'.initScope = s.initScope ∧
      valAt ρ B'.nodes s'.driver = valAt ρ B.nodes s.driver

theorem Keeps.refl (tid : Nat) (B : BState) : Keeps ρ tid B B := fun _ s hs _ => ⟨s, hs, rfl, rfl, rfl⟩

theorem Keeps.trans {tid : Nat} {A B C : BState} (h1 : Keeps ρ tid A B) (h2 : Keeps ρ tid B C) : Keeps ρ tid A C := by
  intro x s hs hlt
  obtain ⟨s1, a1, a2, a3, a4⟩ := h1 x s hs hlt
  obtain ⟨s2, b1, b2, b3, b4⟩ := h2 x s1 a1 (by rw [a3]; exact hlt)
  exact ⟨s2, b1, b2.trans a2, b3.trans a3, b4.trans a4⟩

theorem Keeps.weaken {tid tid' : Nat} {A B : BState} (h : Keeps ρ tid' A B) (hle : tid ≤ tid') : Keeps ρ tid A B :=
  fun x s hs hlt => h x s hs (Nat.lt_of_lt_of_le hlt hle)

/-! ### `pushScope` -/

theorem pushScope_spec (B : BState) (cond : Nat) (oe cb : Option Nat) :
    ∃ full, (pushScope B cond oe cb).scopes = { id := B.nextId, cond := cond, full := full, onEntry := oe, combined := cb } :: B.scopes ∧
      (pushScope B cond oe cb).nextId = B.nextId + 1 ∧ (pushScope B cond oe cb).sigs = B.sigs ∧
      (pushScope B cond oe cb).lastCond = B.lastCond ∧
      Ext B.nodes (pushScope B cond oe cb).nodes ∧
      (cond < B.nodes.size → full < (pushScope B cond oe cb).nodes.size) ∧
      (cond < B.nodes.size → (∀ sc ∈ B.scopes, sc.full < B.nodes.size) →
        valAt ρ (pushScope B cond oe cb).nodes full =
          match B.scopes with
          | [] => valAt ρ B.nodes cond
          | parent :: _ => [truthy (valAt ρ B.nodes cond) && truthy (valAt ρ B.nodes parent.full)]) := by
  unfold pushScope
  cases hs : B.scopes with
  | nil =>
    refine ⟨cond, by simp, by simp, by simp, by simp, Ext.refl _, fun h => h, fun _ _ => rfl⟩
  | cons parent rest =>
    simp only [mkNode]
    refine ⟨(B.nodes.push (.and cond parent.full)).size, by simp, by simp, by simp, by simp,
      (Ext.push _ _).trans (Ext.push _ _), fun _ => by simp [Array.size_push], fun hc hf => ?_⟩
    have hp : parent.full < B.nodes.size := hf parent (by simp)
    rw [val_sig, val_and]

theorem WF.withNodes {B : BState} (h : WF B) {ns : Nodes} (e : Ext B.nodes ns) : WF { B with nodes := ns } :=
  ⟨h.sigs.mono e, h.sigInit, fun sc hsc => (h.scopes sc hsc).mono e (Nat.le_refl _), fun l hl => e.lt (h.last l hl), h.pos⟩

theorem pushScope_wf {B : BState} (h : WF B) {cond : Nat} {oe cb : Option Nat} (hc : cond < B.nodes.size)
    (hoe : ∀ l, oe = some l → l < B.nodes.size) (hcb : ∀ c, cb = some c → c < B.nodes.size) :
    WF (pushScope B cond oe cb) := by
  obtain ⟨full, h1, h2, h3, h4, h6, h7, _⟩ := pushScope_spec (ρ := []) B cond oe cb
  refine ⟨?_, ?_, ?_, ?_, ?_⟩
  · rw [h3]; exact h.sigs.mono h6
  · rw [h3, h2]; intro x s hs; exact Nat.lt_succ_of_lt (h.sigInit x s hs)
  · rw [h1, h2]
    intro sc hsc
    simp only [List.mem_cons] at hsc
    cases hsc with
    | inl he =>
      subst he
      exact ⟨Nat.lt_succ_self _, h6.lt hc, h7 hc, fun l hl => h6.lt (hoe l hl), fun c hc' => h6.lt (hcb c hc')⟩
    | inr hm => exact (h.scopes sc hm).mono h6 (Nat.le_succ _)
  · rw [h4]; intro l hl; exact h6.lt (h.last l hl)
  · rw [h2]; exact Nat.succ_pos _

/-! ### `popScope` -/

theorem popScope_spec {B B' : BState} {n : Nat} {s : Scope} {rest : List Scope} (hs : B.scopes = s :: rest)
    (h : popScope B n = some B') :
    B'.scopes = rest ∧ B'.sigs = B.sigs.take n ∧ B'.nextId = B.nextId ∧ Ext B.nodes B'.nodes ∧
    (match s.combined with
     | some c => B'.lastCond = some c
     | none =>
        match s.onEntry, B.lastCond with
        | some l, some lc =>
            if B.nextId ≠ s.id + 1 then B'.lastCond = some B.nodes.size ∧ B'.nodes = B.nodes.push (.or lc l)
            else B'.lastCond = some s.cond
        | _, _ => B'.lastCond = some s.cond) := by
  unfold popScope at h
  simp only [hs] at h
  cases hc : s.combined with
  | some c =>
    simp only [hc, Option.some.injEq] at h
    subst h
    exact ⟨rfl, rfl, rfl, Ext.refl _, rfl⟩
  | none =>
    simp only [hc] at h
    cases ho : s.onEntry with
    | none =>
      simp only [ho, Option.some.injEq] at h
      subst h
      exact ⟨rfl, rfl, rfl, Ext.refl _, rfl⟩
    | some l =>
      cases hl : B.lastCond with
      | none =>
        simp only [ho, hl, Option.some.injEq] at h
        subst h
        exact ⟨rfl, rfl, rfl, Ext.refl _, rfl⟩
      | some lc =>
        simp only [ho, hl, mkNode] at h
        by_cases hne : B.nextId ≠ s.id + 1
        · simp only [hne, ne_eq, not_false_eq_true, if_true, Option.some.injEq] at h
          subst h
          refine ⟨rfl, rfl, rfl, Ext.push _ _, ?_⟩
          simp [hne]
        · simp only [hne, if_false, Option.some.injEq] at h
          subst h
          refine ⟨rfl, rfl, rfl, Ext.refl _, ?_⟩
          simp [hne]

theorem popScope_wf {B B' : BState} {n : Nat} (hw : WF B) (h : popScope B n = some B') : WF B' ∧ ∃ s rest, B.scopes = s :: rest := by
  cases hs : B.scopes with
  | nil => simp [popScope, hs] at h
  | cons s rest =>
    obtain ⟨h1, h2, h3, h5, h6⟩ := popScope_spec hs h
    refine ⟨⟨?_, ?_, ?_, ?_, ?_⟩, s, rest, rfl⟩
    · intro x sg hsg
      rw [h2, List.getElem?_take] at hsg
      split at hsg
      · exact h5.lt (hw.sigs x sg hsg)
      · simp at hsg
    · intro x sg hsg
      rw [h2, List.getElem?_take] at hsg
      split at hsg
      · rw [h3]; exact hw.sigInit x sg hsg
      · simp at hsg
    · rw [h1, h3]
      intro sc hsc
      exact (hw.scopes sc (by rw [hs]; exact List.mem_cons_of_mem _ hsc)).mono h5 (Nat.le_refl _)
    · have hsok := hw.scopes s (by rw [hs]; exact List.mem_cons_self)
      intro l hl
      cases hc : s.combined with
      | some c =>
        simp only [hc] at h6
        rw [h6] at hl; cases hl
        exact h5.lt (hsok.combined l hc)
      | none =>
        simp only [hc] at h6
        cases ho : s.onEntry with
        | none =>
          simp only [ho] at h6
          rw [h6] at hl; cases hl
          exact h5.lt hsok.cond
        | some l0 =>
          cases hlc : B.lastCond with
          | none =>
            simp only [ho, hlc] at h6
            rw [h6] at hl; cases hl
            exact h5.lt hsok.cond
          | some lc =>
            simp only [ho, hlc] at h6
            split at h6
            · rw [h6.1] at hl; cases hl
              rw [h6.2]; simp [Array.size_push]
            · rw [h6] at hl; cases hl
              exact h5.lt hsok.cond
    · rw [h3]; exact hw.pos

end Gatery.C05
