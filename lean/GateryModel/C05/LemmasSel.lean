import GateryModel.C05.LemmasExpr
/-!
# C05 helper lemmas — `Selection` forms (negative starts / ends count from the top of the parent)

What `BitVectorSliceStatic`'s constructor (as modelled by `Selection.resolve`) makes of the factory functions, that an accepted
selection lies inside its parent, and that an assignment through it changes exactly the selected bits.
-/
namespace Gatery.C05

/-- `Selection::Range(s, -n)` with `s ≥ 0`: bits `s … W-n-1` -/
theorem resolve_range_negEnd (s n W : Nat) (h0 : 0 < s + n) (h : s + n ≤ W) :
    (SelForm.range s (-(n : Int))).toSelection.resolve W = some (s, W - n - s) := by
  simp only [SelForm.toSelection, Selection.resolve]
  have h1 : ¬ (-(n : Int) - (s : Int) ≥ 0) := by omega
  simp only [Int.natCast_nonneg, ge_iff_le, if_true, h1, if_false, Bool.false_eq_true]
  split
  · simp only [Option.some.injEq, Prod.mk.injEq]; constructor <;> omega
  · rename_i hc; simp at hc; omega

/-- `Selection::RangeIncl(s, -n)` with `s ≥ 0`, `n ≥ 1`: bits `s … W-n` (needs `s + n ≥ 2`: `RangeIncl(0, -1)` is encoded as width 0
    and resolves to an empty slice, not to the whole vector - a quirk of the encoding, see `resolve_rangeIncl_0_m1`) -/
theorem resolve_rangeIncl_negEnd (s n W : Nat) (h0 : 2 ≤ s + n) (h : s + n ≤ W + 1) :
    (SelForm.rangeIncl s (-(n : Int))).toSelection.resolve W = some (s, W + 1 - n - s) := by
  simp only [SelForm.toSelection, Selection.resolve]
  have h1 : ¬ (-(n : Int) - (s : Int) + 1 ≥ 0) := by omega
  simp only [Int.natCast_nonneg, ge_iff_le, if_true, h1, if_false, Bool.false_eq_true]
  split
  · simp only [Option.some.injEq, Prod.mk.injEq]; constructor <;> omega
  · rename_i hc; simp at hc; omega

theorem resolve_rangeIncl_0_m1 (W : Nat) : (SelForm.rangeIncl 0 (-1)).toSelection.resolve W = some (0, 0) := by
  simp [SelForm.toSelection, Selection.resolve]

/-- `Selection::From(-k)`: the top `k` bits -/
theorem resolve_from_neg (k W : Nat) (h0 : 1 ≤ k) (h : k ≤ W) :
    (SelForm.from (-(k : Int))).toSelection.resolve W = some (W - k, k) := by
  simp only [SelForm.toSelection, Selection.resolve]
  have h1 : ¬ (-(k : Int) ≥ 0) := by omega
  simp only [h1, if_false, if_true]
  split
  · simp only [Option.some.injEq, Prod.mk.injEq]; constructor <;> omega
  · rename_i hc; simp at hc; omega

/-- `Selection::Range(-k, -n)`: bits `W-k … W-n-1` -/
theorem resolve_range_negBoth (k n W : Nat) (h0 : n < k) (h : k ≤ W) :
    (SelForm.range (-(k : Int)) (-(n : Int))).toSelection.resolve W = some (W - k, k - n) := by
  simp only [SelForm.toSelection, Selection.resolve]
  have h1 : ¬ (-(k : Int) ≥ 0) := by omega
  have h2 : (-(n : Int) - -(k : Int) ≥ 0) := by omega
  simp only [h1, h2, if_false, if_true, Bool.false_eq_true]
  split
  · simp only [Option.some.injEq, Prod.mk.injEq]; constructor <;> omega
  · rename_i hc; simp at hc; omega

/-- `Selection::Slice(o, n)` / non-negative `Range` are taken literally -/
theorem resolve_slice (o n W : Nat) : (SelForm.slice o n).toSelection.resolve W = some (o, n) := by
  simp [SelForm.toSelection, Selection.resolve]

/-- an accepted selection lies inside its parent, and the frontend's geometry is the resolved one -/
theorem selGeom_sel_inside {sigs : List Sig} {W : Nat} {f : SelForm} {g : SelG} (h : selGeom sigs W (.sel f) = some g) :
    ∃ off w, f.toSelection.resolve W = some (off, w) ∧ g = .stat off w (.uint w) ∧ off + w ≤ W ∧ off < W := by
  simp only [selGeom, Option.bind_eq_bind] at h
  cases hr : f.toSelection.resolve W with
  | none => simp [hr] at h
  | some pr =>
    obtain ⟨off, w⟩ := pr
    simp only [hr, Option.bind_some] at h
    split at h
    · rename_i hc
      simp at h
      exact ⟨off, w, rfl, h.symm, hc.1, hc.2⟩
    · simp at h

/-- `x(sel) = v` in the interpreter: exactly the selected bits change -/
theorem writeSel_exact (env : List Val) (cur v : Val) (f : SelForm) (off w : Nat)
    (hr : f.toSelection.resolve cur.length = some (off, w)) (hb : off + w ≤ cur.length) (hv : v.length = w) :
    ∃ r, writePath env cur [.sel f] v = some r ∧ r.length = cur.length ∧
      ∀ i, r[i]? = if off ≤ i ∧ i < off + w then v[i - off]? else cur[i]? := by
  refine ⟨splice cur off w v, ?_, length_splice cur off w v hb hv, fun i => splice_getElem? cur v off w i hb hv⟩
  simp [writePath, selPos, hr]

end Gatery.C05
