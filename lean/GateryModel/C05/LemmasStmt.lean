import GateryModel.C05.LemmasScope
/-!
# C05 helper lemmas 5 — single statements (declaration, default, assignment) in an executed and in a skipped context
-/
namespace Gatery.C05

variable {ρ : List Val}

theorem curScopeId_lt {B : BState} (hw : WF B) : curScopeId B < B.nextId := by
  unfold curScopeId
  cases hs : B.scopes with
  | nil => simpa using hw.pos
  | cons s r => simpa using (hw.scopes s (by rw [hs]; exact List.mem_cons_self)).id

/-- appending signals and nodes keeps every old signal -/
theorem keeps_of_append {B B1 : BState} (tid : Nat) (hw : WF B) (e : Ext B.nodes B1.nodes) (l : List Sig)
    (hs : B1.sigs = B.sigs ++ l) : Keeps ρ tid B B1 := by
  intro x s hx _
  refine ⟨s, ?_, rfl, rfl, valAt_ext e (hw.sigs x s hx)⟩
  rw [hs, List.getElem?_append_left]
  · exact hx
  · exact (List.getElem?_eq_some_iff.mp hx).1

theorem agree_append {ns ns' : Nodes} {sigs : List Sig} {env : List Val} (ha : Agree ρ ns sigs env) (hv : SigsValid ns sigs)
    (e : Ext ns ns') (s : Sig) (v : Val) (h1 : valAt ρ ns' s.driver = v) (h2 : v.length = s.ty.width) :
    Agree ρ ns' (sigs ++ [s]) (env ++ [v]) := by
  have ha' := ha.mono hv e
  refine ⟨by simp [ha.1], fun x sx hx => ?_⟩
  rw [List.getElem?_append] at hx
  split at hx
  · obtain ⟨vx, a1, a2, a3⟩ := ha'.2 x sx hx
    refine ⟨vx, ?_, a2, a3⟩
    rw [List.getElem?_append_left (by rw [ha.1]; assumption)]; exact a1
  · rename_i hge
    have hx0 : x - sigs.length = 0 := by
      cases hk : x - sigs.length with
      | zero => rfl
      | succ k => rw [hk] at hx; simp at hx
    rw [hx0] at hx
    simp at hx; subst hx
    refine ⟨v, ?_, h1, h2⟩
    rw [List.getElem?_append_right (by rw [ha.1]; omega), ha.1, hx0]; simp

/-! ### declarations -/

theorem stepDecl_frame {B B1 : BState} {ty : Ty} {init : Expr} (h : stepDecl B ty init = some B1) (hw : WF B) :
    WF B1 ∧ Frame B B1 ∧ B1.lastCond = B.lastCond ∧
    ∃ ns i, buildExpr B.sigs B.nodes init = some (ns, i, ty) ∧ B1.nodes = ns ∧
      B1.sigs = B.sigs ++ [{ ty := ty, driver := i, initScope := curScopeId B }] := by
  unfold stepDecl at h
  simp only [Option.bind_eq_bind] at h
  cases hb : buildExpr B.sigs B.nodes init with
  | none => simp [hb] at h
  | some pr =>
    obtain ⟨ns, i, t⟩ := pr
    simp only [hb, Option.bind_some] at h
    split at h
    · rename_i ht; subst ht
      simp only [Option.some.injEq] at h
      subst h
      obtain ⟨e1, e2⟩ := buildExpr_ext init _ _ _ _ hb hw.sigs
      refine ⟨⟨?_, ?_, ?_, ?_, hw.pos⟩, ⟨e1, rfl, Nat.le_refl _⟩, rfl, ns, i, rfl, rfl, rfl⟩
      · intro x s hx
        simp only at hx
        rw [List.getElem?_append] at hx
        split at hx
        · exact e1.lt (hw.sigs x s hx)
        · cases hk : x - B.sigs.length with
          | zero => rw [hk] at hx; simp at hx; subst hx; exact e2
          | succ k => rw [hk] at hx; simp at hx
      · intro x s hx
        simp only at hx
        rw [List.getElem?_append] at hx
        split at hx
        · exact hw.sigInit x s hx
        · cases hk : x - B.sigs.length with
          | zero => rw [hk] at hx; simp at hx; subst hx; exact curScopeId_lt hw
          | succ k => rw [hk] at hx; simp at hx
      · intro sc hsc; exact (hw.scopes sc hsc).mono e1 (Nat.le_refl _)
      · intro l hl; exact e1.lt (hw.last l hl)
    · simp at h

theorem stepDecl_active {B B1 : BState} {ty : Ty} {init : Expr} {env : List Val} {v : Val}
    (h : stepDecl B ty init = some B1) (hw : WF B) (ha : Agree ρ B.nodes B.sigs env) (hev : evalE env init = some v) :
    Agree ρ B1.nodes B1.sigs (env ++ [v]) := by
  obtain ⟨_, _, _, ns, i, hb, hn, hs⟩ := stepDecl_frame h hw
  obtain ⟨e1, _⟩ := buildExpr_ext init _ _ _ _ hb hw.sigs
  obtain ⟨g1, g2⟩ := buildExpr_sound init _ _ _ _ v hb ha hw.sigs hev
  rw [hn, hs]
  exact agree_append ha hw.sigs e1 _ v g1 g2

theorem stepDecl_keeps {B B1 : BState} {ty : Ty} {init : Expr} (tid : Nat) (h : stepDecl B ty init = some B1) (hw : WF B) :
    Keeps ρ tid B B1 := by
  obtain ⟨_, hf, _, ns, i, _, _, hs⟩ := stepDecl_frame h hw
  exact keeps_of_append tid hw hf.ext _ hs

/-! ### defaults -/

theorem stepDefault_frame {B B1 : BState} {ty : Ty} {d : Val} (h : stepDefault B ty d = some B1) (hw : WF B) :
    WF B1 ∧ Frame B B1 ∧ B1.lastCond = B.lastCond ∧ d.length = ty.width ∧
    ∃ s, B1.sigs = B.sigs ++ [s] ∧ s.ty = ty ∧ s.driver < B1.nodes.size ∧ valAt ρ B1.nodes s.driver = d := by
  unfold stepDefault at h
  split at h
  · rename_i hc
    simp only [mkNode, Option.some.injEq] at h
    subst h
    have e1 : Ext B.nodes ((B.nodes.push (.const d)).push (.dflt B.nodes.size)) := (Ext.push _ _).trans (Ext.push _ _)
    refine ⟨⟨?_, ?_, ?_, ?_, hw.pos⟩, ⟨e1, rfl, Nat.le_refl _⟩, rfl, hc.1, _, rfl, rfl, by simp [Array.size_push], ?_⟩
    · intro x s hx
      simp only at hx
      rw [List.getElem?_append] at hx
      split at hx
      · exact e1.lt (hw.sigs x s hx)
      · cases hk : x - B.sigs.length with
        | zero => rw [hk] at hx; simp at hx; subst hx; simp [Array.size_push]
        | succ k => rw [hk] at hx; simp at hx
    · intro x s hx
      simp only at hx
      rw [List.getElem?_append] at hx
      split at hx
      · exact hw.sigInit x s hx
      · cases hk : x - B.sigs.length with
        | zero => rw [hk] at hx; simp at hx; subst hx; exact curScopeId_lt hw
        | succ k => rw [hk] at hx; simp at hx
    · intro sc hsc; exact (hw.scopes sc hsc).mono e1 (Nat.le_refl _)
    · intro l hl; exact e1.lt (hw.last l hl)
    · rw [val_dflt, val_const]
  · simp at h

theorem stepDefault_active {B B1 : BState} {ty : Ty} {d : Val} {env : List Val}
    (h : stepDefault B ty d = some B1) (hw : WF B) (ha : Agree ρ B.nodes B.sigs env) :
    Agree ρ B1.nodes B1.sigs (env ++ [d]) := by
  obtain ⟨_, hf, _, hl, s, hs, hty, _, hval⟩ := stepDefault_frame (ρ := ρ) h hw
  rw [hs]
  exact agree_append ha hw.sigs hf.ext s d hval (by rw [hty]; exact hl)

theorem stepDefault_keeps {B B1 : BState} {ty : Ty} {d : Val} (tid : Nat) (h : stepDefault B ty d = some B1) (hw : WF B) :
    Keeps ρ tid B B1 := by
  obtain ⟨_, hf, _, _, s, hs, _⟩ := stepDefault_frame (ρ := ρ) h hw
  exact keeps_of_append tid hw hf.ext _ hs

/-! ### the conditional multiplexer -/

theorem condMux_spec (B : BState) (ns : Nodes) (s : Sig) (isBit : Bool) (inn : Nat)
    (hi : inn < ns.size) (hd : s.driver < ns.size) (hf : ∀ sc ∈ B.scopes, sc.full < ns.size) :
    Ext ns (condMux B ns s isBit inn).1 ∧ (condMux B ns s isBit inn).2 < (condMux B ns s isBit inn).1.size ∧
    (∀ top rest c, B.scopes = top :: rest → valAt ρ ns top.full = [c] →
      valAt ρ (condMux B ns s isBit inn).1 (condMux B ns s isBit inn).2 =
        if top.id > s.initScope then (if c then valAt ρ ns inn else valAt ρ ns s.driver) else valAt ρ ns inn) ∧
    (B.scopes = [] → valAt ρ (condMux B ns s isBit inn).1 (condMux B ns s isBit inn).2 = valAt ρ ns inn) := by
  unfold condMux
  cases hs : B.scopes with
  | nil => exact ⟨Ext.refl _, hi, fun top rest c h => by simp at h, fun _ => rfl⟩
  | cons sc rest0 =>
    have hfull : sc.full < ns.size := hf sc (by rw [hs]; exact List.mem_cons_self)
    by_cases hgt : sc.id > s.initScope
    · simp only [hgt, if_true]
      cases isBit with
      | true =>
        simp only [mkNode, if_true]
        refine ⟨(Ext.push _ _).trans (Ext.push _ _), by simp [Array.size_push], ?_, fun h => by simp at h⟩
        intro top rest c h hc
        simp only [List.cons.injEq] at h
        obtain ⟨rfl, rfl⟩ := h
        simp only [hgt, if_true]
        have e0 := Ext.push ns (.sig s.driver)
        rw [val_mux2 _ _ _ _ c (by rw [valAt_ext e0 hfull]; exact hc)]
        rw [val_sig, valAt_ext e0 hi]
      | false =>
        simp only [mkNode, Bool.false_eq_true, if_false]
        refine ⟨Ext.push _ _, by simp [Array.size_push], ?_, fun h => by simp at h⟩
        intro top rest c h hc
        simp only [List.cons.injEq] at h
        obtain ⟨rfl, rfl⟩ := h
        simp only [hgt, if_true]
        rw [val_mux2 _ _ _ _ c hc]
    · simp only [hgt, if_false]
      refine ⟨Ext.refl _, hi, ?_, fun h => by simp at h⟩
      intro top rest c h hc
      simp only [List.cons.injEq] at h
      obtain ⟨rfl, rfl⟩ := h
      simp [hgt]

/-! ### assignments -/

theorem stepAssign_inv {B B1 : BState} {x : Nat} {p : List Sel} {e : Expr} (h : stepAssign B x p e = some B1) :
    ∃ ns rhs t s ns2 inn, buildExpr B.sigs B.nodes e = some (ns, rhs, t) ∧ B.sigs[x]? = some s ∧
      pathTy B.sigs s.ty p = some t ∧ assignPathB B.sigs rhs p ns s.driver s.ty.width = some (ns2, inn) ∧
      B1 = { B with nodes := (condMux B ns2 s t.isBit inn).1,
                    sigs := B.sigs.set x { s with driver := (condMux B ns2 s t.isBit inn).2 } } := by
  unfold stepAssign at h
  simp only [Option.bind_eq_bind] at h
  cases hb : buildExpr B.sigs B.nodes e with
  | none => simp [hb] at h
  | some pr =>
    obtain ⟨ns, rhs, t⟩ := pr
    simp only [hb, Option.bind_some] at h
    cases hs : B.sigs[x]? with
    | none => simp [hs] at h
    | some s =>
      simp only [hs, Option.bind_some] at h
      cases hp : pathTy B.sigs s.ty p with
      | none => simp [hp] at h
      | some tt =>
        simp only [hp, Option.bind_some] at h
        split at h
        · rename_i hc
          obtain ⟨rfl, _⟩ := hc
          cases ha : assignPathB B.sigs rhs p ns s.driver s.ty.width with
          | none => simp [ha] at h
          | some pr2 =>
            obtain ⟨ns2, inn⟩ := pr2
            simp only [ha, Option.bind_some, Option.some.injEq] at h
            exact ⟨ns, rhs, tt, s, ns2, inn, rfl, rfl, hp, ha, h.symm⟩
        · simp at h

theorem stepAssign_frame {B B1 : BState} {x : Nat} {p : List Sel} {e : Expr} (h : stepAssign B x p e = some B1) (hw : WF B) :
    WF B1 ∧ Frame B B1 ∧ B1.lastCond = B.lastCond ∧ B1.sigs.length = B.sigs.length := by
  obtain ⟨ns, rhs, t, s, ns2, inn, hb, hs, hp, ha, rfl⟩ := stepAssign_inv h
  obtain ⟨e1, l1⟩ := buildExpr_ext e _ _ _ _ hb hw.sigs
  obtain ⟨e2, l2⟩ := assignPathB_ext rhs p _ _ _ _ _ ha (hw.sigs.mono e1) (e1.lt (hw.sigs x s hs)) l1
  have e12 := e1.trans e2
  obtain ⟨e3, l3, _, _⟩ := condMux_spec (ρ := []) B ns2 s t.isBit inn l2 (e12.lt (hw.sigs x s hs))
    (fun sc hsc => e12.lt (hw.scopes sc hsc).full)
  have e123 := e12.trans e3
  refine ⟨⟨?_, ?_, ?_, ?_, hw.pos⟩, ⟨e123, rfl, Nat.le_refl _⟩, rfl, by simp⟩
  · intro y sy hy
    simp only at hy
    rw [List.getElem?_set] at hy
    split at hy
    · split at hy
      · simp at hy; subst hy; exact l3
      · simp at hy
    · exact e123.lt (hw.sigs y sy hy)
  · intro y sy hy
    simp only at hy
    rw [List.getElem?_set] at hy
    split at hy
    · split at hy
      · simp at hy; subst hy; exact hw.sigInit x s hs
      · simp at hy
    · exact hw.sigInit y sy hy
  · intro sc hsc; exact (hw.scopes sc hsc).mono e123 (Nat.le_refl _)
  · intro l hl; exact e123.lt (hw.last l hl)

/-- executed context (`top.full` evaluates to true, or no scope is open): the signal takes the interpreter's new value -/
theorem stepAssign_active {B B1 : BState} {x : Nat} {p : List Sel} {e : Expr} {env : List Val} {v cur nv : Val}
    (h : stepAssign B x p e = some B1) (hw : WF B) (hag : Agree ρ B.nodes B.sigs env)
    (hact : ∀ top rest, B.scopes = top :: rest → valAt ρ B.nodes top.full = [true])
    (hev : evalE env e = some v) (hcur : env[x]? = some cur) (hwp : writePath env cur p v = some nv) :
    Agree ρ B1.nodes B1.sigs (env.set x nv) := by
  obtain ⟨ns, rhs, t, s, ns2, inn, hb, hs, hp, ha, rfl⟩ := stepAssign_inv h
  obtain ⟨e1, l1⟩ := buildExpr_ext e _ _ _ _ hb hw.sigs
  obtain ⟨g1, g2⟩ := buildExpr_sound e _ _ _ _ v hb hag hw.sigs hev
  have hd1 : s.driver < ns.size := e1.lt (hw.sigs x s hs)
  obtain ⟨e2, l2⟩ := assignPathB_ext rhs p _ _ _ _ _ ha (hw.sigs.mono e1) hd1 l1
  obtain ⟨cv, c1, c2, c3⟩ := hag.2 x s hs
  rw [hcur] at c1; cases c1
  obtain ⟨r1, r2⟩ := assignPathB_sound (ρ := ρ) rhs v p ns s.driver s.ty ns2 inn cur nv t ha (hag.mono hw.sigs e1)
    (hw.sigs.mono e1) hd1 l1 (by rw [valAt_ext e1 (hw.sigs x s hs)]; exact c2) c3 g1 hp g2 hwp
  have e12 := e1.trans e2
  obtain ⟨e3, l3, m1, m2⟩ := condMux_spec (ρ := ρ) B ns2 s t.isBit inn l2 (e12.lt (hw.sigs x s hs))
    (fun sc hsc => e12.lt (hw.scopes sc hsc).full)
  have e123 := e12.trans e3
  have hnew : valAt ρ (condMux B ns2 s t.isBit inn).1 (condMux B ns2 s t.isBit inn).2 = nv := by
    cases hsc : B.scopes with
    | nil => rw [m2 hsc, r1]
    | cons top rest =>
      have hfull : top.full < B.nodes.size := (hw.scopes top (by rw [hsc]; exact List.mem_cons_self)).full
      rw [m1 top rest true hsc (by rw [valAt_ext e12 hfull]; exact hact top rest hsc)]
      simp [r1]
  have hag3 := hag.mono hw.sigs e123
  refine ⟨by simp [hag.1], fun y sy hy => ?_⟩
  simp only at hy
  rw [List.getElem?_set] at hy
  split at hy
  · rename_i hxy; subst hxy
    split at hy
    · simp at hy; subst hy
      refine ⟨nv, ?_, hnew, by rw [r2]⟩
      rw [List.getElem?_set]; simp
      exact (List.getElem?_eq_some_iff.mp hcur).1
    · simp at hy
  · rename_i hxy
    obtain ⟨vy, a1, a2, a3⟩ := hag3.2 y sy hy
    refine ⟨vy, ?_, a2, a3⟩
    rw [List.getElem?_set]; simp [hxy, a1]

/-- skipped context (`top.full` evaluates to false): signals declared outside `top` keep their value -/
theorem stepAssign_dead {B B1 : BState} {x : Nat} {p : List Sel} {e : Expr} {top : Scope} {rest : List Scope}
    (h : stepAssign B x p e = some B1) (hw : WF B) (hsc : B.scopes = top :: rest)
    (hdead : valAt ρ B.nodes top.full = [false]) : Keeps ρ top.id B B1 := by
  obtain ⟨ns, rhs, t, s, ns2, inn, hb, hs, hp, ha, rfl⟩ := stepAssign_inv h
  obtain ⟨e1, l1⟩ := buildExpr_ext e _ _ _ _ hb hw.sigs
  have hd1 : s.driver < ns.size := e1.lt (hw.sigs x s hs)
  obtain ⟨e2, l2⟩ := assignPathB_ext rhs p _ _ _ _ _ ha (hw.sigs.mono e1) hd1 l1
  have e12 := e1.trans e2
  obtain ⟨e3, l3, m1, _⟩ := condMux_spec (ρ := ρ) B ns2 s t.isBit inn l2 (e12.lt (hw.sigs x s hs))
    (fun sc hsc => e12.lt (hw.scopes sc hsc).full)
  have e123 := e12.trans e3
  have hfull : top.full < B.nodes.size := (hw.scopes top (by rw [hsc]; exact List.mem_cons_self)).full
  intro y sy hy hlt
  by_cases hxy : x = y
  · subst hxy
    rw [hs] at hy; cases hy
    refine ⟨{ s with driver := (condMux B ns2 s t.isBit inn).2 }, ?_, rfl, rfl, ?_⟩
    · simp only
      rw [List.getElem?_set]; simp
      exact (List.getElem?_eq_some_iff.mp hs).1
    · simp only
      rw [m1 top rest false hsc (by rw [valAt_ext e12 hfull]; exact hdead)]
      simp [hlt, valAt_ext e12 (hw.sigs x s hs)]
  · refine ⟨sy, ?_, rfl, rfl, valAt_ext e123 (hw.sigs y sy hy)⟩
    simp only
    rw [List.getElem?_set]; simp [hxy, hy]

end Gatery.C05
