import GateryModel.C05.ModelX
import GateryModel.C05.LemmasData
/-!
# C05 helper lemmas X — the padding the frontend inserts for width-less variables preserves the integer

`ival_padTo`: extending a value at the MSB side with the variable's own policy (what `BaseBitVector::assign` does to the OLD value
when a wider value arrives inside a conditional scope, and what `in.expand` / `NormalizedWidthOperands` do to a narrower operand)
does not change the integer the bits stand for (`ival`). This is the statement the round-4 seeded defect (sign padding replaced by
zero padding) violates.
-/
namespace Gatery.C05

theorem natOfBits_append (a b : Val) : natOfBits (a ++ b) = natOfBits a + 2 ^ a.length * natOfBits b := by
  induction a with
  | nil => simp [natOfBits]
  | cons x a ih =>
    simp only [List.cons_append, natOfBits, ih, List.length_cons, Nat.pow_succ]
    rw [Nat.mul_add, Nat.mul_comm (2 ^ a.length) 2, Nat.mul_assoc]
    omega

theorem natOfBits_replicate_false (n : Nat) : natOfBits (List.replicate n false) = 0 := by
  induction n with
  | zero => rfl
  | succ n ih => simp [List.replicate_succ, natOfBits, ih]

theorem natOfBits_replicate_true (n : Nat) : natOfBits (List.replicate n true) + 1 = 2 ^ n := by
  induction n with
  | zero => rfl
  | succ n ih => simp only [List.replicate_succ, natOfBits, Bool.toNat_true, Nat.pow_succ]; omega

theorem getLast?_append_replicate (v : Val) (n : Nat) (b : Bool) (h : v.getLast?.getD false = b) (hv : v ≠ []) :
    (v ++ List.replicate n b).getLast?.getD false = b := by
  cases n with
  | zero => simpa using h
  | succ n =>
    have : (v ++ List.replicate (n + 1) b).getLast? = some b := by
      rw [List.getLast?_append]
      simp [List.getLast?_replicate]
    simp [this]

/-- padding with the variable's own policy preserves the integer (for `SInt` the value must have at least one bit) -/
theorem ival_padTo (k : IKind) (w : Nat) (v : Val) (hv : k = .s → v ≠ []) : ival k (padTo k.pol w v) = ival k v := by
  cases k with
  | u0 =>
    simp only [ival, padTo, IKind.pol, natOfBits_append, natOfBits_replicate_false, Nat.mul_zero, Nat.add_zero]
  | u1 =>
    simp only [ival, padTo, IKind.pol, natOfBits_append, List.length_append, List.length_replicate, Nat.pow_add]
    have h1 := natOfBits_replicate_true (w - v.length)
    have h2 : 2 ^ v.length * 2 ^ (w - v.length) = 2 ^ v.length * natOfBits (List.replicate (w - v.length) true) + 2 ^ v.length := by
      rw [← h1, Nat.mul_succ]
    rw [h2]
    omega
  | s =>
    have hne := hv rfl
    simp only [ival, padTo, IKind.pol, intOfBits]
    by_cases hm : v.getLast?.getD false = true
    · have hl := getLast?_append_replicate v (w - v.length) true hm hne
      simp only [hm, hl, if_true, natOfBits_append, List.length_append, List.length_replicate, Nat.pow_add]
      have h1 := natOfBits_replicate_true (w - v.length)
      have h2 : 2 ^ v.length * 2 ^ (w - v.length) = 2 ^ v.length * natOfBits (List.replicate (w - v.length) true) + 2 ^ v.length := by
        rw [← h1, Nat.mul_succ]
      rw [h2]
      omega
    · have hm' : v.getLast?.getD false = false := by simpa using hm
      have hl := getLast?_append_replicate v (w - v.length) false hm' hne
      simp only [hm', hl]
      simp [natOfBits_append, natOfBits_replicate_false]

theorem length_padTo (p : Pol) (w : Nat) (v : Val) : (padTo p w v).length = max w v.length := by
  simp [padTo]; omega

variable {ρ : List Val}

theorem val_pad (ns : Nodes) (a w : Nat) (p : Pol) : valAt ρ (ns.push (.pad a w p)) ns.size = padTo p w (valAt ρ ns a) := by
  rw [valAt_push_self]; rfl

/--
`BaseBitVector::assign` on a width-less variable inside a conditional scope whose full condition evaluates to `c`:
afterwards the variable has width `max wi width`, and its bits stand for the new integer if `c`, for the old integer otherwise
(the old value having been padded to the new width with the variable's policy, the new one - if narrower - with its own, equal, policy).
-/
theorem assignInt_conditional (X X' : XState) (x inn wi : Nat) (pi : Pol) (s : ISig) (sc : Scope) (rest : List Scope) (c : Bool)
    (vold vnew : Val)
    (h : assignInt X x inn wi pi = some X') (hs : X.ivars[x]? = some s)
    (hsc : X.core.scopes = sc :: rest) (hgt : sc.id > s.initScope)
    (hfull : sc.full < X.core.nodes.size) (hc : valAt ρ X.core.nodes sc.full = [c])
    (hinn : inn < X.core.nodes.size) (hold : s.driver < X.core.nodes.size)
    (hvn : valAt ρ X.core.nodes inn = vnew) (hln : vnew.length = wi)
    (hvo : valAt ρ X.core.nodes s.driver = vold) (hlo : vold.length = s.width)
    (hw1 : 1 ≤ s.width) (hw2 : 1 ≤ wi) :
    ∃ s', X'.ivars[x]? = some s' ∧ s'.kind = s.kind ∧ s'.width = max wi s.width ∧
      (valAt ρ X'.core.nodes s'.driver).length = s'.width ∧
      ival s.kind (valAt ρ X'.core.nodes s'.driver) = if c then ival s.kind vnew else ival s.kind vold := by
  have hxl : x < X.ivars.length := (List.getElem?_eq_some_iff.mp hs).1
  have hvne : vnew ≠ [] := by intro e; rw [e] at hln; simp at hln; omega
  have hone : vold ≠ [] := by intro e; rw [e] at hlo; simp at hlo; omega
  unfold assignInt at h
  simp only [hs, Option.bind_eq_bind, Option.bind_some] at h
  split at h
  · simp at h
  · rename_i hguard
    simp only [hsc, hgt, if_true, mkNode] at h
    by_cases hlt : wi < s.width
    · -- narrower value: padded with its own policy, which is the variable's
      have hpi : pi = s.kind.pol := by
        by_cases hp : pi = s.kind.pol
        · exact hp
        · exact absurd ⟨hlt, hp⟩ hguard
      have hng : ¬ wi > s.width := by omega
      simp only [hlt, hng, if_true, if_false, Option.some.injEq] at h
      subst h
      refine ⟨{ s with width := max wi s.width, driver := (X.core.nodes.push (.pad inn s.width pi)).size }, by simp [List.getElem?_set, hxl, Array.size_push], rfl, rfl, ?_, ?_⟩
      · simp only
        have e0 := Ext.push X.core.nodes (.pad inn s.width pi)
        rw [val_mux2 _ _ _ _ c (by rw [valAt_ext e0 hfull]; exact hc)]
        cases c
        · simp only [Bool.false_eq_true, if_false]; rw [valAt_ext e0 hold, hvo, hlo]; omega
        · simp only [if_true]; rw [val_pad, hvn, length_padTo, hln]; omega
      · simp only
        have e0 := Ext.push X.core.nodes (.pad inn s.width pi)
        rw [val_mux2 _ _ _ _ c (by rw [valAt_ext e0 hfull]; exact hc)]
        cases c
        · simp only [Bool.false_eq_true, if_false]; rw [valAt_ext e0 hold, hvo]
        · simp only [if_true]; rw [val_pad, hvn, hpi, ival_padTo _ _ _ (fun _ => hvne)]
    · by_cases hgtw : wi > s.width
      · -- wider value: the old one is padded with the variable's policy
        simp only [hlt, hgtw, if_true, if_false, Option.some.injEq] at h
        subst h
        refine ⟨{ s with width := max wi s.width, driver := (X.core.nodes.push (.pad s.driver wi s.kind.pol)).size }, by simp [List.getElem?_set, hxl, Array.size_push], rfl, rfl, ?_, ?_⟩
        · simp only
          have e0 := Ext.push X.core.nodes (.pad s.driver wi s.kind.pol)
          rw [val_mux2 _ _ _ _ c (by rw [valAt_ext e0 hfull]; exact hc)]
          cases c
          · simp only [Bool.false_eq_true, if_false]; rw [val_pad, hvo, length_padTo, hlo] <;> try omega
          · simp only [if_true]; rw [valAt_ext e0 hinn, hvn, hln]; omega
        · simp only
          have e0 := Ext.push X.core.nodes (.pad s.driver wi s.kind.pol)
          rw [val_mux2 _ _ _ _ c (by rw [valAt_ext e0 hfull]; exact hc)]
          cases c
          · simp only [Bool.false_eq_true, if_false]; rw [val_pad, hvo, ival_padTo _ _ _ (fun _ => hone)]
          · simp only [if_true]; rw [valAt_ext e0 hinn, hvn]
      · -- equal width
        have heq : wi = s.width := by omega
        simp only [hlt, hgtw, if_false, Option.some.injEq] at h
        subst h
        refine ⟨{ s with width := max wi s.width, driver := X.core.nodes.size }, by simp [List.getElem?_set, hxl], rfl, rfl, ?_, ?_⟩
        · simp only
          rw [val_mux2 _ _ _ _ c hc]
          cases c
          · simp only [Bool.false_eq_true, if_false]; rw [hvo, hlo]; omega
          · simp only [if_true]; rw [hvn, hln]; omega
        · simp only
          rw [val_mux2 _ _ _ _ c hc]
          cases c
          · simp only [Bool.false_eq_true, if_false]; rw [hvo]
          · simp only [if_true]; rw [hvn]

/-! ### the enable-scope stack -/

/-- every entry's accumulated condition (`m_fullEnableCondition`) evaluates to the conjunction of the own conditions
    (`m_enableCondition`) of that entry and of all entries below it -/
def EnInv (ρ : List Val) (ns : Nodes) : List EnS → Prop
  | [] => True
  | e :: rest =>
      e.cond < ns.size ∧ e.full < ns.size ∧
      truthy (valAt ρ ns e.full) = (e :: rest).all (fun x => truthy (valAt ρ ns x.cond)) ∧ EnInv ρ ns rest

theorem EnInv.mono {ns ns' : Nodes} (e : Ext ns ns') : ∀ {ens : List EnS}, EnInv ρ ns ens → EnInv ρ ns' ens
  | [], _ => trivial
  | en :: rest, ⟨h1, h2, h3, h4⟩ => by
      have ih := EnInv.mono e h4
      refine ⟨e.lt h1, e.lt h2, ?_, ih⟩
      rw [valAt_ext e h2, h3]
      -- the own conditions of all entries are old nodes
      have hc : ∀ {l : List EnS}, EnInv ρ ns l → l.all (fun x => truthy (valAt ρ ns' x.cond)) = l.all (fun x => truthy (valAt ρ ns x.cond)) := by
        intro l
        induction l with
        | nil => intro _; rfl
        | cons a l ihl =>
          intro ⟨a1, _, _, a4⟩
          simp only [List.all_cons, valAt_ext e a1, ihl a4]
      exact (hc (l := en :: rest) ⟨h1, h2, h3, h4⟩).symm

/-- constructing one more `EnableScope` keeps the invariant (one step of the induction over the scope stack) -/
theorem pushEn_inv (ns : Nodes) (ens : List EnS) (cond : Nat) (h : EnInv ρ ns ens) (hc : cond < ns.size) :
    Ext ns (pushEn ns ens cond).1 ∧ EnInv ρ (pushEn ns ens cond).1 (pushEn ns ens cond).2 := by
  cases ens with
  | nil =>
    simp only [pushEn]
    exact ⟨Ext.refl _, hc, hc, by simp, trivial⟩
  | cons p rest =>
    simp only [pushEn, mkNode]
    obtain ⟨p1, p2, p3, p4⟩ := h
    have e0 := Ext.push ns (.and cond p.full)
    refine ⟨e0, e0.lt hc, by simp [Array.size_push], ?_, EnInv.mono e0 ⟨p1, p2, p3, p4⟩⟩
    rw [val_and, truthy_single, p3]
    simp only [List.all_cons, valAt_ext e0 hc, valAt_ext e0 p1]
    congr 1
    have hc' : ∀ {l : List EnS}, EnInv ρ ns l → l.all (fun x => truthy (valAt ρ (ns.push (.and cond p.full)) x.cond)) = l.all (fun x => truthy (valAt ρ ns x.cond)) := by
      intro l
      induction l with
      | nil => intro _; rfl
      | cons a l ihl =>
        intro ⟨a1, _, _, a4⟩
        simp only [List.all_cons, valAt_ext e0 a1, ihl a4]
    rw [hc' p4]

/-- `n` enable scopes constructed one inside the other (nodes may be created in between: `EnInv.mono`) -/
def pushAll : Nodes → List EnS → List Nat → Nodes × List EnS
  | ns, ens, [] => (ns, ens)
  | ns, ens, c :: cs => pushAll (pushEn ns ens c).1 (pushEn ns ens c).2 cs

theorem pushAll_inv : ∀ (cs : List Nat) (ns : Nodes) (ens : List EnS), EnInv ρ ns ens → (∀ c ∈ cs, c < ns.size) →
    Ext ns (pushAll ns ens cs).1 ∧ EnInv ρ (pushAll ns ens cs).1 (pushAll ns ens cs).2 ∧
    (pushAll ns ens cs).2.length = ens.length + cs.length
  | [], ns, ens, h, _ => ⟨Ext.refl _, h, by simp [pushAll]⟩
  | c :: cs, ns, ens, h, hv => by
      obtain ⟨e1, i1⟩ := pushEn_inv (ρ := ρ) ns ens c h (hv c (by simp))
      obtain ⟨e2, i2, l2⟩ := pushAll_inv cs _ _ i1 (fun c' hc' => e1.lt (hv c' (by simp [hc'])))
      refine ⟨e1.trans e2, i2, ?_⟩
      simp only [pushAll]
      rw [l2]
      cases ens <;> simp [pushEn] <;> omega

theorem pushEn_conds (ns : Nodes) (ens : List EnS) (c : Nat) : (pushEn ns ens c).2.map (·.cond) = c :: ens.map (·.cond) := by
  cases ens <;> simp [pushEn, mkNode]

theorem pushAll_conds : ∀ (cs : List Nat) (ns : Nodes) (ens : List EnS),
    (pushAll ns ens cs).2.map (·.cond) = cs.reverse ++ ens.map (·.cond)
  | [], _, _ => by simp [pushAll]
  | c :: cs, ns, ens => by
      simp only [pushAll]
      rw [pushAll_conds cs, pushEn_conds]
      simp

/-- **Effective enable = conjunction of all enclosing conditions, for any nesting depth.** `cs` = the conditions of `n ≥ 1` enable
    scopes constructed one inside the other (outermost first; for a conditional scope the condition is its full condition); the
    accumulated condition of the innermost one - what `reg()` / a memory write port created there gets - evaluates to `c₁ ∧ … ∧ cₙ`. -/
theorem enable_is_conjunction (ns : Nodes) (cs : List Nat) (hv : ∀ c ∈ cs, c < ns.size) (hne : cs ≠ []) :
    ∃ e rest, (pushAll ns [] cs).2 = e :: rest ∧
      truthy (valAt ρ (pushAll ns [] cs).1 e.full) = cs.all (fun c => truthy (valAt ρ ns c)) := by
  obtain ⟨e1, i1, l1⟩ := pushAll_inv (ρ := ρ) cs ns [] trivial hv
  have hc := pushAll_conds cs ns []
  cases hst : (pushAll ns [] cs).2 with
  | nil =>
    rw [hst] at l1
    cases cs with
    | nil => exact absurd rfl hne
    | cons c cs => simp at l1
  | cons e rest =>
    refine ⟨e, rest, rfl, ?_⟩
    rw [hst] at i1 hc
    rw [i1.2.2.1]
    -- the stack's own conditions are exactly `cs` (innermost first), all of them old nodes
    have : (e :: rest).all (fun x => truthy (valAt ρ (pushAll ns [] cs).1 x.cond)) =
        ((e :: rest).map (·.cond)).all (fun c => truthy (valAt ρ (pushAll ns [] cs).1 c)) := by
      rw [List.all_map]; rfl
    rw [this, hc]
    simp only [List.map_nil, List.append_nil, List.all_reverse]
    have hall : ∀ (l : List Nat), (∀ c ∈ l, c < ns.size) →
        l.all (fun c => truthy (valAt ρ (pushAll ns [] cs).1 c)) = l.all (fun c => truthy (valAt ρ ns c)) := by
      intro l
      induction l with
      | nil => intro _; rfl
      | cons a l ih =>
        intro hl
        simp only [List.all_cons, valAt_ext e1 (hl a (by simp)), ih (fun c hc' => hl c (by simp [hc']))]
    exact hall cs hv

/-- what a register / memory write port created under a non-empty enable-scope stack gets as enable -/
theorem curEnable_conjunction (X : XState) (e : EnS) (rest : List EnS) (hens : X.ens = e :: rest) (h : EnInv ρ X.core.nodes X.ens) :
    (curEnable X).1 = X ∧
    truthy (valAt ρ X.core.nodes (curEnable X).2) = X.ens.all (fun x => truthy (valAt ρ X.core.nodes x.cond)) := by
  unfold curEnable
  rw [hens] at h ⊢
  exact ⟨rfl, h.2.2.1⟩

end Gatery.C05
