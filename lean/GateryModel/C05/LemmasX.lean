import GateryModel.C05.ModelX
import GateryModel.C05.LemmasEval
/-!
# C05 helper lemmas X — the padding the frontend inserts for width-less variables preserves the integer

`ival_padTo`: extending a value at the MSB side with the variable's own policy (what `BaseBitVector::assign` does to the OLD value
when a wider value arrives inside a conditional scope, and what `in.expand` / `NormalizedWidthOperands` do to a narrower operand)
does not change the integer the bits stand for (`ival`). This is the statement the round-4 seeded defect (sign padding replaced by
zero padding) violates.
-/
namespace Gatery.C05

theorem natOfBits_append (a b : Val) : natOfBits (a ++ b) = natOfBits a + 2 ^ a.length * natOfBits b := by
  induction a with
  | nil => simp [natOfBits]
  | cons x a ih =>
    simp only [List.cons_append, natOfBits, ih, List.length_cons, Nat.pow_succ]
    rw [Nat.mul_add, Nat.mul_comm (2 ^ a.length) 2, Nat.mul_assoc]
    omega

theorem natOfBits_replicate_false (n : Nat) : natOfBits (List.replicate n false) = 0 := by
  induction n with
  | zero => rfl
  | succ n ih => simp [List.replicate_succ, natOfBits, ih]

theorem natOfBits_replicate_true (n : Nat) : natOfBits (List.replicate n true) + 1 = 2 ^ n := by
  induction n with
  | zero => rfl
  | succ n ih => simp only [List.replicate_succ, natOfBits, Bool.toNat_true, Nat.pow_succ]; omega

theorem getLast?_append_replicate (v : Val) (n : Nat) (b : Bool) (h : v.getLast?.getD false = b) (hv : v ≠ []) :
    (v ++ List.replicate n b).getLast?.getD false = b := by
  cases n with
  | zero => simpa using h
  | succ n =>
    have : (v ++ List.replicate (n + 1) b).getLast? = some b := by
      rw [List.getLast?_append]
      simp [List.getLast?_replicate]
    simp [this]

/-- padding with the variable's own policy preserves the integer (for `SInt` the value must have at least one bit) -/
theorem ival_padTo (k : IKind) (w : Nat) (v : Val) (hv : k = .s → v ≠ []) : ival k (padTo k.pol w v) = ival k v := by
  cases k with
  | u0 =>
    simp only [ival, padTo, IKind.pol, natOfBits_append, natOfBits_replicate_false, Nat.mul_zero, Nat.add_zero]
  | u1 =>
    simp only [ival, padTo, IKind.pol, natOfBits_append, List.length_append, List.length_replicate, Nat.pow_add]
    have h1 := natOfBits_replicate_true (w - v.length)
    have h2 : 2 ^ v.length * 2 ^ (w - v.length) = 2 ^ v.length * natOfBits (List.replicate (w - v.length) true) + 2 ^ v.length := by
      rw [← h1, Nat.mul_succ]
    rw [h2]
    omega
  | s =>
    have hne := hv rfl
    simp only [ival, padTo, IKind.pol, intOfBits]
    by_cases hm : v.getLast?.getD false = true
    · have hl := getLast?_append_replicate v (w - v.length) true hm hne
      simp only [hm, hl, if_true, natOfBits_append, List.length_append, List.length_replicate, Nat.pow_add]
      have h1 := natOfBits_replicate_true (w - v.length)
      have h2 : 2 ^ v.length * 2 ^ (w - v.length) = 2 ^ v.length * natOfBits (List.replicate (w - v.length) true) + 2 ^ v.length := by
        rw [← h1, Nat.mul_succ]
      rw [h2]
      omega
    · have hm' : v.getLast?.getD false = false := by simpa using hm
      have hl := getLast?_append_replicate v (w - v.length) false hm' hne
      simp only [hm', hl]
      simp [natOfBits_append, natOfBits_replicate_false]

theorem length_padTo (p : Pol) (w : Nat) (v : Val) : (padTo p w v).length = max w v.length := by
  simp [padTo]; omega

variable {ρ : List Val}

theorem val_pad (ns : Nodes) (a w : Nat) (p : Pol) : valAt ρ (ns.push (.pad a w p)) ns.size = padTo p w (valAt ρ ns a) := by
  rw [valAt_push_self]; rfl

/--
`BaseBitVector::assign` on a width-less variable inside a conditional scope whose full condition evaluates to `c`:
afterwards the variable has width `max wi width`, and its bits stand for the new integer if `c`, for the old integer otherwise
(the old value having been padded to the new width with the variable's policy, the new one - if narrower - with its own, equal, policy).
-/
theorem assignInt_conditional (X X' : XState) (x inn wi : Nat) (pi : Pol) (s : ISig) (sc : Scope) (rest : List Scope) (c : Bool)
    (vold vnew : Val)
    (h : assignInt X x inn wi pi = some X') (hs : X.ivars[x]? = some s)
    (hsc : X.core.scopes = sc :: rest) (hgt : sc.id > s.initScope)
    (hfull : sc.full < X.core.nodes.size) (hc : valAt ρ X.core.nodes sc.full = [c])
    (hinn : inn < X.core.nodes.size) (hold : s.driver < X.core.nodes.size)
    (hvn : valAt ρ X.core.nodes inn = vnew) (hln : vnew.length = wi)
    (hvo : valAt ρ X.core.nodes s.driver = vold) (hlo : vold.length = s.width)
    (hw1 : 1 ≤ s.width) (hw2 : 1 ≤ wi) :
    ∃ s', X'.ivars[x]? = some s' ∧ s'.kind = s.kind ∧ s'.width = max wi s.width ∧
      (valAt ρ X'.core.nodes s'.driver).length = s'.width ∧
      ival s.kind (valAt ρ X'.core.nodes s'.driver) = if c then ival s.kind vnew else ival s.kind vold := by
  have hxl : x < X.ivars.length := (List.getElem?_eq_some_iff.mp hs).1
  have hvne : vnew ≠ [] := by intro e; rw [e] at hln; simp at hln; omega
  have hone : vold ≠ [] := by intro e; rw [e] at hlo; simp at hlo; omega
  unfold assignInt at h
  simp only [hs, Option.bind_eq_bind, Option.bind_some] at h
  split at h
  · simp at h
  · rename_i hguard
    simp only [hsc, hgt, if_true, mkNode] at h
    by_cases hlt : wi < s.width
    · -- narrower value: padded with its own policy, which is the variable's
      have hpi : pi = s.kind.pol := by
        by_cases hp : pi = s.kind.pol
        · exact hp
        · exact absurd ⟨hlt, hp⟩ hguard
      have hng : ¬ wi > s.width := by omega
      simp only [hlt, hng, if_true, if_false, Option.some.injEq] at h
      subst h
      refine ⟨{ s with width := max wi s.width, driver := (X.core.nodes.push (.pad inn s.width pi)).size }, by simp [List.getElem?_set, hxl, Array.size_push], rfl, rfl, ?_, ?_⟩
      · simp only
        have e0 := Ext.push X.core.nodes (.pad inn s.width pi)
        rw [val_mux2 _ _ _ _ c (by rw [valAt_ext e0 hfull]; exact hc)]
        cases c
        · simp only [Bool.false_eq_true, if_false]; rw [valAt_ext e0 hold, hvo, hlo]; omega
        · simp only [if_true]; rw [val_pad, hvn, length_padTo, hln]; omega
      · simp only
        have e0 := Ext.push X.core.nodes (.pad inn s.width pi)
        rw [val_mux2 _ _ _ _ c (by rw [valAt_ext e0 hfull]; exact hc)]
        cases c
        · simp only [Bool.false_eq_true, if_false]; rw [valAt_ext e0 hold, hvo]
        · simp only [if_true]; rw [val_pad, hvn, hpi, ival_padTo _ _ _ (fun _ => hvne)]
    · by_cases hgtw : wi > s.width
      · -- wider value: the old one is padded with the variable's policy
        simp only [hlt, hgtw, if_true, if_false, Option.some.injEq] at h
        subst h
        refine ⟨{ s with width := max wi s.width, driver := (X.core.nodes.push (.pad s.driver wi s.kind.pol)).size }, by simp [List.getElem?_set, hxl, Array.size_push], rfl, rfl, ?_, ?_⟩
        · simp only
          have e0 := Ext.push X.core.nodes (.pad s.driver wi s.kind.pol)
          rw [val_mux2 _ _ _ _ c (by rw [valAt_ext e0 hfull]; exact hc)]
          cases c
          · simp only [Bool.false_eq_true, if_false]; rw [val_pad, hvo, length_padTo, hlo] <;> try omega
          · simp only [if_true]; rw [valAt_ext e0 hinn, hvn, hln]; omega
        · simp only
          have e0 := Ext.push X.core.nodes (.pad s.driver wi s.kind.pol)
          rw [val_mux2 _ _ _ _ c (by rw [valAt_ext e0 hfull]; exact hc)]
          cases c
          · simp only [Bool.false_eq_true, if_false]; rw [val_pad, hvo, ival_padTo _ _ _ (fun _ => hone)]
          · simp only [if_true]; rw [valAt_ext e0 hinn, hvn]
      · -- equal width
        have heq : wi = s.width := by omega
        simp only [hlt, hgtw, if_false, Option.some.injEq] at h
        subst h
        refine ⟨{ s with width := max wi s.width, driver := X.core.nodes.size }, by simp [List.getElem?_set, hxl], rfl, rfl, ?_, ?_⟩
        · simp only
          rw [val_mux2 _ _ _ _ c hc]
          cases c
          · simp only [Bool.false_eq_true, if_false]; rw [hvo, hlo]; omega
          · simp only [if_true]; rw [hvn, hln]; omega
        · simp only
          rw [val_mux2 _ _ _ _ c hc]
          cases c
          · simp only [Bool.false_eq_true, if_false]; rw [hvo]
          · simp only [if_true]; rw [hvn]

end Gatery.C05
